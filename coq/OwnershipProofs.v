(* OwnershipProofs.v — proofs about the ownership model (C05).
   Main invariant, for EVERY history:   held ++ dead  is a permutation of  0 .. next-1,
   i.e. every token ever issued is either held by exactly one container position or was
   destructed exactly once; nothing else is held or destructed. *)
From Coq Require Import List Arith Bool ZArith Lia Permutation.
From CelloV Require Import Ownership.
Import ListNotations.

Local Open Scope nat_scope.

(* ------------------------------------------------------------------ basic list facts *)
Lemma toks_app a b : toks (a ++ b) = toks a ++ toks b.
Proof. unfold toks. apply flat_map_app. Qed.

Lemma ptoks_app a b : ptoks (a ++ b) = ptoks a ++ ptoks b.
Proof. unfold ptoks. apply flat_map_app. Qed.

Lemma tokvs_app a b : tokvs (a ++ b) = tokvs a ++ tokvs b.
Proof. unfold tokvs. apply flat_map_app. Qed.

Lemma fst_tokv_of x : map fst (tokv_of x) = tok_of x.
Proof. unfold tokv_of, tok_of. destruct (ctok x); reflexivity. Qed.

Lemma fst_tokvs l : map fst (tokvs l) = toks l.
Proof.
  induction l as [|x l IH]; [reflexivity|].
  change (tokvs (x :: l)) with (tokv_of x ++ tokvs l).
  change (toks (x :: l)) with (tok_of x ++ toks l).
  rewrite map_app, fst_tokv_of, IH. reflexivity.
Qed.

Lemma fst_ptokvs l : map fst (ptokvs l) = ptoks l.
Proof.
  induction l as [|[a b] l IH]; [reflexivity|].
  change (ptokvs ((a, b) :: l)) with ((tokv_of a ++ tokv_of b) ++ ptokvs l).
  change (ptoks ((a, b) :: l)) with ((tok_of a ++ tok_of b) ++ ptoks l).
  rewrite !map_app, !fst_tokv_of, IH. reflexivity.
Qed.

Lemma fst_cont_tokvs c : map fst (cont_tokvs c) = cont_toks c.
Proof.
  destruct c as [k l|k l|[x|]]; simpl.
  - apply fst_tokvs.
  - apply fst_ptokvs.
  - apply fst_tokv_of.
  - reflexivity.
Qed.

Lemma toks_fresh_cells nx vs : toks (fresh_cells nx vs) = seq nx (length vs).
Proof.
  revert nx. induction vs as [|v vs IH]; intros nx; [reflexivity|].
  simpl. change (toks (fresh nx v :: fresh_cells (S nx) vs)) with (nx :: toks (fresh_cells (S nx) vs)).
  rewrite IH. reflexivity.
Qed.

Lemma firstn_skipn_toks i (l : list cell) : toks l = toks (firstn i l) ++ toks (skipn i l).
Proof. rewrite <- toks_app, firstn_skipn. reflexivity. Qed.

Lemma nth_error_split_cell (l : list cell) i x :
  nth_error l i = Some x -> l = firstn i l ++ x :: skipn (S i) l.
Proof.
  revert i. induction l as [|y l IH]; intros [|i] H; simpl in *; try discriminate.
  - congruence.
  - f_equal. apply IH. exact H.
Qed.

Lemma nth_error_split_pair (l : list (cell * cell)) i x :
  nth_error l i = Some x -> l = firstn i l ++ x :: skipn (S i) l.
Proof.
  revert i. induction l as [|y l IH]; intros [|i] H; simpl in *; try discriminate.
  - congruence.
  - f_equal. apply IH. exact H.
Qed.

Local Arguments skipn : simpl never.
Local Arguments firstn : simpl never.

(* ------------------------------------------------------------------ permutations by counting *)
Ltac pc_cons :=
  repeat match goal with
  | |- context [?a :: ?l] => lazymatch l with nil => fail | _ => change (a :: l) with ([a] ++ l) end
  | H : context [?a :: ?l] |- _ => lazymatch l with nil => fail | _ => change (a :: l) with ([a] ++ l) in H end
  end.
Ltac perm_hyps x :=
  repeat match goal with
  | H : Permutation ?a ?b |- _ =>
      let H' := fresh "Hc" in pose proof (proj1 (Permutation_count_occ Nat.eq_dec a b) H x) as H'; clear H
  | H : @eq (list nat) _ _ |- _ => apply (f_equal (fun l => count_occ Nat.eq_dec l x)) in H; cbv beta in H
  end.
Ltac perm_solve :=
  pc_cons; apply (proj2 (Permutation_count_occ Nat.eq_dec _ _));
  let x := fresh "x" in intros x; perm_hyps x; repeat rewrite count_occ_app in *; simpl count_occ in *; lia.

(* ------------------------------------------------------------------ accounting equation *)
(* a container-level result is BALANCED w.r.t. the old token list when
   new tokens ++ killed  is a permutation of  old tokens ++ freshly issued *)
Definition balanced (old : list nat) (new : list nat) (kill : list (nat * Z)) (nx nx' : nat) : Prop :=
  nx <= nx' /\ Permutation (new ++ map fst kill) (old ++ seq nx (nx' - nx)).

Lemma balanced_keep old nx : balanced old old [] nx nx.
Proof. split; [lia|]. rewrite Nat.sub_diag. simpl. perm_solve. Qed.

Lemma seq_S_sub nx : seq nx (S nx - nx) = [nx].
Proof. replace (S nx - nx) with 1 by lia. reflexivity. Qed.

Lemma seq_SS_sub nx : seq nx (S (S nx) - nx) = [nx] ++ [S nx].
Proof. replace (S (S nx) - nx) with 2 by lia. reflexivity. Qed.

Lemma seq_add_sub nx n : seq nx (nx + n - nx) = seq nx n.
Proof. f_equal. lia. Qed.

Lemma toks_cons x l : toks (x :: l) = tok_of x ++ toks l.
Proof. reflexivity. Qed.

Lemma tok_of_fresh nx v : tok_of (fresh nx v) = [nx].
Proof. reflexivity. Qed.

Lemma s_push_bal l v nx :
  let r := s_push l v nx in balanced (toks l) (toks (r_val r)) (r_kill r) nx (r_next r).
Proof.
  simpl. split; [lia|]. rewrite seq_S_sub, toks_app, toks_cons, tok_of_fresh. simpl. perm_solve.
Qed.

Lemma removelast_rev (l : list cell) x r : rev l = x :: r -> l = removelast l ++ [x].
Proof.
  intros H. assert (l = rev r ++ [x]) as ->.
  { rewrite <- (rev_involutive l), H. reflexivity. }
  rewrite removelast_last. reflexivity.
Qed.

Lemma s_pop_bal l nx :
  let r := s_pop l nx in balanced (toks l) (toks (r_val r)) (r_kill r) nx (r_next r).
Proof.
  unfold s_pop. destruct (rev l) as [|x r] eqn:E; simpl.
  - apply balanced_keep.
  - split; [lia|]. rewrite Nat.sub_diag, fst_tokv_of.
    pose proof (f_equal toks (removelast_rev l x r E)) as Hl. rewrite toks_app, toks_cons in Hl.
    simpl in Hl. simpl. perm_solve.
Qed.

Lemma s_push_at_bal k l i v nx :
  let r := s_push_at k l i v nx in balanced (toks l) (toks (r_val r)) (r_kill r) nx (r_next r).
Proof.
  unfold s_push_at.
  destruct (match k with KList => (i =? 0) || (i <? length l) | _ => i <=? length l end); simpl; [|apply balanced_keep].
  split; [lia|]. rewrite seq_S_sub, toks_app, toks_cons, tok_of_fresh.
  pose proof (firstn_skipn_toks i l) as Hfs. simpl. perm_solve.
Qed.

Lemma s_pop_at_bal l i nx :
  let r := s_pop_at l i nx in balanced (toks l) (toks (r_val r)) (r_kill r) nx (r_next r).
Proof.
  unfold s_pop_at. destruct (nth_error l i) as [x|] eqn:E; simpl; [|apply balanced_keep].
  split; [lia|]. rewrite Nat.sub_diag, fst_tokv_of.
  pose proof (f_equal toks (nth_error_split_cell l i x E)) as Hl. rewrite toks_app, toks_cons in Hl.
  rewrite toks_app. simpl. perm_solve.
Qed.

Lemma s_set_bal l i v nx :
  let r := s_set l i v nx in balanced (toks l) (toks (r_val r)) (r_kill r) nx (r_next r).
Proof.
  unfold s_set. destruct (nth_error l i) as [x|] eqn:E; simpl; [|apply balanced_keep].
  pose proof (f_equal toks (nth_error_split_cell l i x E)) as Hl. rewrite toks_app, toks_cons in Hl.
  destruct (ctok x) as [t|] eqn:Et; simpl.
  - split; [lia|]. rewrite Nat.sub_diag. rewrite toks_app, toks_cons.
    unfold tok_of in *. rewrite Et in Hl. simpl. perm_solve.
  - split; [lia|]. rewrite seq_S_sub. rewrite toks_app, toks_cons, tok_of_fresh.
    unfold tok_of in Hl. rewrite Et in Hl. simpl. perm_solve.
Qed.

Lemma s_rem_bal l v nx :
  let r := s_rem l v nx in balanced (toks l) (toks (r_val r)) (r_kill r) nx (r_next r).
Proof.
  unfold s_rem. destruct (find_val l v); [apply s_pop_at_bal|apply balanced_keep].
Qed.

Lemma s_concat_bal l vs nx :
  let r := s_concat l vs nx in balanced (toks l) (toks (r_val r)) (r_kill r) nx (r_next r).
Proof.
  simpl. split; [lia|]. rewrite seq_add_sub, toks_app, toks_fresh_cells. simpl. perm_solve.
Qed.

Lemma toks_repeat_zero n : toks (repeat (mkcell None 0%Z) n) = [].
Proof. induction n as [|n IH]; [reflexivity|]. simpl. exact IH. Qed.

Lemma s_resize_bal k l n nx :
  let r := s_resize k l n nx in balanced (toks l) (toks (r_val r)) (r_kill r) nx (r_next r).
Proof.
  unfold s_resize. destruct (n <? length l); simpl.
  - split; [lia|]. rewrite Nat.sub_diag, fst_tokvs. pose proof (firstn_skipn_toks n l) as Hfs. simpl. perm_solve.
  - destruct k; try apply balanced_keep.
    destruct (n =? 0); [apply balanced_keep|].
    unfold keep; simpl. split; [lia|]. rewrite Nat.sub_diag, toks_app, toks_repeat_zero. simpl. perm_solve.
Qed.

Lemma ins_cell_perm x l : Permutation (ins_cell x l) (x :: l).
Proof.
  induction l as [|y l IH]; simpl; [apply Permutation_refl|].
  destruct (Z.leb (cval x) (cval y)); [apply Permutation_refl|].
  eapply Permutation_trans; [apply perm_skip; exact IH|apply perm_swap].
Qed.

Lemma s_sort_perm l : Permutation (s_sort l) l.
Proof.
  induction l as [|x l IH]; simpl; [apply Permutation_refl|].
  eapply Permutation_trans; [apply ins_cell_perm|apply perm_skip; exact IH].
Qed.

Lemma toks_perm a b : Permutation a b -> Permutation (toks a) (toks b).
Proof.
  intros H. induction H as [|x a b H IH|x y a|a b c H1 IH1 H2 IH2].
  - apply Permutation_refl.
  - rewrite !toks_cons. apply Permutation_app_head. exact IH.
  - rewrite !toks_cons. perm_solve.
  - eapply Permutation_trans; eassumption.
Qed.

Lemma s_sort_bal l nx :
  let r := keep (s_sort l) nx in balanced (toks l) (toks (r_val r)) (r_kill r) nx (r_next r).
Proof.
  simpl. split; [lia|]. rewrite Nat.sub_diag. simpl. rewrite !app_nil_r. apply toks_perm, s_sort_perm.
Qed.

Lemma s_assign_bal l vs nx :
  let r := s_assign l vs nx in balanced (toks l) (toks (r_val r)) (r_kill r) nx (r_next r).
Proof.
  simpl. split; [lia|]. rewrite seq_add_sub, fst_tokvs, toks_fresh_cells. perm_solve.
Qed.

(* ------------------------------------------------------------------ maps *)
Lemma ptoks_cons a b l : ptoks ((a, b) :: l) = tok_of a ++ tok_of b ++ ptoks l.
Proof. unfold ptoks. simpl. rewrite <- app_assoc. reflexivity. Qed.

Lemma m_set_bal kd l k v nx :
  let r := m_set kd l k v nx in balanced (ptoks l) (ptoks (r_val r)) (r_kill r) nx (r_next r).
Proof.
  unfold m_set. destruct (m_find l k) as [i|]; simpl.
  - destruct (nth_error l i) as [[a b]|] eqn:E; [|apply balanced_keep].
    pose proof (f_equal ptoks (nth_error_split_pair l i (a, b) E)) as Hl. rewrite ptoks_app, ptoks_cons in Hl.
    destruct kd; simpl.
    1-3: split; [lia|]; rewrite seq_SS_sub, map_app, !fst_tokv_of;
         rewrite ptoks_app, ptoks_cons, !tok_of_fresh; simpl; perm_solve.
    split; [lia|]. rewrite Nat.sub_diag. rewrite ptoks_app, ptoks_cons.
    change (tok_of {| ctok := ctok a; cval := k |}) with (tok_of a).
    change (tok_of {| ctok := ctok b; cval := v |}) with (tok_of b). simpl. perm_solve.
  - split; [lia|]. rewrite seq_SS_sub, ptoks_app, ptoks_cons, !tok_of_fresh. simpl. perm_solve.
Qed.

Lemma m_rem_bal l k nx :
  let r := m_rem l k nx in balanced (ptoks l) (ptoks (r_val r)) (r_kill r) nx (r_next r).
Proof.
  unfold m_rem. destruct (m_find l k) as [i|]; [|apply balanced_keep].
  destruct (nth_error l i) as [[a b]|] eqn:E; [|apply balanced_keep]. simpl.
  pose proof (f_equal ptoks (nth_error_split_pair l i (a, b) E)) as Hl. rewrite ptoks_app, ptoks_cons in Hl.
  split; [lia|]. rewrite Nat.sub_diag, map_app, !fst_tokv_of. rewrite ptoks_app. simpl. perm_solve.
Qed.

Lemma balanced_trans old mid new k1 k2 n1 n2 n3 :
  balanced old mid k1 n1 n2 -> balanced mid new k2 n2 n3 -> balanced old new (k1 ++ k2) n1 n3.
Proof.
  intros [H1 P1] [H2 P2]. split; [lia|].
  rewrite map_app.
  replace (n3 - n1) with ((n2 - n1) + (n3 - n2)) by lia.
  rewrite seq_app. replace (n1 + (n2 - n1)) with n2 by lia.
  perm_solve.
Qed.

Lemma m_set_all_bal kd kvs : forall l nx kill,
  let r := m_set_all kd l kvs nx kill in
  exists k2, r_kill r = kill ++ k2 /\ r_zkill r = 0 /\ balanced (ptoks l) (ptoks (r_val r)) k2 nx (r_next r).
Proof.
  induction kvs as [|[k v] kvs IH]; intros l nx kill; simpl.
  - exists []. rewrite app_nil_r. split; [reflexivity|]. split; [reflexivity|]. apply balanced_keep.
  - destruct (IH (r_val (m_set kd l k v nx)) (r_next (m_set kd l k v nx)) (kill ++ r_kill (m_set kd l k v nx)))
      as [k2 [Hk [Hz Hb]]].
    exists (r_kill (m_set kd l k v nx) ++ k2). rewrite Hk, app_assoc. split; [reflexivity|].
    split; [exact Hz|]. eapply balanced_trans; [apply m_set_bal|exact Hb].
Qed.

Lemma m_assign_bal kd l kvs nx :
  let r := m_assign kd l kvs nx in balanced (ptoks l) (ptoks (r_val r)) (r_kill r) nx (r_next r).
Proof.
  unfold m_assign. destruct (m_set_all_bal kd kvs [] nx (ptokvs l)) as [k2 [Hk [_ Hb]]].
  simpl in *. rewrite Hk. destruct Hb as [Hle Hp]. split; [exact Hle|].
  rewrite map_app, fst_ptokvs. simpl in Hp. perm_solve.
Qed.

(* ------------------------------------------------------------------ worlds *)
Definition otoks (oc : option cont) : list nat := match oc with Some c => cont_toks c | None => [] end.

Lemma held_app a b : held (a ++ b) = held a ++ held b.
Proof. unfold held. apply flat_map_app. Qed.

Lemma held_cons x cs : held (x :: cs) = otoks x ++ held cs.
Proof. reflexivity. Qed.

Lemma held_upd cs c x old :
  nth_error cs c = Some old ->
  Permutation (held (upd cs c x) ++ otoks old) (held cs ++ otoks x).
Proof.
  revert c. induction cs as [|y cs IH]; intros [|c] H; simpl in *; try discriminate.
  - injection H as ->. fold (otoks x). fold (otoks old). perm_solve.
  - fold (otoks y). specialize (IH c H). perm_solve.
Qed.

Definition Inv (w : world) : Prop :=
  Permutation (held (conts w) ++ map fst (dead w)) (seq 0 (next w)).

Lemma getc_nth w c x : getc w c = Some x -> nth_error (conts w) c = Some (Some x).
Proof.
  unfold getc. destruct (nth_error (conts w) c) as [[y|]|]; intros H; try discriminate. congruence.
Qed.

Lemma seq_split n n' : n <= n' -> seq 0 n' = seq 0 n ++ seq n (n' - n).
Proof. intros H. rewrite <- seq_app. f_equal. lia. Qed.

(* replacing container c (old tokens `old`) by one with tokens `new`, balanced *)
Lemma inv_put w c (xold xnew : cont) kill nx' zk :
  Inv w -> getc w c = Some xold ->
  balanced (cont_toks xold) (cont_toks xnew) kill (next w) nx' ->
  Inv (mkW (upd (conts w) c (Some xnew)) nx' (dead w ++ kill) zk).
Proof.
  unfold Inv. intros HI Hg [Hle Hp]. simpl.
  pose proof (held_upd (conts w) c (Some xnew) (Some xold) (getc_nth _ _ _ Hg)) as Hu. simpl in Hu.
  rewrite map_app, (seq_split (next w) nx' Hle). perm_solve.
Qed.

Lemma inv_append w (xnew : cont) kill nx' zk :
  Inv w -> balanced [] (cont_toks xnew) kill (next w) nx' ->
  Inv (mkW (conts w ++ [Some xnew]) nx' (dead w ++ kill) zk).
Proof.
  unfold Inv. intros HI [Hle Hp]. simpl in *.
  rewrite held_app, map_app, (seq_split (next w) nx' Hle). unfold held at 2. simpl. rewrite app_nil_r. perm_solve.
Qed.

Lemma inv_del w c x :
  Inv w -> getc w c = Some x ->
  Inv (mkW (upd (conts w) c None) (next w) (dead w ++ cont_tokvs x) (zdead w + cont_zeros x)).
Proof.
  unfold Inv. intros HI Hg. simpl.
  pose proof (held_upd (conts w) c None (Some x) (getc_nth _ _ _ Hg)) as Hu. simpl in Hu.
  rewrite map_app, fst_cont_tokvs. perm_solve.
Qed.

Lemma bal_fresh_cells nx vs : balanced [] (toks (fresh_cells nx vs)) [] nx (nx + length vs).
Proof. split; [lia|]. rewrite seq_add_sub, toks_fresh_cells. simpl. perm_solve. Qed.

Lemma world_eta w : w = mkW (conts w) (next w) (dead w) (zdead w).
Proof. destruct w; reflexivity. Qed.

Lemma inv_put_seq w c k k' l (r : res (list cell)) :
  Inv w -> getc w c = Some (CSeq k' l) ->
  balanced (toks l) (toks (r_val r)) (r_kill r) (next w) (r_next r) ->
  Inv (put_seq w c k r).
Proof. intros HI Hg Hb. unfold put_seq. eapply inv_put; eauto. Qed.

Lemma inv_put_map w c k k' l (r : res (list (cell * cell))) :
  Inv w -> getc w c = Some (CMap k' l) ->
  balanced (ptoks l) (ptoks (r_val r)) (r_kill r) (next w) (r_next r) ->
  Inv (put_map w c k r).
Proof. intros HI Hg Hb. unfold put_map. eapply inv_put; eauto. Qed.

Lemma inv_init : Inv w_init.
Proof. unfold Inv. simpl. apply Permutation_refl. Qed.

Lemma step_inv w o : Inv w -> Inv (step w o).
Proof.
  intros HI. destruct o as [k vs|k kvs|v|c v|c|c i v|c i|c i v|c v|c d|c n|c|c d|d|c|c k v|c k]; simpl.
  - (* ONewSeq *) destruct (is_seq_kind k); [|exact HI].
    replace (dead w) with (dead w ++ []) by apply app_nil_r.
    apply inv_append; [exact HI|]. apply bal_fresh_cells.
  - (* ONewMap *) destruct (is_seq_kind k); [exact HI|].
    destruct (m_set_all_bal k kvs [] (next w) []) as [k2 [Hk [_ Hb]]]. simpl in *.
    apply inv_append; [exact HI|]. rewrite Hk. exact Hb.
  - (* ONewBox *)
    replace (dead w) with (dead w ++ []) by apply app_nil_r.
    apply inv_append; [exact HI|]. split; [lia|]. simpl. rewrite seq_S_sub. apply Permutation_refl.
  - destruct (getc w c) as [[k l|k l|b]|] eqn:G; try exact HI.
    eapply inv_put_seq; eauto. apply s_push_bal.
  - destruct (getc w c) as [[k l|k l|b]|] eqn:G; try exact HI.
    eapply inv_put_seq; eauto. apply s_pop_bal.
  - destruct (getc w c) as [[k l|k l|b]|] eqn:G; try exact HI.
    eapply inv_put_seq; eauto. apply s_push_at_bal.
  - destruct (getc w c) as [[k l|k l|b]|] eqn:G; try exact HI.
    eapply inv_put_seq; eauto. apply s_pop_at_bal.
  - destruct (getc w c) as [[k l|k l|b]|] eqn:G; try exact HI.
    eapply inv_put_seq; eauto. apply s_set_bal.
  - destruct (getc w c) as [[k l|k l|b]|] eqn:G; try exact HI.
    eapply inv_put_seq; eauto. apply s_rem_bal.
  - (* OConcat *) destruct (c =? d); [exact HI|].
    destruct (getc w c) as [[k l|k l|b]|] eqn:G; try exact HI.
    destruct (getc w d) as [[k' l'|k' l'|b']|] eqn:G'; try exact HI.
    eapply inv_put_seq; eauto. apply s_concat_bal.
  - (* OResize *) destruct (getc w c) as [[k l|k l|b]|] eqn:G; try exact HI.
    + eapply inv_put_seq; eauto. apply s_resize_bal.
    + destruct (n =? 0); [|exact HI]. eapply inv_put_map; eauto. simpl.
      split; [lia|]. rewrite Nat.sub_diag, fst_ptokvs. simpl. perm_solve.
  - (* OSort *) destruct (getc w c) as [[k l|k l|b]|] eqn:G; try exact HI.
    destruct k; try exact HI. eapply inv_put_seq; eauto. apply s_sort_bal.
  - (* OAssign *) destruct (c =? d); [exact HI|].
    destruct (getc w c) as [[k l|k l|b]|] eqn:G; try exact HI.
    + destruct (getc w d) as [[k' l'|k' l'|b']|] eqn:G'; try exact HI.
      eapply inv_put_seq; eauto. apply s_assign_bal.
    + destruct (getc w d) as [[k' l'|k' l'|b']|] eqn:G'; try exact HI.
      eapply inv_put_map; eauto. apply m_assign_bal.
  - (* OCopy *) destruct (getc w d) as [[k l|k l|b]|] eqn:G; try exact HI.
    + replace (dead w) with (dead w ++ []) by apply app_nil_r.
      apply inv_append; [exact HI|]. apply bal_fresh_cells.
    + destruct (m_set_all_bal k (pvals l) [] (next w) []) as [k2 [Hk [_ Hb]]]. simpl in *.
      apply inv_append; [exact HI|]. rewrite Hk. exact Hb.
  - (* ODel *) destruct (getc w c) as [x|] eqn:G; [|exact HI]. apply inv_del; assumption.
  - destruct (getc w c) as [[kd l|kd l|b]|] eqn:G; try exact HI.
    eapply inv_put_map; eauto. apply m_set_bal.
  - destruct (getc w c) as [[kd l|kd l|b]|] eqn:G; try exact HI.
    eapply inv_put_map; eauto. apply m_rem_bal.
Qed.

Theorem run_inv ops : Inv (run ops).
Proof.
  unfold run. generalize inv_init. generalize w_init.
  induction ops as [|o ops IH]; intros w HI; simpl; [exact HI|].
  apply IH. apply step_inv. exact HI.
Qed.

(* ------------------------------------------------------------------ consequences *)
Lemma NoDup_app_parts {A} (a b : list A) :
  NoDup (a ++ b) -> NoDup a /\ NoDup b /\ (forall x, In x a -> ~ In x b).
Proof.
  induction a as [|y a IH]; simpl; intros H.
  - split; [constructor|]. split; [exact H|]. intros x [].
  - inversion H as [|? ? Hn H']; subst. destruct (IH H') as [Ha [Hb Hd]].
    split.
    { constructor; [|exact Ha]. intros Hin. apply Hn. apply in_or_app. left. exact Hin. }
    split; [exact Hb|].
    intros x [->|Hx]; [intros Hin; apply Hn; apply in_or_app; right; exact Hin|apply Hd; exact Hx].
Qed.

Theorem ownership_exactly_once ops :
  let w := run ops in
  NoDup (held (conts w)) /\                                   (* no element is held twice (deep copies, no duplication) *)
  NoDup (map fst (dead w)) /\                                 (* no element is destructed twice *)
  (forall t, In t (held (conts w)) -> ~ In t (map fst (dead w))) /\   (* never destructed while contained *)
  (forall t, In t (map fst (dead w)) -> t < next w) /\        (* only issued tokens are destructed *)
  (forall t, t < next w -> In t (held (conts w)) \/ In t (map fst (dead w))) /\   (* nothing is dropped *)
  length (held (conts w)) + length (dead w) = next w.          (* live = issued - destructed = held *)
Proof.
  intros w. pose proof (run_inv ops) as HI. fold w in HI. unfold Inv in HI.
  assert (ND : NoDup (held (conts w) ++ map fst (dead w))).
  { eapply Permutation_NoDup; [apply Permutation_sym; exact HI|apply seq_NoDup]. }
  destruct (NoDup_app_parts _ _ ND) as [NDa [NDb Hdisj]].
  split; [exact NDa|]. split; [exact NDb|]. split; [exact Hdisj|].
  split.
  { intros t Hd. assert (In t (seq 0 (next w))) as Hs.
    { eapply Permutation_in; [exact HI|apply in_or_app; right; exact Hd]. }
    apply in_seq in Hs. lia. }
  split.
  { intros t Ht. assert (In t (held (conts w) ++ map fst (dead w))) as Hs.
    { eapply Permutation_in; [apply Permutation_sym; exact HI|apply in_seq; lia]. }
    apply in_app_or in Hs. exact Hs. }
  apply Permutation_length in HI. rewrite app_length, map_length, seq_length in HI. exact HI.
Qed.

(* live elements = sum of the container lengths (zero-filled elements counted apart) *)
Lemma toks_zeros l : length (toks l) + zeros l = length l.
Proof.
  induction l as [|x l IH]; [reflexivity|].
  change (toks (x :: l)) with (tok_of x ++ toks l). rewrite app_length.
  unfold zeros in *. simpl. unfold tok_of. destruct (ctok x); simpl; lia.
Qed.

Lemma ptoks_len l : (forall a b, In (a, b) l -> ctok a <> None /\ ctok b <> None) -> length (ptoks l) = 2 * length l.
Proof.
  induction l as [|[a b] l IH]; intros H; [reflexivity|].
  rewrite ptoks_cons, !app_length, IH.
  - destruct (H a b (or_introl eq_refl)) as [Ha Hb]. unfold tok_of.
    destruct (ctok a); [|congruence]. destruct (ctok b); [|congruence]. simpl. lia.
  - intros a' b' Hin. apply H. right. exact Hin.
Qed.

(* frame property: an operation changes only its target container *)
Lemma upd_other {A} (l : list A) i j x : i <> j -> nth_error (upd l i x) j = nth_error l j.
Proof.
  revert i j. induction l as [|y l IH]; intros [|i] [|j] H; simpl; try reflexivity; try congruence.
  apply IH. congruence.
Qed.

Lemma nth_error_app_old {A} (l : list A) x j : j < length l -> nth_error (l ++ [x]) j = nth_error l j.
Proof. intros H. apply nth_error_app1. exact H. Qed.

Theorem step_frame w o j :
  j < length (conts w) -> target o <> Some j -> nth_error (conts (step w o)) j = nth_error (conts w) j.
Proof.
  intros Hj Ht.
  destruct o as [k vs|k kvs|v|c v|c|c i v|c i|c i v|c v|c d|c n|c|c d|d|c|c k v|c k]; simpl in *.
  - destruct (is_seq_kind k); [apply nth_error_app_old; exact Hj|reflexivity].
  - destruct (is_seq_kind k); [reflexivity|apply nth_error_app_old; exact Hj].
  - apply nth_error_app_old; exact Hj.
  - destruct (getc w c) as [[k l|k l|b]|]; try reflexivity. simpl. apply upd_other. congruence.
  - destruct (getc w c) as [[k l|k l|b]|]; try reflexivity. simpl. apply upd_other. congruence.
  - destruct (getc w c) as [[k l|k l|b]|]; try reflexivity. simpl. apply upd_other. congruence.
  - destruct (getc w c) as [[k l|k l|b]|]; try reflexivity. simpl. apply upd_other. congruence.
  - destruct (getc w c) as [[k l|k l|b]|]; try reflexivity. simpl. apply upd_other. congruence.
  - destruct (getc w c) as [[k l|k l|b]|]; try reflexivity. simpl. apply upd_other. congruence.
  - destruct (c =? d); [reflexivity|].
    destruct (getc w c) as [[k l|k l|b]|]; try reflexivity.
    destruct (getc w d) as [[k' l'|k' l'|b']|]; try reflexivity. simpl. apply upd_other. congruence.
  - destruct (getc w c) as [[k l|k l|b]|]; try reflexivity.
    + simpl. apply upd_other. congruence.
    + destruct (n =? 0); [|reflexivity]. simpl. apply upd_other. congruence.
  - destruct (getc w c) as [[k l|k l|b]|]; try reflexivity. destruct k; try reflexivity.
    simpl. apply upd_other. congruence.
  - destruct (c =? d); [reflexivity|].
    destruct (getc w c) as [[k l|k l|b]|]; try reflexivity.
    + destruct (getc w d) as [[k' l'|k' l'|b']|]; try reflexivity. simpl. apply upd_other. congruence.
    + destruct (getc w d) as [[k' l'|k' l'|b']|]; try reflexivity. simpl. apply upd_other. congruence.
  - destruct (getc w d) as [[k l|k l|b]|]; try reflexivity; simpl; apply nth_error_app_old; exact Hj.
  - destruct (getc w c) as [x|]; [|reflexivity]. simpl. apply upd_other. congruence.
  - destruct (getc w c) as [[kd l|kd l|b]|]; try reflexivity. simpl. apply upd_other. congruence.
  - destruct (getc w c) as [[kd l|kd l|b]|]; try reflexivity. simpl. apply upd_other. congruence.
Qed.

(* ------------------------------------------------------------------ live elements = sum of lengths *)
Local Arguments skipn : simpl nomatch.
Local Arguments firstn : simpl nomatch.
Definition has_tok (c : cell) : Prop := ctok c <> None.
Definition wf_pairs (l : list (cell * cell)) : Prop := Forall (fun kv => has_tok (fst kv) /\ has_tok (snd kv)) l.
Definition wf_cont (c : cont) : Prop :=
  match c with
  | CSeq _ _ => True
  | CMap _ l => wf_pairs l
  | CBox (Some x) => has_tok x
  | CBox None => True
  end.
Definition wf_ocont (oc : option cont) : Prop := match oc with Some c => wf_cont c | None => True end.
Definition WF (w : world) : Prop := Forall wf_ocont (conts w).

Lemma has_tok_fresh nx v : has_tok (fresh nx v).
Proof. unfold has_tok. simpl. discriminate. Qed.

Lemma wf_pairs_app a b : wf_pairs a -> wf_pairs b -> wf_pairs (a ++ b).
Proof. unfold wf_pairs. intros Ha Hb. apply Forall_app. split; assumption. Qed.

Lemma wf_pairs_firstn i l : wf_pairs l -> wf_pairs (firstn i l).
Proof. unfold wf_pairs. revert l. induction i as [|i IH]; intros [|x l] H; simpl; try constructor;
  inversion H; subst; auto. Qed.

Lemma wf_pairs_skipn i l : wf_pairs l -> wf_pairs (skipn i l).
Proof. unfold wf_pairs. revert l. induction i as [|i IH]; intros [|x l] H; simpl; auto.
  inversion H; subst; auto. Qed.

Lemma wf_pairs_nth l i a b : wf_pairs l -> nth_error l i = Some (a, b) -> has_tok a /\ has_tok b.
Proof.
  unfold wf_pairs. intros H E. apply nth_error_In in E.
  rewrite Forall_forall in H. exact (H _ E).
Qed.

Lemma m_set_wf kd l k v nx : wf_pairs l -> wf_pairs (r_val (m_set kd l k v nx)).
Proof.
  intros H. unfold m_set. destruct (m_find l k) as [i|]; simpl.
  - destruct (nth_error l i) as [[a b]|] eqn:E; [|exact H].
    destruct (wf_pairs_nth l i a b H E) as [Ha Hb].
    destruct kd; simpl; (apply wf_pairs_app; [apply wf_pairs_firstn; exact H|]);
      (constructor; [|apply wf_pairs_skipn; exact H]); simpl; split;
      try apply has_tok_fresh; assumption.
  - apply wf_pairs_app; [exact H|]. constructor; [|constructor]. simpl. split; apply has_tok_fresh.
Qed.

Lemma m_rem_wf l k nx : wf_pairs l -> wf_pairs (r_val (m_rem l k nx)).
Proof.
  intros H. unfold m_rem. destruct (m_find l k) as [i|]; [|exact H].
  destruct (nth_error l i) as [[a b]|]; [|exact H]. simpl.
  apply wf_pairs_app; [apply wf_pairs_firstn|apply wf_pairs_skipn]; exact H.
Qed.

Lemma m_set_all_wf kd kvs : forall l nx kill, wf_pairs l -> wf_pairs (r_val (m_set_all kd l kvs nx kill)).
Proof.
  induction kvs as [|[k v] kvs IH]; intros l nx kill H; simpl; [exact H|].
  apply IH. apply m_set_wf. exact H.
Qed.

Lemma Forall_upd {A} (P : A -> Prop) l i x : Forall P l -> P x -> Forall P (upd l i x).
Proof.
  revert i. induction l as [|y l IH]; intros [|i] H Hx; simpl; auto; inversion H; subst; constructor; auto.
Qed.

Lemma WF_getc w c x : WF w -> getc w c = Some x -> wf_cont x.
Proof.
  unfold WF. intros H G. apply getc_nth in G. apply nth_error_In in G.
  rewrite Forall_forall in H. exact (H _ G).
Qed.

Lemma step_wf w o : WF w -> WF (step w o).
Proof.
  intros HW. unfold WF in *.
  destruct o as [k vs|k kvs|v|c v|c|c i v|c i|c i v|c v|c d|c n|c|c d|d|c|c k v|c k]; simpl.
  - destruct (is_seq_kind k); [|exact HW]. simpl. apply Forall_app. split; [exact HW|]. constructor; [exact I|constructor].
  - destruct (is_seq_kind k); [exact HW|]. simpl. apply Forall_app. split; [exact HW|].
    constructor; [|constructor]. simpl. apply m_set_all_wf. constructor.
  - apply Forall_app. split; [exact HW|]. constructor; [|constructor]. simpl. apply has_tok_fresh.
  - destruct (getc w c) as [[k l|k l|b]|]; try exact HW. simpl. apply Forall_upd; [exact HW|exact I].
  - destruct (getc w c) as [[k l|k l|b]|]; try exact HW. simpl. apply Forall_upd; [exact HW|exact I].
  - destruct (getc w c) as [[k l|k l|b]|]; try exact HW. simpl. apply Forall_upd; [exact HW|exact I].
  - destruct (getc w c) as [[k l|k l|b]|]; try exact HW. simpl. apply Forall_upd; [exact HW|exact I].
  - destruct (getc w c) as [[k l|k l|b]|]; try exact HW. simpl. apply Forall_upd; [exact HW|exact I].
  - destruct (getc w c) as [[k l|k l|b]|]; try exact HW. simpl. apply Forall_upd; [exact HW|exact I].
  - destruct (c =? d); [exact HW|].
    destruct (getc w c) as [[k l|k l|b]|]; try exact HW.
    destruct (getc w d) as [[k' l'|k' l'|b']|]; try exact HW. simpl. apply Forall_upd; [exact HW|exact I].
  - destruct (getc w c) as [[k l|k l|b]|]; try exact HW.
    + simpl. apply Forall_upd; [exact HW|exact I].
    + destruct (n =? 0); [|exact HW]. simpl. apply Forall_upd; [exact HW|]. simpl. constructor.
  - destruct (getc w c) as [[k l|k l|b]|]; try exact HW. destruct k; try exact HW.
    simpl. apply Forall_upd; [exact HW|exact I].
  - destruct (c =? d); [exact HW|].
    destruct (getc w c) as [[k l|k l|b]|]; try exact HW.
    + destruct (getc w d) as [[k' l'|k' l'|b']|]; try exact HW. simpl. apply Forall_upd; [exact HW|exact I].
    + destruct (getc w d) as [[k' l'|k' l'|b']|]; try exact HW. simpl. apply Forall_upd; [exact HW|].
      simpl. unfold m_assign. apply m_set_all_wf. constructor.
  - destruct (getc w d) as [[k l|k l|b]|]; try exact HW; simpl; apply Forall_app; (split; [exact HW|]);
      (constructor; [|constructor]); simpl; [exact I|]. apply m_set_all_wf. constructor.
  - destruct (getc w c) as [x|]; [|exact HW]. simpl. apply Forall_upd; [exact HW|exact I].
  - destruct (getc w c) as [[kd l|kd l|b]|] eqn:G; try exact HW. simpl. apply Forall_upd; [exact HW|].
    simpl. apply m_set_wf. exact (WF_getc w c _ HW G).
  - destruct (getc w c) as [[kd l|kd l|b]|] eqn:G; try exact HW. simpl. apply Forall_upd; [exact HW|].
    simpl. apply m_rem_wf. exact (WF_getc w c _ HW G).
Qed.

Lemma run_wf ops : WF (run ops).
Proof.
  unfold run. assert (H : WF w_init) by constructor. revert H. generalize w_init.
  induction ops as [|o ops IH]; intros w H; simpl; [exact H|]. apply IH. apply step_wf. exact H.
Qed.

Lemma wf_pairs_len l : wf_pairs l -> length (ptoks l) = 2 * length l.
Proof.
  intros H. apply ptoks_len. intros a b Hin. unfold wf_pairs in H. rewrite Forall_forall in H.
  exact (H _ Hin).
Qed.

Lemma cont_count c : wf_cont c -> length (cont_toks c) + cont_zeros c = cont_len c.
Proof.
  destruct c as [k l|k l|[x|]]; simpl; intros H.
  - apply toks_zeros.
  - rewrite (wf_pairs_len l H). lia.
  - unfold tok_of. unfold has_tok in H. destruct (ctok x); [reflexivity|congruence].
  - reflexivity.
Qed.

Lemma held_count cs : Forall wf_ocont cs -> length (held cs) + total_zeros cs = total_len cs.
Proof.
  induction cs as [|[c|] cs IH]; intros H; [reflexivity| |]; inversion H; subst.
  - rewrite held_cons. simpl. rewrite app_length. pose proof (cont_count c H2). specialize (IH H3). lia.
  - rewrite held_cons. simpl. apply IH. assumption.
Qed.

(* at every moment the number of live elements equals the sum of the container lengths
   (keys and values both counted), zero-filled List elements counted apart *)
Theorem live_equals_lengths ops :
  let w := run ops in
  next w - length (dead w) = length (held (conts w)) /\
  length (held (conts w)) + total_zeros (conts w) = total_len (conts w).
Proof.
  intros w. split.
  - destruct (ownership_exactly_once ops) as [_ [_ [_ [_ [_ H]]]]]. fold w in H. lia.
  - apply held_count. exact (run_wf ops).
Qed.

(* copies are deep: the tokens of a fresh copy are disjoint from everything held before *)
Theorem copy_is_deep ops d :
  let w := run ops in let w' := step w (OCopy d) in
  forall t, In t (held (conts w)) -> In t (held (conts w')) /\
  (forall x, nth_error (conts w') (length (conts w)) = Some (Some x) -> ~ In t (cont_toks x)).
Proof.
  intros w w' t Ht.
  pose proof (ownership_exactly_once (ops ++ [OCopy d])) as H.
  unfold run in H. rewrite fold_left_app in H.
  change (fold_left step [OCopy d] (fold_left step ops w_init)) with w' in H. cbv zeta in H.
  destruct H as [ND _].
  assert (Hc : conts w' = conts w \/ exists x, conts w' = conts w ++ [Some x]).
  { unfold w'. simpl. destruct (getc w d) as [[k l|k l|b]|]; simpl; eauto. }
  destruct Hc as [Hc|[x Hc]].
  - rewrite Hc. split; [exact Ht|]. intros x Hn. exfalso.
    assert (length (conts w) < length (conts w)); [|lia]. apply nth_error_Some. congruence.
  - rewrite Hc in *. split; [rewrite held_app; apply in_or_app; left; exact Ht|].
    intros y Hn. rewrite nth_error_app2 in Hn by lia. rewrite Nat.sub_diag in Hn. simpl in Hn.
    injection Hn as <-. rewrite held_app in ND. destruct (NoDup_app_parts _ _ ND) as [_ [_ Hd]].
    intros Hin. apply (Hd t Ht). unfold held. simpl. rewrite app_nil_r. exact Hin.
Qed.

(* ---------------------------------------------------------------- signed indices *)
Lemma srun_is_run ss : exists ops, srun ss = run ops /\ length ops = length ss.
Proof.
  induction ss as [|s ss IH] using rev_ind.
  - exists []. split; reflexivity.
  - destruct IH as [ops [E L]]. exists (ops ++ [resolve (run ops) s]). split.
    + unfold srun, run in *. rewrite !fold_left_app. cbn [fold_left]. rewrite E. reflexivity.
    + rewrite !app_length, L. reflexivity.
Qed.

Lemma srun_transfer (P : world -> Prop) : (forall ops, P (run ops)) -> forall ss, P (srun ss).
Proof. intros H ss. destruct (srun_is_run ss) as [ops [-> _]]. apply H. Qed.

(* the normalisation is the C one: inside the accepted range it is n + i, and a refused index stays refused *)
Lemma norm_index_neg n i : (i < 0)%Z -> (0 <= Z.of_nat n + i)%Z -> Z.of_nat (norm_index n i) = (Z.of_nat n + i)%Z.
Proof.
  intros Hi Hn. unfold norm_index.
  destruct (Z.ltb_spec i 0); [|lia]. destruct (Z.ltb_spec (Z.of_nat n + i) 0); [lia|].
  rewrite Z2Nat.id; lia.
Qed.
Lemma norm_index_refused n i : (Z.of_nat n + i < 0)%Z -> (i < 0)%Z -> norm_index n i = S n.
Proof.
  intros Hn Hi. unfold norm_index.
  destruct (Z.ltb_spec i 0); [|lia]. destruct (Z.ltb_spec (Z.of_nat n + i) 0); [reflexivity|lia].
Qed.
Lemma norm_index_pos n i : (0 <= i <= Z.of_nat (S n))%Z -> Z.of_nat (norm_index n i) = i.
Proof.
  intros Hi. unfold norm_index. destruct (Z.ltb_spec i 0); [lia|].
  destruct (Z.ltb_spec (Z.of_nat (S n)) i); [lia|]. rewrite Z2Nat.id; lia.
Qed.
Lemma norm_index_far n i : (Z.of_nat (S n) < i)%Z -> norm_index n i = S n.
Proof.
  intros Hi. unfold norm_index. destruct (Z.ltb_spec i 0); [lia|].
  destruct (Z.ltb_spec (Z.of_nat (S n)) i); [reflexivity|lia].
Qed.

