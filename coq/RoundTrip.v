(* RoundTrip.v — executable model of the text writers and readers behind property C15
   (show/look and print_to/scan_from round trips).  Model only: NO proofs in this file
   (they are in RoundTripProofs.v / RoundTripFloat.v).

   Modelled C code (names in comments next to the definitions):
     src/String.c  String_Show, String_Look                      (escape-aware writer / reader)
     src/Num.c     Int_Show, Int_Look, Float_Show, Float_Look    ("%li", "%f" / "%lf")
     src/Show.c    print_to_with, scan_from_with                 (directive walk, position accounting)
     src/String.c  String_Format_To / String_Format_From         (sink: bytes at a position; source: vsscanf at s->val + pos)
     src/File.c    File_Format_To / File_Format_From             (sink: append; source: vfscanf on the stream)
   libc enters as an explicit small model (validated against the real libc by the correspondence
   harness harness/roundtrip.c): printf's d/i/u/x/X/o/f conversions with the flags + space 0 # and a
   width, scanf's integer and decimal-float conversions, %c, literal matching.
   Data taken from the C text (escape tables, presence of `continue`, "%f" vs "%lf", the
   sign-extension rule of the integer branch) are parameters, instantiated from Generated.v in
   Extract_RoundTrip.v / Properties_C15.v.

   Bytes are N (0..255), texts are lists of bytes, positions are nat (they stay small). *)
From Coq Require Import List NArith ZArith Bool.
Import ListNotations.
Local Open Scope N_scope.

Definition byte := N.
Definition text := list byte.

Definition c_quote  : byte := 34.   (* double quote *)
Definition c_bslash : byte := 92.   (* backslash *)
Definition c_minus  : byte := 45.
Definition c_plus   : byte := 43.
Definition c_dot    : byte := 46.
Definition c_zero   : byte := 48.
Definition c_space  : byte := 32.
Definition c_x      : byte := 120.
Definition c_X      : byte := 88.
Definition c_e      : byte := 101.
Definition c_E      : byte := 69.

Fixpoint assoc (k : N) (l : list (N * N)) : option N :=
  match l with
  | [] => None
  | (a, b) :: r => if a =? k then Some b else assoc k r
  end.

(* ------------------------------------------------------------------ String_Show *)

(* one iteration of the `while` loop over the characters: an escaped byte is written as backslash + letter,
   any other byte as itself ("%c") *)
Definition show_char (esc : list (N * N)) (c : byte) : text :=
  match assoc c esc with
  | Some l => [c_bslash; l]
  | None => [c]
  end.

(* String_Show: opening quote, the characters, closing quote.  Every print_to call returns
   pos + bytes written, so the position returned is start + length of this text. *)
Definition show_string (esc : list (N * N)) (s : text) : text :=
  c_quote :: flat_map (show_char esc) s ++ [c_quote].

(* ------------------------------------------------------------------ String_Look *)

Inductive lres :=
| LDone (s : text) (n : nat)      (* string read, n characters consumed *)
| LFail (s : text).               (* FormatError raised; s = what the target holds then *)

(* String_Concat(self, $S(buffer)) with a one-character buffer: a NUL byte appends nothing *)
Definition push (acc : text) (c : byte) : text := if c =? 0 then acc else acc ++ [c].

(* the while(true) loop of String_Look; every "%c" consumes exactly one character and fails
   (FormatError) at the end of the input.  cont = the escape branch ends with `continue`
   (repaired code); cont = false is the code as found: after the decoded character the escape
   LETTER is appended as well (D7).  Structural recursion on the input. *)
Fixpoint look_loop (cont : bool) (lesc : list (N * N)) (inp : text) (acc : text) (n : nat) : lres :=
  match inp with
  | [] => LFail acc
  | c :: r =>
    if c =? c_quote then LDone acc (S n)
    else if c =? c_bslash then
      match r with
      | [] => LFail acc
      | e :: r' =>
        match assoc e lesc with
        | None => LFail acc
        | Some b =>
          if cont then look_loop cont lesc r' (push acc b) (S (S n))
          else look_loop cont lesc r' (push (push acc b) e) (S (S n))
        end
      end
    else look_loop cont lesc r (push acc c) (S n)
  end.

Definition look_string (cont : bool) (lesc : list (N * N)) (inp : text) : lres :=
  match inp with
  | [] => LFail []
  | c :: r => if c =? c_quote then look_loop cont lesc r [] 1 else LFail []
  end.

(* ------------------------------------------------------------------ integers: printf *)

Definition digit_char (upper : bool) (d : N) : byte :=
  if d <? 10 then 48 + d else (if upper then 55 else 87) + d.

Fixpoint digits_fuel (base : N) (upper : bool) (f : nat) (n : N) : text :=
  match f with
  | O => []
  | S f' => if n <? base then [digit_char upper n]
            else digits_fuel base upper f' (n / base) ++ [digit_char upper (n mod base)]
  end.

(* fuel: one more than the number of binary digits, enough for every base >= 2
   (RoundTripProofs.digits_fuel_adequate) *)
Definition print_nat (base : N) (upper : bool) (n : N) : text :=
  digits_fuel base upper (S (N.to_nat (N.log2 n))) n.

(* a conversion specification  %[+][ ][0][#][width][.prec][length]conv   (no '-' flag, no '*').
   Length modifiers of the integer conversions are kept by the width of the C type they name:
   n_long = l, ll, j, z, t, q (all 64 bits on this ABI); otherwise n_short = 0: none (int),
   1: h (short), 2: hh (char).  For f conversions n_long = the `l` that scan_from_with looks for. *)
Record nspec := { n_conv : byte; n_long : bool; n_plus : bool; n_space : bool; n_zero : bool;
                  n_alt : bool; n_width : nat; n_prec : option nat; n_short : nat }.

Definition conv_signed (c : byte) : bool := (c =? 100) || (c =? 105).          (* d i *)
Definition conv_is_int (c : byte) : bool :=
  (c =? 100) || (c =? 105) || (c =? 117) || (c =? 120) || (c =? 88) || (c =? 111).   (* d i u x X o *)
Definition conv_is_float (c : byte) : bool := (c =? 102) || (c =? 70).         (* f F *)
Definition conv_base (c : byte) : N :=
  if (c =? 120) || (c =? 88) then 16 else if c =? 111 then 8 else 10.

Definition two64 : Z := 18446744073709551616%Z.
Definition two63 : Z := 9223372036854775808%Z.
Definition two32 : Z := 4294967296%Z.
Definition two31 : Z := 2147483648%Z.

Definition wrap_signed (m half : Z) (z : Z) : Z :=
  let w := (z mod m)%Z in if (w <? half)%Z then w else (w - m)%Z.

(* half the range of the C type the directive names: 2^63 (l ll j z t q), 2^31 (none), 2^15 (h), 2^7 (hh) *)
Definition spec_half (sp : nspec) : Z :=
  if n_long sp then two63
  else match n_short sp with O => two31 | S O => 32768%Z | _ => 128%Z end.

(* the argument is c_int(a) : int64_t handed to vsnprintf, which takes it as the type the
   directive names (two's complement truncation for the narrower forms) *)
Definition int_arg (sp : nspec) (z : Z) : Z :=
  if conv_signed (n_conv sp)
  then wrap_signed (2 * spec_half sp) (spec_half sp) z
  else (z mod (2 * spec_half sp))%Z.

Definition pad (w : nat) (c : byte) (len : nat) : text := repeat c (w - len).

Definition print_int (sp : nspec) (z : Z) : text :=
  let c := n_conv sp in
  let v := int_arg sp z in
  let sign := if conv_signed c
              then (if (v <? 0)%Z then [c_minus] else if n_plus sp then [c_plus]
                    else if n_space sp then [c_space] else [])
              else [] in
  let mag := Z.to_N (Z.abs v) in
  let digs := print_nat (conv_base c) (c =? 88) mag in
  let prefix := if n_alt sp
                then (if (c =? 120) && negb (mag =? 0) then [c_zero; c_x]
                      else if (c =? 88) && negb (mag =? 0) then [c_zero; c_X]
                      else if (c =? 111) && negb (mag =? 0) then [c_zero] else [])
                else [] in
  let len := (length sign + length prefix + length digs)%nat in
  if n_zero sp then sign ++ prefix ++ pad (n_width sp) c_zero len ++ digs
  else pad (n_width sp) c_space len ++ sign ++ prefix ++ digs.

(* ------------------------------------------------------------------ integers: scanf *)

Definition is_space (c : byte) : bool := (c =? 32) || ((9 <=? c) && (c <=? 13)).

Fixpoint skip_ws (inp : text) (n : nat) : text * nat :=
  match inp with
  | c :: r => if is_space c then skip_ws r (S n) else (inp, n)
  | [] => (inp, n)
  end.

Definition digit_val (c : byte) : option N :=
  if (48 <=? c) && (c <=? 57) then Some (c - 48)
  else if (97 <=? c) && (c <=? 102) then Some (c - 87)
  else if (65 <=? c) && (c <=? 70) then Some (c - 55)
  else None.

Definition digit_in (base : N) (c : byte) : option N :=
  match digit_val c with
  | Some d => if d <? base then Some d else None
  | None => None
  end.

(* the longest run of digits of the base: (value, number of digits, rest) *)
Fixpoint scan_digits (base : N) (inp : text) (acc : N) (k : nat) : N * nat * text :=
  match inp with
  | c :: r => match digit_in base c with
              | Some d => scan_digits base r (acc * base + d) (S k)
              | None => (acc, k, inp)
              end
  | [] => (acc, k, inp)
  end.

Definition scan_sign (inp : text) (n : nat) : bool * text * nat :=
  match inp with
  | c :: r => if c =? c_minus then (true, r, S n) else if c =? c_plus then (false, r, S n) else (false, inp, n)
  | [] => (false, inp, n)
  end.

(* x/X and i accept a 0x / 0X prefix when a hex digit follows *)
Definition has_hex_prefix (b0 : N) (r : text) : bool :=
  match r with
  | z :: x :: h :: _ =>
    (z =? c_zero) && ((x =? c_x) || (x =? c_X)) && ((b0 =? 16) || (b0 =? 0))
    && (match digit_in 16 h with Some _ => true | None => false end)
  | _ => false
  end.

(* base detection and the digits (after white space and sign): magnitude, characters consumed so far *)
Definition scan_int_body (b0 : N) (r2 : text) (n2 : nat) : option (N * nat) :=
  let '(base, r3, n3) :=
    if has_hex_prefix b0 r2 then (16, skipn 2 r2, S (S n2))
    else if b0 =? 0 then (match r2 with z :: _ => if z =? c_zero then 8 else 10 | [] => 10 end, r2, n2)
    else (b0, r2, n2) in
  let '(mag, k, _) := scan_digits base r3 0 O in
  match k with
  | O => None
  | _ => Some (mag, (n3 + k)%nat)
  end.

(* scanf integer conversion: white space, sign, base prefix (i takes a leading 0 as octal), at least
   one digit.  Result: sign, magnitude, characters consumed (what %n reports), or None =
   matching/input failure. *)
Definition scan_int_text (conv : byte) (inp : text) : option (bool * N * nat) :=
  let '(r1, n1) := skip_ws inp 0 in
  let '(neg, r2, n2) := scan_sign r1 n1 in
  match scan_int_body (if conv =? 105 then 0 else conv_base conv) r2 n2 with
  | Some (mag, n) => Some (neg, mag, n)
  | None => None
  end.

(* what ends up in `long tmp = 0` and is then handed to assign(a, $I(tmp)):
   with `l`: strtol / strtoul semantics (clamping; strtoul negates modulo 2^64);
   without: libc stores the low 32 (h: 16, hh: 8) bits through the pointer, the rest of tmp keeps
   its zeros; signext = the repaired scanner converts a d/i result back to the signed type. *)
Definition store_int (signext : bool) (sp : nspec) (neg : bool) (mag : N) : Z :=
  let m := Z.of_N mag in
  let v64 :=
    if conv_signed (n_conv sp)
    then (if neg then (if (two63 <? m)%Z then (- two63)%Z else (- m)%Z)
          else (if (two63 - 1 <? m)%Z then (two63 - 1)%Z else m))
    else (if (two64 - 1 <? m)%Z then (two64 - 1)%Z
          else if neg then ((two64 - m) mod two64)%Z else m) in
  if n_long sp then wrap_signed two64 two63 v64
  else let w := (v64 mod (2 * spec_half sp))%Z in
       if signext && conv_signed (n_conv sp) then wrap_signed (2 * spec_half sp) (spec_half sp) w else w.

(* ------------------------------------------------------------------ floats *)

(* finite doubles: value = (-1)^s * m * 2^e, m < 2^53, -1074 <= e <= 971 *)
Definition p52 : N := 4503599627370496.
Definition p53 : N := 9007199254740992.
Definition p63 : N := 9223372036854775808.

Definition decode_double (bits : N) : option (bool * N * Z) :=
  let s := N.testbit bits 63 in
  let ex := (bits / p52) mod 2048 in
  let fr := bits mod p52 in
  if ex =? 2047 then None
  else if ex =? 0 then Some (s, fr, (-1074)%Z)
  else Some (s, p52 + fr, (Z.of_N ex - 1075)%Z).

(* a / b rounded to the nearest integer, ties to even (b > 0) *)
Definition rne_div (a b : N) : N :=
  let q := a / b in
  let r := a mod b in
  if 2 * r <? b then q else if b <? 2 * r then q + 1 else if N.even q then q else q + 1.

Definition pow2 (e : Z) : N := 2 ^ Z.to_N e.

(* m * 2^e * 10^p rounded to the nearest integer, ties to even: printf's %.pf is exact *)
Definition scaled_round (p : nat) (m : N) (e : Z) : N :=
  let n := m * 10 ^ N.of_nat p in
  if (0 <=? e)%Z then n * pow2 e else rne_div n (pow2 (- e)).

Definition pad_digits (w : nat) (t : text) : text := repeat c_zero (w - length t) ++ t.

Definition float_prec (sp : nspec) : nat := match n_prec sp with Some p => p | None => 6%nat end.

(* %[+][ ][0][width][.p]f of a finite double *)
Definition print_float (sp : nspec) (s : bool) (m : N) (e : Z) : text :=
  let p := float_prec sp in
  let n := scaled_round p m e in
  let ip := print_nat 10 false (n / 10 ^ N.of_nat p) in
  let fp := match p with
            | O => if n_alt sp then [c_dot] else []
            | _ => c_dot :: pad_digits p (print_nat 10 false (n mod 10 ^ N.of_nat p))
            end in
  let sign := if s then [c_minus] else if n_plus sp then [c_plus] else if n_space sp then [c_space] else [] in
  let len := (length sign + length ip + length fp)%nat in
  if n_zero sp then sign ++ pad (n_width sp) c_zero len ++ ip ++ fp
  else pad (n_width sp) c_space len ++ sign ++ ip ++ fp.

(* scanf float conversion restricted to decimal syntax:
   white space, sign, digits [. digits] (at least one digit), optional exponent e[sign]digits
   (taken only when complete).  Result: sign, decimal mantissa, decimal exponent
   (value = mant * 10^dexp), characters consumed. *)
Definition scan_mantissa (r2 : text) (n2 : nat) : N * nat * nat * text * nat :=
  let '(ipart, ki, r3) := scan_digits 10 r2 0 O in
  match r3 with
  | c :: r => if c =? c_dot
              then let '(m, k, r') := scan_digits 10 r ipart O in (m, ki, k, r', S (n2 + ki + k)%nat)
              else (ipart, ki, O, r3, (n2 + ki)%nat)
  | [] => (ipart, ki, O, r3, (n2 + ki)%nat)
  end.

(* e[sign]digits, taken only when at least one digit follows *)
Definition scan_exponent (r4 : text) (n4 : nat) : option (Z * nat) :=
  match r4 with
  | c :: r =>
    if (c =? c_e) || (c =? c_E) then
      let '(eneg, r5, n5) := scan_sign r (S n4) in
      let '(ev, ke, _) := scan_digits 10 r5 0 O in
      match ke with
      | O => None
      | _ => Some (if eneg then (- Z.of_N ev)%Z else Z.of_N ev, (n5 + ke)%nat)
      end
    else None
  | [] => None
  end.

Definition scan_float_text (inp : text) : option (bool * N * Z * nat) :=
  let '(r1, n1) := skip_ws inp 0 in
  let '(neg, r2, n2) := scan_sign r1 n1 in
  let '(mant, ki, kf, r4, n4) := scan_mantissa r2 n2 in
  match (ki + kf)%nat with
  | O => None
  | _ => match scan_exponent r4 n4 with
         | Some (ev, n5) => Some (neg, mant, (ev - Z.of_nat kf)%Z, n5)
         | None => Some (neg, mant, (- Z.of_nat kf)%Z, n4)
         end
  end.

(* floor (log2 (p / q)) for p, q > 0 *)
Definition ratio_ge_pow2 (p q : N) (e : Z) : bool :=
  if (0 <=? e)%Z then q * pow2 e <=? p else q <=? p * pow2 (- e).

Definition floor_log2_ratio (p q : N) : Z :=
  let e0 := (Z.of_N (N.log2 p) - Z.of_N (N.log2 q))%Z in
  if ratio_ge_pow2 p q e0 then e0 else (e0 - 1)%Z.

(* p / q rounded to nearest-even in the binary format with `prec` significant bits and least
   exponent emin: (m, e) with value m * 2^e, m <= 2^prec (strtod / strtof are correctly rounded) *)
Definition round_bin (prec emin : Z) (p q : N) : N * Z :=
  if p =? 0 then (0, emin)
  else
    let l := floor_log2_ratio p q in
    let e := Z.max emin (l - (prec - 1)) in
    let m := if (0 <=? e)%Z then rne_div p (q * pow2 e) else rne_div (p * pow2 (- e)) q in
    (m, e).

(* bit pattern of the double m * 2^e (m * 2^e assumed representable; ovf = the first power of two
   that is out of range for the format the number was rounded in: 1024 for double, 128 for float) *)
Definition encode_double (ovf : Z) (s : bool) (m : N) (e : Z) : N :=
  let sgn := if s then p63 else 0 in
  if m =? 0 then sgn
  else if (ovf <=? Z.of_N (N.log2 m) + e)%Z then sgn + 2047 * p52
  else
    let k := Z.min (52 - Z.of_N (N.log2 m)) (e + 1074) in
    let m' := if (0 <=? k)%Z then m * pow2 k else m / pow2 (- k) in
    let e' := (e - k)%Z in
    if m' <? p52 then sgn + m'
    else sgn + Z.to_N (e' + 1075) * p52 + (m' - p52).

(* text -> stored double: "%lf" rounds to binary64, "%f" to binary32 and the float is then
   widened ($F(tmp)) *)
Definition read_float (long : bool) (neg : bool) (mant : N) (dexp : Z) : N :=
  let '(p, q) := if (0 <=? dexp)%Z then (mant * 10 ^ Z.to_N dexp, 1) else (mant, 10 ^ Z.to_N (- dexp)) in
  if long then let '(m, e) := round_bin 53 (-1074) p q in encode_double 1024 neg m e
  else let '(m, e) := round_bin 24 (-149) p q in encode_double 128 neg m e.

(* ------------------------------------------------------------------ values, directives *)

Inductive value := VInt (z : Z) | VFloat (bits : N) | VStr (s : text).
Inductive ty := TInt | TFloat | TStr.

(* what the C text fixes (re-extracted into Generated.v on every run) *)
Record config := { cf_show_esc : list (N * N); cf_look_esc : list (N * N); cf_look_cont : bool;
                   cf_float_look_long : bool; cf_int_signext : bool;
                   cf_int_signext_narrow : bool;   (* the sign is restored for h / hh directives as well *)
                   cf_lit_measure : bool;    (* literal pieces advance pos by what scanf consumed (%n) *)
                   cf_pct_measure : bool     (* the %% piece advances pos by what scanf consumed (%n) *) }.

Definition spec_li : nspec := {| n_conv := 105; n_long := true; n_plus := false; n_space := false;
                                 n_zero := false; n_alt := false; n_width := 0; n_prec := None; n_short := 0 |}.
Definition spec_f (long : bool) : nspec := {| n_conv := 102; n_long := long; n_plus := false; n_space := false;
                                 n_zero := false; n_alt := false; n_width := 0; n_prec := None; n_short := 0 |}.

(* print side: one element of a format string with its argument *)
Inductive pitem :=
| PLit (t : text)                      (* literal text (no '%') *)
| PShow (v : value)                    (* %$  ->  show_to  ->  Int_Show / Float_Show / String_Show *)
| PNum (sp : nspec) (v : value).       (* numeric directive *)

Definition print_num (sp : nspec) (v : value) : text :=
  match v with
  | VInt z => if conv_is_int (n_conv sp) then print_int sp z else []
  | VFloat b => if conv_is_float (n_conv sp)
                then match decode_double b with Some (s, m, e) => print_float sp s m e | None => [] end
                else []
  | VStr _ => []
  end.

Definition show_value (cf : config) (v : value) : text :=
  match v with
  | VInt _ => print_num spec_li v                       (* Int_Show: "%li" *)
  | VFloat _ => print_num (spec_f false) v              (* Float_Show: "%f" *)
  | VStr s => show_string (cf_show_esc cf) s            (* String_Show *)
  end.

Definition print_item (cf : config) (it : pitem) : text :=
  match it with
  | PLit t => t
  | PShow v => show_value cf v
  | PNum sp v => print_num sp v
  end.

(* print_to_with: every piece goes to format_to(out, pos, ...) and pos advances by its length;
   String sink: String_Format_To keeps the first pos bytes and writes the piece there,
   File sink: appended.  Either way the text is the concatenation and the returned position
   is start + its length. *)
Definition print_items (cf : config) (its : list pitem) : text := flat_map (print_item cf) its.

(* sink content and returned position after print_to_with(out, pos, ...) *)
Definition print_to_string (cf : config) (old : text) (pos : nat) (its : list pitem) : text * nat :=
  (firstn pos old ++ print_items cf its, (pos + length (print_items cf its))%nat).
Definition print_to_file (cf : config) (old : text) (pos : nat) (its : list pitem) : text * nat :=
  (old ++ print_items cf its, (pos + length (print_items cf its))%nat).

(* scan side *)
Inductive sitem :=
| SLit (t : text)
| SLook (t : ty)                       (* %$ -> look_from on an Int / Float / String target *)
| SNum (sp : nspec).                   (* numeric directive; target Int or Float by conversion *)

Inductive sres :=
| SOk (vals : list value) (pos : nat)
| SRaise (vals : list value).          (* FormatError; vals = targets assigned before *)

(* does scan_from_with give a d/i result of this directive its sign back? *)
Definition int_restore (cf : config) (sp : nspec) : bool :=
  match n_short sp with O => cf_int_signext cf | _ => cf_int_signext_narrow cf end.

(* one conversion applied to the remaining input: (value, consumed) *)
Definition scan_num (cf : config) (sp : nspec) (inp : text) : option (value * nat) :=
  if conv_is_int (n_conv sp) then
    match scan_int_text (n_conv sp) inp with
    | Some (neg, mag, n) => Some (VInt (store_int (int_restore cf sp) sp neg mag), n)
    | None => None
    end
  else if conv_is_float (n_conv sp) then
    match scan_float_text inp with
    | Some (neg, mant, dexp, n) => Some (VFloat (read_float (n_long sp) neg mant dexp), n)
    | None => None
    end
  else None.

Definition look_value (cf : config) (t : ty) (inp : text) : option (value * nat) :=
  match t with
  | TInt => scan_num cf spec_li inp                                   (* Int_Look: "%li" *)
  | TFloat => scan_num cf (spec_f (cf_float_look_long cf)) inp        (* Float_Look: "%f" or "%lf" *)
  | TStr => match look_string (cf_look_cont cf) (cf_look_esc cf) inp with
            | LDone s n => Some (VStr s, n)
            | LFail _ => None
            end
  end.

(* scanf's matching of a literal piece against the input: white space in the format skips any
   amount of white space, another character must match or the directive stops.
   Result: remaining input, and whether the whole piece was matched (then a trailing %n is reached) *)
Fixpoint match_lit (t : text) (inp : text) : text * bool :=
  match t with
  | [] => (inp, true)
  | c :: r =>
    if is_space c then match_lit r (fst (skip_ws inp 0))
    else match inp with
         | d :: inp' => if d =? c then match_lit r inp' else (inp, false)
         | [] => (inp, false)
         end
  end.

(* scan_from_with cuts literal text of the format at every "%%": runs without '%' and single "%%" pieces *)
Definition c_pct : byte := 37.
Inductive lpiece := LRun (u : text) | LPct.

Fixpoint lit_pieces (t : text) : list lpiece :=
  match t with
  | [] => []
  | c :: r => if c =? c_pct then LPct :: lit_pieces r
              else match lit_pieces r with
                   | LRun u :: ps => LRun (c :: u) :: ps
                   | ps => LRun [c] :: ps
                   end
  end.

(* one piece against the remaining input: remaining input, advance of pos; None = FormatError
   ("%%" at the end of the input: scanf reports EOF).
   run:  format_from(input, pos, "<run>%n", &off) with off preset to the run's length (the code as
         found adds the run's length without measuring: cf_lit_measure = false);
   "%%": scanf skips white space, then wants a '%'; the code as found adds 2 whatever was consumed. *)
Definition scan_piece (cf : config) (pc : lpiece) (inp : text) : option (text * nat) :=
  match pc with
  | LRun u =>
    let '(r, ok) := match_lit u inp in
    Some (r, if cf_lit_measure cf && ok then (length inp - length r)%nat else length u)
  | LPct =>
    let r1 := fst (skip_ws inp 0) in
    match r1 with
    | [] => None
    | d :: r2 =>
      if d =? c_pct then Some (r2, if cf_pct_measure cf then (length inp - length r2)%nat else 2%nat)
      else Some (r1, if cf_pct_measure cf then 0%nat else 2%nat)
    end
  end.

(* String source: every piece and every directive is a fresh vsscanf at s->val + pos *)
Fixpoint scan_lit_str (cf : config) (txt : text) (pos : nat) (ps : list lpiece) : option nat :=
  match ps with
  | [] => Some pos
  | pc :: r => match scan_piece cf pc (skipn pos txt) with
               | Some (_, adv) => scan_lit_str cf txt (pos + adv) r
               | None => None
               end
  end.

Fixpoint scan_str (cf : config) (txt : text) (pos : nat) (its : list sitem) (acc : list value) : sres :=
  match its with
  | [] => SOk acc pos
  | SLit t :: r =>
    match scan_lit_str cf txt pos (lit_pieces t) with
    | Some pos' => scan_str cf txt pos' r acc
    | None => SRaise acc
    end
  | SLook ty :: r =>
    match look_value cf ty (skipn pos txt) with
    | Some (v, n) => scan_str cf txt (pos + n) r (acc ++ [v])
    | None => SRaise acc
    end
  | SNum sp :: r =>
    match scan_num cf sp (skipn pos txt) with
    | Some (v, n) => scan_str cf txt (pos + n) r (acc ++ [v])
    | None => SRaise acc
    end
  end.

(* File source: the stream position is what moves; pos is only accounting *)
Fixpoint scan_lit_file (cf : config) (inp : text) (pos : nat) (ps : list lpiece) : option (text * nat) :=
  match ps with
  | [] => Some (inp, pos)
  | pc :: r => match scan_piece cf pc inp with
               | Some (inp', adv) => scan_lit_file cf inp' (pos + adv) r
               | None => None
               end
  end.

Fixpoint scan_file (cf : config) (inp : text) (pos : nat) (its : list sitem) (acc : list value) : sres :=
  match its with
  | [] => SOk acc pos
  | SLit t :: r =>
    match scan_lit_file cf inp pos (lit_pieces t) with
    | Some (inp', pos') => scan_file cf inp' pos' r acc
    | None => SRaise acc
    end
  | SLook ty :: r =>
    match look_value cf ty inp with
    | Some (v, n) => scan_file cf (skipn n inp) (pos + n) r (acc ++ [v])
    | None => SRaise acc
    end
  | SNum sp :: r =>
    match scan_num cf sp inp with
    | Some (v, n) => scan_file cf (skipn n inp) (pos + n) r (acc ++ [v])
    | None => SRaise acc
    end
  end.

(* the reading counterpart of a print item: same directive; look on a target of the value's type *)
Definition ty_of (v : value) : ty := match v with VInt _ => TInt | VFloat _ => TFloat | VStr _ => TStr end.
