(* MarkSource.v — ties the switches of the mark-phase model to the C text (through
   Generated.v, rewritten from the working tree on every check). *)
From Coq Require Import List Bool String.
From CelloV Require Import Generated.
Import ListNotations.

(* the functions the model transcribes still have the text it was written for; the TLS table
   is traced with the recursing callback (D16 repaired); GC_Mark_And_Recurse does not re-trace
   registered objects (D17 repaired) *)
Lemma source_switches :
  gc_mark_shape_ok = true /\ gc_tls_recurses = true /\ gc_mar_guarded = true.
Proof. repeat split; reflexivity. Qed.

(* GC_Set still triggers a collection on nitems > mitems after registering the new address, and
   mitems is set by ONE policy (gc_next_mitems, a parameter of `step`) after a sweep / a removal; the
   window minptr/maxptr is widened for EVERY registered address, also when GC_Set returns early because
   a sweep is running (allocation by a finaliser) *)
Lemma source_threshold : gc_threshold_shape_ok = true /\ gc_finaliser_alloc_widens = true.
Proof. split; reflexivity. Qed.

Lemma source_leaf_types :
  gc_leaf_types = ["Int"; "Float"; "String"; "Type"; "File"; "Process"; "Function"]%string.
Proof. reflexivity. Qed.

(* the tracer has no exit besides the ones the model transcribes.  GC_Recurse returns early on a leaf type only
   (its second `return` follows the call of the Mark instance): two `return` statements.  The exits of
   GC_Mark_Item, GC_Mark_And_Recurse and the root loop are covered by their DECISION TABLES (tools/gcmark_sym.py:
   facts aligned / in window / in table / marked / root -> mark bit set?, number of GC_Recurse calls), which must
   equal the model's — that is part of gc_mark_shape_ok.  In particular there is no nesting-depth cap: `trace` has
   no depth bound either (the theorems hold for every graph); in the C code the depth is limited by the C stack
   only, which the model does not represent (finding F1) *)
Lemma source_tracer_exits : gc_recurse_returns = 2 /\ gc_mark_shape_ok = true.
Proof. split; reflexivity. Qed.

(* heap view objects (Zip, Slice, Range allocated with new) keep their internal objects in MANAGED storage: the
   model (and the correspondence scripts, op V) treats them as ordinary registered nodes — the view's words lead to
   its internal Tuple / Range, whose items / words lead to the inputs *)
Lemma source_view_internals : view_internals_registered = true.
Proof. reflexivity. Qed.
