(* Properties_C01.v — property C01: the collector never reclaims a reachable object and every
   collection terminates.  Only statements closed by `exact`, each followed by Print Assumptions.
   The switches gc_tls_recurses / gc_mar_guarded come from Generated.v (read off src/GC.c). *)
From CelloV Require Import Generated HeapGraph MarkSweep MarkSweepProofs MarkSource.

(* the model's two switches and the transcribed function bodies agree with the C text *)
Theorem mark_model_matches_source :
  gc_mark_shape_ok = true /\ gc_tls_recurses = true /\ gc_mar_guarded = true.
Proof. exact MarkSource.source_switches. Qed.
Print Assumptions mark_model_matches_source.

Theorem threshold_model_matches_source : gc_threshold_shape_ok = true /\ gc_finaliser_alloc_widens = true.
Proof. exact MarkSource.source_threshold. Qed.
Print Assumptions threshold_model_matches_source.

(* (1) after the mark phase every registered object reachable from the TLS values, the
   root-flagged entries or the stack words is marked — any heap, any fuel that sufficed *)
Theorem mark_complete : forall h rg minptr maxptr order tls stack fuel m',
  range_ok rg minptr maxptr -> order_ok rg order ->
  mark gc_tls_recurses gc_mar_guarded h rg minptr maxptr fuel order tls stack nempty = Ok m' ->
  forall q, registered rg q = true -> reach h rg tls stack q -> marked m' q = true.
Proof. exact MarkSweepProofs.mark_complete_thm. Qed.
Print Assumptions mark_complete.

(* (2) the sweep frees exactly the unmarked non-root entries, each once *)
Theorem sweep_frees_only_unmarked_nonroot : forall rg order m rg' fin,
  sweep rg order m = (rg', fin) ->
  (forall p, In p fin <-> In p order /\ registered rg p = true /\ is_root rg p = false /\ marked m p = false) /\
  (forall p, registered rg' p = true <-> registered rg p = true /\ ~ In p fin) /\
  (NoDup order -> NoDup fin).
Proof. exact MarkSweepProofs.sweep_frees_only_unmarked_nonroot_thm. Qed.
Print Assumptions sweep_frees_only_unmarked_nonroot.

(* (4) the fuel the model supplies is never exhausted and nothing crashes: every collection
   runs to completion (raw_wf excludes only cycles among RAW objects behind Tuple items) *)
Theorem mark_fuel_adequate : forall h rg minptr maxptr order tls stack,
  range_ok rg minptr maxptr -> order_ok rg order -> wf h rg tls -> raw_wf h rg ->
  exists m', mark gc_tls_recurses gc_mar_guarded h rg minptr maxptr (fuel_of h rg order) order tls stack nempty = Ok m'.
Proof. exact MarkSweepProofs.mark_fuel_adequate_thm. Qed.
Print Assumptions mark_fuel_adequate.

(* (3) the property: a collection terminates, frees no registered object that is reachable,
   keeps every root-flagged entry, frees only registered non-root entries, each once *)
Theorem collect_safe : forall h rg minptr maxptr order tls stack,
  range_ok rg minptr maxptr -> order_ok rg order -> wf h rg tls -> raw_wf h rg ->
  exists rg' fin,
    collect gc_tls_recurses gc_mar_guarded h rg minptr maxptr (fuel_of h rg order) order tls stack = Ok (rg', fin) /\
    (forall p, registered rg p = true -> reach h rg tls stack p -> ~ In p fin /\ registered rg' p = true) /\
    (forall p, is_root rg p = true -> ~ In p fin /\ registered rg' p = true) /\
    (forall p, In p fin -> registered rg p = true /\ is_root rg p = false) /\
    NoDup fin.
Proof. exact MarkSweepProofs.collect_safe_thm. Qed.
Print Assumptions collect_safe.

(* exactness of the model (it does not over-approximate): marked = registered and (root-flagged
   or reachable); freed = registered, not root-flagged, not reachable.  Hence the marks the
   extracted model prints in the correspondence runs ARE the reachable set of the theorems. *)
Theorem mark_exact : forall h rg minptr maxptr order tls stack fuel m',
  range_ok rg minptr maxptr -> order_ok rg order ->
  mark gc_tls_recurses gc_mar_guarded h rg minptr maxptr fuel order tls stack nempty = Ok m' ->
  forall q, marked m' q = true <->
            registered rg q = true /\ (is_root rg q = true \/ reach h rg tls stack q).
Proof. exact MarkSweepProofs.mark_exact_thm. Qed.
Print Assumptions mark_exact.

Theorem collect_exact : forall h rg minptr maxptr order tls stack fuel rg' fin,
  range_ok rg minptr maxptr -> order_ok rg order ->
  collect gc_tls_recurses gc_mar_guarded h rg minptr maxptr fuel order tls stack = Ok (rg', fin) ->
  forall p, In p fin <-> registered rg p = true /\ is_root rg p = false /\ ~ reach h rg tls stack p.
Proof. exact MarkSweepProofs.collect_exact_thm. Qed.
Print Assumptions collect_exact.

(* (5) the same at every collection point of an allocation history: the `nitems > mitems`
   trigger inside alloc (the newborn's address is among the stack words: `extra`) or a forced
   collection; the registry-side invariants (range_ok, order_ok) are re-established *)
Theorem threshold_collect_safe : forall s e s1 extra,
  collection_point s e = Some (s1, extra) -> inv s1 -> heap_ok s1 ->
  exists s' fin, step gc_tls_recurses gc_mar_guarded gc_finaliser_alloc_widens s e = Ok (s', fin) /\ collection_safe s1 extra fin s' /\ inv s'.
Proof. exact MarkSweepProofs.threshold_collect_safe_lemma. Qed.
Print Assumptions threshold_collect_safe.

(* every history of allocations (ordinary, or issued by a finaliser while a sweep runs), stores,
   root changes, explicit deletions and forced collections, started from a state satisfying the registry invariants (e.g. the empty one):
   as long as each alloc returns a fresh aligned address and the heap is well formed at each
   collection point, no step fails and every collection in the history is safe *)
Theorem history_collect_safe : forall es s, inv s -> hist_safe gc_tls_recurses gc_mar_guarded gc_finaliser_alloc_widens s es.
Proof. exact MarkSweepProofs.history_collect_safe_lemma. Qed.
Print Assumptions history_collect_safe.

Example history_starts_somewhere : inv st0.
Proof. exact MarkSweepProofs.inv_st0. Qed.

(* non-vacuity of threshold_collect_safe: in the example state (6 registered objects, mitems 6)
   the allocation of a Ref to the otherwise unreachable w56 crosses the threshold; the state at
   that collection point satisfies inv and heap_ok; the newborn (on the stack) keeps w56 alive,
   so nothing is freed *)
Example threshold_hypotheses_inhabited :
  event_ok ex_state ex_event /\
  collection_point ex_state ex_event = Some (ex_state1, cons w64 nil) /\ inv ex_state1 /\ heap_ok ex_state1 /\
  exists s', step gc_tls_recurses gc_mar_guarded gc_finaliser_alloc_widens ex_state ex_event = Ok (s', nil).
Proof. exact MarkSweepProofs.ex_threshold_point. Qed.

(* non-vacuity of the hypotheses: a heap with a cycle through an Array of Ref, a shared Box, a
   Tuple leading through a raw object, a TLS root, a stack root and one unreachable object;
   exactly the unreachable one is freed *)
Example collect_safe_hypotheses_inhabited :
  range_ok ex_reg w8 w56 /\ order_ok ex_reg ex_order /\ wf ex_heap ex_reg ex_tls /\ raw_wf ex_heap ex_reg /\
  (forall p, In p (cons w8 (cons w16 (cons w24 (cons w32 (cons w40 nil))))) -> reach ex_heap ex_reg ex_tls ex_stack p) /\
  exists rg', collect gc_tls_recurses gc_mar_guarded ex_heap ex_reg w8 w56 (fuel_of ex_heap ex_reg ex_order)
                ex_order ex_tls ex_stack = Ok (rg', cons w56 nil).
Proof.
  exact (conj ex_range (conj ex_order_ok (conj ex_wf (conj ex_raw_wf (conj ex_reach_all ex_collect))))).
Qed.

(* the excluded case: raw objects forming a cycle through Tuple items make the (repaired)
   mark phase diverge — no mark bit can stop it *)
Theorem mark_diverges_on_raw_tuple_cycle :
  ~ raw_wf rawcyc_heap rawcyc_reg /\
  forall fuel, mark gc_tls_recurses gc_mar_guarded rawcyc_heap rawcyc_reg w8 w8 fuel (cons w8 nil) nil (cons w8 nil) nempty = OutOfFuel.
Proof. exact (conj MarkSweepProofs.rawcyc_not_raw_wf MarkSweepProofs.rawcyc_mark_diverges). Qed.
Print Assumptions mark_diverges_on_raw_tuple_cycle.

(* histories with an allocation by a finaliser are not vacuous: the garbage object w8 is swept, its
   finaliser allocates w16 and publishes it into a stack slot, the next collection keeps it *)
Example finaliser_allocation_history_kept :
  exists s, run gc_tls_recurses gc_mar_guarded gc_finaliser_alloc_widens st0 fin_hist
            = Ok (s, cons nil (cons nil (cons (cons w8 nil) (cons nil (cons nil (cons nil nil)))))).
Proof. exact MarkSweepProofs.fin_hist_kept_post. Qed.

(* seeded defect C01-r2-2 (GC_Set widens the window only after its early return): after the same
   history the window invariant range_ok is broken, and the next collection frees w16 although it
   is registered and reachable from the stack *)
Theorem finaliser_alloc_window_refuted :
  exists s5 fr5 s6,
    run true true false st0 (firstn 5 fin_hist) = Ok (s5, fr5) /\
    registered (st_reg s5) w16 = true /\
    reach (st_heap s5) (st_reg s5) (st_tls s5) (st_stack s5) w16 /\
    ~ range_ok (st_reg s5) (st_minptr s5) (st_maxptr s5) /\
    step true true false s5 ECollect = Ok (s6, cons w16 nil).
Proof. exact MarkSweepProofs.fin_hist_freed_pre. Qed.
Print Assumptions finaliser_alloc_window_refuted.

(* D16 (before the repair): an object reachable only from a thread-local value is freed *)
Theorem tls_item_callback_refuted :
  reach d16_heap d16_reg d16_tls nil w8 /\
  collect false true d16_heap d16_reg w8 w8 10 (cons w8 nil) d16_tls nil = Ok (nempty, cons w8 nil).
Proof. exact (conj MarkSweepProofs.d16_reachable MarkSweepProofs.d16_freed_pre). Qed.
Print Assumptions tls_item_callback_refuted.

(* D17 (before the repair): marking a registered heap Tuple that contains itself never terminates *)
Theorem unguarded_recurse_refuted : forall fuel,
  mark true false d17_heap d17_reg w8 w8 fuel (cons w8 nil) nil (cons w8 nil) nempty = OutOfFuel.
Proof. exact MarkSweepProofs.d17_mark_diverges. Qed.
Print Assumptions unguarded_recurse_refuted.
