(* Properties_C01.v — property C01: the collector never reclaims a reachable object and every
   collection terminates.  Only statements closed by `exact`, each followed by Print Assumptions.
   The switches gc_tls_recurses / gc_mar_guarded come from Generated.v (read off src/GC.c). *)
From CelloV Require Import Generated RobinHood RobinHoodProofs RegistryModel RegistryProofs HeapGraph MarkSweep MarkSweepProofs MarkSource GCGlue.

(* the model's two switches and the transcribed function bodies agree with the C text *)
Theorem mark_model_matches_source :
  gc_mark_shape_ok = true /\ gc_tls_recurses = true /\ gc_mar_guarded = true.
Proof. exact MarkSource.source_switches. Qed.
Print Assumptions mark_model_matches_source.

(* GC_Recurse has no early exit besides the leaf-type one, and the decision tables of GC_Mark_Item,
   GC_Mark_And_Recurse and the root loop of GC_Mark (read off the source, symbolically where the code is loop
   free) equal the model's — no nesting-depth cap, no skipped case (the mark phase of the model has no depth
   bound; the depth the C code can reach is limited by the C stack only: modelled-not-verified, finding F1) *)
Theorem tracer_has_no_other_exit : gc_recurse_returns = 2 /\ gc_mark_shape_ok = true.
Proof. exact MarkSource.source_tracer_exits. Qed.
Print Assumptions tracer_has_no_other_exit.

(* the internal objects of heap Zip / Slice / Range are allocated with new (managed), so containers held only by
   such a view are reachable in the sense of the theorems: view -> internal Tuple / Range -> inputs *)
Theorem view_internals_are_managed : view_internals_registered = true.
Proof. exact MarkSource.source_view_internals. Qed.
Print Assumptions view_internals_are_managed.

Theorem threshold_model_matches_source : gc_threshold_shape_ok = true /\ gc_finaliser_alloc_widens = true.
Proof. exact MarkSource.source_threshold. Qed.
Print Assumptions threshold_model_matches_source.

(* (1) after the mark phase every registered object reachable from the TLS values, the
   root-flagged entries or the stack words is marked — any heap, any fuel that sufficed *)
Theorem mark_complete : forall h rg minptr maxptr order tls stack fuel m',
  range_ok rg minptr maxptr -> order_ok rg order ->
  mark gc_tls_recurses gc_mar_guarded h rg minptr maxptr fuel order tls stack nempty = Ok m' ->
  forall q, registered rg q = true -> reach h rg tls stack q -> marked m' q = true.
Proof. exact MarkSweepProofs.mark_complete_thm. Qed.
Print Assumptions mark_complete.

(* (2) the sweep frees exactly the unmarked non-root entries, each once *)
Theorem sweep_frees_only_unmarked_nonroot : forall rg order m rg' fin,
  sweep rg order m = (rg', fin) ->
  (forall p, In p fin <-> In p order /\ registered rg p = true /\ is_root rg p = false /\ marked m p = false) /\
  (forall p, registered rg' p = true <-> registered rg p = true /\ ~ In p fin) /\
  (NoDup order -> NoDup fin).
Proof. exact MarkSweepProofs.sweep_frees_only_unmarked_nonroot_thm. Qed.
Print Assumptions sweep_frees_only_unmarked_nonroot.

(* (4) the fuel the model supplies is never exhausted and nothing crashes: every collection
   runs to completion (raw_wf excludes only cycles among RAW objects behind Tuple items) *)
Theorem mark_fuel_adequate : forall h rg minptr maxptr order tls stack,
  range_ok rg minptr maxptr -> order_ok rg order -> wf h rg tls -> raw_wf h rg ->
  exists m', mark gc_tls_recurses gc_mar_guarded h rg minptr maxptr (fuel_of h rg order) order tls stack nempty = Ok m'.
Proof. exact MarkSweepProofs.mark_fuel_adequate_thm. Qed.
Print Assumptions mark_fuel_adequate.

(* (3) the property: a collection terminates, frees no registered object that is reachable,
   keeps every root-flagged entry, frees only registered non-root entries, each once *)
Theorem collect_safe : forall h rg minptr maxptr order tls stack,
  range_ok rg minptr maxptr -> order_ok rg order -> wf h rg tls -> raw_wf h rg ->
  exists rg' fin,
    collect gc_tls_recurses gc_mar_guarded h rg minptr maxptr (fuel_of h rg order) order tls stack = Ok (rg', fin) /\
    (forall p, registered rg p = true -> reach h rg tls stack p -> ~ In p fin /\ registered rg' p = true) /\
    (forall p, is_root rg p = true -> ~ In p fin /\ registered rg' p = true) /\
    (forall p, In p fin -> registered rg p = true /\ is_root rg p = false) /\
    NoDup fin.
Proof. exact MarkSweepProofs.collect_safe_thm. Qed.
Print Assumptions collect_safe.

(* exactness of the model (it does not over-approximate): marked = registered and (root-flagged
   or reachable); freed = registered, not root-flagged, not reachable.  Hence the marks the
   extracted model prints in the correspondence runs ARE the reachable set of the theorems. *)
Theorem mark_exact : forall h rg minptr maxptr order tls stack fuel m',
  range_ok rg minptr maxptr -> order_ok rg order ->
  mark gc_tls_recurses gc_mar_guarded h rg minptr maxptr fuel order tls stack nempty = Ok m' ->
  forall q, marked m' q = true <->
            registered rg q = true /\ (is_root rg q = true \/ reach h rg tls stack q).
Proof. exact MarkSweepProofs.mark_exact_thm. Qed.
Print Assumptions mark_exact.

Theorem collect_exact : forall h rg minptr maxptr order tls stack fuel rg' fin,
  range_ok rg minptr maxptr -> order_ok rg order ->
  collect gc_tls_recurses gc_mar_guarded h rg minptr maxptr fuel order tls stack = Ok (rg', fin) ->
  forall p, In p fin <-> registered rg p = true /\ is_root rg p = false /\ ~ reach h rg tls stack p.
Proof. exact MarkSweepProofs.collect_exact_thm. Qed.
Print Assumptions collect_exact.

(* (5) the same at every collection point of an allocation history, for EVERY threshold policy nm (what
   gc->mitems is set to after a sweep / a removal decides only WHEN a collection runs; the source's policy
   reaches the executable model through Generated.gc_next_mitems): the `nitems > mitems`
   trigger inside alloc (the newborn's address is among the stack words: `extra`) or a forced
   collection; the registry-side invariants (range_ok, order_ok) are re-established *)
Theorem threshold_collect_safe : forall (nm : policy) s e s1 extra,
  collection_point s e = Some (s1, extra) -> inv s1 -> heap_ok s1 ->
  exists s' fin, step gc_tls_recurses gc_mar_guarded gc_finaliser_alloc_widens nm s e = Ok (s', fin) /\ collection_safe s1 extra fin s' /\ inv s'.
Proof. exact MarkSweepProofs.threshold_collect_safe_lemma. Qed.
Print Assumptions threshold_collect_safe.

(* every history of allocations (ordinary, or issued by a finaliser while a sweep runs), stores,
   root changes, explicit deletions and forced collections, started from a state satisfying the registry invariants (e.g. the empty one):
   as long as each alloc returns a fresh aligned address and the heap is well formed at each
   collection point, no step fails and every collection in the history is safe *)
Theorem history_collect_safe : forall (nm : policy) es s, inv s -> hist_safe gc_tls_recurses gc_mar_guarded gc_finaliser_alloc_widens nm s es.
Proof. exact MarkSweepProofs.history_collect_safe_lemma. Qed.
Print Assumptions history_collect_safe.

Example history_starts_somewhere : inv st0.
Proof. exact MarkSweepProofs.inv_st0. Qed.

(* non-vacuity of threshold_collect_safe: in the example state (6 registered objects, mitems 6)
   the allocation of a Ref to the otherwise unreachable w56 crosses the threshold; the state at
   that collection point satisfies inv and heap_ok; the newborn (on the stack) keeps w56 alive,
   so nothing is freed *)
Example threshold_hypotheses_inhabited :
  event_ok ex_state ex_event /\
  collection_point ex_state ex_event = Some (ex_state1, cons w64 nil) /\ inv ex_state1 /\ heap_ok ex_state1 /\
  exists s', step gc_tls_recurses gc_mar_guarded gc_finaliser_alloc_widens mitems_3_2 ex_state ex_event = Ok (s', nil).
Proof. exact MarkSweepProofs.ex_threshold_point. Qed.

(* non-vacuity of the hypotheses: a heap with a cycle through an Array of Ref, a shared Box, a
   Tuple leading through a raw object, a TLS root, a stack root and one unreachable object;
   exactly the unreachable one is freed *)
Example collect_safe_hypotheses_inhabited :
  range_ok ex_reg w8 w56 /\ order_ok ex_reg ex_order /\ wf ex_heap ex_reg ex_tls /\ raw_wf ex_heap ex_reg /\
  (forall p, In p (cons w8 (cons w16 (cons w24 (cons w32 (cons w40 nil))))) -> reach ex_heap ex_reg ex_tls ex_stack p) /\
  exists rg', collect gc_tls_recurses gc_mar_guarded ex_heap ex_reg w8 w56 (fuel_of ex_heap ex_reg ex_order)
                ex_order ex_tls ex_stack = Ok (rg', cons w56 nil).
Proof.
  exact (conj ex_range (conj ex_order_ok (conj ex_wf (conj ex_raw_wf (conj ex_reach_all ex_collect))))).
Qed.

(* the excluded case: raw objects forming a cycle through Tuple items make the (repaired)
   mark phase diverge — no mark bit can stop it *)
Theorem mark_diverges_on_raw_tuple_cycle :
  ~ raw_wf rawcyc_heap rawcyc_reg /\
  forall fuel, mark gc_tls_recurses gc_mar_guarded rawcyc_heap rawcyc_reg w8 w8 fuel (cons w8 nil) nil (cons w8 nil) nempty = OutOfFuel.
Proof. exact (conj MarkSweepProofs.rawcyc_not_raw_wf MarkSweepProofs.rawcyc_mark_diverges). Qed.
Print Assumptions mark_diverges_on_raw_tuple_cycle.

(* histories with an allocation by a finaliser are not vacuous: the garbage object w8 is swept, its
   finaliser allocates w16 and publishes it into a stack slot, the next collection keeps it *)
Example finaliser_allocation_history_kept :
  exists s, run gc_tls_recurses gc_mar_guarded gc_finaliser_alloc_widens mitems_3_2 st0 fin_hist
            = Ok (s, cons nil (cons nil (cons (cons w8 nil) (cons nil (cons nil (cons nil nil)))))).
Proof. exact MarkSweepProofs.fin_hist_kept_post. Qed.

(* seeded defect C01-r2-2 (GC_Set widens the window only after its early return): after the same
   history the window invariant range_ok is broken, and the next collection frees w16 although it
   is registered and reachable from the stack *)
Theorem finaliser_alloc_window_refuted :
  exists s5 fr5 s6,
    run true true false mitems_3_2 st0 (firstn 5 fin_hist) = Ok (s5, fr5) /\
    registered (st_reg s5) w16 = true /\
    reach (st_heap s5) (st_reg s5) (st_tls s5) (st_stack s5) w16 /\
    ~ range_ok (st_reg s5) (st_minptr s5) (st_maxptr s5) /\
    step true true false mitems_3_2 s5 ECollect = Ok (s6, cons w16 nil).
Proof. exact MarkSweepProofs.fin_hist_freed_pre. Qed.
Print Assumptions finaliser_alloc_window_refuted.

(* D16 (before the repair): an object reachable only from a thread-local value is freed *)
Theorem tls_item_callback_refuted :
  reach d16_heap d16_reg d16_tls nil w8 /\
  collect false true d16_heap d16_reg w8 w8 10 (cons w8 nil) d16_tls nil = Ok (nempty, cons w8 nil).
Proof. exact (conj MarkSweepProofs.d16_reachable MarkSweepProofs.d16_freed_pre). Qed.
Print Assumptions tls_item_callback_refuted.

(* D17 (before the repair): marking a registered heap Tuple that contains itself never terminates *)
Theorem unguarded_recurse_refuted : forall fuel,
  mark true false d17_heap d17_reg w8 w8 fuel (cons w8 nil) nil (cons w8 nil) nempty = OutOfFuel.
Proof. exact MarkSweepProofs.d17_mark_diverges. Qed.
Print Assumptions unguarded_recurse_refuted.

(* ================================================================== glue to C17 (coq/GCGlue.v)
   The theorems above take the registry abstractly (finite map address -> root flag, `order`, mark
   set) and list as hypotheses what C17 owns.  Below these hypotheses are DISCHARGED from C17's
   concrete slot-array model (RegistryModel.v, RegistryProofs.v; hashf = GC_Hash is arbitrary):
     areg (slots g)    abstraction of a C17 registry state: registered address -> root flag
     aorder (slots g)  the registered addresses in slot order
     Marked (slots g)  the addresses whose entry carries a mark bit
     cmark             GC_Mark over the C17 state: GC_Mark_Item = RegistryModel.mark_item (prefilter,
                       probe loop, mark bit), registered test of GC_Mark_And_Recurse = gc_mem
                       (GC_Mem_Ptr's probe loop), root loop over slot indices, GC_Recurse by contents
   Still hypotheses afterwards: addr_ok (the allocator returns non-NULL word-aligned addresses — not
   part of C17's invariant), wf and raw_wf (heap side: the mutator's obligations), and C17's own
   premises (dtors_ok, admissible history: the allocator never returns a registered address). *)

(* (a) in the state reached by ANY C17-admissible history: order_ok, range_ok, "lookup = exact
   membership" (GC_Mem_Ptr's probe loop answers by the abstract registry), the abstract registry is
   the ledger of the event log, no mark bit is set, no sweep is pending *)
Theorem glue_registry_hypotheses : forall hashf d rf nf ops, dtors_ok d ->
  Gadm hashf d rf nf ops gc_init ->
  let g := Grun hashf d rf nf ops gc_init in
  addr_ok (slots g) ->
  order_ok (areg (slots g)) (aorder (slots g)) /\
  range_ok (areg (slots g)) (minptr g) (maxptr g) /\
  (forall p, gc_mem hashf g p = Some (registered (areg (slots g)) p)) /\
  (forall p s, nget p (areg (slots g)) = Some s <-> led (evs g) p s) /\
  (forall q, ~ Marked (slots g) q) /\
  pending g = nil.
Proof. exact GCGlue.glue_registry_hypotheses_thm. Qed.
Print Assumptions glue_registry_hypotheses.

(* (b) GC_Mark_Item of the C17 model (prefilter + probe loop) is total, changes mark bits only, and
   the set of marked addresses grows by w exactly when w passes the prefilter and is registered:
   it IS the abstract "set the mark bit of a registered address" *)
Theorem glue_mark_item_exact : forall hashf g w,
  InvM hashf g -> nslots g <> 0 -> addr_ok (slots g) ->
  exists g', RegistryModel.mark_item hashf g w = Some (Some g') /\ PW (slots g) (slots g') /\ same_rest g g' /\
    forall q, Marked (slots g') q <->
              Marked (slots g) q \/
              (q = w /\ prefilter (minptr g) (maxptr g) w = true /\ registered (areg (slots g)) w = true).
Proof. exact GCGlue.mark_item_exact. Qed.
Print Assumptions glue_mark_item_exact.

(* (c) simulation: the concrete mark phase over the C17 registry and the abstract mark phase of the
   theorems above run in lock step — same outcome (Ok / Crash / OutOfFuel), and on Ok the C17
   invariant still holds, only mark bits changed (PW), and the marked addresses are the same *)
Theorem glue_mark_simulation : forall hashf h g fuel tls stack,
  Inv hashf g -> Quiet g -> addr_ok (slots g) -> nitems g <> 0 ->
  osim hashf (slots g) (minptr g) (maxptr g)
    (cmark hashf h fuel tls stack g)
    (mark gc_tls_recurses gc_mar_guarded h (areg (slots g)) (minptr g) (maxptr g) fuel (aorder (slots g)) tls stack nempty).
Proof. exact GCGlue.cmark_sim. Qed.
Print Assumptions glue_mark_simulation.

(* (d) one collection with the concrete registry: the concrete mark phase terminates; the concrete
   compaction loop of GC_Sweep then keeps every registered object that is root-flagged or reachable
   and reclaims only registered, non-root, unreachable objects, each once *)
Theorem glue_collect_safe : forall hashf h g tls stack,
  Inv hashf g -> Quiet g -> addr_ok (slots g) ->
  wf h (areg (slots g)) tls -> raw_wf h (areg (slots g)) ->
  exists g1 l' rm,
    cmark hashf h (fuel_of h (areg (slots g)) (aorder (slots g))) tls stack g = Ok g1 /\
    InvM hashf g1 /\ Quiet g1 /\ PW (slots g) (slots g1) /\
    reclaimed_by_sweep g1 l' rm /\ Core hashf l' /\
    (forall p s, Reg g p s -> (s = true \/ reach h (areg (slots g)) tls stack p) ->
       (exists e, Holds gentry l' e /\ ptr e = p /\ root e = s) /\ ~ In p (map ptr rm)) /\
    (forall x, In x rm -> Reg g (ptr x) false /\ ~ reach h (areg (slots g)) tls stack (ptr x)) /\
    NoDup (map ptr rm).
Proof. exact GCGlue.glue_collect_safe_thm. Qed.
Print Assumptions glue_collect_safe.

(* (e) the composed statement: collect_safe with the registry hypotheses replaced by "g is reached
   by a C17-admissible history"; the objects are named by C17's ledger of the event log; the whole
   GC_Sweep (finaliser loop included, C17's sweep_total) then succeeds and re-establishes C17's
   invariant *)
Theorem glue_history_collect_safe : forall hashf d rf nf ops h tls stack, dtors_ok d ->
  Gadm hashf d rf nf ops gc_init ->
  let g := Grun hashf d rf nf ops gc_init in
  addr_ok (slots g) -> wf h (areg (slots g)) tls -> raw_wf h (areg (slots g)) ->
  exists g1 l' rm,
    cmark hashf h (fuel_of h (areg (slots g)) (aorder (slots g))) tls stack g = Ok g1 /\
    PW (slots g) (slots g1) /\
    reclaimed_by_sweep g1 l' rm /\
    (forall p s, led (evs g) p s -> (s = true \/ reach h (areg (slots g)) tls stack p) ->
       (exists e, Holds gentry l' e /\ ptr e = p /\ root e = s) /\ ~ In p (map ptr rm)) /\
    (forall x, In x rm -> led (evs g) (ptr x) false /\ ~ reach h (areg (slots g)) tls stack (ptr x)) /\
    NoDup (map ptr rm) /\
    exists g2, Gsweep hashf d rf nf g1 = Some g2 /\ Inv hashf g2 /\ Quiet g2.
Proof. exact GCGlue.glue_history_collect_safe_thm. Qed.
Print Assumptions glue_history_collect_safe.

(* non-vacuity: C17's example history (five allocations, 11 slots, GC_Hash = ptr >> 3) is admissible,
   its registry satisfies addr_ok, a heap over the five objects (plain struct, Tuple with a cycle, Array
   of Ref, a self-referential unreachable object) satisfies wf and raw_wf; the concrete mark phase and
   compaction loop keep the three reachable objects and reclaim none of them (stated independently of the
   slot layout, so that tuning the prime table / load factor does not touch it) *)
Example glue_hypotheses_inhabited :
  Gadm ex_hash ex_d false false glue_ops gc_init /\
  addr_ok (slots glue_g) /\ wf glue_heap (areg (slots glue_g)) nil /\ raw_wf glue_heap (areg (slots glue_g)) /\
  exists g1 l' rm,
    cmark ex_hash glue_heap (fuel_of glue_heap (areg (slots glue_g)) (aorder (slots glue_g))) nil glue_stack glue_g = Ok g1 /\
    reclaimed_by_sweep g1 l' rm /\
    (forall p, In p glue_kept -> (exists e, Holds gentry l' e /\ ptr e = p) /\ ~ In p (map ptr rm)) /\
    (forall x, In x rm -> ~ In (ptr x) glue_kept).
Proof. exact GCGlue.glue_example. Qed.
