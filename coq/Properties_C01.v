(* Properties_C01.v — property C01: the collector never reclaims a reachable object and every
   collection terminates.  Only statements closed by `exact`, each followed by Print Assumptions. *)
From CelloV Require Import Generated HeapGraph MarkSweep MarkSweepProofs MarkSource.

(* the model's two switches and the transcribed function bodies agree with the C text *)
Theorem mark_model_matches_source :
  gc_mark_shape_ok = true /\ gc_tls_recurses = true /\ gc_mar_guarded = true.
Proof. exact MarkSource.source_switches. Qed.
Print Assumptions mark_model_matches_source.

(* D16 (before the repair): an object reachable only from a thread-local value is freed *)
Theorem tls_item_callback_refuted :
  reach d16_heap d16_reg d16_tls nil w8 /\
  collect false true d16_heap d16_reg w8 w8 10 (cons w8 nil) d16_tls nil = Ok (nempty, cons w8 nil).
Proof. exact (conj MarkSweepProofs.d16_reachable MarkSweepProofs.d16_freed_pre). Qed.
Print Assumptions tls_item_callback_refuted.

(* D17 (before the repair): marking a heap Tuple that contains itself never terminates *)
Theorem unguarded_recurse_refuted : forall fuel,
  mark true false d17_heap d17_reg w8 w8 fuel (cons w8 nil) nil (cons w8 nil) nempty = OutOfFuel.
Proof. exact MarkSweepProofs.d17_mark_diverges. Qed.
Print Assumptions unguarded_recurse_refuted.
