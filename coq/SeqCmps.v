(* SeqCmps.v — the element type of the C04 correspondence driver and the family of comparison
   functions handed to sort_by in the harness (definitions only; facts in SeqTheorems.v).
   Elements are pairs (identity, value); every comparison looks at the value only. *)
From Coq Require Import List Arith Bool ZArith.
Import ListNotations.

Definition elt := (Z * Z)%type.
Definition e_eqb (a b : elt) : bool := Z.eqb (snd a) (snd b).
Definition e_ltb (a b : elt) : bool := Z.ltb (snd a) (snd b).
Definition e_same (a b : elt) : bool := Z.eqb (fst a) (fst b).
Definition e_zero : elt := (0%Z, 0%Z).

(* sort_by(t, f):  0 lt (what sort() hands over)   1 gt   2 le   3 ge   4 |a| < |b|
   5 |a|/4 < |b|/4 (a key with many ties)   6 never   7 always *)
Definition z_cmp (k : nat) (x y : Z) : bool :=
  match k with
  | 0 => Z.ltb x y
  | 1 => Z.ltb y x
  | 2 => Z.leb x y
  | 3 => Z.leb y x
  | 4 => Z.ltb (Z.abs x) (Z.abs y)
  | 5 => Z.ltb (Z.abs x / 4) (Z.abs y / 4)
  | 6 => false
  | _ => true
  end.
Definition e_cmp (k : nat) (a b : elt) : bool := z_cmp k (snd a) (snd b).

(* the comparisons the sort theorem speaks about: asymmetric and transitive.  The non-strict ones
   (le, ge, always) are outside that contract: the models still say what the code does with them,
   the specification does not judge the result *)
Definition cmp_in_contract (k : nat) : bool :=
  match k with 0 | 1 | 4 | 5 | 6 => true | _ => false end.
