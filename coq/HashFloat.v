(* HashFloat.v — what Float_Cmp's `sign (a - b)` means on binary64 (Flocq), as far as C10 needs it:
   for non-NaN a, b the difference is zero or NaN only when a and b are the same float or both
   zeros (gradual underflow: the rounded difference of two distinct floats is never 0), and
   a - a is +0 or NaN (inf - inf), so cmp(a, a) = 0. *)
From Coq Require Import ZArith NArith Reals Bool Lia Lra.
From Flocq Require Import Core Plus_error BinarySingleNaN Binary Bits.
From CelloV Require Import HashModel.

Local Notation B64 := (binary_float 53 1024).
Local Instance prec53 : Prec_gt_0 53 := eq_refl.
Local Instance emax1024 : Prec_lt_emax 53 1024 := eq_refl.

Definition cmp_of (r : binary64) : Z :=
  match r with
  | B754_zero _ _ _ => 0
  | B754_nan _ _ _ _ _ => 0
  | B754_infinity _ _ s => if s then -1 else 1
  | B754_finite _ _ s _ _ _ => if s then -1 else 1
  end%Z.

Lemma float_cmp_unfold a b : float_cmp a b = cmp_of (b64_minus mode_NE (f_of_bits a) (f_of_bits b)).
Proof. reflexivity. Qed.

Lemma cmp_of_zero r : cmp_of r = 0%Z -> (exists s, r = B754_zero _ _ s) \/ Binary.is_nan _ _ r = true.
Proof.
  destruct r as [s|s|s pl e|s m e H]; simpl; intros Hc.
  - left. eauto.
  - destruct s; discriminate.
  - right. reflexivity.
  - destruct s; discriminate.
Qed.

Lemma finite_B2R_zero (x : B64) : Binary.is_finite _ _ x = true -> Binary.B2R _ _ x = 0%R ->
  exists s, x = B754_zero _ _ s.
Proof.
  destruct x as [s|s|s pl e|s m e H]; simpl; intros Hf Hr; try discriminate; eauto.
  exfalso. apply eq_0_F2R in Hr. destruct s; discriminate.
Qed.

(* the heart: finite x, y with x - y rounded to zero (or NaN) are equal or both zero *)
Lemma minus_zero_finite (x y : B64) :
  Binary.is_finite _ _ x = true -> Binary.is_finite _ _ y = true ->
  cmp_of (b64_minus mode_NE x y) = 0%Z ->
  x = y \/ ((exists s, x = B754_zero _ _ s) /\ (exists s, y = B754_zero _ _ s)).
Proof.
  intros Fx Fy Hc.
  unfold b64_minus in *.
  match type of Hc with context [Binary.Bminus _ _ ?hp ?hm _ _ _ _] =>
    pose proof (Binary.Bminus_correct 53 1024 hp hm binop_nan_pl64 mode_NE x y Fx Fy) as H;
    set (r := Binary.Bminus 53 1024 hp hm binop_nan_pl64 mode_NE x y) in *
  end.
  destruct (Rlt_bool _ _) eqn:Hov.
  - destruct H as [HR [HF HS]].
    destruct (cmp_of_zero _ Hc) as [[s Hz]|Hn].
    + rewrite Hz in HR. simpl in HR. symmetry in HR.
      unfold Rminus in HR.
      apply (round_plus_eq_0 radix2 (SpecFloat.fexp 53 1024) (round_mode mode_NE)) in HR;
        [| apply Binary.generic_format_B2R | apply generic_format_opp; apply Binary.generic_format_B2R].
      assert (Heq : Binary.B2R _ _ x = Binary.B2R _ _ y) by lra.
      destruct (Req_dec (Binary.B2R _ _ x) 0) as [Hx0|Hx0].
      * right. split; apply finite_B2R_zero; auto. rewrite <- Heq. exact Hx0.
      * left. apply Binary.B2R_Bsign_inj; auto.
        (* equal non-zero reals have equal signs *)
        destruct x as [sx|sx|sx plx ex|sx mx ex Hx], y as [sy|sy|sy ply ey|sy my ey Hy];
          simpl in *; try discriminate; try (exfalso; apply Hx0; reflexivity);
          try (exfalso; apply Hx0; rewrite Heq; reflexivity).
        destruct sx, sy; try reflexivity; exfalso.
        -- assert (F2R (Float radix2 (cond_Zopp true (Zpos mx)) ex) < 0)%R by (apply F2R_lt_0; simpl; lia).
           assert (0 < F2R (Float radix2 (cond_Zopp false (Zpos my)) ey))%R by (apply F2R_gt_0; simpl; lia).
           lra.
        -- assert (F2R (Float radix2 (cond_Zopp true (Zpos my)) ey) < 0)%R by (apply F2R_lt_0; simpl; lia).
           assert (0 < F2R (Float radix2 (cond_Zopp false (Zpos mx)) ex))%R by (apply F2R_gt_0; simpl; lia).
           lra.
    + exfalso. destruct r; simpl in *; discriminate.
  - exfalso. destruct H as [HB _].
    unfold Binary.binary_overflow in HB.
    destruct r as [s|s|s pl e|s m e Hb]; simpl in *;
      destruct (overflow_to_inf mode_NE (Binary.Bsign 53 1024 x)); try discriminate;
      destruct s; discriminate.
Qed.

Definition is_zero64 (x : B64) : Prop := exists s, x = B754_zero _ _ s.

Lemma minus_zero_nonnan (x y : B64) :
  Binary.is_nan _ _ x = false -> Binary.is_nan _ _ y = false ->
  cmp_of (b64_minus mode_NE x y) = 0%Z ->
  x = y \/ (is_zero64 x /\ is_zero64 y).
Proof.
  intros Nx Ny Hc.
  destruct (Binary.is_finite _ _ x) eqn:Fx; destruct (Binary.is_finite _ _ y) eqn:Fy.
  - apply minus_zero_finite; assumption.
  - exfalso. destruct x as [sx|sx|sx plx ex|sx mx ex Hx], y as [sy|sy|sy ply ey|sy my ey Hy];
      try discriminate; destruct sy; discriminate.
  - exfalso. destruct x as [sx|sx|sx plx ex|sx mx ex Hx], y as [sy|sy|sy ply ey|sy my ey Hy];
      try discriminate; destruct sx; discriminate.
  - destruct x as [sx|sx|sx plx ex|sx mx ex Hx], y as [sy|sy|sy ply ey|sy my ey Hy]; try discriminate.
    destruct sx, sy; try discriminate; left; reflexivity.
Qed.

Lemma minus_self (x : B64) : Binary.is_nan _ _ x = false -> cmp_of (b64_minus mode_NE x x) = 0%Z.
Proof.
  intros Nx. destruct (Binary.is_finite _ _ x) eqn:Fx.
  - unfold b64_minus.
    match goal with |- context [Binary.Bminus _ _ ?hp ?hm _ _ _ _] =>
      pose proof (Binary.Bminus_correct 53 1024 hp hm binop_nan_pl64 mode_NE x x Fx Fx) as H;
      set (r := Binary.Bminus 53 1024 hp hm binop_nan_pl64 mode_NE x x) in *
    end.
    replace (Binary.B2R 53 1024 x - Binary.B2R 53 1024 x)%R with 0%R in H by lra.
    rewrite round_0 in H by apply valid_rnd_N.
    rewrite Rabs_R0 in H.
    rewrite Rlt_bool_true in H by apply bpow_gt_0.
    destruct H as [HR [HF _]].
    destruct (finite_B2R_zero r HF HR) as [s ->]. reflexivity.
  - destruct x as [sx|sx|sx plx ex|sx mx ex Hx]; try discriminate. destruct sx; reflexivity.
Qed.

(* ------------------------------------------------------------------ on bit patterns *)
Lemma of_bits_inj a b : (a < M64)%N -> (b < M64)%N -> f_of_bits a = f_of_bits b -> a = b.
Proof.
  intros Ha Hb H. unfold f_of_bits, b64_of_bits in H.
  apply (f_equal (bits_of_binary_float 52 11)) in H.
  rewrite !bits_of_binary_float_of_bits in H; try (change (2 ^ (52 + 11 + 1))%Z with (Z.of_N M64); lia).
Qed.

Theorem float_cmp_zero a b : (a < M64)%N -> (b < M64)%N -> f_is_nan a = false -> f_is_nan b = false ->
  float_cmp a b = 0%Z -> a = b \/ (f_is_zero a = true /\ f_is_zero b = true).
Proof.
  intros Ha Hb Na Nb Hc. rewrite float_cmp_unfold in Hc.
  destruct (minus_zero_nonnan _ _ Na Nb Hc) as [Heq|[[s Hx] [s' Hy]]].
  - left. apply of_bits_inj; assumption.
  - right. unfold f_is_zero. rewrite Hx, Hy. split; reflexivity.
Qed.

Theorem float_cmp_refl a : f_is_nan a = false -> float_cmp a a = 0%Z.
Proof. intros Na. rewrite float_cmp_unfold. apply minus_self. exact Na. Qed.

(* the repaired Float_Hash respects Float_Cmp's equality *)
Theorem float_eq_hash a b : (a < M64)%N -> (b < M64)%N -> f_is_nan a = false -> f_is_nan b = false ->
  float_cmp a b = 0%Z -> float_hash true a = float_hash true b.
Proof.
  intros Ha Hb Na Nb Hc. destruct (float_cmp_zero a b Ha Hb Na Nb Hc) as [->|[Za Zb]]; [reflexivity|].
  unfold float_hash. rewrite Za, Zb. reflexivity.
Qed.

(* two zeros (any signs) compare equal *)
Lemma float_cmp_zeros a b : f_is_zero a = true -> f_is_zero b = true -> float_cmp a b = 0%Z.
Proof.
  unfold f_is_zero. rewrite float_cmp_unfold.
  destruct (f_of_bits a) as [s| | |]; try discriminate.
  destruct (f_of_bits b) as [s'| | |]; try discriminate.
  intros _ _. destruct s, s'; reflexivity.
Qed.

Lemma f_is_zero_nonnan b : f_is_zero b = true -> f_is_nan b = false.
Proof. unfold f_is_zero, f_is_nan. destruct (f_of_bits b); try discriminate. reflexivity. Qed.
