(* HashFloat.v — what Float_Cmp's `sign (a - b)` means on binary64 (Flocq), as far as C10 needs it:
   for non-NaN a, b the difference is zero or NaN only when a and b are the same float or both
   zeros (gradual underflow: the rounded difference of two distinct floats is never 0), and
   a - a is +0 or NaN (inf - inf), so cmp(a, a) = 0. *)
From Coq Require Import ZArith NArith Reals Bool Lia Lra.
From Flocq Require Import Core Plus_error BinarySingleNaN Binary Bits.
From CelloV Require Import HashModel.

Local Notation B64 := (binary_float 53 1024).
Local Instance prec53 : Prec_gt_0 53 := eq_refl.
Local Instance emax1024 : Prec_lt_emax 53 1024 := eq_refl.

Definition cmp_of (r : binary64) : Z :=
  match r with
  | B754_zero _ _ _ => 0
  | B754_nan _ _ _ _ _ => 0
  | B754_infinity _ _ s => if s then -1 else 1
  | B754_finite _ _ s _ _ _ => if s then -1 else 1
  end%Z.

Lemma float_cmp_unfold a b : float_cmp a b = cmp_of (b64_minus mode_NE (f_of_bits a) (f_of_bits b)).
Proof. reflexivity. Qed.

Lemma cmp_of_zero r : cmp_of r = 0%Z -> (exists s, r = B754_zero _ _ s) \/ Binary.is_nan _ _ r = true.
Proof.
  destruct r as [s|s|s pl e|s m e H]; simpl; intros Hc.
  - left. eauto.
  - destruct s; discriminate.
  - right. reflexivity.
  - destruct s; discriminate.
Qed.

Lemma finite_B2R_zero (x : B64) : Binary.is_finite _ _ x = true -> Binary.B2R _ _ x = 0%R ->
  exists s, x = B754_zero _ _ s.
Proof.
  destruct x as [s|s|s pl e|s m e H]; simpl; intros Hf Hr; try discriminate; eauto.
  exfalso. apply eq_0_F2R in Hr. destruct s; discriminate.
Qed.

(* the heart: finite x, y with x - y rounded to zero (or NaN) are equal or both zero *)
Lemma minus_zero_finite (x y : B64) :
  Binary.is_finite _ _ x = true -> Binary.is_finite _ _ y = true ->
  cmp_of (b64_minus mode_NE x y) = 0%Z ->
  x = y \/ ((exists s, x = B754_zero _ _ s) /\ (exists s, y = B754_zero _ _ s)).
Proof.
  intros Fx Fy Hc.
  unfold b64_minus in *.
  match type of Hc with context [Binary.Bminus _ _ ?hp ?hm _ _ _ _] =>
    pose proof (Binary.Bminus_correct 53 1024 hp hm binop_nan_pl64 mode_NE x y Fx Fy) as H;
    set (r := Binary.Bminus 53 1024 hp hm binop_nan_pl64 mode_NE x y) in *
  end.
  destruct (Rlt_bool _ _) eqn:Hov.
  - destruct H as [HR [HF HS]].
    destruct (cmp_of_zero _ Hc) as [[s Hz]|Hn].
    + rewrite Hz in HR. simpl in HR. symmetry in HR.
      unfold Rminus in HR.
      apply (round_plus_eq_0 radix2 (SpecFloat.fexp 53 1024) (round_mode mode_NE)) in HR;
        [| apply Binary.generic_format_B2R | apply generic_format_opp; apply Binary.generic_format_B2R].
      assert (Heq : Binary.B2R _ _ x = Binary.B2R _ _ y) by lra.
      destruct (Req_dec (Binary.B2R _ _ x) 0) as [Hx0|Hx0].
      * right. split; apply finite_B2R_zero; auto. rewrite <- Heq. exact Hx0.
      * left. apply Binary.B2R_Bsign_inj; auto.
        (* equal non-zero reals have equal signs *)
        destruct x as [sx|sx|sx plx ex|sx mx ex Hx], y as [sy|sy|sy ply ey|sy my ey Hy];
          simpl in *; try discriminate; try (exfalso; apply Hx0; reflexivity);
          try (exfalso; apply Hx0; rewrite Heq; reflexivity).
        destruct sx, sy; try reflexivity; exfalso.
        -- assert (F2R (Float radix2 (cond_Zopp true (Zpos mx)) ex) < 0)%R by (apply F2R_lt_0; simpl; lia).
           assert (0 < F2R (Float radix2 (cond_Zopp false (Zpos my)) ey))%R by (apply F2R_gt_0; simpl; lia).
           lra.
        -- assert (F2R (Float radix2 (cond_Zopp true (Zpos my)) ey) < 0)%R by (apply F2R_lt_0; simpl; lia).
           assert (0 < F2R (Float radix2 (cond_Zopp false (Zpos mx)) ex))%R by (apply F2R_gt_0; simpl; lia).
           lra.
    + exfalso. destruct r; simpl in *; discriminate.
  - exfalso. destruct H as [HB _].
    unfold Binary.binary_overflow in HB.
    destruct r as [s|s|s pl e|s m e Hb]; simpl in *;
      destruct (overflow_to_inf mode_NE (Binary.Bsign 53 1024 x)); try discriminate;
      destruct s; discriminate.
Qed.

Definition is_zero64 (x : B64) : Prop := exists s, x = B754_zero _ _ s.

Lemma minus_zero_nonnan (x y : B64) :
  Binary.is_nan _ _ x = false -> Binary.is_nan _ _ y = false ->
  cmp_of (b64_minus mode_NE x y) = 0%Z ->
  x = y \/ (is_zero64 x /\ is_zero64 y).
Proof.
  intros Nx Ny Hc.
  destruct (Binary.is_finite _ _ x) eqn:Fx; destruct (Binary.is_finite _ _ y) eqn:Fy.
  - apply minus_zero_finite; assumption.
  - exfalso. destruct x as [sx|sx|sx plx ex|sx mx ex Hx], y as [sy|sy|sy ply ey|sy my ey Hy];
      try discriminate; destruct sy; discriminate.
  - exfalso. destruct x as [sx|sx|sx plx ex|sx mx ex Hx], y as [sy|sy|sy ply ey|sy my ey Hy];
      try discriminate; destruct sx; discriminate.
  - destruct x as [sx|sx|sx plx ex|sx mx ex Hx], y as [sy|sy|sy ply ey|sy my ey Hy]; try discriminate.
    destruct sx, sy; try discriminate; left; reflexivity.
Qed.

Lemma minus_self (x : B64) : Binary.is_nan _ _ x = false -> cmp_of (b64_minus mode_NE x x) = 0%Z.
Proof.
  intros Nx. destruct (Binary.is_finite _ _ x) eqn:Fx.
  - unfold b64_minus.
    match goal with |- context [Binary.Bminus _ _ ?hp ?hm _ _ _ _] =>
      pose proof (Binary.Bminus_correct 53 1024 hp hm binop_nan_pl64 mode_NE x x Fx Fx) as H;
      set (r := Binary.Bminus 53 1024 hp hm binop_nan_pl64 mode_NE x x) in *
    end.
    replace (Binary.B2R 53 1024 x - Binary.B2R 53 1024 x)%R with 0%R in H by lra.
    rewrite round_0 in H by apply valid_rnd_N.
    rewrite Rabs_R0 in H.
    rewrite Rlt_bool_true in H by apply bpow_gt_0.
    destruct H as [HR [HF _]].
    destruct (finite_B2R_zero r HF HR) as [s ->]. reflexivity.
  - destruct x as [sx|sx|sx plx ex|sx mx ex Hx]; try discriminate. destruct sx; reflexivity.
Qed.

(* ------------------------------------------------------------------ on bit patterns *)
Lemma of_bits_inj a b : (a < M64)%N -> (b < M64)%N -> f_of_bits a = f_of_bits b -> a = b.
Proof.
  intros Ha Hb H. unfold f_of_bits, b64_of_bits in H.
  apply (f_equal (bits_of_binary_float 52 11)) in H.
  rewrite !bits_of_binary_float_of_bits in H; try (change (2 ^ (52 + 11 + 1))%Z with (Z.of_N M64); lia).
Qed.

Theorem float_cmp_zero a b : (a < M64)%N -> (b < M64)%N -> f_is_nan a = false -> f_is_nan b = false ->
  float_cmp a b = 0%Z -> a = b \/ (f_is_zero a = true /\ f_is_zero b = true).
Proof.
  intros Ha Hb Na Nb Hc. rewrite float_cmp_unfold in Hc.
  destruct (minus_zero_nonnan _ _ Na Nb Hc) as [Heq|[[s Hx] [s' Hy]]].
  - left. apply of_bits_inj; assumption.
  - right. unfold f_is_zero. rewrite Hx, Hy. split; reflexivity.
Qed.

Theorem float_cmp_refl a : f_is_nan a = false -> float_cmp a a = 0%Z.
Proof. intros Na. rewrite float_cmp_unfold. apply minus_self. exact Na. Qed.

(* ------------------------------------------------------------------ the shapes of Float_Hash *)
(* the zeros are exactly the bit patterns 0 and 2^63 *)
Lemma f_is_zero_iff b : (b < M64)%N -> (f_is_zero b = true <-> b = 0%N \/ b = 9223372036854775808%N).
Proof.
  intros Hb. split.
  - unfold f_is_zero, f_of_bits, b64_of_bits. intros Z.
    pose proof (bits_of_binary_float_of_bits 52 11 eq_refl eq_refl eq_refl (Z.of_N b)) as R.
    destruct (binary_float_of_bits 52 11 eq_refl eq_refl eq_refl (Z.of_N b)) as [s| | |]; try discriminate.
    assert (Hr : (0 <= Z.of_N b < 2 ^ (52 + 11 + 1))%Z)
      by (change (2 ^ (52 + 11 + 1))%Z with (Z.of_N M64); lia).
    specialize (R Hr). destruct s; cbv - [Z.of_N] in R; [right|left]; lia.
  - intros [->| ->]; vm_compute; reflexivity.
Qed.

(* (bits << 1) in a 64-bit word is 0 exactly for the same two patterns *)
Lemma shift_zero_iff b : (b < M64)%N ->
  ((w64 (N.shiftl b 1) =? 0)%N = true <-> b = 0%N \/ b = 9223372036854775808%N).
Proof.
  intros Hb. rewrite N.eqb_eq, N.shiftl_mul_pow2. unfold w64. change (2 ^ 1)%N with 2%N. unfold M64 in *.
  split.
  - intros E. destruct (N.lt_ge_cases b 9223372036854775808) as [L|G].
    + rewrite N.mod_small in E by lia. left. lia.
    + right. assert (Q : (b * 2 = 18446744073709551616 * 1 + (b * 2 - 18446744073709551616))%N) by lia.
      rewrite Q in E. rewrite N.mul_comm, N.add_comm in E.
      rewrite N.mod_add in E by discriminate. rewrite N.mod_small in E by lia. lia.
  - intros [->| ->]; reflexivity.
Qed.

Lemma float_hash_norm shape b : fh_normalising shape = true -> (b < M64)%N ->
  float_hash shape b = if f_is_zero b then 0%N else b.
Proof.
  intros Hs Hb. destruct shape as [|[|[|n]]]; try discriminate; [reflexivity|].
  unfold float_hash.
  destruct (f_is_zero b) eqn:Z, (w64 (N.shiftl b 1) =? 0)%N eqn:S; try reflexivity.
  - apply (f_is_zero_iff b Hb) in Z. apply (shift_zero_iff b Hb) in Z. congruence.
  - apply (shift_zero_iff b Hb) in S. apply (f_is_zero_iff b Hb) in S. congruence.
Qed.

(* a normalising Float_Hash respects Float_Cmp's equality *)
Theorem float_eq_hash shape a b : fh_normalising shape = true ->
  (a < M64)%N -> (b < M64)%N -> f_is_nan a = false -> f_is_nan b = false ->
  float_cmp a b = 0%Z -> float_hash shape a = float_hash shape b.
Proof.
  intros Hs Ha Hb Na Nb Hc. rewrite !float_hash_norm by assumption.
  destruct (float_cmp_zero a b Ha Hb Na Nb Hc) as [->|[Za Zb]]; [reflexivity|].
  rewrite Za, Zb. reflexivity.
Qed.

(* two zeros (any signs) compare equal *)
Lemma float_cmp_zeros a b : f_is_zero a = true -> f_is_zero b = true -> float_cmp a b = 0%Z.
Proof.
  unfold f_is_zero. rewrite float_cmp_unfold.
  destruct (f_of_bits a) as [s| | |]; try discriminate.
  destruct (f_of_bits b) as [s'| | |]; try discriminate.
  intros _ _. destruct s, s'; reflexivity.
Qed.

Lemma f_is_zero_nonnan b : f_is_zero b = true -> f_is_nan b = false.
Proof. unfold f_is_zero, f_is_nan. destruct (f_of_bits b); try discriminate. reflexivity. Qed.

(* ------------------------------------------------------------------ the two shapes of Float_Cmp agree *)
(* `(lhs > rhs) - (lhs < rhs)` on the operands and the sign of the rounded difference are the same
   function on ALL pairs of doubles: NaN gives 0 either way, inf - inf = NaN and inf == inf, the
   rounded difference of two distinct finite doubles is never 0 and has the sign of the exact one,
   an overflowing difference has the sign of the first operand. *)
Definition dir_of (x y : B64) : Z :=
  match b64_compare x y with Some Lt => -1 | Some Gt => 1 | _ => 0 end%Z.

Lemma float_cmp_direct_unfold a b : float_cmp_direct a b = dir_of (f_of_bits a) (f_of_bits b).
Proof. reflexivity. Qed.

Lemma cmp_of_finite (r : B64) : Binary.is_finite _ _ r = true ->
  (Binary.B2R _ _ r = 0%R -> cmp_of r = 0%Z) /\
  (Binary.B2R _ _ r <> 0%R -> cmp_of r = if Binary.Bsign _ _ r then (-1)%Z else 1%Z).
Proof.
  destruct r as [s|s|s pl e|s m e H]; simpl; intros F; try discriminate.
  - split; [reflexivity|]. intros N. exfalso. apply N. reflexivity.
  - split; [|reflexivity]. intros Z. exfalso. apply eq_0_F2R in Z. destruct s; discriminate.
Qed.

Lemma Bsign_B2R (x : B64) : Binary.is_finite _ _ x = true ->
  (Binary.Bsign _ _ x = true -> (Binary.B2R _ _ x <= 0)%R) /\
  (Binary.Bsign _ _ x = false -> (0 <= Binary.B2R _ _ x)%R).
Proof.
  destruct x as [s|s|s pl e|s m e H]; simpl; intros F; try discriminate.
  - split; intros _; lra.
  - split; intros ->.
    + apply Rlt_le. apply F2R_lt_0. simpl. lia.
    + apply Rlt_le. apply F2R_gt_0. simpl. lia.
Qed.

Lemma minus_direct_finite (x y : B64) :
  Binary.is_finite _ _ x = true -> Binary.is_finite _ _ y = true ->
  cmp_of (b64_minus mode_NE x y) = dir_of x y.
Proof.
  intros Fx Fy. unfold dir_of, b64_compare. rewrite Binary.Bcompare_correct by assumption.
  unfold b64_minus.
  match goal with |- context [Binary.Bminus _ _ ?hp ?hm _ _ _ _] =>
    pose proof (Binary.Bminus_correct 53 1024 hp hm binop_nan_pl64 mode_NE x y Fx Fy) as H;
    set (r := Binary.Bminus 53 1024 hp hm binop_nan_pl64 mode_NE x y) in *
  end.
  set (rx := Binary.B2R 53 1024 x) in *. set (ry := Binary.B2R 53 1024 y) in *.
  assert (Fmt : forall z : B64, generic_format radix2 (SpecFloat.fexp 53 1024) (Binary.B2R 53 1024 z))
    by (intros; apply Binary.generic_format_B2R).
  destruct (Rcompare_spec rx ry) as [Hlt|Heq|Hgt].
  - (* x < y *)
    destruct (Rlt_bool _ _) eqn:Hov.
    + destruct H as [HR [HF HS]].
      rewrite Rcompare_Lt in HS by lra.
      assert (Nz : Binary.B2R 53 1024 r <> 0%R).
      { intros Z. rewrite HR in Z. unfold Rminus in Z.
        apply (round_plus_eq_0 radix2 (SpecFloat.fexp 53 1024) (round_mode mode_NE)) in Z;
          [lra | apply Fmt | apply generic_format_opp; apply Fmt]. }
      rewrite (proj2 (cmp_of_finite r HF) Nz), HS. reflexivity.
    + destruct H as [HB Hs].
      assert (Sx : Binary.Bsign 53 1024 x = true).
      { destruct (Binary.Bsign 53 1024 x) eqn:E; [reflexivity|]. exfalso.
        pose proof (proj2 (Bsign_B2R x Fx) E). symmetry in Hs. apply negb_false_iff in Hs.
        pose proof (proj1 (Bsign_B2R y Fy) Hs). fold rx in H. fold ry in H0. lra. }
      rewrite Sx in HB. unfold Binary.binary_overflow in HB.
      destruct r as [s|s|s pl e|s m e Hb]; simpl in *;
        destruct (overflow_to_inf mode_NE true); try discriminate; injection HB as ->; reflexivity.
  - (* x = y *)
    replace (rx - ry)%R with 0%R in H by lra.
    rewrite round_0 in H by apply valid_rnd_N. rewrite Rabs_R0 in H.
    rewrite Rlt_bool_true in H by apply bpow_gt_0.
    destruct H as [HR [HF _]]. apply (proj1 (cmp_of_finite r HF)). exact HR.
  - (* x > y *)
    destruct (Rlt_bool _ _) eqn:Hov.
    + destruct H as [HR [HF HS]].
      rewrite Rcompare_Gt in HS by lra.
      assert (Nz : Binary.B2R 53 1024 r <> 0%R).
      { intros Z. rewrite HR in Z. unfold Rminus in Z.
        apply (round_plus_eq_0 radix2 (SpecFloat.fexp 53 1024) (round_mode mode_NE)) in Z;
          [lra | apply Fmt | apply generic_format_opp; apply Fmt]. }
      rewrite (proj2 (cmp_of_finite r HF) Nz), HS. reflexivity.
    + destruct H as [HB Hs].
      assert (Sx : Binary.Bsign 53 1024 x = false).
      { destruct (Binary.Bsign 53 1024 x) eqn:E; [|reflexivity]. exfalso.
        pose proof (proj1 (Bsign_B2R x Fx) E). symmetry in Hs. apply negb_true_iff in Hs.
        pose proof (proj2 (Bsign_B2R y Fy) Hs). fold rx in H. fold ry in H0. lra. }
      rewrite Sx in HB. unfold Binary.binary_overflow in HB.
      destruct r as [s|s|s pl e|s m e Hb]; simpl in *;
        destruct (overflow_to_inf mode_NE false); try discriminate; injection HB as ->; reflexivity.
Qed.

Lemma minus_direct (x y : B64) : cmp_of (b64_minus mode_NE x y) = dir_of x y.
Proof.
  destruct (Binary.is_finite _ _ x) eqn:Fx; destruct (Binary.is_finite _ _ y) eqn:Fy.
  - apply minus_direct_finite; assumption.
  - destruct x as [sx|sx|sx plx ex|sx mx ex Hx], y as [sy|sy|sy ply ey|sy my ey Hy];
      try discriminate; try (destruct sx); try (destruct sy); reflexivity.
  - destruct x as [sx|sx|sx plx ex|sx mx ex Hx], y as [sy|sy|sy ply ey|sy my ey Hy];
      try discriminate; try (destruct sx); try (destruct sy); reflexivity.
  - destruct x as [sx|sx|sx plx ex|sx mx ex Hx], y as [sy|sy|sy ply ey|sy my ey Hy];
      try discriminate; try (destruct sx); try (destruct sy); reflexivity.
Qed.

Theorem float_cmp_forms_agree : forall form a b, float_cmp_of_form form a b = float_cmp a b.
Proof.
  intros [|n] a b; [reflexivity|]. simpl. rewrite float_cmp_direct_unfold, float_cmp_unfold.
  symmetry. apply minus_direct.
Qed.
