(* ErrorsGlue.v — C12 meets C07: a failed container operation inside try/catch.
   Programs over a container state S built from guarded operations (ErrorsModel.gop: "validate every
   argument, then mutate") and try/catch blocks.  [crun] is the direct reading of the two properties
   together: a failing operation leaves the state alone and the innermost matching handler continues
   from exactly that state.  [compile] resolves each operation against the state the execution has
   reached and yields a program of the exception MACHINE of Exn.v (the macro expansion over
   struct Exception); the theorems say the machine run of the compiled program ends as [crun] says.
   MODEL + PROOFS (a glue file: both sides are defined elsewhere). *)
From Coq Require Import List Arith Bool Lia.
From CelloV Require Import Generated Exn ExnProofs TableModel ErrorsModel ErrorsProofs.
Import ListNotations.

Section Glue.
Variable S : Type.

Inductive cprog : Type :=
| CSkip
| COp (n : nat) (o : gop S nat)          (* statement n: an operation raising object [e] when a guard fails *)
| CSeq (p q : cprog)
| CTry (b : cprog) (fs : list nat) (h : cprog).

Fixpoint crun (p : cprog) (s : S) : S * option nat :=
  match p with
  | CSkip => (s, None)
  | COp _ o => run_gop S nat o s
  | CSeq p q => let '(s1, r1) := crun p s in
                match r1 with None => crun q s1 | Some e => (s1, Some e) end
  | CTry b fs h => let '(s1, r1) := crun b s in
                   match r1 with
                   | None => (s1, None)
                   | Some e => if matches fs e then crun h s1 else (s1, Some e)
                   end
  end.

(* the operations a run performs successfully, in order (the statements that DID mutate) *)
Fixpoint cdone (p : cprog) (s : S) : list nat :=
  match p with
  | CSkip => []
  | COp n o => match first_failure S nat (guards S nat o) s with Some _ => [] | None => [n] end
  | CSeq p q => let '(s1, r1) := crun p s in
                cdone p s ++ match r1 with None => cdone q s1 | Some _ => [] end
  | CTry b fs h => let '(s1, r1) := crun b s in
                   cdone b s ++ match r1 with
                                | None => []
                                | Some e => if matches fs e then cdone h s1 else []
                                end
  end.

(* every throw of the library formats a message: message number 1 (any non-empty one); the message
   arguments of the library's own throws are Ints, Strings and Types, whose Show runs no try block: PSkip *)
Fixpoint compile (p : cprog) (s : S) : prog :=
  match p with
  | CSkip => PSkip
  | COp n o => match first_failure S nat (guards S nat o) s with
               | Some e => PThrow e 1 PSkip
               | None => PTick n
               end
  | CSeq p q => PSeq (compile p s) (compile q (fst (crun p s)))
  | CTry b fs h => PTry (compile b s) fs (compile h (fst (crun b s)))
  end.

Fixpoint cnesting (p : cprog) : nat :=
  match p with
  | CSkip | COp _ _ => 0
  | CSeq p q => Nat.max (cnesting p) (cnesting q)
  | CTry b _ h => Nat.max (Datatypes.S (cnesting b)) (cnesting h)
  end.

Lemma compile_nesting p : forall s, nesting (compile p s) = cnesting p.
Proof.
  induction p as [|n o|p IHp q IHq|b IHb fs h IHh]; intros s; cbn [compile nesting cnesting].
  - reflexivity.
  - destruct (first_failure S nat (guards S nat o) s); reflexivity.
  - rewrite IHp, IHq. reflexivity.
  - rewrite IHb, IHh. reflexivity.
Qed.

(* compiled programs contain no break / continue / return *)
Lemma compile_exits_ok p : forall s ret brk, exits_ok ret brk (compile p s) = true.
Proof.
  induction p as [|n o|p IHp q IHq|b IHb fs h IHh]; intros s ret brk; cbn [compile exits_ok].
  - reflexivity.
  - destruct (first_failure S nat (guards S nat o) s); reflexivity.
  - now rewrite IHp, IHq.
  - now rewrite IHb, IHh.
Qed.

Definition ticks (t : list event) : list nat :=
  flat_map (fun e => match e with ETick n _ => [n] | EHandler _ _ _ => [] end) t.

Lemma ticks_app a b : ticks (a ++ b) = ticks a ++ ticks b.
Proof. unfold ticks. apply flat_map_app. Qed.

(* the structured reference semantics of the compiled program ends as crun says; a raised exception
   carries message 1; the ticks of the trace are the operations that succeeded *)
Lemma ref_run_compile p : forall s d c,
  let '(t, r, c') := ref_run d c (compile p s) in
  ticks t = cdone p s /\
  match snd (crun p s) with
  | None => r = RNormal
  | Some e => r = RRaised e 1 /\ c' = 1
  end.
Proof.
  induction p as [|n o|p IHp q IHq|b IHb fs h IHh]; intros s d c; cbn [compile ref_run crun cdone].
  - split; reflexivity.
  - unfold run_gop. destruct (first_failure S nat (guards S nat o) s) as [e|]; cbn; auto.
  - specialize (IHp s d c). destruct (ref_run d c (compile p s)) as [[t1 r1] c1].
    destruct (crun p s) as [s1 [e|]] eqn:E; cbn [snd fst] in *.
    + destruct IHp as [Ht [-> ->]]. cbn. rewrite Ht, app_nil_r. auto.
    + destruct IHp as [Ht ->].
      specialize (IHq s1 d c1). destruct (ref_run d c1 (compile q s1)) as [[t2 r2] c2].
      destruct IHq as [Ht2 Hr2]. split; [rewrite ticks_app, Ht, Ht2; reflexivity | exact Hr2].
  - specialize (IHb s (Datatypes.S d) c). destruct (ref_run (Datatypes.S d) c (compile b s)) as [[t1 r1] c1].
    destruct (crun b s) as [s1 [e|]] eqn:E; cbn [snd fst] in *.
    + destruct IHb as [Ht [-> ->]].
      destruct (matches fs e) eqn:M.
      * specialize (IHh s1 d 1). destruct (ref_run d 1 (compile h s1)) as [[t2 r2] c2].
        destruct IHh as [Ht2 Hr2]. split.
        -- rewrite ticks_app, Ht. cbn [ticks flat_map app]. fold (ticks t2). rewrite Ht2. reflexivity.
        -- (* compiled programs contain no break/continue/return: the handler ends as itself *)
           destruct (snd (crun h s1)); [destruct Hr2 as [-> ->] | subst r2]; cbn; auto.
      * cbn. rewrite Ht, app_nil_r. auto.
    + destruct IHb as [Ht ->]. cbn. rewrite Ht, app_nil_r. auto.
Qed.

(* a failing operation: nothing changes *)
Lemma crun_op_fails n o s e : snd (crun (COp n o) s) = Some e -> fst (crun (COp n o) s) = s.
Proof.
  cbn [crun]. destruct (run_gop S nat o s) as [s' r] eqn:R. cbn. intros ->.
  apply run_gop_atomic in R. tauto.
Qed.

(* the handler of the innermost matching try continues from the state in which the failing
   operation was ATTEMPTED, whatever ran before it in the body *)
Lemma handler_sees_pre_state pre n o fs h s :
  snd (crun pre s) = None ->
  forall e, first_failure S nat (guards S nat o) (fst (crun pre s)) = Some e ->
  matches fs e = true ->
  crun (CTry (CSeq pre (COp n o)) fs h) s = crun h (fst (crun pre s)).
Proof.
  intros Hpre e He Hm. cbn [crun]. destruct (crun pre s) as [s1 r1]. cbn [fst snd] in *. subst r1.
  unfold run_gop. rewrite He, Hm. reflexivity.
Qed.

(* whole program on the C machine (macro expansion over struct Exception), from a fresh thread *)
Theorem machine_runs_compiled p s :
  cnesting p <= exc_max_depth ->
  let '(tr, r, st') := mach (compile p s) st_init in
  ticks tr = cdone p s /\ depth st' = 0 /\
  r = match snd (crun p s) with None => MNormal | Some e => MDied (Some e) 1 end.
Proof.
  intros Hn. pose proof (whole_program (compile p s) (compile_exits_ok p s true false)) as W.
  rewrite compile_nesting in W. specialize (W Hn).
  pose proof (ref_run_compile p s 0 0) as R.
  destruct (mach (compile p s) st_init) as [[tr r] st'].
  destruct (ref_run 0 0 (compile p s)) as [[t0 r0] c0].
  destruct W as [-> [Hd ->]]. destruct R as [Ht Hr].
  split; [exact Ht | split; [exact Hd|]].
  destruct (snd (crun p s)) as [e|]; [destruct Hr as [-> ->]|rewrite Hr]; reflexivity.
Qed.

End Glue.
