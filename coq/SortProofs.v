(* SortProofs.v — the quicksort of Array_Sort_By / Tuple_Sort_By as modelled in SeqModels.v
   (Lomuto partition around the middle element, over swap) returns, with fuel = length, a
   permutation of its input that is strongly sorted by the comparison function (property C04). *)
From Coq Require Import List Arith Bool ZArith Lia Permutation Sorted FinFun.
From CelloV Require Import SeqModels.
Import ListNotations.

Section SortCorrect.
  Variable X : Type.
  Variable f : X -> X -> bool.
  Hypothesis f_asym : forall x y, f x y = true -> f y x = false.
  Hypothesis f_trans : forall x y z, f x y = true -> f y z = true -> f x z = true.

  Implicit Types xs ys : list X.

  (* ---------------------------------------------------------------- set_at, swap_at *)
  Lemma set_at_some (l : list X) i x : i < length l -> exists l', set_at l i x = Some l'.
  Proof.
    revert i. induction l as [|y l IH]; intros i H; simpl in H; [lia|].
    destruct i as [|i]; simpl; [eauto|].
    destruct (IH i ltac:(lia)) as [l' ->]. eauto.
  Qed.

  Lemma set_at_nth (l : list X) i x l' k :
    set_at l i x = Some l' -> nth_error l' k = if k =? i then Some x else nth_error l k.
  Proof.
    revert i l' k. induction l as [|y l IH]; intros i l' k H; [destruct i; discriminate|].
    destruct i as [|i]; simpl in H.
    - injection H as <-. destruct k; reflexivity.
    - destruct (set_at l i x) as [r|] eqn:E; [|discriminate]. injection H as <-.
      destruct k as [|k]; [reflexivity|]. simpl. apply (IH _ _ _ E).
  Qed.

  Lemma set_at_len (l : list X) i x l' : set_at l i x = Some l' -> length l' = length l.
  Proof.
    revert i l'. induction l as [|y l IH]; intros [|i] l' H; simpl in H; try discriminate.
    - injection H as <-. reflexivity.
    - destruct (set_at l i x) eqn:E; [|discriminate]. injection H as <-. simpl. f_equal. eauto.
  Qed.

  (* the index permutation performed by a swap *)
  Definition tr (i j k : nat) : nat := if k =? j then i else if k =? i then j else k.

  Lemma tr_invol i j k : tr i j (tr i j k) = k.
  Proof.
    unfold tr. destruct (Nat.eqb_spec k j), (Nat.eqb_spec k i); subst;
      repeat (match goal with |- context [?a =? ?b] => destruct (Nat.eqb_spec a b) end); lia.
  Qed.

  Lemma tr_inj i j : Injective (tr i j).
  Proof. intros a b H. rewrite <- (tr_invol i j a), H. apply tr_invol. Qed.

  Lemma swap_at_spec (l : list X) i j :
    i < length l -> j < length l ->
    exists l', swap_at l i j = Some l' /\ length l' = length l /\
               (forall k, nth_error l' k = nth_error l (tr i j k)) /\ Permutation l l'.
  Proof.
    intros Hi Hj. unfold swap_at.
    destruct (nth_error l i) as [a|] eqn:Ea; [|apply nth_error_None in Ea; lia].
    destruct (nth_error l j) as [b|] eqn:Eb; [|apply nth_error_None in Eb; lia].
    destruct (set_at_some l i b Hi) as [l1 H1]. rewrite H1.
    assert (Hl1 : length l1 = length l) by (eapply set_at_len; eauto).
    destruct (set_at_some l1 j a ltac:(lia)) as [l2 H2]. rewrite H2.
    assert (Hl2 : length l2 = length l) by (erewrite set_at_len; eauto).
    assert (Hn : forall k, nth_error l2 k = nth_error l (tr i j k)).
    { intros k. rewrite (set_at_nth _ _ _ _ k H2), (set_at_nth _ _ _ _ k H1). unfold tr.
      destruct (Nat.eqb_spec k j); [congruence|]. destruct (Nat.eqb_spec k i); congruence. }
    exists l2. repeat split; auto.
    apply Permutation_nth_error. split; [auto|]. exists (tr i j). split; [apply tr_inj | exact Hn].
  Qed.

  Lemma swap_at_in (l : list X) i j l' : swap_at l i j = Some l' -> i < length l /\ j < length l.
  Proof.
    unfold swap_at. destruct (nth_error l i) eqn:Ea; [|discriminate].
    destruct (nth_error l j) eqn:Eb; [|discriminate]. intros _.
    split; apply nth_error_Some; congruence.
  Qed.

  (* ---------------------------------------------------------------- windows *)
  (* every element at a position in [a, b) satisfies P *)
  Definition all_in xs (a b : nat) (P : X -> Prop) : Prop :=
    forall k x, a <= k < b -> nth_error xs k = Some x -> P x.
  (* positions outside [a, b) are untouched *)
  Definition same_out xs ys (a b : nat) : Prop :=
    forall k, k < a \/ b <= k -> nth_error ys k = nth_error xs k.
  (* whatever holds for all elements of the window [a, b) still does *)
  Definition pres xs ys (a b : nat) : Prop :=
    forall P : X -> Prop, all_in xs a b P -> all_in ys a b P.

  Lemma tr_out i j k a b : a <= i < b -> a <= j < b -> (k < a \/ b <= k) -> tr i j k = k.
  Proof.
    intros Hi Hj Hk. unfold tr. destruct (Nat.eqb_spec k j); [lia|]. destruct (Nat.eqb_spec k i); lia.
  Qed.

  Lemma tr_in i j k a b : a <= i < b -> a <= j < b -> a <= k < b -> a <= tr i j k < b.
  Proof.
    intros Hi Hj Hk. unfold tr. destruct (Nat.eqb_spec k j); [lia|]. destruct (Nat.eqb_spec k i); lia.
  Qed.

  Lemma swap_window xs i j a b :
    a <= i < b -> a <= j < b -> b <= length xs ->
    exists ys, swap_at xs i j = Some ys /\ length ys = length xs /\ Permutation xs ys /\
               (forall k, nth_error ys k = nth_error xs (tr i j k)) /\
               same_out xs ys a b /\ pres xs ys a b.
  Proof.
    intros Hi Hj Hb.
    destruct (swap_at_spec xs i j ltac:(lia) ltac:(lia)) as (ys & H1 & H2 & H3 & H4).
    exists ys. repeat split; auto.
    - intros k Hk. rewrite H3, (tr_out i j k a b); auto.
    - intros P HP k x Hk Hx. rewrite H3 in Hx. eapply HP; [|exact Hx]. apply tr_in; auto.
  Qed.

  Lemma same_out_trans xs ys zs a b : same_out xs ys a b -> same_out ys zs a b -> same_out xs zs a b.
  Proof. intros H1 H2 k Hk. rewrite H2, H1; auto. Qed.

  Lemma same_out_weaken xs ys a b a' b' : a' <= a -> b <= b' -> same_out xs ys a b -> same_out xs ys a' b'.
  Proof. intros Ha Hb H k Hk. apply H. lia. Qed.

  Lemma pres_trans xs ys zs a b : pres xs ys a b -> pres ys zs a b -> pres xs zs a b.
  Proof. intros H1 H2 P HP. apply H2, H1, HP. Qed.

  (* a change confined to a sub-window that preserves predicates there preserves them on the window *)
  Lemma pres_widen xs ys a b a' b' :
    a' <= a -> b <= b' -> same_out xs ys a b -> pres xs ys a b -> pres xs ys a' b'.
  Proof.
    intros Ha Hb Hs Hp P HP k x Hk Hx.
    destruct (Nat.lt_ge_cases k a) as [H|H]; [rewrite Hs in Hx by lia; eapply HP; eauto|].
    destruct (Nat.lt_ge_cases k b) as [H'|H']; [|rewrite Hs in Hx by lia; eapply HP; eauto].
    eapply (Hp P); [|split; eauto|exact Hx].
    intros k' x' Hk' Hx'. eapply HP; [|exact Hx']. lia.
  Qed.

  (* ---------------------------------------------------------------- the partition loop *)
  Lemma part_loop_spec n : forall xs i s r l v,
    l <= s -> s <= i -> i + n = r -> r < length xs -> nth_error xs r = Some v ->
    all_in xs l s (fun x => f x v = true) -> all_in xs s i (fun x => f x v = false) ->
    exists xs' s', part_loop f n xs i s r = Some (xs', s') /\ l <= s' <= r /\
      length xs' = length xs /\ Permutation xs xs' /\ nth_error xs' r = Some v /\
      same_out xs xs' l r /\
      all_in xs' l s' (fun x => f x v = true) /\ all_in xs' s' r (fun x => f x v = false) /\
      pres xs xs' l r.
  Proof.
    induction n as [|n IH]; intros xs i s r l v Hls Hsi Hin Hr Hv Ht Hf.
    - simpl. exists xs, s. replace r with i in * by lia.
      split; [reflexivity|]. split; [lia|]. split; [reflexivity|]. split; [apply Permutation_refl|].
      split; [exact Hv|]. split; [intros k Hk; reflexivity|]. split; [exact Ht|]. split; [exact Hf|].
      intros P HP; exact HP.
    - cbn [part_loop].
      destruct (nth_error xs i) as [a|] eqn:Ea; [|apply nth_error_None in Ea; lia].
      rewrite Hv. destruct (f a v) eqn:Efa.
      + destruct (swap_window xs i s l r ltac:(lia) ltac:(lia) ltac:(lia))
          as (xs1 & H1 & H2 & H3 & H4 & H5 & H6).
        rewrite H1.
        assert (Hv1 : nth_error xs1 r = Some v).
        { rewrite H4. unfold tr. destruct (Nat.eqb_spec r s); [lia|]. destruct (Nat.eqb_spec r i); [lia|]. exact Hv. }
        assert (Ht1 : all_in xs1 l (S s) (fun x => f x v = true)).
        { intros k x Hk Hx. rewrite H4 in Hx. unfold tr in Hx.
          destruct (Nat.eqb_spec k s) as [->|Hks].
          - rewrite Ea in Hx. injection Hx as <-. exact Efa.
          - destruct (Nat.eqb_spec k i); [lia|]. eapply Ht; [|exact Hx]. lia. }
        assert (Hf1 : all_in xs1 (S s) (S i) (fun x => f x v = false)).
        { intros k x Hk Hx. rewrite H4 in Hx. unfold tr in Hx.
          destruct (Nat.eqb_spec k s); [lia|].
          destruct (Nat.eqb_spec k i) as [->|Hki].
          - eapply Hf; [|exact Hx]. lia.
          - eapply Hf; [|exact Hx]. lia. }
        destruct (IH xs1 (S i) (S s) r l v ltac:(lia) ltac:(lia) ltac:(lia) ltac:(lia) Hv1 Ht1 Hf1)
          as (xs' & s' & G1 & G2 & G3 & G4 & G5 & G6 & G7 & G8 & G9).
        exists xs', s'.
        split; [exact G1|]. split; [lia|]. split; [lia|]. split; [eapply perm_trans; eauto|].
        split; [exact G5|]. split; [eapply same_out_trans; eauto|]. split; [exact G7|]. split; [exact G8|].
        eapply pres_trans; eauto.
      + assert (Hf1 : all_in xs s (S i) (fun x => f x v = false)).
        { intros k x Hk Hx. destruct (Nat.eq_dec k i) as [->|Hki].
          - rewrite Ea in Hx. injection Hx as <-. exact Efa.
          - eapply Hf; [|exact Hx]. lia. }
        destruct (IH xs (S i) s r l v ltac:(lia) ltac:(lia) ltac:(lia) ltac:(lia) Hv Ht Hf1)
          as (xs' & s' & G1 & G2 & G3 & G4 & G5 & G6 & G7 & G8 & G9).
        exists xs', s'.
        split; [exact G1|]. split; [lia|]. split; [lia|]. split; [exact G4|].
        split; [exact G5|]. split; [exact G6|]. split; [exact G7|]. split; [exact G8|]. exact G9.
  Qed.

  (* ---------------------------------------------------------------- X_Sort_Partition *)
  Lemma partition_spec xs l r :
    l < r -> r < length xs ->
    exists xs' s v, partition f xs l r = Some (xs', s) /\ l <= s <= r /\
      length xs' = length xs /\ Permutation xs xs' /\ nth_error xs' s = Some v /\
      same_out xs xs' l (S r) /\
      all_in xs' l s (fun x => f x v = true) /\ all_in xs' (S s) (S r) (fun x => f x v = false) /\
      pres xs xs' l (S r).
  Proof.
    intros Hlr Hr. unfold partition.
    assert (Hp : (r - l) / 2 <= r - l) by (apply Nat.div_le_upper_bound; lia).
    set (p := l + (r - l) / 2).
    destruct (swap_window xs p r l (S r) ltac:(lia) ltac:(lia) ltac:(lia))
      as (xs1 & H1 & H2 & H3 & H4 & H5 & H6).
    rewrite H1.
    destruct (nth_error xs1 r) as [v|] eqn:Ev; [|apply nth_error_None in Ev; lia].
    destruct (part_loop_spec (r - l) xs1 l l r l v ltac:(lia) ltac:(lia) ltac:(lia) ltac:(lia) Ev)
      as (xs2 & s & G1 & G2 & G3 & G4 & G5 & G6 & G7 & G8 & G9).
    { intros k x Hk; lia. }
    { intros k x Hk; lia. }
    rewrite G1.
    destruct (swap_window xs2 s r l (S r) ltac:(lia) ltac:(lia) ltac:(lia))
      as (xs3 & K1 & K2 & K3 & K4 & K5 & K6).
    rewrite K1. exists xs3, s, v.
    split; [reflexivity|]. split; [lia|]. split; [lia|].
    split; [|split; [|split; [|split; [|split]]]].
    - eapply perm_trans; [exact H3|]. eapply perm_trans; [exact G4 | exact K3].
    - rewrite K4. unfold tr. destruct (Nat.eqb_spec s r) as [->|Hsr]; [exact G5|].
      rewrite Nat.eqb_refl. exact G5.
    - eapply same_out_trans; [exact H5|]. eapply same_out_trans; [|exact K5].
      eapply same_out_weaken; [| |exact G6]; lia.
    - intros k x Hk Hx. rewrite K4 in Hx. unfold tr in Hx.
      destruct (Nat.eqb_spec k r); [lia|]. destruct (Nat.eqb_spec k s); [lia|].
      eapply G7; [|exact Hx]. lia.
    - intros k x Hk Hx. rewrite K4 in Hx. unfold tr in Hx.
      destruct (Nat.eqb_spec k r) as [->|Hkr].
      + eapply G8; [|exact Hx]. lia.
      + destruct (Nat.eqb_spec k s); [lia|]. eapply G8; [|exact Hx]. lia.
    - eapply pres_trans; [exact H6|]. eapply pres_trans; [|exact K6].
      eapply pres_widen; [| |exact G6|exact G9]; lia.
  Qed.

  (* ---------------------------------------------------------------- X_Sort_Part *)
  (* an earlier element of the window is never f-greater than a later one *)
  Definition sorted_win xs (a b : nat) : Prop :=
    forall i j x y, a <= i -> i < j -> j < b ->
      nth_error xs i = Some x -> nth_error xs j = Some y -> f y x = false.

  Lemma all_in_same xs ys a b a' b' P :
    same_out xs ys a' b' -> (b <= a' \/ b' <= a) -> all_in xs a b P -> all_in ys a b P.
  Proof.
    intros Hs Hd HP k x Hk Hx. rewrite Hs in Hx by lia. eapply HP; eauto.
  Qed.

  Lemma sort_part_spec fuel : forall xs (l r : Z),
    (0 <= l)%Z -> (r < Z.of_nat (length xs))%Z -> (r - l <= Z.of_nat fuel)%Z ->
    exists ys, sort_part f fuel xs l r = Ok ys /\ length ys = length xs /\ Permutation xs ys /\
      same_out xs ys (Z.to_nat l) (Z.to_nat (r + 1)) /\
      sorted_win ys (Z.to_nat l) (Z.to_nat (r + 1)) /\
      pres xs ys (Z.to_nat l) (Z.to_nat (r + 1)).
  Proof.
    induction fuel as [|fu IH]; intros xs l r Hl Hr Hfu.
    - assert (Hlr : (l <? r)%Z = false) by (apply Z.ltb_ge; lia).
      exists xs. cbn [sort_part]. rewrite Hlr.
      split; [reflexivity|]. split; [reflexivity|]. split; [apply Permutation_refl|].
      split; [intros k Hk; reflexivity|]. split; [|intros P HP; exact HP].
      intros i j x y H1 H2 H3. apply Z.ltb_ge in Hlr. lia.
    - cbn [sort_part]. destruct (Z.ltb_spec l r) as [Hlr|Hlr].
      2:{ exists xs. split; [reflexivity|]. split; [reflexivity|]. split; [apply Permutation_refl|].
          split; [intros k Hk; reflexivity|]. split; [|intros P HP; exact HP].
          intros i j x y H1 H2 H3. lia. }
      destruct (Z.ltb_spec l 0) as [Hl0|_]; [lia|].
      set (L := Z.to_nat l) in *. set (R := Z.to_nat r) in *.
      replace (Z.to_nat (r + 1)) with (S R) by lia.
      destruct (partition_spec xs L R ltac:(lia) ltac:(lia))
        as (xs1 & s & v & P1 & P2 & P3 & P4 & P5 & P6 & P7 & P8 & P9).
      rewrite P1.
      destruct (IH xs1 l (Z.of_nat s - 1)%Z ltac:(lia) ltac:(lia) ltac:(lia))
        as (xs2 & A1 & A2 & A3 & A4 & A5 & A6).
      rewrite A1. fold L in A4, A5, A6.
      replace (Z.to_nat (Z.of_nat s - 1 + 1)) with s in A4, A5, A6 by lia.
      destruct (IH xs2 (Z.of_nat s + 1)%Z r ltac:(lia) ltac:(lia) ltac:(lia))
        as (xs3 & B1 & B2 & B3 & B4 & B5 & B6).
      rewrite B1.
      replace (Z.to_nat (r + 1)) with (S R) in B4, B5, B6 by lia.
      replace (Z.to_nat (Z.of_nat s + 1)) with (S s) in B4, B5, B6 by lia.
      (* facts about xs2 *)
      assert (T2 : all_in xs2 L s (fun x => f x v = true)) by (apply A6; exact P7).
      assert (V2 : nth_error xs2 s = Some v) by (rewrite A4 by lia; exact P5).
      assert (F2 : all_in xs2 (S s) (S R) (fun x => f x v = false))
        by (eapply all_in_same; [exact A4 | lia | exact P8]).
      (* facts about xs3 *)
      assert (T3 : all_in xs3 L s (fun x => f x v = true))
        by (eapply all_in_same; [exact B4 | lia | exact T2]).
      assert (V3 : nth_error xs3 s = Some v) by (rewrite B4 by lia; exact V2).
      assert (F3 : all_in xs3 (S s) (S R) (fun x => f x v = false)) by (apply B6; exact F2).
      exists xs3. split; [reflexivity|]. split; [lia|].
      split; [eapply perm_trans; [exact P4|]; eapply perm_trans; [exact A3 | exact B3]|].
      split; [|split].
      + eapply same_out_trans; [exact P6|]. eapply same_out_trans.
        * eapply same_out_weaken; [| |exact A4]; lia.
        * eapply same_out_weaken; [| |exact B4]; lia.
      + intros i j x y Hi Hij Hj Hx Hy.
        destruct (Nat.lt_trichotomy i s) as [His|[His|His]];
          destruct (Nat.lt_trichotomy j s) as [Hjs|[Hjs|Hjs]]; try lia.
        * (* both left *)
          rewrite B4 in Hx, Hy by lia. eapply (A5 i j); eauto.
        * (* left, pivot *)
          subst j. rewrite V3 in Hy. injection Hy as <-.
          apply f_asym. eapply T3; [|exact Hx]. lia.
        * (* left, right *)
          assert (Hxv : f x v = true) by (eapply T3; [|exact Hx]; lia).
          assert (Hyv : f y v = false) by (eapply F3; [|exact Hy]; lia).
          destruct (f y x) eqn:Eyx; [|reflexivity].
          rewrite (f_trans y x v Eyx Hxv) in Hyv. discriminate.
        * (* pivot, right *)
          subst i. rewrite V3 in Hx. injection Hx as <-.
          eapply F3; [|exact Hy]. lia.
        * (* both right *)
          eapply (B5 i j); eauto; lia.
      + eapply pres_trans; [exact P9|]. eapply pres_trans.
        * eapply pres_widen; [| |exact A4|exact A6]; lia.
        * eapply pres_widen; [| |exact B4|exact B6]; lia.
  Qed.

  Lemma sorted_positional (R : X -> X -> Prop) ys :
    (forall i j x y, i < j -> nth_error ys i = Some x -> nth_error ys j = Some y -> R x y) ->
    StronglySorted R ys.
  Proof.
    induction ys as [|a ys IH]; intros H; constructor.
    - apply IH. intros i j x y Hij Hx Hy. apply (H (S i) (S j)); auto. lia.
    - apply Forall_forall. intros y Hy. apply In_nth_error in Hy as [j Hj].
      apply (H 0 (S j)); auto. lia.
  Qed.

  (* main theorem: fuel = length is adequate (never Fuel, never Crash); the result is a
     permutation of the input, strongly sorted: an earlier element is never f-greater than a later one *)
  Theorem qsort_correct : forall xs : list X,
    exists ys, qsort f xs = Ok ys /\ Permutation xs ys /\
               StronglySorted (fun x y => f y x = false) ys.
  Proof.
    intros xs. unfold qsort.
    destruct (sort_part_spec (length xs) xs 0%Z (Z.of_nat (length xs) - 1)%Z ltac:(lia) ltac:(lia) ltac:(lia))
      as (ys & H1 & H2 & H3 & H4 & H5 & H6).
    exists ys. split; [exact H1|]. split; [exact H3|].
    apply sorted_positional. intros i j x y Hij Hx Hy.
    apply (H5 i j x y); auto; try lia.
    assert (j < length ys) by (apply nth_error_Some; congruence). lia.
  Qed.

  Lemma qsort_length xs ys : qsort f xs = Ok ys -> length ys = length xs.
  Proof.
    intros H. destruct (qsort_correct xs) as (ys' & H1 & H2 & _).
    rewrite H in H1. injection H1 as <-. symmetry. apply Permutation_length. exact H2.
  Qed.
End SortCorrect.
