(* MarkSweepProofs.v — proofs about the mark/sweep model (C01). *)
From Coq Require Import List Arith NArith PArith Bool FMapPositive Lia.
From CelloV Require Import HeapGraph MarkSweep.
Import ListNotations.

(* ------------------------------------------------------------------ finite maps *)
Lemma nget_nset_same {A} (w : word) (a : A) m : w <> 0%N -> nget w (nset w a m) = Some a.
Proof. destruct w; [congruence|]. intros _. simpl. apply PM.gss. Qed.

Lemma nget_nset_other {A} (w w' : word) (a : A) m : w <> w' -> nget w (nset w' a m) = nget w m.
Proof.
  destruct w, w'; simpl; intros H; try reflexivity.
  apply PM.gso. congruence.
Qed.

Lemma nget_ndel_same {A} (w : word) (m : nmap A) : nget w (ndel w m) = None.
Proof. destruct w; simpl; [reflexivity|]. apply PM.grs. Qed.

Lemma nget_ndel_other {A} (w w' : word) (m : nmap A) : w <> w' -> nget w (ndel w' m) = nget w m.
Proof.
  destruct w, w'; simpl; intros H; try reflexivity.
  apply PM.gro. congruence.
Qed.

Lemma nget_nempty {A} (w : word) : nget w (@nempty A) = None.
Proof. destruct w; simpl; [reflexivity|]. apply PM.gempty. Qed.

Lemma registered_nonzero rg w : registered rg w = true -> w <> 0%N.
Proof. unfold registered. destruct w; simpl; congruence. Qed.

Lemma is_root_registered rg w : is_root rg w = true -> registered rg w = true.
Proof. unfold is_root, registered. destruct (nget w rg); congruence. Qed.

Lemma marked_nempty w : marked nempty w = false.
Proof. unfold marked. rewrite nget_nempty. reflexivity. Qed.

Lemma marked_setmark_same m w : w <> 0%N -> marked (setmark w m) w = true.
Proof. intros H. unfold marked, setmark. rewrite nget_nset_same by assumption. reflexivity. Qed.

Lemma marked_setmark_other m w w' : w <> w' -> marked (setmark w' m) w = marked m w.
Proof. intros H. unfold marked, setmark. rewrite nget_nset_other by assumption. reflexivity. Qed.

Lemma marked_setmark_mono m w w' : marked m w = true -> marked (setmark w' m) w = true.
Proof.
  intros H. destruct (N.eq_dec w w') as [->|Hn].
  - destruct (N.eq_dec w' 0%N) as [->|Hz].
    + unfold marked in H. simpl in H. discriminate.
    + apply marked_setmark_same; assumption.
  - rewrite marked_setmark_other; assumption.
Qed.

Definition sub (m m' : marks) : Prop := forall w, marked m w = true -> marked m' w = true.

Lemma sub_refl m : sub m m. Proof. intros w H; exact H. Qed.
Lemma sub_trans m1 m2 m3 : sub m1 m2 -> sub m2 m3 -> sub m1 m3.
Proof. intros H1 H2 w H. auto. Qed.
Lemma sub_setmark m w : sub m (setmark w m).
Proof. intros x H. apply marked_setmark_mono; assumption. Qed.

(* induction principle for the nested type *)
Section ContentsInd.
  Variable P : contents -> Prop.
  Hypothesis HW : forall ws, P (Words ws).
  Hypothesis HE : forall es, Forall P es -> P (Elems es).
  Hypothesis HI : forall ps, P (Items ps).
  Hypothesis HL : P NoPtr.
  Fixpoint contents_ind' (c : contents) : P c :=
    match c with
    | Words ws => HW ws
    | Elems es => HE es ((fix go (l : list contents) : Forall P l :=
                            match l with
                            | [] => Forall_nil P
                            | e :: r => Forall_cons e (contents_ind' e) (go r)
                            end) es)
    | Items ps => HI ps
    | NoPtr => HL
    end.
End ContentsInd.

Lemma bind_ok {A B} (o : outcome A) (f : A -> outcome B) b :
  bind o f = Ok b -> exists a, o = Ok a /\ f a = Ok b.
Proof. destruct o; simpl; intros H; try discriminate. eauto. Qed.

Lemma fold_o_cons {A S} (f : A -> S -> outcome S) a l s :
  fold_o f (a :: l) s = bind (f a s) (fold_o f l).
Proof. reflexivity. Qed.

Lemma filter_length_le {A} (f g : A -> bool) l :
  (forall x, In x l -> f x = true -> g x = true) -> length (filter f l) <= length (filter g l).
Proof.
  induction l as [|a l IH]; intros H; simpl; [lia|].
  assert (IH' : length (filter f l) <= length (filter g l)) by (apply IH; intros; apply H; simpl; auto).
  destruct (f a) eqn:Fa.
  - rewrite (H a (or_introl eq_refl) Fa). simpl. lia.
  - destruct (g a); simpl; lia.
Qed.

Lemma filter_length_lt {A} (f g : A -> bool) l w :
  (forall x, In x l -> f x = true -> g x = true) -> In w l -> g w = true -> f w = false ->
  length (filter f l) < length (filter g l).
Proof.
  induction l as [|a l IH]; intros H Hin Gw Fw; simpl; [destruct Hin|].
  assert (Hle : length (filter f l) <= length (filter g l)) by (apply filter_length_le; intros; apply H; simpl; auto).
  destruct Hin as [->|Hin].
  - rewrite Fw, Gw. simpl. lia.
  - assert (IH' : length (filter f l) < length (filter g l)) by (apply IH; auto; intros; apply H; simpl; auto).
    destruct (f a) eqn:Fa.
    + rewrite (H a (or_introl eq_refl) Fa). simpl. lia.
    + destruct (g a); simpl; lia.
Qed.

Lemma filter_length_bound {A} (f : A -> bool) l : length (filter f l) <= length l.
Proof. induction l as [|a l IH]; simpl; [lia|]. destruct (f a); simpl; lia. Qed.

(* ------------------------------------------------------------------ the depth-first lemma *)
Section Dfs.
  Variable tls_recurses : bool.
  Variable h : heap.
  Variable rg : registry.
  Variables (minptr maxptr : N).
  Hypothesis Hrange : range_ok rg minptr maxptr.

  Notation pts := (pts h rg).
  Notation reg := (registered rg).

  Lemma prefilter_registered w : reg w = true -> prefilter minptr maxptr w = true.
  Proof.
    intros H. destruct (Hrange w H) as (H1 & H2 & H3). unfold prefilter.
    apply N.eqb_eq in H1. apply N.leb_le in H2. apply N.leb_le in H3.
    rewrite H1, H2, H3. reflexivity.
  Qed.

  (* every entry marked by the step m -> m' has all its registered successors marked in m' *)
  Definition newly_closed (m m' : marks) : Prop :=
    forall p, marked m' p = true -> marked m p = false ->
      forall c q, nget p h = Some c -> pts c q -> reg q = true -> marked m' q = true.

  Lemma newly_closed_refl m : newly_closed m m.
  Proof. intros p H1 H2. congruence. Qed.

  Lemma newly_closed_trans m1 m2 m3 :
    sub m2 m3 -> newly_closed m1 m2 -> newly_closed m2 m3 -> newly_closed m1 m3.
  Proof.
    intros S23 N12 N23 p H3 H1 c q Hc Hp Hq.
    destruct (marked m2 p) eqn:E2.
    - apply S23. eapply N12; eauto.
    - eapply N23; eauto.
  Qed.

  Definition step_ok (m m' : marks) : Prop := sub m m' /\ newly_closed m m'.

  Lemma step_ok_refl m : step_ok m m.
  Proof. split; [apply sub_refl|apply newly_closed_refl]. Qed.

  Lemma step_ok_trans m1 m2 m3 : step_ok m1 m2 -> step_ok m2 m3 -> step_ok m1 m3.
  Proof.
    intros [S12 N12] [S23 N23]. split; [eapply sub_trans; eauto|eapply newly_closed_trans; eauto].
  Qed.

  (* what a tracer of contents must deliver *)
  Definition covers (c : contents) (m : marks) : Prop :=
    forall q, pts c q -> reg q = true -> marked m q = true.

  Definition rec_ok (rec : contents -> marks -> outcome marks) : Prop :=
    forall c m m', rec c m = Ok m' -> step_ok m m' /\ covers c m'.

  Lemma fold_o_ok {A} (f : A -> marks -> outcome marks) (Q : A -> marks -> Prop) (l : list A) :
    (forall a m m', In a l -> f a m = Ok m' -> step_ok m m' /\ Q a m') ->
    (forall a m m', Q a m -> sub m m' -> Q a m') ->
    forall m m', fold_o f l m = Ok m' -> step_ok m m' /\ forall a, In a l -> Q a m'.
  Proof.
    intros Hf Hmono. induction l as [|a l IH]; intros m m' H.
    - simpl in H. inversion H; subst. split; [apply step_ok_refl|]. intros a [].
    - rewrite fold_o_cons in H. apply bind_ok in H. destruct H as (m1 & H1 & H2).
      destruct (Hf a m m1 (or_introl eq_refl) H1) as [S1 Q1].
      assert (Hf' : forall a0 m0 m0', In a0 l -> f a0 m0 = Ok m0' -> step_ok m0 m0' /\ Q a0 m0')
        by (intros; apply Hf; simpl; auto).
      destruct (IH Hf' m1 m' H2) as [S2 Q2].
      split; [eapply step_ok_trans; eauto|].
      intros b [<-|Hb]; [|auto].
      eapply Hmono; [exact Q1|apply S2].
  Qed.

  Section Level.
    Variable rec : contents -> marks -> outcome marks.
    Hypothesis Hrec : rec_ok rec.

    Lemma descend_marked_ok w m m' :
      reg w = true -> marked m w = false ->
      descend h rec w (setmark w m) = Ok m' -> step_ok m m' /\ marked m' w = true.
    Proof.
      intros Hw Hm H. unfold descend in H. destruct (nget w h) as [c|] eqn:Hc; [|discriminate].
      destruct (Hrec _ _ _ H) as [[S N] C].
      pose proof (registered_nonzero _ _ Hw) as Hnz.
      assert (Hmw : marked m' w = true) by (apply S; apply marked_setmark_same; assumption).
      split; [|assumption]. split.
      - eapply sub_trans; [apply sub_setmark|exact S].
      - intros p Hp' Hp c' q Hc' Hpts Hq.
        destruct (N.eq_dec p w) as [->|Hne].
        + rewrite Hc in Hc'. inversion Hc'; subst c'. apply C; assumption.
        + eapply N; eauto. rewrite marked_setmark_other; assumption.
    Qed.

    Lemma mark_item_ok w m m' :
      mark_item h rg minptr maxptr rec w m = Ok m' ->
      step_ok m m' /\ (reg w = true -> marked m' w = true).
    Proof.
      unfold mark_item. intros H.
      destruct (reg w) eqn:Hw.
      - rewrite (prefilter_registered w Hw) in H.
        destruct (marked m w) eqn:Hm.
        + inversion H; subst. split; [apply step_ok_refl|auto].
        + destruct (descend_marked_ok w m m' Hw Hm H) as [S M]. split; auto.
      - assert (m' = m) by (destruct (prefilter minptr maxptr w); inversion H; reflexivity). subst.
        split; [apply step_ok_refl|intros; congruence].
    Qed.

    (* what handing the item pointer p to GC_Mark_And_Recurse must deliver *)
    Definition item_covers (p : word) (m : marks) : Prop :=
      (reg p = true -> marked m p = true) /\
      (reg p = false -> forall c, nget p h = Some c -> covers c m).

    Lemma mark_and_recurse_ok p m m' :
      mark_and_recurse true h rg minptr maxptr rec p m = Ok m' ->
      step_ok m m' /\ item_covers p m'.
    Proof.
      unfold mark_and_recurse. intros H. destruct (reg p) eqn:Hp.
      - destruct (mark_item_ok _ _ _ H) as [S M]. split; [exact S|]. split; [auto|intros; congruence].
      - unfold descend in H. destruct (nget p h) as [c|] eqn:Hc; [|discriminate].
        destruct (Hrec _ _ _ H) as [S C]. split; [exact S|]. split; [intros; congruence|].
        intros _ c' Hc'. rewrite Hc in Hc'. inversion Hc'; subst. exact C.
    Qed.

    Lemma covers_mono c m m' : covers c m -> sub m m' -> covers c m'.
    Proof. intros C S q Hq Hr. apply S. apply C; assumption. Qed.

    Lemma trace_with_ok : rec_ok (trace_with true h rg minptr maxptr rec).
    Proof.
      intros c. induction c as [ws|es IH|ps|] using contents_ind'; intros m m' H; cbn [trace_with] in H.
      - (* Words *)
        assert (H1 : forall a m0 m0', In a ws -> mark_item h rg minptr maxptr rec a m0 = Ok m0' ->
                       step_ok m0 m0' /\ (reg a = true -> marked m0' a = true))
          by (intros a m0 m0' _ Ha; apply mark_item_ok; exact Ha).
        assert (H2 : forall (a : word) m0 m0', (reg a = true -> marked m0 a = true) -> sub m0 m0' ->
                       (reg a = true -> marked m0' a = true))
          by (intros a m0 m0' Ha Hs Hr; apply Hs; auto).
        destruct (fold_o_ok _ _ ws H1 H2 m m' H) as [S Q].
        split; [exact S|]. intros q Hq Hr. inversion Hq; subst. apply Q; assumption.
      - (* Elems *)
        assert (H1 : forall a m0 m0', In a es -> trace_with true h rg minptr maxptr rec a m0 = Ok m0' ->
                       step_ok m0 m0' /\ covers a m0')
          by (intros a m0 m0' Ha Hf; rewrite Forall_forall in IH; apply (IH a Ha); exact Hf).
        assert (H2 : forall a m0 m0', covers a m0 -> sub m0 m0' -> covers a m0')
          by (intros a m0 m0'; apply covers_mono).
        destruct (fold_o_ok _ _ es H1 H2 m m' H) as [S Q].
        split; [exact S|]. intros q Hq Hr. inversion Hq; subst. eapply Q; eauto.
      - (* Items *)
        assert (H1 : forall a m0 m0', In a ps -> mark_and_recurse true h rg minptr maxptr rec a m0 = Ok m0' ->
                       step_ok m0 m0' /\ item_covers a m0')
          by (intros a m0 m0' _ Ha; apply mark_and_recurse_ok; exact Ha).
        assert (H2 : forall a m0 m0', item_covers a m0 -> sub m0 m0' -> item_covers a m0').
        { intros a m0 m0' [C1 C2] Hs. split.
          - intros Hr. apply Hs. auto.
          - intros Hr c0 Hc0. eapply covers_mono; eauto. }
        destruct (fold_o_ok _ _ ps H1 H2 m m' H) as [S Q].
        split; [exact S|]. intros q Hq Hr. inversion Hq; subst.
        + destruct (Q q H3) as [C1 _]. auto.
        + destruct (Q p H3) as [_ C2]. eapply C2; eauto.
      - inversion H; subst. split; [apply step_ok_refl|]. intros q Hq. inversion Hq.
    Qed.

    Lemma root_step_ok p m m' :
      root_step h rg rec p m = Ok m' -> step_ok m m' /\ (is_root rg p = true -> marked m' p = true).
    Proof.
      unfold root_step. intros H. destruct (is_root rg p) eqn:Hr; simpl in H.
      - destruct (marked m p) eqn:Hm; simpl in H.
        + inversion H; subst. split; [apply step_ok_refl|auto].
        + pose proof (is_root_registered _ _ Hr) as Hreg.
          destruct (descend_marked_ok p m m' Hreg Hm H) as [S M]. split; auto.
      - inversion H; subst. split; [apply step_ok_refl|intros; congruence].
    Qed.
  End Level.

  Lemma trace_ok : forall fuel, rec_ok (trace true h rg minptr maxptr fuel).
  Proof.
    induction fuel as [|f IH].
    - intros c m m' H. discriminate.
    - cbn [trace]. apply trace_with_ok. exact IH.
  Qed.
End Dfs.

(* ------------------------------------------------------------------ completeness of mark *)
Section Complete.
  Variable h : heap.
  Variable rg : registry.
  Variables (minptr maxptr : N).
  Hypothesis Hrange : range_ok rg minptr maxptr.
  Variable order : list word.
  Hypothesis Horder : order_ok rg order.

  Lemma mark_complete_lemma fuel tls stack m' :
    mark true true h rg minptr maxptr fuel order tls stack nempty = Ok m' ->
    forall q, reach h rg tls stack q -> registered rg q = true -> marked m' q = true.
  Proof.
    intros H. unfold mark in H. destruct order as [|o0 ord'] eqn:Eo.
    - (* nothing is registered *)
      intros q _ Hq. destruct Horder as [_ Hin]. apply Hin in Hq. destruct Hq.
    - rewrite <- Eo in *. clear Eo o0 ord'.
      set (rec := trace true h rg minptr maxptr fuel) in *.
      assert (Hrec : rec_ok h rg rec) by (apply trace_ok; assumption).
      apply bind_ok in H. destruct H as (m1 & H1 & H). apply bind_ok in H. destruct H as (m2 & H2 & H3).
      (* TLS pass *)
      assert (T1 : forall a m0 m0', In a tls -> trace_with true h rg minptr maxptr rec a m0 = Ok m0' ->
                     step_ok h rg m0 m0' /\ covers h rg a m0')
        by (intros a m0 m0' _ Ha; eapply trace_with_ok; eauto).
      assert (T2 : forall a m0 m0', covers h rg a m0 -> sub m0 m0' -> covers h rg a m0')
        by (intros a m0 m0'; apply covers_mono).
      destruct (fold_o_ok h rg _ _ tls T1 T2 _ _ H1) as [S1 Q1].
      (* root pass *)
      assert (R1 : forall a m0 m0', In a order -> root_step h rg rec a m0 = Ok m0' ->
                     step_ok h rg m0 m0' /\ (is_root rg a = true -> marked m0' a = true))
        by (intros a m0 m0' _ Ha; eapply root_step_ok; eauto).
      assert (R2 : forall (a : word) m0 m0', (is_root rg a = true -> marked m0 a = true) -> sub m0 m0' ->
                     (is_root rg a = true -> marked m0' a = true))
        by (intros a m0 m0' Ha Hs Hr; apply Hs; auto).
      destruct (fold_o_ok h rg _ _ order R1 R2 _ _ H2) as [S2 Q2].
      (* stack pass *)
      assert (K1 : forall a m0 m0', In a stack -> mark_item h rg minptr maxptr rec a m0 = Ok m0' ->
                     step_ok h rg m0 m0' /\ (registered rg a = true -> marked m0' a = true))
        by (intros a m0 m0' _ Ha; eapply mark_item_ok; eauto).
      assert (K2 : forall (a : word) m0 m0', (registered rg a = true -> marked m0 a = true) -> sub m0 m0' ->
                     (registered rg a = true -> marked m0' a = true))
        by (intros a m0 m0' Ha Hs Hr; apply Hs; auto).
      destruct (fold_o_ok h rg _ _ stack K1 K2 _ _ H3) as [S3 Q3].
      assert (Sall : step_ok h rg nempty m') by (eapply step_ok_trans; [eapply step_ok_trans; eauto|eauto]).
      destruct Sall as [_ Nall].
      assert (Closed : forall p, marked m' p = true -> forall c q, nget p h = Some c -> pts h rg c q ->
                         registered rg q = true -> marked m' q = true)
        by (intros p Hp; eapply Nall; [exact Hp|apply marked_nempty]).
      intros q Hreach. induction Hreach as [e q He Hp|p c q Hr Hc Hp|q Hs|p c q Hreach IH Hrp Hc Hp]; intros Hq.
      + apply S3, S2. eapply Q1; eauto.
      + eapply Closed; eauto. apply S3. apply Q2; [|exact Hr].
        destruct Horder as [_ Hin]. apply Hin. apply is_root_registered; assumption.
      + apply Q3; assumption.
      + eapply Closed; eauto.
  Qed.
End Complete.

(* ------------------------------------------------------------------ sweep *)
Section Sweep.
  Variable rg : registry.

  Lemma registered_after_dels fin p :
    registered (fold_right ndel rg fin) p = true <-> registered rg p = true /\ ~ In p fin.
  Proof.
    induction fin as [|a fin IH]; simpl.
    - tauto.
    - unfold registered at 1. destruct (N.eq_dec p a) as [->|Hne].
      + rewrite nget_ndel_same. split; [discriminate|]. intros [_ Hn]. exfalso. apply Hn. auto.
      + rewrite nget_ndel_other by assumption. fold (registered (fold_right ndel rg fin) p).
        rewrite IH. split; intros [H1 H2]; split; auto.
        * intros [E|E]; [congruence|auto].
  Qed.

  Lemma is_root_after_dels fin p :
    ~ In p fin -> is_root (fold_right ndel rg fin) p = is_root rg p.
  Proof.
    induction fin as [|a fin IH]; simpl; intros Hn; [reflexivity|].
    unfold is_root at 1. rewrite nget_ndel_other by (intros ->; apply Hn; auto).
    fold (is_root (fold_right ndel rg fin) p). apply IH. tauto.
  Qed.

  Lemma sweep_spec order m rg' fin :
    sweep rg order m = (rg', fin) ->
    (forall p, In p fin <-> In p order /\ registered rg p = true /\ is_root rg p = false /\ marked m p = false) /\
    (forall p, registered rg' p = true <-> registered rg p = true /\ ~ In p fin) /\
    (NoDup order -> NoDup fin).
  Proof.
    unfold sweep. intros H. inversion H; subst. clear H. split; [|split].
    - intros p. rewrite filter_In. unfold doomed. rewrite !andb_true_iff, !negb_true_iff. tauto.
    - intros p. apply registered_after_dels.
    - apply NoDup_filter.
  Qed.
End Sweep.

(* ------------------------------------------------------------------ fuel adequacy, no crash *)
Section Total.
  Variable h : heap.
  Variable rg : registry.
  Variables (minptr maxptr : N).
  Hypothesis Hrange : range_ok rg minptr maxptr.
  Variable order : list word.
  Hypothesis Horder : order_ok rg order.
  Hypothesis Hreg_heap : forall p, registered rg p = true -> nget p h <> None.
  Hypothesis Hitems : forall p c, nget p h = Some c -> items_ok h c.
  Variable rk : word -> nat.
  Hypothesis Hrk_bound : forall p, rk p <= nraw h rg.
  Hypothesis Hrk_dec : forall p c q, is_raw h rg p = true -> nget p h = Some c -> In q (item_ptrs c) ->
                                     is_raw h rg q = true -> rk q < rk p.

  Notation R := (nraw h rg).
  Notation W := (nraw h rg + 2).
  Definition unmarked_count (m : marks) : nat := length (filter (fun p => negb (marked m p)) order).
  Notation U := unmarked_count.

  Definition rawbound (c : contents) (r : nat) : Prop :=
    forall q, In q (item_ptrs c) -> is_raw h rg q = true -> rk q < r.

  Definition total (rec : contents -> marks -> outcome marks) (b : nat) : Prop :=
    forall c m r, items_ok h c -> rawbound c r -> U m * W + r <= b -> exists m', rec c m = Ok m'.

  Lemma total_mono rec b b' : total rec b -> b' <= b -> total rec b'.
  Proof. intros T Hle c m r H1 H2 H3. apply (T c m r H1 H2). lia. Qed.

  Lemma U_sub m m' : sub m m' -> U m' <= U m.
  Proof.
    intros S. apply filter_length_le. intros x _ Hx. rewrite negb_true_iff in *.
    destruct (marked m x) eqn:E; [|reflexivity]. rewrite (S x E) in Hx. discriminate.
  Qed.

  Lemma U_le_order m : U m <= length order.
  Proof. apply filter_length_bound. Qed.

  Lemma U_setmark w m : registered rg w = true -> marked m w = false -> U (setmark w m) < U m.
  Proof.
    intros Hw Hm. apply filter_length_lt with (w := w).
    - intros x _ Hx. rewrite negb_true_iff in *.
      destruct (marked m x) eqn:E; [|reflexivity]. rewrite (marked_setmark_mono _ _ w E) in Hx. discriminate.
    - destruct Horder as [_ Hin]. apply Hin. exact Hw.
    - rewrite Hm. reflexivity.
    - rewrite marked_setmark_same; [reflexivity|]. eapply registered_nonzero; eauto.
  Qed.

  Lemma rawbound_heap c : rawbound c (R + 1).
  Proof. intros q _ _. pose proof (Hrk_bound q). lia. Qed.

  Lemma descend_reg_total rec b' p m :
    total rec b' -> U m * W <= b' + 1 -> registered rg p = true -> marked m p = false ->
    exists m', descend h rec p (setmark p m) = Ok m'.
  Proof.
    intros T Hb Hp Hm. unfold descend. destruct (nget p h) as [c|] eqn:Hc; [|exfalso; eapply Hreg_heap; eauto].
    apply (T c (setmark p m) (R + 1)).
    - eapply Hitems; eauto.
    - apply rawbound_heap.
    - pose proof (U_setmark p m Hp Hm). nia.
  Qed.

  Lemma fold_o_total {A} (f : A -> marks -> outcome marks) (l : list A) (b r : nat) :
    (forall a m, In a l -> U m * W + r <= b -> exists m', f a m = Ok m') ->
    (forall a m m', f a m = Ok m' -> sub m m') ->
    forall m, U m * W + r <= b -> exists m', fold_o f l m = Ok m'.
  Proof.
    intros Hf Hs. induction l as [|a l IH]; intros m Hb.
    - exists m. reflexivity.
    - rewrite fold_o_cons. destruct (Hf a m (or_introl eq_refl) Hb) as [m1 H1]. rewrite H1. cbn [bind].
      apply IH.
      + intros a0 m0 Ha0. apply Hf. simpl. auto.
      + pose proof (U_sub _ _ (Hs _ _ _ H1)). nia.
  Qed.

  Section Level.
    Variable rec : contents -> marks -> outcome marks.
    Hypothesis Hrec : rec_ok h rg rec.
    Variable b : nat.
    Hypothesis Hb : forall b', b' < b -> total rec b'.

    Lemma mark_item_total w m r :
      U m * W + r <= b -> exists m', mark_item h rg minptr maxptr rec w m = Ok m'.
    Proof.
      intros Hle. unfold mark_item. destruct (prefilter minptr maxptr w); [|eauto].
      destruct (registered rg w) eqn:Hw; [|eauto].
      destruct (marked m w) eqn:Hm; [eauto|].
      pose proof (U_setmark w m Hw Hm) as HU.
      apply descend_reg_total with (b' := b - 1); auto.
      - apply Hb. nia.
      - nia.
    Qed.

    Lemma mark_and_recurse_total p m r :
      nget p h <> None -> (is_raw h rg p = true -> rk p < r) -> U m * W + r <= b ->
      exists m', mark_and_recurse true h rg minptr maxptr rec p m = Ok m'.
    Proof.
      intros Hp Hraw Hle. unfold mark_and_recurse. destruct (registered rg p) eqn:Hr.
      - eapply mark_item_total; eauto.
      - unfold descend. destruct (nget p h) as [c|] eqn:Hc; [|congruence].
        assert (Hisraw : is_raw h rg p = true) by (unfold is_raw; rewrite Hc, Hr; reflexivity).
        specialize (Hraw Hisraw).
        refine (Hb (U m * W + rk p) _ c m (rk p) _ _ _); [lia| | |lia].
        + eapply Hitems; eauto.
        + intros q Hq Hqr. eapply Hrk_dec; eauto.
    Qed.

    Lemma trace_with_total : total (trace_with true h rg minptr maxptr rec) b.
    Proof.
      intros c. induction c as [ws|es IH|ps|] using contents_ind'; intros m r Hok Hrb Hle; cbn [trace_with].
      - apply fold_o_total with (b := b) (r := r); auto.
        + intros a m0 _ H0. eapply mark_item_total; eauto.
        + intros a m0 m0' H0. eapply mark_item_ok; eauto.
      - apply fold_o_total with (b := b) (r := r); auto.
        + intros a m0 Ha H0. rewrite Forall_forall in IH. apply (IH a Ha m0 r); auto.
          * intros p Hp. apply Hok. simpl. apply in_flat_map. eauto.
          * intros q Hq. apply Hrb. simpl. apply in_flat_map. eauto.
        + intros a m0 m0' H0. eapply trace_with_ok; eauto.
      - apply fold_o_total with (b := b) (r := r); auto.
        + intros a m0 Ha H0. apply mark_and_recurse_total with (r := r); auto.
        + intros a m0 m0' H0. eapply mark_and_recurse_ok; eauto.
      - eauto.
    Qed.
  End Level.

  Lemma trace_total : forall n, total (trace true h rg minptr maxptr (S n)) n.
  Proof.
    induction n as [|n IH]; cbn [trace].
    - apply trace_with_total.
      + intros c m m' H. discriminate.
      + intros b' Hlt. lia.
    - apply trace_with_total.
      + apply (trace_ok h rg minptr maxptr Hrange (S n)).
      + intros b' Hlt. eapply total_mono; [exact IH|lia].
  Qed.

  Lemma mark_total tls stack :
    (forall e, In e tls -> items_ok h e) ->
    exists m', mark true true h rg minptr maxptr (fuel_of h rg order) order tls stack nempty = Ok m'.
  Proof.
    intros Htls. unfold mark. destruct order as [|o0 ord'] eqn:Eo; [eauto|]. rewrite <- Eo in *. clear Eo o0 ord'.
    unfold fuel_of.
    assert (Hn : exists n, (length order + 1) * W = S n) by (exists ((length order + 1) * W - 1); nia).
    destruct Hn as [n Hn]. rewrite Hn.
    set (rec := trace true h rg minptr maxptr (S n)).
    assert (Hrec : rec_ok h rg rec) by (apply trace_ok; assumption).
    assert (Trec : total rec n) by (apply trace_total).
    assert (Tup : total (trace_with true h rg minptr maxptr rec) (S n)).
    { change (trace_with true h rg minptr maxptr rec) with (trace true h rg minptr maxptr (S (S n))). apply trace_total. }
    assert (HUb : forall m, U m * W <= n + 1) by (intros m; pose proof (U_le_order m); nia).
    (* TLS pass *)
    destruct (fold_o_total (trace_with true h rg minptr maxptr rec) tls (S n) (R + 1)) with (m := @nempty unit) as [m1 H1].
    - intros a m Ha Hle. apply (Tup a m (R + 1)); auto. apply rawbound_heap.
    - intros a m m' H0. eapply trace_with_ok; eauto.
    - pose proof (U_le_order nempty). nia.
    - rewrite H1. cbn [bind].
      destruct (fold_o_total (root_step h rg rec) order (S n) 0) with (m := m1) as [m2 H2].
      + intros a m _ _. unfold root_step. destruct (is_root rg a) eqn:Hr; simpl; [|eauto].
        destruct (marked m a) eqn:Hm; simpl; [eauto|].
        eapply descend_reg_total; eauto. apply is_root_registered; assumption.
      + intros a m m' H0. eapply root_step_ok; eauto.
      + pose proof (U_le_order m1). nia.
      + rewrite H2. cbn [bind].
        apply fold_o_total with (b := S n) (r := 0).
        * intros a m _ _. unfold mark_item. destruct (prefilter minptr maxptr a); [|eauto].
          destruct (registered rg a) eqn:Hr; [|eauto]. destruct (marked m a) eqn:Hm; [eauto|].
          eapply descend_reg_total; eauto.
        * intros a m m' H0. eapply mark_item_ok; eauto.
        * pose proof (U_le_order m2). nia.
  Qed.
End Total.

(* ------------------------------------------------------------------ pre-repair variants *)

(* D16: the TLS table is handed GC_Mark_Item: an object reachable only from a TLS value is
   freed by a forced collection *)
Definition w8 : word := 8%N.
Definition d16_heap : heap := nset 8%N (Words [0%N]) nempty.
Definition d16_reg : registry := nset 8%N false nempty.
Definition d16_tls : list contents := mk_tls [8%N].

Lemma d16_reachable : reach d16_heap d16_reg d16_tls [] 8%N.
Proof.
  apply reach_tls with (e := Words [8%N]).
  - simpl. auto.
  - apply pts_word. simpl. auto.
Qed.

Lemma d16_freed_pre :
  collect false true d16_heap d16_reg 8%N 8%N 10 [8%N] d16_tls [] = Ok (nempty, [8%N]).
Proof. vm_compute. reflexivity. Qed.

Lemma d16_kept_post :
  exists rg', collect true true d16_heap d16_reg 8%N 8%N 10 [8%N] d16_tls [] = Ok (rg', []).
Proof. eexists. vm_compute. reflexivity. Qed.

(* D17: GC_Mark_And_Recurse re-traces a registered object whatever its mark bit says: a heap
   Tuple that contains itself is traced for ever *)
Definition d17_heap : heap := nset 8%N (Items [8%N]) nempty.
Definition d17_reg : registry := nset 8%N false nempty.

Lemma d17_trace_diverges : forall fuel m,
  marked m 8%N = true ->
  trace false d17_heap d17_reg 8%N 8%N fuel (Items [8%N]) m = OutOfFuel.
Proof.
  induction fuel as [|f IH]; intros m Hm; [reflexivity|].
  cbn [trace trace_with fold_o].
  unfold mark_and_recurse at 1. unfold mark_item. 
  replace (prefilter 8 8 8%N) with true by reflexivity.
  replace (registered d17_reg 8%N) with true by reflexivity.
  rewrite Hm. cbn [bind]. unfold descend at 1.
  replace (nget 8%N d17_heap) with (Some (Items [8%N])) by reflexivity.
  rewrite IH by assumption. reflexivity.
Qed.

Lemma d17_mark_diverges : forall fuel,
  mark true false d17_heap d17_reg 8%N 8%N fuel [8%N] [] [8%N] nempty = OutOfFuel.
Proof.
  intros fuel. unfold mark. cbn [fold_o bind].
  unfold root_step. replace (is_root d17_reg 8%N) with false by reflexivity. cbn [andb bind fold_o].
  unfold mark_item. replace (prefilter 8 8 8%N) with true by reflexivity.
  replace (registered d17_reg 8%N) with true by reflexivity.
  replace (marked nempty 8%N) with false by reflexivity.
  unfold descend. replace (nget 8%N d17_heap) with (Some (Items [8%N])) by reflexivity.
  rewrite d17_trace_diverges; [reflexivity|]. reflexivity.
Qed.

Lemma d17_mark_terminates_post :
  exists m, mark true true d17_heap d17_reg 8%N 8%N 3 [8%N] [] [8%N] nempty = Ok m /\ marked m 8%N = true.
Proof. eexists. split; vm_compute; reflexivity. Qed.

(* ------------------------------------------------------------------ the theorems *)
Theorem mark_complete_thm : forall h rg minptr maxptr order tls stack fuel m',
  range_ok rg minptr maxptr -> order_ok rg order ->
  mark true true h rg minptr maxptr fuel order tls stack nempty = Ok m' ->
  forall q, registered rg q = true -> reach h rg tls stack q -> marked m' q = true.
Proof. intros. eapply mark_complete_lemma; eauto. Qed.

Theorem mark_fuel_adequate_thm : forall h rg minptr maxptr order tls stack,
  range_ok rg minptr maxptr -> order_ok rg order -> wf h rg tls -> raw_wf h rg ->
  exists m', mark true true h rg minptr maxptr (fuel_of h rg order) order tls stack nempty = Ok m'.
Proof.
  intros h rg minptr maxptr order tls stack Hr Ho [W1 W2 W3] (rk & B & D).
  eapply mark_total; eauto.
Qed.

Theorem sweep_frees_only_unmarked_nonroot_thm : forall rg order m rg' fin,
  sweep rg order m = (rg', fin) ->
  (forall p, In p fin <-> In p order /\ registered rg p = true /\ is_root rg p = false /\ marked m p = false) /\
  (forall p, registered rg' p = true <-> registered rg p = true /\ ~ In p fin) /\
  (NoDup order -> NoDup fin).
Proof. exact sweep_spec. Qed.

Theorem collect_safe_thm : forall h rg minptr maxptr order tls stack,
  range_ok rg minptr maxptr -> order_ok rg order -> wf h rg tls -> raw_wf h rg ->
  exists rg' fin,
    collect true true h rg minptr maxptr (fuel_of h rg order) order tls stack = Ok (rg', fin) /\
    (forall p, registered rg p = true -> reach h rg tls stack p -> ~ In p fin /\ registered rg' p = true) /\
    (forall p, is_root rg p = true -> ~ In p fin /\ registered rg' p = true) /\
    (forall p, In p fin -> registered rg p = true /\ is_root rg p = false) /\
    NoDup fin.
Proof.
  intros h rg minptr maxptr order tls stack Hr Ho Hw Hraw.
  destruct (mark_fuel_adequate_thm h rg minptr maxptr order tls stack Hr Ho Hw Hraw) as [m' Hm].
  unfold collect. rewrite Hm. cbn [bind].
  destruct (sweep rg order m') as [rg' fin] eqn:Hs. exists rg', fin. split; [reflexivity|].
  destruct (sweep_spec rg order m' rg' fin Hs) as (F & K & N).
  split; [|split; [|split]].
  - intros p Hp Hreach.
    assert (Hmk : marked m' p = true) by (eapply mark_complete_thm; eauto).
    assert (Hn : ~ In p fin) by (intros Hin; apply F in Hin; destruct Hin as (_ & _ & _ & Hu); congruence).
    split; [exact Hn|]. apply K. auto.
  - intros p Hp.
    assert (Hn : ~ In p fin) by (intros Hin; apply F in Hin; destruct Hin as (_ & _ & Hroot & _); congruence).
    split; [exact Hn|]. apply K. split; [apply is_root_registered; assumption|exact Hn].
  - intros p Hin. apply F in Hin. tauto.
  - apply N. apply Ho.
Qed.

(* ------------------------------------------------------------------ the excluded case diverges *)
(* a registered Tuple at w8 whose item is the RAW Tuple at w16 that contains itself *)
Definition w16 : word := 16%N.
Definition rawcyc_heap : heap := nset w16 (Items [w16]) (nset w8 (Items [w16]) nempty).
Definition rawcyc_reg : registry := nset w8 false nempty.

Lemma rawcyc_trace_diverges : forall fuel m,
  trace true rawcyc_heap rawcyc_reg w8 w8 fuel (Items [w16]) m = OutOfFuel.
Proof.
  induction fuel as [|f IH]; intros m; [reflexivity|].
  cbn [trace trace_with fold_o]. unfold mark_and_recurse at 1.
  replace (registered rawcyc_reg w16) with false by reflexivity.
  unfold descend at 1. replace (nget w16 rawcyc_heap) with (Some (Items [w16])) by reflexivity.
  rewrite IH. reflexivity.
Qed.

Lemma rawcyc_mark_diverges : forall fuel,
  mark true true rawcyc_heap rawcyc_reg w8 w8 fuel [w8] [] [w8] nempty = OutOfFuel.
Proof.
  intros fuel. unfold mark. cbn [fold_o bind].
  unfold root_step. replace (is_root rawcyc_reg w8) with false by reflexivity. cbn [andb bind fold_o].
  unfold mark_item. replace (prefilter w8 w8 w8) with true by reflexivity.
  replace (registered rawcyc_reg w8) with true by reflexivity.
  replace (marked nempty w8) with false by reflexivity.
  unfold descend. replace (nget w8 rawcyc_heap) with (Some (Items [w16])) by reflexivity.
  rewrite rawcyc_trace_diverges. reflexivity.
Qed.

Lemma rawcyc_not_raw_wf : ~ raw_wf rawcyc_heap rawcyc_reg.
Proof.
  intros (rk & _ & D).
  assert (H : rk w16 < rk w16).
  { apply (D w16 (Items [w16]) w16); try reflexivity. simpl. auto. }
  lia.
Qed.

(* ------------------------------------------------------------------ soundness of the executable checks of
   the hypotheses (HeapGraph.v: wf_b rawdec_b range_b order_b; used for the non-vacuity example and,
   extracted, at every collection point of every generated case) *)
Lemma nget_elements {A} (w : word) (a : A) (m : nmap A) :
  nget w m = Some a -> exists p, w = Npos p /\ In (p, a) (PM.elements m).
Proof.
  destruct w as [|p]; simpl; [discriminate|]. intros H. exists p. split; [reflexivity|].
  apply PM.elements_correct. exact H.
Qed.

Lemma items_ok_b_sound h c : items_ok_b h c = true -> items_ok h c.
Proof.
  unfold items_ok_b, items_ok. rewrite forallb_forall. intros H p Hp.
  specialize (H p Hp). destruct (nget p h); [discriminate|simpl in H; discriminate].
Qed.

Lemma wf_b_sound h rg tls : wf_b h rg tls = true -> wf h rg tls.
Proof.
  unfold wf_b. rewrite !andb_true_iff, !forallb_forall. intros [[H1 H2] H3]. constructor.
  - intros p Hp. unfold registered in Hp. destruct (nget p rg) as [r|] eqn:E; [|discriminate].
    destruct (nget_elements _ _ _ E) as (k & -> & Hin). specialize (H1 _ Hin). cbn [fst snd] in H1.
    destruct (nget (Npos k) h); [discriminate|simpl in H1; discriminate].
  - intros p c Hc. destruct (nget_elements _ _ _ Hc) as (k & -> & Hin).
    apply items_ok_b_sound. apply (H2 _ Hin).
  - intros e He. apply items_ok_b_sound. auto.
Qed.

Lemma rawdec_b_sound h rg rk : rawdec_b h rg rk = true ->
  forall p c q, is_raw h rg p = true -> nget p h = Some c -> In q (item_ptrs c) ->
                is_raw h rg q = true -> rk q < rk p.
Proof.
  unfold rawdec_b. rewrite forallb_forall. intros H p c q Hp Hc Hq Hqr.
  destruct (nget_elements _ _ _ Hc) as (k & -> & Hin). specialize (H _ Hin). cbn [fst snd] in H.
  rewrite Hp in H. cbn [negb orb] in H. rewrite forallb_forall in H. specialize (H q Hq).
  rewrite Hqr in H. cbn [negb orb] in H. apply Nat.ltb_lt. exact H.
Qed.

Lemma range_b_sound rg minptr maxptr : range_b rg minptr maxptr = true -> range_ok rg minptr maxptr.
Proof.
  unfold range_b, range_ok. rewrite forallb_forall. intros H p Hp.
  unfold registered in Hp. destruct (nget p rg) as [r|] eqn:E; [|discriminate].
  destruct (nget_elements _ _ _ E) as (k & -> & Hin). specialize (H _ Hin). cbn [fst snd] in H.
  rewrite !andb_true_iff in H. destruct H as [[H1 H2] H3].
  apply N.eqb_eq in H1. apply N.leb_le in H2. apply N.leb_le in H3. auto.
Qed.

Lemma nodup_b_sound : forall l seen, nodup_b l seen = true -> (forall a, In a l -> a <> 0%N) ->
  NoDup l /\ forall a, In a l -> marked seen a = false.
Proof.
  induction l as [|a l IH]; simpl; intros seen H Hnz.
  - split; [constructor|intros a []].
  - apply andb_true_iff in H. destruct H as [H1 H2]. rewrite negb_true_iff in H1.
    destruct (IH (setmark a seen) H2 (fun x Hx => Hnz x (or_intror Hx))) as [Hnd Hun].
    assert (Ha : a <> 0%N) by (apply Hnz; auto).
    split.
    + constructor; [|exact Hnd]. intros Hin. specialize (Hun a Hin).
      rewrite marked_setmark_same in Hun by assumption. discriminate.
    + intros x [<-|Hx]; [exact H1|].
      specialize (Hun x Hx). destruct (marked seen x) eqn:E; [|reflexivity].
      rewrite (marked_setmark_mono _ _ a E) in Hun. discriminate.
Qed.

Lemma marked_fold_setmark l w : marked (fold_right setmark nempty l) w = true -> In w l.
Proof.
  induction l as [|a l IH]; simpl; intros H.
  - rewrite marked_nempty in H. discriminate.
  - destruct (N.eq_dec w a) as [->|Hne]; [auto|].
    rewrite marked_setmark_other in H by assumption. auto.
Qed.

Lemma order_b_sound rg order : order_b rg order = true -> order_ok rg order.
Proof.
  unfold order_b, order_ok. rewrite !andb_true_iff, !forallb_forall. intros [[H1 H2] H3].
  split.
  - apply (nodup_b_sound order nempty H2). intros a Ha. eapply registered_nonzero. apply H1. exact Ha.
  - intros p. split; [apply H1|].
    intros Hp. unfold registered in Hp. destruct (nget p rg) as [r|] eqn:E; [|discriminate].
    destruct (nget_elements _ _ _ E) as (k & -> & Hin). specialize (H3 _ Hin). cbn [fst snd] in H3.
    apply marked_fold_setmark. exact H3.
Qed.

(* ------------------------------------------------------------------ non-vacuity: a 7-object heap
   w8  Array [Ref->w16; Ref->w24]      w16 Ref -> w8 (cycle through the Array)
   w24 Box -> w32 (the Box is shared: the Array and the Tuple w40 hold it)
   w32 struct {0; w24}                 w40 heap Tuple (w24, raw w48)    w48 RAW struct {w16}
   w56 Ref -> w8: unreachable.  TLS entry -> w40.  The stack holds w8. *)
Definition w24 : word := 24%N. Definition w32 : word := 32%N. Definition w40 : word := 40%N.
Definition w48 : word := 48%N. Definition w56 : word := 56%N.
Definition ex_heap : heap :=
  nset w8 (mk_contents KArray [w16; w24]) (nset w16 (mk_contents KRef [w8]) (nset w24 (mk_contents KBox [w32])
  (nset w32 (mk_contents KStruct [0%N; w24]) (nset w40 (mk_contents KTuple [w24; w48])
  (nset w48 (mk_contents KStruct [w16]) (nset w56 (mk_contents KRef [w8]) nempty)))))).
Definition ex_reg : registry :=
  nset w8 false (nset w16 false (nset w24 false (nset w32 false (nset w40 false (nset w56 false nempty))))).
Definition ex_order : list word := [w56; w8; w40; w16; w32; w24].
Definition ex_tls : list contents := mk_tls [w40].
Definition ex_stack : list word := [3%N; w8; 1000%N].

Lemma ex_range : range_ok ex_reg w8 w56.
Proof. apply range_b_sound. vm_compute. reflexivity. Qed.
Lemma ex_order_ok : order_ok ex_reg ex_order.
Proof. apply order_b_sound. vm_compute. reflexivity. Qed.
Lemma ex_wf : wf ex_heap ex_reg ex_tls.
Proof. apply wf_b_sound. vm_compute. reflexivity. Qed.
Lemma ex_raw_wf : raw_wf ex_heap ex_reg.
Proof.
  exists (fun _ => 0). split.
  - intros p. lia.
  - apply rawdec_b_sound. vm_compute. reflexivity.
Qed.

Lemma ex_collect :
  exists rg', collect true true ex_heap ex_reg w8 w56 (fuel_of ex_heap ex_reg ex_order) ex_order ex_tls ex_stack
              = Ok (rg', [w56]).
Proof. eexists. vm_compute. reflexivity. Qed.

Lemma ex_reach_all : forall p, In p [w8; w16; w24; w32; w40] -> reach ex_heap ex_reg ex_tls ex_stack p.
Proof.
  assert (R8 : reach ex_heap ex_reg ex_tls ex_stack w8) by (apply reach_stack; simpl; auto).
  assert (R16 : reach ex_heap ex_reg ex_tls ex_stack w16).
  { eapply reach_step with (p := w8); [exact R8|reflexivity|reflexivity|].
    simpl. eapply pts_elem with (e := Words [w16]); [simpl; auto|apply pts_word; simpl; auto]. }
  assert (R24 : reach ex_heap ex_reg ex_tls ex_stack w24).
  { eapply reach_step with (p := w8); [exact R8|reflexivity|reflexivity|].
    simpl. eapply pts_elem with (e := Words [w24]); [simpl; auto|apply pts_word; simpl; auto]. }
  assert (R32 : reach ex_heap ex_reg ex_tls ex_stack w32).
  { eapply reach_step with (p := w24); [exact R24|reflexivity|reflexivity|]. apply pts_word. simpl. auto. }
  assert (R40 : reach ex_heap ex_reg ex_tls ex_stack w40).
  { eapply reach_tls with (e := Words [w40]); [simpl; auto|apply pts_word; simpl; auto]. }
  intros p Hp. simpl in Hp. intuition (subst; assumption).
Qed.

(* ------------------------------------------------------------------ collection points of a history *)
Definition inv (s : state) : Prop :=
  range_ok (st_reg s) (st_minptr s) (st_maxptr s) /\ order_ok (st_reg s) (st_order s).

Definition heap_ok (s : state) : Prop :=
  wf (st_heap s) (st_reg s) (st_tls s) /\ raw_wf (st_heap s) (st_reg s).

(* admissible events: alloc returns a fresh, non-NULL, word-aligned address *)
Definition event_ok (s : state) (e : event) : Prop :=
  match e with
  | EAlloc p _ _ | EFinAlloc p _ _ => registered (st_reg s) p = false /\ p <> 0%N /\ (p mod 8 = 0)%N
  | _ => True
  end.

(* what "the collection inside event e was safe" means; s1 = state at the collection point *)
Definition collection_safe (s1 : state) (extra : list word) (fin : list word) (s' : state) : Prop :=
  (forall q, registered (st_reg s1) q = true ->
             reach (st_heap s1) (st_reg s1) (st_tls s1) (extra ++ st_stack s1) q ->
             ~ In q fin /\ registered (st_reg s') q = true) /\
  (forall q, In q extra -> ~ In q fin) /\
  (forall q, is_root (st_reg s1) q = true -> ~ In q fin /\ registered (st_reg s') q = true) /\
  (forall q, In q fin -> registered (st_reg s1) q = true /\ is_root (st_reg s1) q = false) /\
  NoDup fin.

Lemma registered_nset rg p r q : p <> 0%N ->
  registered (nset p r rg) q = true <-> q = p \/ registered rg q = true.
Proof.
  intros Hp. unfold registered. destruct (N.eq_dec q p) as [->|Hne].
  - rewrite nget_nset_same by assumption. tauto.
  - rewrite nget_nset_other by assumption. split; [auto|]. intros [E|E]; [congruence|exact E].
Qed.

Lemma NoDup_snoc {A} (l : list A) (a : A) : NoDup l -> ~ In a l -> NoDup (l ++ [a]).
Proof.
  induction l as [|x l IH]; simpl; intros Hnd Hn.
  - constructor; [intros []|constructor].
  - inversion Hnd; subst. constructor.
    + rewrite in_app_iff. simpl. intros [H|[H|[]]]; [auto|]. apply Hn. auto.
    + apply IH; auto.
Qed.

Lemma inv_alloc s p c root : inv s -> event_ok s (EAlloc p c root) -> inv (alloc_state s p c root).
Proof.
  intros [Hr [Hnd Hin]] (Hfresh & Hnz & Hal). split.
  - intros q Hq. cbn [alloc_state st_reg st_minptr st_maxptr] in *.
    apply registered_nset in Hq; [|assumption]. destruct Hq as [->|Hq].
    + split; [assumption|]. split; [apply N.le_min_l|apply N.le_max_l].
    + destruct (Hr q Hq) as (A & B & C). split; [assumption|].
      split; [etransitivity; [apply N.le_min_r|exact B]|etransitivity; [exact C|apply N.le_max_r]].
  - cbn [alloc_state st_reg st_order]. split.
    + constructor; [|assumption]. intros Hp. apply Hin in Hp. congruence.
    + intros q. rewrite registered_nset by assumption. rewrite <- Hin. simpl. intuition congruence.
Qed.

Lemma inv_after_dels s fin s' :
  inv s ->
  st_reg s' = fold_right ndel (st_reg s) fin ->
  st_order s' = filter (fun p => registered (st_reg s') p) (st_order s) ->
  st_minptr s' = st_minptr s -> st_maxptr s' = st_maxptr s -> inv s'.
Proof.
  intros [Hr [Hnd Hin]] Hreg Hord Hmin Hmax. split.
  - intros q Hq. rewrite Hmin, Hmax. apply Hr. rewrite Hreg in Hq. apply registered_after_dels in Hq. tauto.
  - rewrite Hord. split; [apply NoDup_filter; assumption|].
    intros q. rewrite filter_In. split; [tauto|]. intros Hq. split; [|exact Hq].
    apply Hin. rewrite Hreg in Hq. apply registered_after_dels in Hq. tauto.
Qed.

Section Threshold.
  Variable nm : N -> N.                (* the threshold policy: arbitrary *)
  Lemma do_collect_safe s extra :
    inv s -> heap_ok s ->
    exists s' fin, do_collect true true nm s extra = Ok (s', fin) /\ collection_safe s extra fin s' /\ inv s'.
  Proof.
    intros Hinv [Hwf Hraw]. pose proof Hinv as [Hr Ho].
    destruct (collect_safe_thm (st_heap s) (st_reg s) (st_minptr s) (st_maxptr s) (st_order s) (st_tls s)
                (extra ++ st_stack s) Hr Ho Hwf Hraw) as (rg' & fin & Hc & Hkeep & Hroot & Hfin & Hnd).
    unfold do_collect. rewrite Hc. cbn [bind]. eexists. exists fin. split; [reflexivity|]. split.
    - unfold collection_safe. cbn [st_reg]. split; [exact Hkeep|]. split; [|split; [exact Hroot|split; [exact Hfin|exact Hnd]]].
      intros q Hq Hqf. destruct (Hfin q Hqf) as [Hqr _].
      destruct (Hkeep q Hqr) as [Hn _]; [|contradiction].
      apply reach_stack. apply in_app_iff. auto.
    - unfold collect in Hc. apply bind_ok in Hc. destruct Hc as (m & _ & Hs). inversion Hs as [Hs'].
      unfold sweep in Hs'. inversion Hs'; subst rg' fin.
      eapply inv_after_dels; [exact Hinv| | | |]; reflexivity.
  Qed.

  (* (5) at every collection point — the `nitems > mitems` trigger inside alloc, with the
     newborn among the stack words, or a forced collection — the collection terminates and
     is safe, and the registry-side invariants are kept *)
  Lemma threshold_collect_safe_lemma s e s1 extra :
    collection_point s e = Some (s1, extra) -> inv s1 -> heap_ok s1 ->
    exists s' fin, step true true true nm s e = Ok (s', fin) /\ collection_safe s1 extra fin s' /\ inv s'.
  Proof.
    intros Hcp Hinv Hok. destruct e as [p c root| | | | |]; cbn [collection_point] in Hcp; try discriminate.
    - cbn [step]. destruct (st_mitems s <? st_nitems (alloc_state s p c root))%N; [|discriminate].
      inversion Hcp; subst. apply do_collect_safe; assumption.
    - inversion Hcp; subst. cbn [step]. apply do_collect_safe; assumption.
  Qed.

  Lemma inv_step s e s' fin :
    inv s -> event_ok s e -> step true true true nm s e = Ok (s', fin) ->
    (forall s1 extra, collection_point s e = Some (s1, extra) -> heap_ok s1) -> inv s'.
  Proof.
    intros Hinv Hev Hstep Hok. destruct e as [p c root|p c|tls stack|p' c' root'|p|].
    - cbn [step] in Hstep. pose proof (inv_alloc s p c root Hinv Hev) as Hinv1.
      destruct (st_mitems s <? st_nitems (alloc_state s p c root))%N eqn:E.
      + destruct (do_collect_safe (alloc_state s p c root) [p] Hinv1) as (s2 & fin2 & H2 & _ & I2).
        * apply (Hok _ [p]). cbn [collection_point]. rewrite E. reflexivity.
        * rewrite H2 in Hstep. inversion Hstep; subst. exact I2.
      + inversion Hstep; subst. exact Hinv1.
    - cbn [step] in Hstep. inversion Hstep; subst. exact Hinv.
    - cbn [step] in Hstep. inversion Hstep; subst. exact Hinv.
    - cbn [step fin_alloc_state] in Hstep. inversion Hstep; subst. apply inv_alloc; assumption.
    - cbn [step] in Hstep. destruct (registered (st_reg s) p) eqn:E; inversion Hstep; subst; [|exact Hinv].
      destruct Hinv as [Hr [Hnd Hin]]. split; cbn [st_reg st_minptr st_maxptr st_order].
      + intros q Hq. apply Hr. unfold registered in *. destruct (N.eq_dec q p) as [->|Hne].
        * rewrite nget_ndel_same in Hq. discriminate.
        * rewrite nget_ndel_other in Hq by assumption. exact Hq.
      + split; [apply NoDup_filter; assumption|]. intros q. rewrite filter_In, negb_true_iff, N.eqb_neq.
        unfold registered. destruct (N.eq_dec q p) as [->|Hne].
        * rewrite nget_ndel_same. split; [intros [_ F]; congruence|discriminate].
        * rewrite nget_ndel_other by assumption. fold (registered (st_reg s) q). rewrite Hin. tauto.
    - cbn [step] in Hstep.
      destruct (do_collect_safe s [] Hinv) as (s2 & fin2 & H2 & _ & I2).
      + apply (Hok _ []). reflexivity.
      + rewrite H2 in Hstep. inversion Hstep; subst. exact I2.
  Qed.

  (* every history: as long as each event is admissible and the heap is well formed at each
     collection point, every step succeeds and every collection in it is safe *)
  Fixpoint hist_safe (tr mg fw : bool) (nmi : N -> N) (s : state) (es : list event) : Prop :=
    match es with
    | [] => True
    | e :: r =>
      event_ok s e ->
      (forall s1 extra, collection_point s e = Some (s1, extra) -> heap_ok s1) ->
      exists s' fin, step tr mg fw nmi s e = Ok (s', fin)
        /\ (forall s1 extra, collection_point s e = Some (s1, extra) -> collection_safe s1 extra fin s')
        /\ hist_safe tr mg fw nmi s' r
    end.

  Lemma history_collect_safe_lemma : forall es s, inv s -> hist_safe true true true nm s es.
  Proof.
    induction es as [|e r IH]; intros s Hinv; cbn [hist_safe]; [exact I|].
    intros Hev Hok.
    destruct (collection_point s e) as [[s1 extra]|] eqn:Hcp.
    - assert (Hinv1 : inv s1).
      { destruct e as [p c root| | | | |]; cbn [collection_point] in Hcp; try discriminate.
        - destruct (st_mitems s <? st_nitems (alloc_state s p c root))%N; [|discriminate].
          inversion Hcp; subst. apply inv_alloc; assumption.
        - inversion Hcp; subst. exact Hinv. }
      destruct (threshold_collect_safe_lemma s e s1 extra Hcp Hinv1 (Hok _ _ eq_refl)) as (s' & fin & Hs & Hsafe & Hinv').
      exists s', fin. split; [exact Hs|]. split; [|apply IH; exact Hinv'].
      intros s1' extra' E. inversion E; subst. exact Hsafe.
    - assert (Hs : exists s' fin, step true true true nm s e = Ok (s', fin)).
      { destruct e as [p c root|p c|tls stack|p' c' root'|p|]; cbn [collection_point] in Hcp; cbn [step].
        - destruct (st_mitems s <? st_nitems (alloc_state s p c root))%N; [discriminate|eauto].
        - eauto.
        - eauto.
        - eauto.
        - destruct (registered (st_reg s) p); eauto.
        - discriminate. }
      destruct Hs as (s' & fin & Hs). exists s', fin. split; [exact Hs|]. split; [intros s1 extra E; discriminate|].
      apply IH. eapply inv_step; eauto. intros s1 extra E. rewrite Hcp in E. discriminate.
  Qed.
End Threshold.

Lemma inv_st0 : inv st0.
Proof.
  split.
  - intros p Hp. unfold registered in Hp. cbn [st0 st_reg] in Hp. rewrite nget_nempty in Hp. discriminate.
  - split; [constructor|]. intros p. cbn [st0 st_reg st_order]. unfold registered. rewrite nget_nempty.
    split; [intros []|discriminate].
Qed.

(* ------------------------------------------------------------------ exactness: only reachable
   objects and root-flagged entries are ever marked (the model does not over-approximate) *)
Section Sound.
  Variable h : heap.
  Variable rg : registry.
  Variables (minptr maxptr : N).
  Variable tls : list contents.
  Variable stack : list word.

  Definition justified (q : word) : Prop :=
    registered rg q = true /\ (is_root rg q = true \/ reach h rg tls stack q).
  Definition all_justified (m : marks) : Prop := forall q, marked m q = true -> justified q.
  Definition hands_justified (c : contents) : Prop :=
    forall q, pts h rg c q -> registered rg q = true -> justified q.

  Lemma justified_closed p c : justified p -> nget p h = Some c -> hands_justified c.
  Proof.
    intros [Hp [Hr|Hr]] Hc q Hq Hreg; split; auto; right.
    - eapply reach_root; eauto.
    - eapply reach_step; eauto.
  Qed.

  Lemma all_justified_setmark w m : justified w -> all_justified m -> all_justified (setmark w m).
  Proof.
    intros Hw Hm q Hq. destruct (N.eq_dec q w) as [->|Hne]; [exact Hw|].
    rewrite marked_setmark_other in Hq by assumption. auto.
  Qed.

  Definition rec_sound (rec : contents -> marks -> outcome marks) : Prop :=
    forall c m m', rec c m = Ok m' -> hands_justified c -> all_justified m -> all_justified m'.

  Lemma fold_o_inv {A} (f : A -> marks -> outcome marks) (l : list A) :
    (forall a m m', In a l -> f a m = Ok m' -> all_justified m -> all_justified m') ->
    forall m m', fold_o f l m = Ok m' -> all_justified m -> all_justified m'.
  Proof.
    induction l as [|a l IH]; intros Hf m m' H Hm.
    - inversion H; subst. exact Hm.
    - rewrite fold_o_cons in H. apply bind_ok in H. destruct H as (m1 & H1 & H2).
      eapply IH; [|exact H2|].
      + intros; eapply Hf; eauto. simpl. auto.
      + eapply Hf; eauto. simpl. auto.
  Qed.

  Section Level.
    Variable rec : contents -> marks -> outcome marks.
    Hypothesis Hrec : rec_sound rec.

    Lemma descend_sound w m m' :
      justified w -> all_justified m -> descend h rec w (setmark w m) = Ok m' -> all_justified m'.
    Proof.
      intros Hw Hm H. unfold descend in H. destruct (nget w h) as [c|] eqn:Hc; [|discriminate].
      eapply Hrec; [exact H| |].
      - eapply justified_closed; eauto.
      - apply all_justified_setmark; assumption.
    Qed.

    Lemma mark_item_sound w m m' :
      (registered rg w = true -> justified w) -> all_justified m ->
      mark_item h rg minptr maxptr rec w m = Ok m' -> all_justified m'.
    Proof.
      intros Hw Hm H. unfold mark_item in H.
      destruct (prefilter minptr maxptr w); [|inversion H; subst; exact Hm].
      destruct (registered rg w) eqn:Hr; [|inversion H; subst; exact Hm].
      destruct (marked m w); [inversion H; subst; exact Hm|].
      eapply descend_sound; eauto.
    Qed.

    Lemma mark_and_recurse_sound p m m' :
      (registered rg p = true -> justified p) ->
      (registered rg p = false -> forall c, nget p h = Some c -> hands_justified c) ->
      all_justified m -> mark_and_recurse true h rg minptr maxptr rec p m = Ok m' -> all_justified m'.
    Proof.
      intros H1 H2 Hm H. unfold mark_and_recurse in H. destruct (registered rg p) eqn:Hr.
      - eapply mark_item_sound; eauto.
      - unfold descend in H. destruct (nget p h) as [c|] eqn:Hc; [|discriminate].
        eapply Hrec; eauto.
    Qed.

    Lemma trace_with_sound : rec_sound (trace_with true h rg minptr maxptr rec).
    Proof.
      intros c. induction c as [ws|es IH|ps|] using contents_ind'; intros m m' H Hc Hm; cbn [trace_with] in H.
      - eapply fold_o_inv; [|exact H|exact Hm].
        intros a m0 m0' Ha H0 Hm0. eapply mark_item_sound; [|exact Hm0|exact H0].
        intros Hr. apply Hc; [apply pts_word; exact Ha|exact Hr].
      - eapply fold_o_inv; [|exact H|exact Hm].
        intros a m0 m0' Ha H0 Hm0. rewrite Forall_forall in IH. eapply (IH a Ha); [exact H0| |exact Hm0].
        intros q Hq Hr. apply Hc; [eapply pts_elem; eauto|exact Hr].
      - eapply fold_o_inv; [|exact H|exact Hm].
        intros a m0 m0' Ha H0 Hm0. eapply mark_and_recurse_sound; [| |exact Hm0|exact H0].
        + intros Hr. apply Hc; [apply pts_item; assumption|exact Hr].
        + intros Hr c0 Hc0 q Hq Hqr. apply Hc; [eapply pts_raw; eauto|exact Hqr].
      - inversion H; subst. exact Hm.
    Qed.
  End Level.

  Lemma trace_sound : forall fuel, rec_sound (trace true h rg minptr maxptr fuel).
  Proof.
    induction fuel as [|f IH].
    - intros c m m' H. discriminate.
    - cbn [trace]. apply trace_with_sound. exact IH.
  Qed.

  Lemma mark_sound_lemma fuel order m' :
    mark true true h rg minptr maxptr fuel order tls stack nempty = Ok m' -> all_justified m'.
  Proof.
    intros H. unfold mark in H.
    assert (H0 : all_justified nempty) by (intros q Hq; rewrite marked_nempty in Hq; discriminate).
    destruct order as [|o0 ord'] eqn:Eo; [inversion H; subst; exact H0|]. rewrite <- Eo in *. clear Eo o0 ord'.
    set (rec := trace true h rg minptr maxptr fuel) in *.
    assert (Hrec : rec_sound rec) by apply trace_sound.
    apply bind_ok in H. destruct H as (m1 & H1 & H). apply bind_ok in H. destruct H as (m2 & H2 & H3).
    assert (J1 : all_justified m1).
    { eapply fold_o_inv; [|exact H1|exact H0].
      intros a m0 m0' Ha Hf Hm0. eapply trace_with_sound; [exact Hrec|exact Hf| |exact Hm0].
      intros q Hq Hr. split; [exact Hr|]. right. eapply reach_tls; eauto. }
    assert (J2 : all_justified m2).
    { eapply fold_o_inv; [|exact H2|exact J1].
      intros a m0 m0' Ha Hf Hm0. unfold root_step in Hf.
      destruct (is_root rg a) eqn:Hr; simpl in Hf; [|inversion Hf; subst; exact Hm0].
      destruct (marked m0 a); simpl in Hf; [inversion Hf; subst; exact Hm0|].
      eapply descend_sound; [exact Hrec| |exact Hm0|exact Hf].
      split; [apply is_root_registered; assumption|auto]. }
    eapply fold_o_inv; [|exact H3|exact J2].
    intros a m0 m0' Ha Hf Hm0. eapply mark_item_sound; [exact Hrec| |exact Hm0|exact Hf].
    intros Hr. split; [exact Hr|]. right. apply reach_stack. exact Ha.
  Qed.
End Sound.

(* marked = reachable or root-flagged, exactly *)
Theorem mark_exact_thm : forall h rg minptr maxptr order tls stack fuel m',
  range_ok rg minptr maxptr -> order_ok rg order ->
  mark true true h rg minptr maxptr fuel order tls stack nempty = Ok m' ->
  forall q, marked m' q = true <->
            registered rg q = true /\ (is_root rg q = true \/ reach h rg tls stack q).
Proof.
  intros h rg minptr maxptr order tls stack fuel m' Hr Ho Hm q. split.
  - intros Hq. eapply mark_sound_lemma; eauto.
  - intros [Hq [Hroot|Hreach]].
    + (* a root-flagged entry is marked by the root pass *)
      unfold mark in Hm. destruct order as [|o0 ord'] eqn:Eo.
      * destruct Ho as [_ Hin]. apply Hin in Hq. destruct Hq.
      * rewrite <- Eo in *. clear Eo o0 ord'.
        set (rec := trace true h rg minptr maxptr fuel) in *.
        assert (Hrec : rec_ok h rg rec) by (apply trace_ok; assumption).
        apply bind_ok in Hm. destruct Hm as (m1 & H1 & Hm). apply bind_ok in Hm. destruct Hm as (m2 & H2 & H3).
        assert (R1 : forall a m0 m0', In a order -> root_step h rg rec a m0 = Ok m0' ->
                       step_ok h rg m0 m0' /\ (is_root rg a = true -> marked m0' a = true))
          by (intros a m0 m0' _ Ha; eapply root_step_ok; eauto).
        assert (R2 : forall (a : word) m0 m0', (is_root rg a = true -> marked m0 a = true) -> sub m0 m0' ->
                       (is_root rg a = true -> marked m0' a = true))
          by (intros a m0 m0' Ha Hs Hr0; apply Hs; auto).
        destruct (fold_o_ok h rg _ _ order R1 R2 _ _ H2) as [S2 Q2].
        assert (K1 : forall a m0 m0', In a stack -> mark_item h rg minptr maxptr rec a m0 = Ok m0' ->
                       step_ok h rg m0 m0' /\ True)
          by (intros a m0 m0' _ Ha; split; [eapply mark_item_ok; eauto|exact I]).
        destruct (fold_o_ok h rg _ (fun _ _ => True) stack K1 (fun _ _ _ _ _ => I) _ _ H3) as [[S3 _] _].
        apply S3. apply Q2; [|exact Hroot]. destruct Ho as [_ Hin]. apply Hin. exact Hq.
    + eapply mark_complete_thm; eauto.
Qed.

(* the model's collector is exact: it frees precisely the registered, non-root, unreachable objects *)
Theorem collect_exact_thm : forall h rg minptr maxptr order tls stack fuel rg' fin,
  range_ok rg minptr maxptr -> order_ok rg order ->
  collect true true h rg minptr maxptr fuel order tls stack = Ok (rg', fin) ->
  forall p, In p fin <-> registered rg p = true /\ is_root rg p = false /\ ~ reach h rg tls stack p.
Proof.
  intros h rg minptr maxptr order tls stack fuel rg' fin Hr Ho Hc p.
  unfold collect in Hc. apply bind_ok in Hc. destruct Hc as (m' & Hm & Hs).
  assert (Hs' : sweep rg order m' = (rg', fin)) by congruence.
  destruct (sweep_spec rg order m' rg' fin Hs') as (F & _ & _).
  pose proof (mark_exact_thm h rg minptr maxptr order tls stack fuel m' Hr Ho Hm p) as E.
  rewrite F. split.
  - intros (Hin & Hreg & Hroot & Hmk). split; [exact Hreg|]. split; [exact Hroot|].
    intros Hreach. assert (marked m' p = true) by (apply E; auto). congruence.
  - intros (Hreg & Hroot & Hn). split; [apply Ho; exact Hreg|]. split; [exact Hreg|]. split; [exact Hroot|].
    destruct (marked m' p) eqn:Hmk; [|reflexivity].
    destruct (proj1 E eq_refl) as [_ [Hx|Hx]]; [congruence|contradiction].
Qed.

(* ------------------------------------------------------------------ non-vacuity of the collection-point theorems:
   the example heap as a state with mitems = 6; allocating a seventh registered object (a Ref
   to w56 at address 64) crosses the threshold, so the collection runs inside alloc *)
Definition w64 : word := 64%N.
Definition ex_state : state :=
  {| st_heap := ex_heap; st_reg := ex_reg; st_order := ex_order; st_nitems := 6%N; st_mitems := 6%N;
     st_minptr := w8; st_maxptr := w56; st_tls := ex_tls; st_stack := ex_stack |}.
Definition ex_event : event := EAlloc w64 (mk_contents KRef [w56]) false.
Definition ex_state1 : state := alloc_state ex_state w64 (mk_contents KRef [w56]) false.

Lemma ex_threshold_point :
  event_ok ex_state ex_event /\
  collection_point ex_state ex_event = Some (ex_state1, [w64]) /\ inv ex_state1 /\ heap_ok ex_state1 /\
  exists s', step true true true mitems_3_2 ex_state ex_event = Ok (s', []).
Proof.
  split; [|split; [|split; [|split]]].
  - split; [vm_compute; reflexivity|split; [discriminate|vm_compute; reflexivity]].
  - reflexivity.
  - split; [apply range_b_sound|apply order_b_sound]; vm_compute; reflexivity.
  - split; [apply wf_b_sound; vm_compute; reflexivity|].
    exists (fun _ => 0). split; [intros p; lia|apply rawdec_b_sound; vm_compute; reflexivity].
  - eexists. vm_compute. reflexivity.
Qed.

(* ------------------------------------------------------------------ allocation by a finaliser during a sweep
   history: a registered object w8 becomes garbage and is swept; its finaliser allocates w16 (GC_Set with
   gc->freelist isnt NULL: registered, no collection) and publishes it into a stack slot; the next
   collection must keep w16.  If GC_Set widens the window only after its early return (fin_widens =
   false) the window stays [w8,w8], GC_Mark_Item rejects w16, and w16 is freed although reachable. *)
Definition fin_hist : list event :=
  [EAlloc w8 NoPtr false; ERoots [] []; ECollect; EFinAlloc w16 (Words []) false; ERoots [] [w16]; ECollect].

Lemma fin_hist_kept_post :
  exists s, run true true true mitems_3_2 st0 fin_hist = Ok (s, [[]; []; [w8]; []; []; []]).
Proof. eexists. vm_compute. reflexivity. Qed.

Lemma fin_hist_freed_pre :
  exists s5 fr5 s6,
    run true true false mitems_3_2 st0 (firstn 5 fin_hist) = Ok (s5, fr5) /\
    registered (st_reg s5) w16 = true /\
    reach (st_heap s5) (st_reg s5) (st_tls s5) (st_stack s5) w16 /\
    ~ range_ok (st_reg s5) (st_minptr s5) (st_maxptr s5) /\
    step true true false mitems_3_2 s5 ECollect = Ok (s6, [w16]).
Proof.
  eexists. eexists. eexists. split; [vm_compute; reflexivity|].
  split; [vm_compute; reflexivity|]. split; [apply reach_stack; vm_compute; auto|].
  split; [|vm_compute; reflexivity].
  intros H. specialize (H w16). cbn [st_reg st_minptr st_maxptr] in H.
  assert (Hr : (w16 mod 8 = 0 /\ 8 <= w16 /\ w16 <= 8)%N) by (apply H; vm_compute; reflexivity).
  destruct Hr as (_ & _ & Hle). vm_compute in Hle. apply Hle. reflexivity.
Qed.
