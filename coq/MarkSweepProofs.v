(* MarkSweepProofs.v — proofs about the mark/sweep model (C01). *)
From Coq Require Import List Arith NArith PArith Bool FMapPositive Lia.
From CelloV Require Import HeapGraph MarkSweep.
Import ListNotations.

(* ------------------------------------------------------------------ pre-repair variants *)

(* D16: the TLS table is handed GC_Mark_Item: an object reachable only from a TLS value is
   freed by a forced collection *)
Definition w8 : word := 8%N.
Definition d16_heap : heap := nset 8%N (Words [0%N]) nempty.
Definition d16_reg : registry := nset 8%N false nempty.
Definition d16_tls : list contents := mk_tls [8%N].

Lemma d16_reachable : reach d16_heap d16_reg d16_tls [] 8%N.
Proof.
  apply reach_tls with (e := Words [8%N]).
  - simpl. auto.
  - apply pts_word. simpl. auto.
Qed.

Lemma d16_freed_pre :
  collect false true d16_heap d16_reg 8%N 8%N 10 [8%N] d16_tls [] = Ok (nempty, [8%N]).
Proof. vm_compute. reflexivity. Qed.

Lemma d16_kept_post :
  exists rg', collect true true d16_heap d16_reg 8%N 8%N 10 [8%N] d16_tls [] = Ok (rg', []).
Proof. eexists. vm_compute. reflexivity. Qed.

(* D17: GC_Mark_And_Recurse re-traces a registered object whatever its mark bit says: a heap
   Tuple that contains itself is traced for ever *)
Definition d17_heap : heap := nset 8%N (Items [8%N]) nempty.
Definition d17_reg : registry := nset 8%N false nempty.

Lemma d17_trace_diverges : forall fuel m,
  marked m 8%N = true ->
  trace false d17_heap d17_reg 8%N 8%N fuel (Items [8%N]) m = OutOfFuel.
Proof.
  induction fuel as [|f IH]; intros m Hm; [reflexivity|].
  cbn [trace trace_with fold_o].
  unfold mark_and_recurse at 1. unfold mark_item. 
  replace (prefilter 8 8 8%N) with true by reflexivity.
  replace (registered d17_reg 8%N) with true by reflexivity.
  rewrite Hm. cbn [bind]. unfold descend at 1.
  replace (nget 8%N d17_heap) with (Some (Items [8%N])) by reflexivity.
  rewrite IH by assumption. reflexivity.
Qed.

Lemma d17_mark_diverges : forall fuel,
  mark true false d17_heap d17_reg 8%N 8%N fuel [8%N] [] [8%N] nempty = OutOfFuel.
Proof.
  intros fuel. unfold mark. cbn [fold_o bind].
  unfold root_step. replace (is_root d17_reg 8%N) with false by reflexivity. cbn [andb bind fold_o].
  unfold mark_item. replace (prefilter 8 8 8%N) with true by reflexivity.
  replace (registered d17_reg 8%N) with true by reflexivity.
  replace (marked nempty 8%N) with false by reflexivity.
  unfold descend. replace (nget 8%N d17_heap) with (Some (Items [8%N])) by reflexivity.
  rewrite d17_trace_diverges; [reflexivity|]. reflexivity.
Qed.

Lemma d17_mark_terminates_post :
  exists m, mark true true d17_heap d17_reg 8%N 8%N 3 [8%N] [] [8%N] nempty = Ok m /\ marked m 8%N = true.
Proof. eexists. split; vm_compute; reflexivity. Qed.
