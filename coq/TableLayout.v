(* TableLayout.v — byte layout of a Table slot (src/Table.c: Table_Size_Round, Table_Step,
   Table_Key_Hash, Table_Key, Table_Val).  A slot is
       [ hash word : 8 ][ Header ][ key : ksize ][ Header ][ value : vsize ]
   with ksize = Table_Size_Round(size(ktype)), vsize = Table_Size_Round(size(vtype)); the rounding
   function is re-extracted from the C source (Generated.table_size_round).
   MODEL ONLY (no proofs here). *)
From Coq Require Import Arith.
From CelloV Require Import Generated.

Definition size_round : nat -> nat := table_size_round.

(* hdr = sizeof(struct Header); ks, vs = size(ktype), size(vtype) *)
Definition slot_step (hdr ks vs : nat) : nat := 8 + hdr + size_round ks + hdr + size_round vs.
Definition key_off (hdr : nat) : nat := 8 + hdr.
Definition val_hdr_off (hdr ks : nat) : nat := 8 + hdr + size_round ks.
Definition val_off (hdr ks : nat) : nat := 8 + hdr + size_round ks + hdr.
(* Table_Step minus the two headers: what the harness compares (independent of build flags) *)
Definition slot_body (ks vs : nat) : nat := 8 + size_round ks + size_round vs.
