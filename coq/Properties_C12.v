(* Properties_C12.v — property C12: a failed operation is reported as an exception and changes nothing.
   Only statements closed by `exact`, each followed by Print Assumptions.
   The theorems are about the FAITHFUL container models (the ones whose every slot / cell / node is
   compared with the real library after every operation by the checks of C02, C04, C16): their raising
   steps return the state they were given, whatever the state and the arguments, and outside its
   contract every operation raises exactly the documented exception. *)
From Coq Require Import List Arith NArith ZArith Bool String.
From CelloV Require Import RBTree RBProofs RBRefine IterModel IterSource IterProofs StringModel StringProofs Generated RobinHood TableModel TableProofs ErrorsModel ErrorsProofs ErrorsGlue SeqModels SeqProofs SeqTupleProofs SeqErrorProofs SeqTheorems.
Import ListNotations.

(* Array, List, Tuple: a raising step changes nothing — any state, any operation, any argument *)
Theorem sequence_failed_op_changes_nothing :
  forall (E : Type) (eqb ltb same : E -> E -> bool) (zero : E)
         (gc sc : nat -> nat -> bool) (gs ss : nat -> nat -> nat) (o : sop E) (e : cexn),
  (forall a a', a_step E eqb ltb gc sc gs ss a o = (a', ORaise E e) -> a' = a) /\
  (forall l l', l_step E eqb zero l o = (l', ORaise E e) -> l' = l) /\
  (forall t t', SeqModels.t_step E eqb ltb same t o = (t', ORaise E e) -> t' = t).
Proof.
  exact (fun E eqb ltb same zero gc sc gs ss o e =>
    conj (fun a a' => SeqErrorProofs.a_raise_unchanged E eqb ltb gc sc gs ss a o a' e)
    (conj (fun l l' => SeqErrorProofs.l_raise_unchanged E eqb zero l o l' e)
          (fun t t' => SeqErrorProofs.t_raise_unchanged E eqb ltb same t o t' e))).
Qed.
Print Assumptions sequence_failed_op_changes_nothing.

(* outside the in-range contract the abstract sequence prescribes the documented exception:
   ValueError for an absent element, FormatError for an impossible resize, ClassError for an
   unimplemented class (sort on List), IndexOutOfBoundsError for every index outside the range *)
Theorem sequence_out_of_contract_is_documented :
  forall (E : Type) (eqb ltb : E -> E -> bool) (zero : E) (c : kind) (l : list E) (o : sop E),
  in_range E eqb c l o = false ->
  SeqModels.spec_step E eqb ltb zero c l o =
    (l, ORaise E match o with
                 | SRem _ _ => ValueError | SResize _ _ => FormatError | SSort _ => ClassError
                 | _ => IndexError end).
Proof. exact SeqErrorProofs.spec_step_out. Qed.
Print Assumptions sequence_out_of_contract_is_documented.

(* ... and the models follow the abstract sequence along EVERY history, failed operations included:
   after any mixture of valid and invalid operations the container still is the abstract sequence *)
Theorem array_usable_after_failures :
  forall (E : Type) (eqb ltb : E -> E -> bool) (zero : E),
  (forall x y, ltb x y = true -> ltb y x = false) ->
  (forall x y z, ltb x y = true -> ltb y z = true -> ltb x z = true) ->
  forall (ops : list (sop E)) (a : array E),
  a_inv E a ->
  refines_all E eqb ltb zero (array E)
    (a_step E eqb ltb array_grow_cond array_shrink_cond array_grow_size array_shrink_size)
    (a_abs E) (a_inv E) KArray (fun _ _ => True) a ops.
Proof. exact SeqTheorems.array_refines_list_all. Qed.
Print Assumptions array_usable_after_failures.

Theorem list_usable_after_failures :
  forall (E : Type) (eqb ltb : E -> E -> bool) (zero : E) (ops : list (sop E)) (l : llist E),
  l_inv E l ->
  refines_all E eqb ltb zero (llist E) (l_step E eqb zero) (l_abs E) (l_inv E) KList (fun _ _ => True) l ops.
Proof. exact SeqTheorems.list_refines_list_all. Qed.
Print Assumptions list_usable_after_failures.

Theorem tuple_usable_after_failures :
  forall (E : Type) (eqb ltb same : E -> E -> bool) (zero : E),
  (forall x y, ltb x y = true -> ltb y x = false) ->
  (forall x y z, ltb x y = true -> ltb y z = true -> ltb x z = true) ->
  (forall x, same x x = true) ->
  (forall x y, eqb x y = eqb y x) ->
  forall (ops : list (sop E)) (t : tuple E),
  t_inv E same t ->
  refines_all E eqb ltb zero (tuple E) (SeqModels.t_step E eqb ltb same) (t_abs E) (t_inv E same) KTuple
              (t_fresh E same) t ops.
Proof. exact SeqTheorems.tuple_refines_list_all. Qed.
Print Assumptions tuple_usable_after_failures.

(* Table: a raising step (KeyError of get/rem, FormatError of an impossible resize) changes nothing,
   for every hash function, displacement rule, prime table and state *)
Theorem table_failed_op_changes_nothing :
  forall (K V : Type) (keq : K -> K -> bool) (hash : K -> N) (swap : nat -> nat -> bool)
         (primes : list N) (num den : N) (t t' : TableModel.table K V) (o : TableModel.op K V) (e : cexn),
  TableModel.t_step K V keq hash swap primes num den t o = (t', TableModel.ORaise V e) -> t' = t.
Proof. exact t_step_raise_unchanged. Qed.
Print Assumptions table_failed_op_changes_nothing.

(* Table: after any history, get or rem of an absent key raises KeyError (and changes nothing) *)
Theorem table_absent_key_raises_keyerror : forall (K V : Type) (keq : K -> K -> bool) (hash : K -> N),
  (forall a b, keq a b = true <-> a = b) ->
  forall (ops : list (TableModel.op K V)) (k : K),
  let t := T_run K V keq hash ops in
  let m := TableModel.spec_run K V keq ops [] in
  a_get K V keq m k = None ->
  T_step K V keq hash t (TGet K V k) = (t, TableModel.ORaise V KeyError) /\
  T_step K V keq hash t (TRem K V k) = (t, TableModel.ORaise V KeyError).
Proof. exact TableProofs.T_absent_keyerror. Qed.
Print Assumptions table_absent_key_raises_keyerror.

(* Tree: a raising step (KeyError, FormatError) returns the tree it was given *)
Theorem tree_failed_op_changes_nothing :
  forall (K V : Type) (cmp : K -> K -> comparison) (us : bool -> bool -> bool) (t t' : RBTree.rbt K V) (o : RBTree.op K V) (e : RBTree.texn),
  RBTree.t_step K V cmp us t o = (t', RBTree.ORaise V e) -> t' = t.
Proof. exact tree_step_raise_unchanged. Qed.
Print Assumptions tree_failed_op_changes_nothing.

(* Tree: every step agrees with the ordered-map specification, which prescribes KeyError for an absent key and
   FormatError for resize(n > 0) and leaves the map unchanged in both cases *)
Theorem tree_step_follows_spec : forall (K V : Type) (cmp : K -> K -> comparison) (us : bool -> bool -> bool), RBRefine.total_order cmp ->
  forall (t : RBTree.rbt K V) (o : RBTree.op K V), RBRefine.rb_inv K V cmp t ->
    RBRefine.rb_inv K V cmp (fst (RBTree.t_step K V cmp us t o)) /\
    RBRefine.abs K V (fst (RBTree.t_step K V cmp us t o)) = fst (RBTree.spec_step K V cmp (RBRefine.abs K V t) o) /\
    snd (RBTree.t_step K V cmp us t o) = snd (RBTree.spec_step K V cmp (RBRefine.abs K V t) o).
Proof. exact step_refines_total. Qed.
Print Assumptions tree_step_follows_spec.

(* Range: get is total over every int64 key: inside the range the value, outside IndexOutOfBoundsError
   (a Range has no state to change) *)
Theorem range_get_outside_raises_index_error : forall r key, IterProofs.in_box r -> (- IterModel.two63 <= key < IterModel.two63)%Z ->
  IterModel.range_get IterModel.repaired r key =
  let i := if (key <? 0)%Z then (IterProofs.range_count r + key)%Z else key in
  if ((0 <=? i) && (i <? IterProofs.range_count r))%Z then IterModel.OVal (IterProofs.range_val r i) else IterModel.ORaise IterModel.EIndex.
Proof. exact IterProofs.range_get_ok. Qed.
Print Assumptions range_get_outside_raises_index_error.

(* String: rem of a substring that does not occur raises ValueError and the string is unchanged;
   the allocation model follows the abstract string along every history (C16_history_refines) *)
Theorem string_rem_absent_raises_and_changes_nothing : forall v s,
  (forall i, ~ StringProofs.occurs v s i) -> StringModel.spec_step s (StringModel.ORem v) = (s, StringModel.SRaise StringModel.SValueError).
Proof. exact spec_rem_absent. Qed.
Print Assumptions string_rem_absent_raises_and_changes_nothing.

Theorem string_model_follows_spec_on_every_history : forall v0 ops, StringModel.nulfree v0 -> Forall StringModel.op_ok ops ->
  exists b0 bf, StringProofs.c_new v0 = Some b0 /\ StringProofs.c_run b0 ops = (fst (StringModel.spec_run v0 ops), bf) /\
                StringModel.repr bf (snd (StringModel.spec_run v0 ops)).
Proof. exact c_history_refines. Qed.
Print Assumptions string_model_follows_spec_on_every_history.

(* the shape "validate every argument, then mutate": if any guard fails the state is returned as it
   was together with the first failing guard's exception; the body runs only when all guards pass *)
Theorem guarded_operation_is_atomic : forall (S X : Type) (o : gop S X) (s s' : S) (e : X),
  run_gop S X o s = (s', Some e) -> s' = s /\ first_failure S X (guards S X o) s = Some e.
Proof. exact run_gop_atomic. Qed.
Print Assumptions guarded_operation_is_atomic.

(* static tie, re-extracted from src/*.c on every run (tools/genx_err.py): in every function that checks its
   arguments (bounds, NULL, allocation class, method, magic number under the CELLO_*_CHECK switches, or a type
   cast) no mutating statement precedes the last such check — the C functions have the guarded shape above *)
Theorem argument_checks_precede_mutation_in_the_source :
  forallb (fun r => snd r) err_guard_order = true /\ 30 <= List.length err_guard_order.
Proof. vm_compute. split; [reflexivity|]. repeat constructor. Qed.
Print Assumptions argument_checks_precede_mutation_in_the_source.

(* the contract table of the failed-operation matrix names only the exceptions the property documents *)
Definition documented_exn (e : cexn) : bool :=
  match e with
  | IndexError | KeyError | ValueError | TypeError | ClassError | FormatError | ResourceError => true
  | _ => false
  end.
Theorem contract_names_documented_exceptions :
  forallb (fun r => match snd r with [] => false | es => forallb documented_exn es end) contract = true.
Proof. vm_compute. reflexivity. Qed.
Print Assumptions contract_names_documented_exceptions.

(* C12 meets C07 (ErrorsGlue.v): programs of guarded operations and try/catch blocks, run on the exception MACHINE
   of Exn.v (the macro expansion over struct Exception, constants taken from the source).  From a fresh thread and
   for every program within the nesting bound: the operations that took effect are exactly those the direct reading
   [crun] performs, the block depth is back to 0, and the run ends normally unless an exception nobody accepts is
   left — then the thread dies with exactly that object. *)
Theorem failed_operation_under_try_catch_on_the_machine : forall (S : Type) (p : ErrorsGlue.cprog S) (s : S),
  ErrorsGlue.cnesting S p <= exc_max_depth ->
  let '(tr, r, st') := ExnProofs.mach (ErrorsGlue.compile S p s) Exn.st_init in
  ErrorsGlue.ticks tr = ErrorsGlue.cdone S p s /\ Exn.depth st' = 0 /\
  r = match snd (ErrorsGlue.crun S p s) with None => Exn.MNormal | Some e => Exn.MDied (Some e) 1 end.
Proof. exact ErrorsGlue.machine_runs_compiled. Qed.
Print Assumptions failed_operation_under_try_catch_on_the_machine.

(* ... and the handler that accepts the exception of a failed operation continues from exactly the state in which
   the operation was attempted (everything the body did before it is kept, the failed operation left no trace) *)
Theorem handler_continues_from_the_state_of_the_failed_attempt :
  forall (S : Type) (pre : ErrorsGlue.cprog S) n (o : gop S nat) fs h s e,
  snd (ErrorsGlue.crun S pre s) = None ->
  first_failure S nat (guards S nat o) (fst (ErrorsGlue.crun S pre s)) = Some e ->
  Exn.matches fs e = true ->
  ErrorsGlue.crun S (ErrorsGlue.CTry S (ErrorsGlue.CSeq S pre (ErrorsGlue.COp S n o)) fs h) s
  = ErrorsGlue.crun S h (fst (ErrorsGlue.crun S pre s)).
Proof.
  exact (fun S pre n o fs h s e Hp He Hm => ErrorsGlue.handler_sees_pre_state S pre n o fs h s Hp e He Hm).
Qed.
Print Assumptions handler_continues_from_the_state_of_the_failed_attempt.

(* non-vacuity: a counter that refuses to go below 0; the second decrement fails inside try, the handler increments *)
Example failed_operation_under_try_catch_nonvacuous :
  let dec := mkG nat nat [fun s => if s =? 0 then Some 30 else None] pred in
  let inc := mkG nat nat [] Datatypes.S in
  let p := ErrorsGlue.CTry nat (ErrorsGlue.CSeq nat (ErrorsGlue.COp nat 1 dec) (ErrorsGlue.COp nat 2 dec)) [31] (ErrorsGlue.COp nat 3 inc) in
  ErrorsGlue.crun nat p 1 = (1, None) /\ ErrorsGlue.cdone nat p 1 = [1; 3] /\
  fst (ExnProofs.mach (ErrorsGlue.compile nat p 1) Exn.st_init) = ([Exn.ETick 1 1; Exn.EHandler 30 1 0; Exn.ETick 3 0], Exn.MNormal).
Proof. vm_compute. repeat split. Qed.
