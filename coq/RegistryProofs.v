(* RegistryProofs.v — proofs about RegistryModel.v (property C17).

   1. capacity rule, cyclic facts, position-wise relation PW (same homes, addresses, root flags)
   2. backward shift: where an entry can come from (backshift_from), used by the sweep loop
   3. mark phase: total, changes mark bits only
   4. compaction loop of GC_Sweep: total, leaves exactly the keepers
   5. the registry invariant Inv (including the ledger `led`), kept by every operation,
      nested destructor-issued removals included; fuel adequacy everywhere
   6. histories                                                                              *)
From Coq Require Import List Arith Bool NArith Lia PeanoNat.
From CelloV Require Import Generated RobinHood RobinHoodProofs TableProofs RegistryModel.
Import ListNotations.

(* the capacity rule of the registry always leaves a free slot: GC_Ideal_Size(n) > n *)
Lemma gc_ideal_gt : forall n : nat, n < ideal_size gc_primes gc_load_num gc_load_den n.
Proof.
  intros n. unfold ideal_size.
  assert (H : (N.of_nat n < ideal_size_N gc_primes gc_load_num gc_load_den (N.of_nat n))%N)
    by (apply ideal_N_gt; vm_compute; reflexivity).
  lia.
Qed.

Local Notation at_ := (at_ gentry).
Local Notation upd := (upd gentry).
Local Notation Holds := (Holds gentry).
Local Notation occupied := (occupied gentry).
Local Notation entries := (entries gentry).
Local Notation Absent := (Absent N gentry ptr).

(* ------------------------------------------------------------------ 1. position-wise relation *)
Inductive srel : gslot -> gslot -> Prop :=
| srel_none : srel None None
| srel_some h e e' : ptr e = ptr e' -> root e = root e' -> srel (Some (h, e)) (Some (h, e')).

Definition PW (l l' : list gslot) : Prop := Forall2 srel l l'.

Lemma srel_refl s : srel s s.
Proof. destruct s as [[h e]|]; constructor; reflexivity. Qed.

Lemma srel_trans a b c : srel a b -> srel b c -> srel a c.
Proof. intros H1 H2. inversion H1; subst; inversion H2; subst; constructor; congruence. Qed.

Lemma PW_refl l : PW l l.
Proof. induction l; constructor; auto using srel_refl. Qed.

Lemma PW_trans a b c : PW a b -> PW b c -> PW a c.
Proof.
  unfold PW. intros H. revert c. induction H as [|x y l l' Hxy Hl IH]; intros c Hc; inversion Hc; subst.
  - constructor.
  - constructor; [eapply srel_trans; eauto|apply IH; assumption].
Qed.

Lemma PW_length l l' : PW l l' -> length l' = length l.
Proof. induction 1; simpl; congruence. Qed.

Lemma PW_at l l' i : PW l l' -> srel (at_ l i) (at_ l' i).
Proof.
  intros H. revert i. induction H; intros [|i]; try constructor; auto.
  unfold RobinHood.at_. simpl. apply IHForall2.
Qed.

Lemma PW_occupied l l' : PW l l' -> occupied l' = occupied l.
Proof.
  induction 1; [reflexivity|]. rewrite !occupied_cons, IHForall2. inversion H; reflexivity.
Qed.

Lemma PW_upd l i h e e' : at_ l i = Some (h, e) -> ptr e = ptr e' -> root e = root e' ->
  PW l (upd i (Some (h, e')) l).
Proof.
  revert i. induction l as [|s l IH]; intros [|i] Hat Hp Hr; try discriminate; simpl.
  - unfold RobinHood.at_ in Hat; simpl in Hat. subst s. constructor; [constructor; auto|apply PW_refl].
  - constructor; [apply srel_refl|]. apply IH; auto.
Qed.

Definition smap (f : gentry -> gentry) (l : list gslot) : list gslot :=
  map (fun s => match s with Some (h, e) => Some (h, f e) | None => None end) l.

Lemma PW_smap f l : (forall e, ptr (f e) = ptr e /\ root (f e) = root e) -> PW l (smap f l).
Proof.
  intros Hf. induction l as [|[[h e]|] l IH]; simpl; constructor; auto; constructor;
    destruct (Hf e); congruence.
Qed.

Lemma clear_marks_smap l : clear_marks l = smap unmark l.
Proof. reflexivity. Qed.

Lemma mark_roots_smap l : mark_roots l = smap (fun e => if root e then setmark e else e) l.
Proof.
  unfold mark_roots, smap. apply map_ext. intros [[h e]|]; [|reflexivity]. destruct (root e); reflexivity.
Qed.

Lemma at_smap f l i : at_ (smap f l) i = match at_ l i with Some (h, e) => Some (h, f e) | None => None end.
Proof.
  revert i. induction l as [|s l IH]; intros [|i]; try reflexivity.
  simpl smap. rewrite !at_cons. apply IH.
Qed.

Lemma PW_holds l l' x' : PW l l' -> Holds l' x' -> exists x, Holds l x /\ ptr x = ptr x' /\ root x = root x'.
Proof.
  intros H [i [h Hat]]. pose proof (PW_at l l' i H) as Hs. rewrite Hat in Hs. inversion Hs; subst.
  exists e. split; [exists i, h; auto|auto].
Qed.

Lemma PW_holds_rev l l' x : PW l l' -> Holds l x -> exists x', Holds l' x' /\ ptr x = ptr x' /\ root x = root x'.
Proof.
  intros H [i [h Hat]]. pose proof (PW_at l l' i H) as Hs. rewrite Hat in Hs. inversion Hs; subst.
  exists e'. split; [exists i, h; auto|auto].
Qed.

Lemma PW_core hm l l' : PW l l' -> core N gentry ptr hm l -> core N gentry ptr hm l'.
Proof.
  intros H [HL [Hwf Huq]]. pose proof (PW_length _ _ H) as Hlen.
  assert (Hwt : forall a, wt gentry l' a = wt gentry l a).
  { intros a. unfold wt. rewrite Hlen. pose proof (PW_at l l' a H) as Hs. inversion Hs; reflexivity. }
  split; [|split].
  - intros a Ha. rewrite Hlen in *. rewrite !Hwt. apply HL. assumption.
  - intros a h e' Hat. rewrite Hlen. pose proof (PW_at l l' a H) as Hs. rewrite Hat in Hs.
    destruct (at_ l a) as [[h0 e0]|] eqn:Ha0; inversion Hs as [|? ? ? Hp Hr]; subst.
    destruct (Hwf a h e0 Ha0) as [Hh Hlt]. split; [congruence|assumption].
  - intros a b h h' e e' Ha Hb Hk.
    pose proof (PW_at l l' a H) as Hsa. rewrite Ha in Hsa.
    destruct (at_ l a) as [[ha ea]|] eqn:Ha0; inversion Hsa as [|? ? ? Hpa Hra]; subst.
    pose proof (PW_at l l' b H) as Hsb. rewrite Hb in Hsb.
    destruct (at_ l b) as [[hb eb]|] eqn:Hb0; inversion Hsb as [|? ? ? Hpb Hrb]; subst.
    eapply Huq; eauto. congruence.
Qed.

(* registered (address, root flag) pairs of a slot array *)
Definition Regs (l : list gslot) (q : N) (s : bool) : Prop :=
  exists e, Holds l e /\ ptr e = q /\ root e = s.

Lemma PW_regs l l' q s : PW l l' -> (Regs l' q s <-> Regs l q s).
Proof.
  intros H. split; intros [e [He [Hp Hr]]].
  - destruct (PW_holds _ _ _ H He) as [x [Hx [Hpx Hrx]]]. exists x. split; [auto|split; congruence].
  - destruct (PW_holds_rev _ _ _ H He) as [x [Hx [Hpx Hrx]]]. exists x. split; [auto|split; congruence].
Qed.

Lemma Regs_absent l q : Absent l q <-> (forall s, ~ Regs l q s).
Proof.
  split.
  - intros Ha s [e [[i [h Hat]] [Hp _]]]. eapply Ha; eauto.
  - intros Hn i h e Hat Hp. apply (Hn (root e)). exists e. split; [exists i, h; auto|auto].
Qed.

(* ------------------------------------------------------------------ 2. backward shift *)
(* every entry of the result sits where it was or one slot before: nothing jumps *)
Lemma backshift_from : forall fuel (l : list gslot) i z m l',
  i < length l -> at_ l i = None ->
  z = pos (length l) i m -> 0 < m -> m < length l -> at_ l z = None ->
  backshift gentry fuel l i = Some l' ->
  forall s x, at_ l' s = Some x ->
    at_ l s = Some x \/ (at_ l (nxt (length l) s) = Some x /\ exists k, k < m /\ s = pos (length l) i k).
Proof.
  induction fuel as [|f IH]; intros l i z m l' Hi Hat Hz Hm0 Hmn Hzn Hb s x Hs; [discriminate|].
  rewrite backshift_S in Hb. set (n := length l) in *. set (ni := nxt n i) in *.
  destruct (at_ l ni) as [[h e]|] eqn:Hnat.
  - destruct (0 <? dist n ni h) eqn:Hd.
    + set (l1 := upd ni None (upd i (Some (h, e)) l)) in *.
      assert (Hni : ni < n) by (apply nxt_lt; assumption).
      assert (Hne : ni <> i) by (intros Heq; rewrite Heq in Hnat; congruence).
      assert (Hlen2 : length (upd i (Some (h, e)) l) = n) by apply upd_length.
      assert (Hlen1 : length l1 = n) by (unfold l1; rewrite upd_length; assumption).
      assert (Hat1 : forall a, at_ l1 a = if a =? ni then None else if a =? i then Some (h, e) else at_ l a).
      { intros a. unfold l1. rewrite at_upd by (rewrite Hlen2; assumption).
        destruct (Nat.eqb_spec a ni); [reflexivity|]. apply at_upd. assumption. }
      assert (Hzi : z <> i) by (rewrite Hz; apply pos_ne_self; assumption).
      assert (Hzni : z <> ni) by (intros ->; congruence).
      assert (Hm1 : m <> 1).
      { intros ->. apply Hzni. rewrite Hz. rewrite pos_S_nxt by lia. apply pos_0. assumption. }
      assert (P1 : ni < length l1) by (rewrite Hlen1; assumption).
      assert (P2 : at_ l1 ni = None) by (rewrite Hat1, Nat.eqb_refl; reflexivity).
      assert (P3 : z = pos (length l1) ni (m - 1)).
      { rewrite Hlen1. rewrite Hz. replace m with (S (m - 1)) at 1 by lia. apply pos_S_nxt; lia. }
      assert (P4 : 0 < m - 1) by lia.
      assert (P5 : m - 1 < length l1) by (rewrite Hlen1; lia).
      assert (P6 : at_ l1 z = None).
      { rewrite Hat1. destruct (Nat.eqb_spec z ni); [reflexivity|].
        destruct (Nat.eqb_spec z i); [contradiction|assumption]. }
      destruct (IH l1 ni z (m - 1) l' P1 P2 P3 P4 P5 P6 Hb s x Hs) as [H1|[H1 [k [Hk Hsk]]]].
      * rewrite Hat1 in H1. destruct (Nat.eqb_spec s ni); [discriminate|].
        destruct (Nat.eqb_spec s i) as [->|].
        -- right. split; [fold ni; congruence|]. exists 0. split; [lia|]. symmetry. apply pos_0. assumption.
        -- left. assumption.
      * rewrite Hlen1 in *. rewrite Hat1 in H1.
        destruct (Nat.eqb_spec (nxt n s) ni); [discriminate|].
        assert (Hs1 : s = pos n i (S k)) by (rewrite Hsk; symmetry; apply pos_S_nxt; lia).
        assert (Hsn : s < n) by (rewrite Hs1; apply pos_lt; lia).
        assert (Hnx : nxt n s = pos n i (S (S k))).
        { rewrite Hs1. apply nxt_pos; lia. }
        destruct (Nat.eqb_spec (nxt n s) i) as [Heq|].
        -- exfalso. rewrite Hnx in Heq. revert Heq. apply pos_ne_self; lia.
        -- right. split; [assumption|]. exists (S k). split; [lia|assumption].
    + injection Hb as <-. left. assumption.
  - injection Hb as <-. left. assumption.
Qed.

Lemma delete_at_from (l : list gslot) i h e l' : at_ l i = Some (h, e) -> occupied l < length l ->
  delete_at gentry l i = Some l' ->
  forall s x, at_ l' s = Some x -> s <> i /\ at_ l s = Some x \/ (nxt (length l) s <> i /\ at_ l (nxt (length l) s) = Some x).
Proof.
  intros Hat Hocc Hd s x Hs. pose proof (at_some_lt _ _ _ _ Hat) as Hi.
  destruct (empty_slot_exists _ l Hocc) as [z [Hz Hzn]].
  assert (Hzi : z <> i) by (intros ->; congruence).
  unfold delete_at in Hd. set (n := length l) in *. set (l0 := upd i None l) in *.
  assert (Hlen0 : length l0 = n) by apply upd_length.
  assert (Hat0 : forall a, at_ l0 a = if a =? i then None else at_ l a) by (intros a; apply at_upd; assumption).
  assert (P1 : i < length l0) by (rewrite Hlen0; assumption).
  assert (P2 : at_ l0 i = None) by (rewrite Hat0, Nat.eqb_refl; reflexivity).
  assert (P3 : z = pos (length l0) i (dist n z i)) by (rewrite Hlen0; symmetry; apply pos_dist; assumption).
  assert (P4 : 0 < dist n z i).
  { destruct (dist n z i) eqn:Hdd; [|lia]. apply dist_0 in Hdd; auto. congruence. }
  assert (P5 : dist n z i < length l0) by (rewrite Hlen0; apply dist_lt; assumption).
  assert (P6 : at_ l0 z = None).
  { rewrite Hat0. destruct (Nat.eqb_spec z i); [reflexivity|assumption]. }
  destruct (backshift_from (n + 2) l0 i z (dist n z i) l' P1 P2 P3 P4 P5 P6 Hd s x Hs) as [H1|[H1 _]].
  - rewrite Hat0 in H1. destruct (Nat.eqb_spec s i); [discriminate|]. left. auto.
  - rewrite Hlen0 in H1. rewrite Hat0 in H1. destruct (Nat.eqb_spec (nxt n s) i); [discriminate|]. right. auto.
Qed.
