(* RegistryProofs.v — proofs about RegistryModel.v (property C17). *)
From Coq Require Import List Arith Bool NArith Lia PeanoNat.
From CelloV Require Import Generated RobinHood RobinHoodProofs TableProofs RegistryModel.
Import ListNotations.

(* the capacity rule of the registry always leaves a free slot: GC_Ideal_Size(n) > n *)
Lemma gc_ideal_gt : forall n : nat, n < ideal_size gc_primes gc_load_num gc_load_den n.
Proof.
  intros n. unfold ideal_size.
  assert (H : (N.of_nat n < ideal_size_N gc_primes gc_load_num gc_load_den (N.of_nat n))%N)
    by (apply ideal_N_gt; vm_compute; reflexivity).
  lia.
Qed.
