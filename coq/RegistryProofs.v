(* RegistryProofs.v — proofs about RegistryModel.v (property C17).

   1. capacity rule, cyclic facts, position-wise relation PW (same homes, addresses, root flags)
   2. backward shift: where an entry can come from (backshift_from), used by the sweep loop
   3. mark phase: total, changes mark bits only
   4. compaction loop of GC_Sweep: total, leaves exactly the keepers
   5. the registry invariant Inv (including the ledger `led`), kept by every operation,
      nested destructor-issued removals included; fuel adequacy everywhere
   6. histories                                                                              *)
From Coq Require Import List Arith Bool NArith Lia PeanoNat.
From CelloV Require Import Generated RobinHood RobinHoodProofs TableProofs RegistryModel.
Import ListNotations.

(* the capacity rule of the registry always leaves a free slot: GC_Ideal_Size(n) > n *)
Lemma gc_ideal_gt : forall n : nat, n < ideal_size gc_primes gc_load_num gc_load_den n.
Proof.
  intros n. unfold ideal_size.
  assert (H : (N.of_nat n < ideal_size_N gc_primes gc_load_num gc_load_den (N.of_nat n))%N)
    by (apply ideal_N_gt; vm_compute; reflexivity).
  lia.
Qed.

Local Notation at_ := (at_ gentry).
Local Notation upd := (upd gentry).
Local Notation Holds := (Holds gentry).
Local Notation occupied := (occupied gentry).
Local Notation entries := (entries gentry).
Local Notation Absent := (Absent N gentry ptr).

(* ------------------------------------------------------------------ 1. position-wise relation *)
Inductive srel : gslot -> gslot -> Prop :=
| srel_none : srel None None
| srel_some h e e' : ptr e = ptr e' -> root e = root e' -> srel (Some (h, e)) (Some (h, e')).

Definition PW (l l' : list gslot) : Prop := Forall2 srel l l'.

Lemma srel_refl s : srel s s.
Proof. destruct s as [[h e]|]; constructor; reflexivity. Qed.

Lemma srel_trans a b c : srel a b -> srel b c -> srel a c.
Proof. intros H1 H2. inversion H1; subst; inversion H2; subst; constructor; congruence. Qed.

Lemma PW_refl l : PW l l.
Proof. induction l; constructor; auto using srel_refl. Qed.

Lemma PW_trans a b c : PW a b -> PW b c -> PW a c.
Proof.
  unfold PW. intros H. revert c. induction H as [|x y l l' Hxy Hl IH]; intros c Hc; inversion Hc; subst.
  - constructor.
  - constructor; [eapply srel_trans; eauto|apply IH; assumption].
Qed.

Lemma PW_length l l' : PW l l' -> length l' = length l.
Proof. induction 1; simpl; congruence. Qed.

Lemma PW_at l l' i : PW l l' -> srel (at_ l i) (at_ l' i).
Proof.
  intros H. revert i. induction H; intros [|i]; try constructor; auto.
  unfold RobinHood.at_. simpl. apply IHForall2.
Qed.

Lemma PW_occupied l l' : PW l l' -> occupied l' = occupied l.
Proof.
  induction 1; [reflexivity|]. rewrite !occupied_cons, IHForall2. inversion H; reflexivity.
Qed.

Lemma PW_upd l i h e e' : at_ l i = Some (h, e) -> ptr e = ptr e' -> root e = root e' ->
  PW l (upd i (Some (h, e')) l).
Proof.
  revert i. induction l as [|s l IH]; intros [|i] Hat Hp Hr; try discriminate; simpl.
  - unfold RobinHood.at_ in Hat; simpl in Hat. subst s. constructor; [constructor; auto|apply PW_refl].
  - constructor; [apply srel_refl|]. apply IH; auto.
Qed.

Definition smap (f : gentry -> gentry) (l : list gslot) : list gslot :=
  map (fun s => match s with Some (h, e) => Some (h, f e) | None => None end) l.

Lemma PW_smap f l : (forall e, ptr (f e) = ptr e /\ root (f e) = root e) -> PW l (smap f l).
Proof.
  intros Hf. induction l as [|[[h e]|] l IH]; simpl; constructor; auto; constructor;
    destruct (Hf e); congruence.
Qed.

Lemma clear_marks_smap l : clear_marks l = smap unmark l.
Proof. reflexivity. Qed.

Lemma mark_roots_smap l : mark_roots l = smap (fun e => if root e then setmark e else e) l.
Proof.
  unfold mark_roots, smap. apply map_ext. intros [[h e]|]; [|reflexivity]. destruct (root e); reflexivity.
Qed.

Lemma at_smap f l i : at_ (smap f l) i = match at_ l i with Some (h, e) => Some (h, f e) | None => None end.
Proof.
  revert i. induction l as [|s l IH]; intros [|i]; try reflexivity.
  simpl smap. rewrite !at_cons. apply IH.
Qed.

Lemma PW_holds l l' x' : PW l l' -> Holds l' x' -> exists x, Holds l x /\ ptr x = ptr x' /\ root x = root x'.
Proof.
  intros H [i [h Hat]]. pose proof (PW_at l l' i H) as Hs. rewrite Hat in Hs. inversion Hs; subst.
  exists e. split; [exists i, h; auto|auto].
Qed.

Lemma PW_holds_rev l l' x : PW l l' -> Holds l x -> exists x', Holds l' x' /\ ptr x = ptr x' /\ root x = root x'.
Proof.
  intros H [i [h Hat]]. pose proof (PW_at l l' i H) as Hs. rewrite Hat in Hs. inversion Hs; subst.
  exists e'. split; [exists i, h; auto|auto].
Qed.

Lemma PW_core hm l l' : PW l l' -> core N gentry ptr hm l -> core N gentry ptr hm l'.
Proof.
  intros H [HL [Hwf Huq]]. pose proof (PW_length _ _ H) as Hlen.
  assert (Hwt : forall a, wt gentry l' a = wt gentry l a).
  { intros a. unfold wt. rewrite Hlen. pose proof (PW_at l l' a H) as Hs. inversion Hs; reflexivity. }
  split; [|split].
  - intros a Ha. rewrite Hlen in *. rewrite !Hwt. apply HL. assumption.
  - intros a h e' Hat. rewrite Hlen. pose proof (PW_at l l' a H) as Hs. rewrite Hat in Hs.
    destruct (at_ l a) as [[h0 e0]|] eqn:Ha0; inversion Hs as [|? ? ? Hp Hr]; subst.
    destruct (Hwf a h e0 Ha0) as [Hh Hlt]. split; [congruence|assumption].
  - intros a b h h' e e' Ha Hb Hk.
    pose proof (PW_at l l' a H) as Hsa. rewrite Ha in Hsa.
    destruct (at_ l a) as [[ha ea]|] eqn:Ha0; inversion Hsa as [|? ? ? Hpa Hra]; subst.
    pose proof (PW_at l l' b H) as Hsb. rewrite Hb in Hsb.
    destruct (at_ l b) as [[hb eb]|] eqn:Hb0; inversion Hsb as [|? ? ? Hpb Hrb]; subst.
    eapply Huq; eauto. congruence.
Qed.

(* registered (address, root flag) pairs of a slot array *)
Definition Regs (l : list gslot) (q : N) (s : bool) : Prop :=
  exists e, Holds l e /\ ptr e = q /\ root e = s.

Lemma PW_regs l l' q s : PW l l' -> (Regs l' q s <-> Regs l q s).
Proof.
  intros H. split; intros [e [He [Hp Hr]]].
  - destruct (PW_holds _ _ _ H He) as [x [Hx [Hpx Hrx]]]. exists x. split; [auto|split; congruence].
  - destruct (PW_holds_rev _ _ _ H He) as [x [Hx [Hpx Hrx]]]. exists x. split; [auto|split; congruence].
Qed.

Lemma Regs_absent l q : Absent l q <-> (forall s, ~ Regs l q s).
Proof.
  split.
  - intros Ha s [e [[i [h Hat]] [Hp _]]]. eapply Ha; eauto.
  - intros Hn i h e Hat Hp. apply (Hn (root e)). exists e. split; [exists i, h; auto|auto].
Qed.

(* ------------------------------------------------------------------ 2. backward shift *)
(* every entry of the result sits where it was or one slot before: nothing jumps *)
Lemma backshift_from : forall fuel (l : list gslot) i z m l',
  i < length l -> at_ l i = None ->
  z = pos (length l) i m -> 0 < m -> m < length l -> at_ l z = None ->
  backshift gentry fuel l i = Some l' ->
  forall s x, at_ l' s = Some x ->
    at_ l s = Some x \/ (at_ l (nxt (length l) s) = Some x /\ exists k, k < m /\ s = pos (length l) i k).
Proof.
  induction fuel as [|f IH]; intros l i z m l' Hi Hat Hz Hm0 Hmn Hzn Hb s x Hs; [discriminate|].
  rewrite backshift_S in Hb. set (n := length l) in *. set (ni := nxt n i) in *.
  destruct (at_ l ni) as [[h e]|] eqn:Hnat.
  - destruct (0 <? dist n ni h) eqn:Hd.
    + set (l1 := upd ni None (upd i (Some (h, e)) l)) in *.
      assert (Hni : ni < n) by (apply nxt_lt; assumption).
      assert (Hne : ni <> i) by (intros Heq; rewrite Heq in Hnat; congruence).
      assert (Hlen2 : length (upd i (Some (h, e)) l) = n) by apply upd_length.
      assert (Hlen1 : length l1 = n) by (unfold l1; rewrite upd_length; assumption).
      assert (Hat1 : forall a, at_ l1 a = if a =? ni then None else if a =? i then Some (h, e) else at_ l a).
      { intros a. unfold l1. rewrite at_upd by (rewrite Hlen2; assumption).
        destruct (Nat.eqb_spec a ni); [reflexivity|]. apply at_upd. assumption. }
      assert (Hzi : z <> i) by (rewrite Hz; apply pos_ne_self; assumption).
      assert (Hzni : z <> ni) by (intros ->; congruence).
      assert (Hm1 : m <> 1).
      { intros ->. apply Hzni. rewrite Hz. rewrite pos_S_nxt by lia. apply pos_0. assumption. }
      assert (P1 : ni < length l1) by (rewrite Hlen1; assumption).
      assert (P2 : at_ l1 ni = None) by (rewrite Hat1, Nat.eqb_refl; reflexivity).
      assert (P3 : z = pos (length l1) ni (m - 1)).
      { rewrite Hlen1. rewrite Hz. replace m with (S (m - 1)) at 1 by lia. apply pos_S_nxt; lia. }
      assert (P4 : 0 < m - 1) by lia.
      assert (P5 : m - 1 < length l1) by (rewrite Hlen1; lia).
      assert (P6 : at_ l1 z = None).
      { rewrite Hat1. destruct (Nat.eqb_spec z ni); [reflexivity|].
        destruct (Nat.eqb_spec z i); [contradiction|assumption]. }
      destruct (IH l1 ni z (m - 1) l' P1 P2 P3 P4 P5 P6 Hb s x Hs) as [H1|[H1 [k [Hk Hsk]]]].
      * rewrite Hat1 in H1. destruct (Nat.eqb_spec s ni); [discriminate|].
        destruct (Nat.eqb_spec s i) as [->|].
        -- right. split; [fold ni; congruence|]. exists 0. split; [lia|]. symmetry. apply pos_0. assumption.
        -- left. assumption.
      * rewrite Hlen1 in *. rewrite Hat1 in H1.
        destruct (Nat.eqb_spec (nxt n s) ni); [discriminate|].
        assert (Hs1 : s = pos n i (S k)) by (rewrite Hsk; symmetry; apply pos_S_nxt; lia).
        assert (Hsn : s < n) by (rewrite Hs1; apply pos_lt; lia).
        assert (Hnx : nxt n s = pos n i (S (S k))).
        { rewrite Hs1. apply nxt_pos; lia. }
        destruct (Nat.eqb_spec (nxt n s) i) as [Heq|].
        -- exfalso. rewrite Hnx in Heq. revert Heq. apply pos_ne_self; lia.
        -- right. split; [assumption|]. exists (S k). split; [lia|assumption].
    + injection Hb as <-. left. assumption.
  - injection Hb as <-. left. assumption.
Qed.

Lemma delete_at_from (l : list gslot) i h e l' : at_ l i = Some (h, e) -> occupied l < length l ->
  delete_at gentry l i = Some l' ->
  forall s x, at_ l' s = Some x -> s <> i /\ at_ l s = Some x \/ (nxt (length l) s <> i /\ at_ l (nxt (length l) s) = Some x).
Proof.
  intros Hat Hocc Hd s x Hs. pose proof (at_some_lt _ _ _ _ Hat) as Hi.
  destruct (empty_slot_exists _ l Hocc) as [z [Hz Hzn]].
  assert (Hzi : z <> i) by (intros ->; congruence).
  unfold delete_at in Hd. set (n := length l) in *. set (l0 := upd i None l) in *.
  assert (Hlen0 : length l0 = n) by apply upd_length.
  assert (Hat0 : forall a, at_ l0 a = if a =? i then None else at_ l a) by (intros a; apply at_upd; assumption).
  assert (P1 : i < length l0) by (rewrite Hlen0; assumption).
  assert (P2 : at_ l0 i = None) by (rewrite Hat0, Nat.eqb_refl; reflexivity).
  assert (P3 : z = pos (length l0) i (dist n z i)) by (rewrite Hlen0; symmetry; apply pos_dist; assumption).
  assert (P4 : 0 < dist n z i).
  { destruct (dist n z i) eqn:Hdd; [|lia]. apply dist_0 in Hdd; auto. congruence. }
  assert (P5 : dist n z i < length l0) by (rewrite Hlen0; apply dist_lt; assumption).
  assert (P6 : at_ l0 z = None).
  { rewrite Hat0. destruct (Nat.eqb_spec z i); [reflexivity|assumption]. }
  destruct (backshift_from (n + 2) l0 i z (dist n z i) l' P1 P2 P3 P4 P5 P6 Hd s x Hs) as [H1|[H1 _]].
  - rewrite Hat0 in H1. destruct (Nat.eqb_spec s i); [discriminate|]. left. auto.
  - rewrite Hlen0 in H1. rewrite Hat0 in H1. destruct (Nat.eqb_spec (nxt n s) i); [discriminate|]. right. auto.
Qed.

Section RP.
  Variable hashf : N -> N.
  Variable swap : nat -> nat -> bool.
  Variable primes : list N.
  Variables num den : N.
  Variable owns : N -> list N.
  Variable spawns : N -> list dact.
  Variables rem_fin null_first : bool.
  Hypothesis swap_le : forall j p, swap j p = true -> p <= j.
  Hypothesis swap_ge : forall j p, swap j p = false -> j <= p.
  Hypothesis ideal_gt : forall n, n < ideal_size primes num den n.

  Local Notation home := (home hashf).
  Local Notation ideal := (ideal primes num den).

  (* the generic robin-hood invariant for the current slot count *)
  Definition Core (l : list gslot) : Prop := core N gentry ptr (fun p => home p (length l)) l.

  Lemma home_lt p n : 0 < n -> home p n < n.
  Proof.
    intros Hn. unfold RegistryModel.home.
    assert (H : (hashf p mod N.of_nat n < N.of_nat n)%N) by (apply N.mod_lt; lia).
    lia.
  Qed.

  Lemma Core_PW l l' : PW l l' -> Core l -> Core l'.
  Proof.
    intros H Hc. unfold Core. rewrite (PW_length _ _ H). eapply PW_core; eauto.
  Qed.

  Lemma Core_home_lt l i h e : Core l -> at_ l i = Some (h, e) -> h < length l.
  Proof. intros [_ [Hwf _]] Hat. destruct (Hwf _ _ _ Hat). assumption. Qed.

  (* ---------------------------------------------------------------- 3. mark phase *)
  Lemma mark_loop_ok (l : list gslot) p : Core l ->
    forall f i j, i < length l -> length l - j < f ->
      exists l', mark_loop f l i j p = Some l' /\ PW l l'.
  Proof.
    intros Hc. induction f as [|f IH]; intros i j Hi Hf; [lia|]. simpl.
    destruct (at_ l i) as [[h e]|] eqn:Hat.
    - destruct (Nat.ltb_spec (dist (length l) i h) j) as [Hd|Hd].
      + exists l. split; [reflexivity|apply PW_refl].
      + destruct (N.eqb (ptr e) p && negb (marked e)).
        * eexists. split; [reflexivity|]. apply PW_upd with (e := e); auto.
        * pose proof (Core_home_lt _ _ _ _ Hc Hat) as Hh.
          pose proof (dist_lt (length l) i h Hh Hi).
          apply IH; [apply nxt_lt; assumption|lia].
    - exists l. split; [reflexivity|apply PW_refl].
  Qed.

  (* all fields but the slot array agree *)
  Definition same_rest (g g' : gc) : Prop :=
    nitems g' = nitems g /\ mitems g' = mitems g /\ minptr g' = minptr g /\ maxptr g' = maxptr g /\
    running g' = running g /\ pending g' = pending g /\ evs g' = evs g.

  Lemma same_rest_refl g : same_rest g g.
  Proof. repeat split. Qed.

  Lemma mark_item_ok g p : Core (slots g) -> nslots g <> 0 ->
    exists g', mark_item hashf g p = Some (Some g') /\ PW (slots g) (slots g') /\ same_rest g g'.
  Proof.
    intros Hc Hn. unfold mark_item.
    destruct (negb (p mod 8 =? 0)%N || (p <? minptr g)%N || (maxptr g <? p)%N).
    - exists g. split; [reflexivity|]. split; [apply PW_refl|apply same_rest_refl].
    - destruct (Nat.eqb_spec (nslots g) 0) as [|_]; [contradiction|].
      destruct (mark_loop_ok (slots g) p Hc (nslots g + 2) (home p (nslots g)) 0) as [l' [Hl Hpw]].
      + apply home_lt. unfold nslots in *. lia.
      + unfold nslots. lia.
      + unfold nslots in *. rewrite Hl. eexists. split; [reflexivity|]. split; [exact Hpw|repeat split].
  Qed.

  Lemma mark_words_ok ws : forall g, Core (slots g) -> nslots g <> 0 ->
    exists g', mark_words hashf g ws = Some (Some g') /\ PW (slots g) (slots g') /\ same_rest g g'.
  Proof.
    induction ws as [|w ws IH]; intros g Hc Hn; simpl.
    - exists g. split; [reflexivity|]. split; [apply PW_refl|apply same_rest_refl].
    - destruct (mark_item_ok g w Hc Hn) as [g1 [H1 [Hpw1 Hs1]]]. rewrite H1.
      destruct (IH g1) as [g2 [H2 [Hpw2 Hs2]]].
      + eapply Core_PW; eauto.
      + unfold nslots in *. rewrite (PW_length _ _ Hpw1). assumption.
      + exists g2. split; [exact H2|]. split; [eapply PW_trans; eauto|].
        unfold same_rest in *. intuition congruence.
  Qed.

  (* GC_Mark: never out of fuel, never `% 0`, changes mark bits only *)
  Lemma gc_mark_ok g ws : Core (slots g) -> (nitems g <> 0 -> nslots g <> 0) ->
    exists g', gc_mark hashf g ws = Some (Some g') /\ PW (slots g) (slots g') /\ same_rest g g'.
  Proof.
    intros Hc Hn. unfold gc_mark. destruct (Nat.eqb_spec (nitems g) 0) as [|Hne].
    - exists g. split; [reflexivity|]. split; [apply PW_refl|apply same_rest_refl].
    - assert (Hpw0 : PW (slots g) (mark_roots (slots g))).
      { rewrite mark_roots_smap. apply PW_smap. intros e. destruct (root e) eqn:Hr; split; simpl; congruence. }
      destruct (mark_words_ok ws (set_slots g (mark_roots (slots g)))) as [g' [H [Hpw Hs]]].
      + simpl. eapply Core_PW; eauto.
      + unfold nslots in *. simpl. rewrite (PW_length _ _ Hpw0). auto.
      + exists g'. split; [exact H|]. split; [eapply PW_trans; eauto|exact Hs].
  Qed.

  (* ---------------------------------------------------------------- 4. compaction loop *)
  Definition keeper (e : gentry) : bool := marked e || root e.

  Lemma Core_UQ_same l x y : Core l -> Holds l x -> Holds l y -> ptr x = ptr y -> x = y.
  Proof.
    intros [_ [_ Huq]] [i [h Hi]] [j [h' Hj]] Hp.
    assert (i = j) by (eapply Huq; eauto). subst j. congruence.
  Qed.

  Definition pend_of (rm : list gentry) : list (option N) := map (fun e => Some (ptr e)) rm.
  Definition reclaim_evs (rm : list gentry) : list event := map EvReclaim (rev (map ptr rm)).

  Lemma sweep_loop_ok : forall f (l : list gslot) i nit pl ev,
    Core l -> (length l = 0 \/ occupied l < length l) ->
    (forall s h e, s < i -> at_ l s = Some (h, e) -> keeper e = true) ->
    (length l - i) + occupied l < f ->
    exists l' rm,
      sweep_loop f l i nit pl ev = Some (l', nit - length rm, pl ++ pend_of rm, reclaim_evs rm ++ ev) /\
      Core l' /\ length l' = length l /\
      (forall x, Holds l' x <-> Holds l x /\ keeper x = true) /\
      (forall x, In x rm <-> Holds l x /\ keeper x = false) /\
      occupied l' + length rm = occupied l.
  Proof.
    clear swap_le swap_ge ideal_gt rem_fin null_first owns spawns primes num den swap.
    induction f as [|f IH]; intros l i nit pl ev Hc Hocc0 Hinv Hf; [lia|].
    cbn [sweep_loop]. destruct (Nat.leb_spec (length l) i) as [Hge|Hlt].
    - exists l, []. cbn [length pend_of reclaim_evs map rev app]. rewrite Nat.sub_0_r, app_nil_r.
      split; [reflexivity|]. split; [assumption|]. split; [reflexivity|]. split; [|split; [|lia]].
      + intros x. split; [|tauto]. intros Hx. split; [assumption|].
        destruct Hx as [s [h Hs]]. apply (Hinv s h x); [|assumption].
        pose proof (at_some_lt _ _ _ _ Hs). lia.
      + intros x. split; [intros []|]. intros [[s [h Hs]] Hk].
        rewrite (Hinv s h x) in Hk; [discriminate| |assumption]. pose proof (at_some_lt _ _ _ _ Hs). lia.
    - assert (Hadv : (forall h e, at_ l i = Some (h, e) -> keeper e = true) ->
        exists l' rm,
          sweep_loop f l (S i) nit pl ev = Some (l', nit - length rm, pl ++ pend_of rm, reclaim_evs rm ++ ev) /\
          Core l' /\ length l' = length l /\
          (forall x, Holds l' x <-> Holds l x /\ keeper x = true) /\
          (forall x, In x rm <-> Holds l x /\ keeper x = false) /\
          occupied l' + length rm = occupied l).
      { intros Hk. apply IH; auto; [|lia].
        intros s h e Hs Hat. destruct (Nat.eq_dec s i) as [->|]; [eapply Hk; eauto|].
        apply (Hinv s h e); [lia|assumption]. }
      destruct (at_ l i) as [[h e]|] eqn:Hat.
      + destruct (marked e) eqn:Hm.
        { apply Hadv. intros h0 e0 Heq. injection Heq as <- <-. unfold keeper. rewrite Hm. reflexivity. }
        destruct (root e) eqn:Hr; cbn [negb].
        { apply Hadv. intros h0 e0 Heq. injection Heq as <- <-. unfold keeper. rewrite Hr. apply orb_true_r. }
        assert (Hke : keeper e = false) by (unfold keeper; rewrite Hm, Hr; reflexivity).
        assert (Hocc : occupied l < length l).
        { destruct Hocc0 as [Hz|]; [pose proof (at_some_lt _ _ _ _ Hat); lia|assumption]. }
        destruct (delete_at_spec N gentry ptr _ l i h e Hc Hat Hocc)
          as [l1 [Hd [Hc1 [Hlen1 [Hh1 Ho1]]]]].
        unfold rh_delete. rewrite Hd.
        assert (Hc1' : Core l1) by (unfold Core; rewrite Hlen1; exact Hc1).
        destruct (IH l1 i (pred nit) (pl ++ [Some (ptr e)]) (EvReclaim (ptr e) :: ev)) as [l' [rm [Hs [Hc' [Hlen' [Hh' [Hrm' Ho']]]]]]]; auto.
        * right. lia.
        * intros s h0 e0 Hs Hat0.
          destruct (delete_at_from l i h e l1 Hat Hocc Hd s (h0, e0) Hat0) as [[Hne Ho]|[Hne Ho]].
          -- apply (Hinv s h0 e0); assumption.
          -- rewrite nxt_eq in Hne, Ho by lia.
             destruct (Nat.eqb_spec (S s) (length l)) as [|_]; [lia|].
             apply (Hinv (S s) h0 e0); [lia|assumption].
        * lia.
        * exists l', (e :: rm). split.
          { rewrite Hs. f_equal. f_equal; [f_equal; [f_equal|]|].
            - cbn [length]. lia.
            - unfold pend_of. cbn [map]. rewrite <- app_assoc. reflexivity.
            - unfold reclaim_evs. cbn [map rev]. rewrite map_app. cbn [map]. rewrite <- app_assoc. reflexivity. }
          split; [exact Hc'|]. split; [lia|]. split; [|split].
          -- intros x. rewrite Hh', Hh1. split; [tauto|]. intros [Hx Hk]. split; [split; [assumption|]|assumption].
             intros Hp. assert (x = e) by (apply (Core_UQ_same l x e Hc Hx); [exists i, h; exact Hat|exact Hp]). subst x. congruence.
          -- intros x. cbn [In]. rewrite Hrm', Hh1. split.
             ++ intros [<-|[[Hx _] Hk]]; [split; [exists i, h; assumption|assumption]|tauto].
             ++ intros [Hx Hk]. destruct (N.eq_dec (ptr x) (ptr e)) as [Hp|Hp].
                ** left. symmetry. apply (Core_UQ_same l x e Hc Hx); [exists i, h; exact Hat|exact Hp].
                ** right. tauto.
          -- cbn [length]. lia.
      + apply Hadv. intros h e Heq. discriminate.
  Qed.

  (* ---------------------------------------------------------------- 5. the invariant *)
  Definition Reg (g : gc) : N -> bool -> Prop := Regs (slots g).

  Definition HAbsent (l : list gslot) (q : N) : Prop := forall e, Holds l e -> ptr e <> q.

  Lemma HAbsent_Absent l q : HAbsent l q <-> Absent l q.
  Proof.
    split.
    - intros H i h e Hat. apply H. exists i, h. assumption.
    - intros H e [i [h Hat]]. eapply H; eauto.
  Qed.

  (* everything but "marks are clear": this is what holds between GC_Mark and the end of the
     compaction loop *)
  Record InvM (g : gc) : Prop := mkInvM {
    inv_core : Core (slots g);
    inv_count : nitems g = occupied (slots g);
    inv_room : nslots g = 0 \/ nitems g < nslots g;
    inv_bounds : forall e, Holds (slots g) e -> (minptr g <= ptr e <= maxptr g)%N;
    inv_pend : forall q, In (Some q) (pending g) -> HAbsent (slots g) q;
    inv_led : forall q s, Reg g q s <-> led (evs g) q s
  }.

  Definition Clear (l : list gslot) : Prop := forall e, Holds l e -> marked e = false.

  Definition Inv (g : gc) : Prop := InvM g /\ Clear (slots g).

  Definition Quiet (g : gc) : Prop := pending g = [].

  Lemma Inv_init : Inv gc_init /\ Quiet gc_init.
  Proof.
    split; [|reflexivity]. split; [constructor|]; simpl.
    - apply (core_repeat N gentry ptr _ 0).
    - reflexivity.
    - left. reflexivity.
    - intros e [i [h H]]. destruct i; discriminate.
    - intros q [].
    - intros q s. split; [|intros []]. intros [e [[i [h H]] _]]. destruct i; discriminate.
    - intros e [i [h H]]. destruct i; discriminate.
  Qed.

  (* each object once, count right *)
  Lemma Inv_nodup g : InvM g -> NoDup (map ptr (entries (slots g))) /\ nitems g = length (entries (slots g)).
  Proof.
    intros H. split; [|apply (inv_count g H)].
    destruct (inv_core g H) as [_ [_ Huq]]. apply (UQ_NoDup N gentry ptr). exact Huq.
  Qed.

  Lemma Holds_smap f l x : Holds (smap f l) x <-> exists e, Holds l e /\ x = f e.
  Proof.
    split.
    - intros [i [h Hat]]. rewrite at_smap in Hat. destruct (at_ l i) as [[h0 e]|] eqn:H0; [|discriminate].
      injection Hat as <- <-. exists e. split; [exists i, h0; assumption|reflexivity].
    - intros [e [[i [h Hat]] ->]]. exists i, h. rewrite at_smap, Hat. reflexivity.
  Qed.

  Lemma clear_id l : Clear l -> clear_marks l = l.
  Proof.
    induction l as [|s l IH]; intros Hc; [reflexivity|]. simpl. f_equal.
    - destruct s as [[h e]|]; [|reflexivity]. simpl.
      assert (Hm : marked e = false) by (apply Hc; exists 0, h; reflexivity).
      destruct e as [p r m]. simpl in Hm. subst m. reflexivity.
    - apply IH. intros e [i [h Hat]]. apply Hc. exists (S i), h. exact Hat.
  Qed.

  Lemma Clear_clear_marks l : Clear (clear_marks l).
  Proof.
    intros x Hx. rewrite clear_marks_smap in Hx. apply Holds_smap in Hx. destruct Hx as [e [_ ->]]. reflexivity.
  Qed.

  Lemma PW_clear_marks l : PW l (clear_marks l).
  Proof. rewrite clear_marks_smap. apply PW_smap. intros e; split; reflexivity. Qed.

  (* transfer of the invariant along a position-wise equal slot array *)
  Lemma InvM_PW g g' : InvM g -> PW (slots g) (slots g') -> same_rest g g' -> InvM g'.
  Proof.
    intros H Hpw [Hn [Hm [Hlo [Hhi [Hr [Hp He]]]]]]. constructor.
    - eapply Core_PW; eauto. apply (inv_core g H).
    - rewrite Hn, (PW_occupied _ _ Hpw). apply (inv_count g H).
    - unfold nslots. rewrite Hn, (PW_length _ _ Hpw). apply (inv_room g H).
    - intros e He'. destruct (PW_holds _ _ _ Hpw He') as [x [Hx [Hpx _]]]. rewrite Hlo, Hhi, <- Hpx.
      apply (inv_bounds g H). assumption.
    - intros q Hq e He'. destruct (PW_holds _ _ _ Hpw He') as [x [Hx [Hpx _]]]. rewrite <- Hpx.
      rewrite Hp in Hq. apply (inv_pend g H q Hq). assumption.
    - intros q s. unfold Reg. rewrite (PW_regs _ _ q s Hpw), He. apply (inv_led g H).
  Qed.

  (* ---------------------------------------------------------------- rehash / resize *)
  Lemma g_rehash_ok g n : Core (slots g) -> Clear (slots g) -> occupied (slots g) <= n -> 0 < n ->
    exists l', g_rehash hashf swap g n = Some (set_slots g l') /\ Core l' /\ length l' = n /\
      (forall x, Holds l' x <-> Holds (slots g) x) /\ occupied l' = occupied (slots g).
  Proof.
    intros Hc Hcl Hocc Hn. unfold g_rehash, rh_rehash. rewrite (clear_id _ Hcl).
    destruct Hc as [HL [Hwf Huq]].
    destruct (rehash_spec N gentry N.eqb ptr swap (fun old _ => old) N.eqb_eq swap_le swap_ge
                (fun p => home p n) home (slots g) n Huq) as [l' [Hr [Hc' [Hlen [Hh Ho]]]]].
    - reflexivity.
    - intros k. apply home_lt. assumption.
    - assumption.
    - exists l'. rewrite Hr. split; [reflexivity|]. split; [unfold Core; rewrite Hlen; exact Hc'|]. auto.
  Qed.

  (* changing the slot array for one with the same entries keeps the invariant *)
  Lemma Inv_same_entries g l' : Inv g -> Core l' ->
    (forall x, Holds l' x <-> Holds (slots g) x) -> occupied l' = occupied (slots g) ->
    (length l' = 0 \/ nitems g < length l') -> Inv (set_slots g l').
  Proof.
    intros [H Hcl] Hc Hh Ho Hroom. split; [constructor|]; simpl.
    - assumption.
    - rewrite Ho. apply (inv_count g H).
    - exact Hroom.
    - intros e He. apply (inv_bounds g H). apply Hh. assumption.
    - intros q Hq e He. apply (inv_pend g H q Hq). apply Hh. assumption.
    - intros q s. rewrite <- (inv_led g H q s). unfold Reg, Regs. simpl.
      split; intros [e [He Hpr]]; exists e; (split; [apply Hh; assumption|assumption]).
    - intros e He. apply Hcl. apply Hh. assumption.
  Qed.

  (* GC_Resize_Less for ANY shrink condition (the generated one is never looked at): either the
     table is rebuilt at ideal(nitems) > nitems slots, or it is left alone *)
  Lemma resize_less_ok g : Inv g ->
    exists l', resize_less hashf swap primes num den g = Some (set_slots g l') /\ Inv (set_slots g l') /\
               (forall x, Holds l' x <-> Holds (slots g) x).
  Proof.
    intros Hi. pose proof Hi as [H Hcl]. unfold resize_less. cbv zeta.
    match goal with |- context [if ?c then _ else _] => destruct c end.
    - destruct (g_rehash_ok g (ideal (nitems g))) as [l' [Hr [Hc' [Hlen [Hh Ho]]]]].
      + apply (inv_core g H).
      + assumption.
      + rewrite <- (inv_count g H). pose proof (ideal_gt (nitems g)). unfold RegistryModel.ideal. lia.
      + pose proof (ideal_gt (nitems g)). unfold RegistryModel.ideal. lia.
      + exists l'. split; [exact Hr|]. split; [|exact Hh]. apply Inv_same_entries; auto.
        right. rewrite Hlen. apply ideal_gt.
    - exists (slots g). destruct g; simpl. split; [reflexivity|]. split; [exact Hi|tauto].
  Qed.

  (* ---------------------------------------------------------------- what bounds the nesting *)
  (* destructors delete only addresses of a finite list, and never allocate one of them *)
  Variable olist : list N.
  Hypothesis olist_nodup : NoDup olist.
  Hypothesis owns_olist : forall q t, In t (owns q) -> In t olist.
  Hypothesis spawns_olist : forall q p r, In (p, r) (map dact_pair (spawns q)) -> ~ In p olist.

  Lemma is_reg_spec l a : is_reg l a = true <-> exists e, Holds l e /\ ptr e = a.
  Proof.
    unfold is_reg. rewrite existsb_exists. split; intros [e [H1 H2]]; exists e.
    - split; [apply in_entries; assumption|apply N.eqb_eq; assumption].
    - split; [apply in_entries; assumption|apply N.eqb_eq; assumption].
  Qed.

  Lemma is_reg_false l a : is_reg l a = false -> HAbsent l a.
  Proof.
    intros H e He Hp. assert (is_reg l a = true); [|congruence]. apply is_reg_spec. exists e. auto.
  Qed.

  Lemma is_pending_in p pl : is_pending p pl = true -> In (Some p) pl.
  Proof.
    induction pl as [|x pl IH]; simpl; [discriminate|].
    destruct x as [y|]; simpl; [|intros H; right; auto].
    destruct (N.eqb_spec y p) as [->|]; simpl; [left; reflexivity|intros H; right; auto].
  Qed.

  Lemma in_is_pending p pl : In (Some p) pl -> is_pending p pl = true.
  Proof.
    intros H. unfold is_pending. apply existsb_exists. exists (Some p). split; [assumption|apply N.eqb_refl].
  Qed.

  (* an owned address that is still in the table or in the pending list *)
  Definition live (g : gc) (a : N) : bool := is_reg (slots g) a || is_pending a (pending g).
  Definition measureO (g : gc) : nat := length (filter (live g) olist).
  Definition Le (g' g : gc) : Prop := forall a, In a olist -> live g' a = true -> live g a = true.

  Lemma filter_le (P' P : N -> bool) L : (forall a, In a L -> P' a = true -> P a = true) ->
    length (filter P' L) <= length (filter P L).
  Proof.
    induction L as [|x L IH]; intros H; simpl; [lia|].
    assert (IH' : length (filter P' L) <= length (filter P L)) by (apply IH; intros; apply H; simpl; auto).
    destruct (P' x) eqn:H1; [rewrite (H x (or_introl eq_refl) H1); simpl; lia|destruct (P x); simpl; lia].
  Qed.

  Lemma filter_lt (P' P : N -> bool) L p : (forall a, In a L -> P' a = true -> P a = true) ->
    In p L -> P p = true -> P' p = false -> length (filter P' L) < length (filter P L).
  Proof.
    induction L as [|x L IH]; intros H Hin Hp Hp'; simpl; [destruct Hin|].
    assert (Hle : length (filter P' L) <= length (filter P L)) by (apply filter_le; intros; apply H; simpl; auto).
    destruct Hin as [->|Hin].
    - rewrite Hp, Hp'. simpl. lia.
    - assert (IH' : length (filter P' L) < length (filter P L)) by (apply IH; auto; intros; apply H; simpl; auto).
      destruct (P' x) eqn:H1; [rewrite (H x (or_introl eq_refl) H1); simpl; lia|destruct (P x); simpl; lia].
  Qed.

  Lemma Le_refl g : Le g g.
  Proof. intros a _ H. exact H. Qed.

  Lemma Le_trans a b c : Le a b -> Le b c -> Le a c.
  Proof. intros H1 H2 x Hx H. apply H2; auto. Qed.

  Lemma Le_measure g' g : Le g' g -> measureO g' <= measureO g.
  Proof. intros H. apply filter_le. exact H. Qed.

  Lemma Lt_measure g' g p : Le g' g -> In p olist -> live g p = true -> live g' p = false ->
    measureO g' < measureO g.
  Proof. intros H Hin H1 H2. apply (filter_lt (live g') (live g) olist p); auto. Qed.

  (* Le from containment of the tables and of the pending lists *)
  Lemma Le_sub g' g : (forall e, Holds (slots g') e -> Holds (slots g) e \/ ~ In (ptr e) olist) ->
    (forall q, In (Some q) (pending g') -> In (Some q) (pending g)) -> Le g' g.
  Proof.
    intros Hs Hp a Ha H. unfold live in *. apply orb_true_iff in H. apply orb_true_iff. destruct H as [H|H].
    - apply is_reg_spec in H. destruct H as [e [He Hpe]]. destruct (Hs e He) as [H1|H1].
      + left. apply is_reg_spec. exists e. auto.
      + rewrite Hpe in H1. contradiction.
    - right. apply in_is_pending. apply Hp. apply is_pending_in. assumption.
  Qed.

  Definition somes (pl : list (option N)) : list N :=
    flat_map (fun x => match x with Some q => [q] | None => [] end) pl.

  Lemma somes_length pl : length (somes pl) <= length pl.
  Proof. induction pl as [|[q|] pl IH]; simpl; lia. Qed.

  Lemma in_somes q pl : In (Some q) pl -> In q (somes pl).
  Proof.
    unfold somes. intros H. apply in_flat_map. exists (Some q). split; [assumption|left; reflexivity].
  Qed.

  Lemma filter_or_le (P Q : N -> bool) L :
    length (filter (fun a => P a || Q a) L) <= length (filter P L) + length (filter Q L).
  Proof. induction L as [|x L IH]; simpl; [lia|]. destruct (P x), (Q x); simpl; lia. Qed.

  (* there are no more live owned addresses than entries plus pending slots: the fuel `depth`
     of the model is enough *)
  Lemma measureO_bound g : InvM g -> measureO g <= nitems g + length (pending g).
  Proof.
    intros H. unfold measureO, live.
    pose proof (filter_or_le (is_reg (slots g)) (fun a => is_pending a (pending g)) olist) as H0.
    assert (H1 : length (filter (is_reg (slots g)) olist) <= nitems g).
    { rewrite (inv_count g H). unfold RobinHood.occupied. rewrite <- (map_length ptr).
      apply NoDup_incl_length; [apply NoDup_filter; assumption|].
      intros a Ha. apply filter_In in Ha. destruct Ha as [_ Ha]. apply is_reg_spec in Ha.
      destruct Ha as [e [He <-]]. apply in_map. apply in_entries. assumption. }
    assert (H2 : length (filter (fun a => is_pending a (pending g)) olist) <= length (pending g)).
    { pose proof (somes_length (pending g)).
      assert (length (filter (fun a => is_pending a (pending g)) olist) <= length (somes (pending g))); [|lia].
      apply NoDup_incl_length; [apply NoDup_filter; assumption|].
      intros a Ha. apply filter_In in Ha. destruct Ha as [_ Ha]. apply in_somes. apply is_pending_in. assumption. }
    lia.
  Qed.

  Definition extra (p : N) : nat := if in_dec N.eq_dec p olist then 0 else 1.

  Lemma Inv_new_mitems g : Inv g -> Inv (new_mitems g).
  Proof. intros [[]]. split; [constructor|]; assumption. Qed.

  Lemma Inv_log_fin g q : Inv g -> Inv (log g (EvFin q)).
  Proof. intros [[]]. split; [constructor|]; assumption. Qed.

  (* ---------------------------------------------------------------- pending list *)
  Lemma null_out_in p pl q : In (Some q) (null_out p pl) -> In (Some q) pl.
  Proof.
    induction pl as [|x pl IH]; simpl; [tauto|]. intros [H|H]; [|right; auto].
    destruct x as [y|]; [|discriminate]. destruct (N.eqb y p); [discriminate|]. left. assumption.
  Qed.

  Lemma null_out_not_pending p pl : is_pending p (null_out p pl) = false.
  Proof.
    induction pl as [|x pl IH]; simpl; [reflexivity|].
    destruct x as [y|]; simpl; [|assumption].
    destruct (N.eqb_spec y p) as [->|Hne]; simpl; [assumption|].
    destruct (N.eqb_spec y p); [contradiction|assumption].
  Qed.

  Lemma upd_opt_in k pl q : In (Some q) (upd_opt k pl) -> In (Some q) pl.
  Proof.
    revert k. induction pl as [|x pl IH]; intros [|k]; simpl; try tauto.
    - intros [H|H]; [discriminate|right; assumption].
    - intros [H|H]; [left; assumption|right; eauto].
  Qed.

  (* ---------------------------------------------------------------- invariant-keeping updates *)
  Lemma Inv_fields g g' : Inv g -> slots g' = slots g -> nitems g' = nitems g ->
    minptr g' = minptr g -> maxptr g' = maxptr g -> evs g' = evs g ->
    (forall q, In (Some q) (pending g') -> In (Some q) (pending g)) -> Inv g'.
  Proof.
    intros [H Hcl] Hs Hn Hlo Hhi He Hp. unfold Inv, Clear. rewrite Hs. split; [constructor|assumption].
    - rewrite Hs. apply (inv_core g H).
    - rewrite Hs, Hn. apply (inv_count g H).
    - unfold nslots. rewrite Hs, Hn. apply (inv_room g H).
    - rewrite Hs, Hlo, Hhi. apply (inv_bounds g H).
    - rewrite Hs. intros q Hq. apply (inv_pend g H q). auto.
    - unfold Reg. rewrite Hs, He. apply (inv_led g H).
  Qed.

  (* GC_Rem of an address that is not in the table: only the log grows *)
  Lemma Inv_rem_absent g g' p : Inv g -> HAbsent (slots g) p -> slots g' = slots g -> nitems g' = nitems g ->
    minptr g' = minptr g -> maxptr g' = maxptr g -> evs g' = EvRem p :: evs g ->
    (forall q, In (Some q) (pending g') -> In (Some q) (pending g)) -> Inv g'.
  Proof.
    intros [H Hcl] Ha Hs Hn Hlo Hhi He Hp. unfold Inv, Clear. rewrite Hs. split; [constructor|assumption].
    - rewrite Hs. apply (inv_core g H).
    - rewrite Hs, Hn. apply (inv_count g H).
    - unfold nslots. rewrite Hs, Hn. apply (inv_room g H).
    - rewrite Hs, Hlo, Hhi. apply (inv_bounds g H).
    - rewrite Hs. intros q Hq. apply (inv_pend g H q). auto.
    - unfold Reg. rewrite Hs, He. intros q s. cbn [led]. rewrite <- (inv_led g H q s). split; [|tauto].
      intros Hr. split; [assumption|]. destruct Hr as [e [He' [Hpe _]]]. rewrite <- Hpe. apply Ha. assumption.
  Qed.

  (* GC_Rem_Ptr found the address at a slot and shifted the cluster back *)
  Lemma Inv_rem_found g g' p l1 : Inv g -> Core l1 -> length l1 = length (slots g) ->
    (forall x, Holds l1 x <-> Holds (slots g) x /\ ptr x <> p) -> S (occupied l1) = occupied (slots g) ->
    slots g' = l1 -> nitems g' = pred (nitems g) ->
    minptr g' = minptr g -> maxptr g' = maxptr g -> evs g' = EvRem p :: evs g ->
    (forall q, In (Some q) (pending g') -> In (Some q) (pending g)) -> Inv g'.
  Proof.
    intros [H Hcl] Hc Hlen Hh Ho Hs Hn Hlo Hhi He Hp. unfold Inv, Clear. rewrite Hs.
    pose proof (inv_count g H) as Hcnt. pose proof (inv_room g H) as Hroom. unfold nslots in Hroom.
    split; [constructor|].
    - rewrite Hs. assumption.
    - rewrite Hs, Hn. lia.
    - unfold nslots. rewrite Hs, Hn, Hlen. lia.
    - rewrite Hs, Hlo, Hhi. intros e He'. apply (inv_bounds g H). apply Hh. assumption.
    - rewrite Hs. intros q Hq e He'. apply (inv_pend g H q); auto. apply Hh. assumption.
    - unfold Reg. rewrite Hs, He. intros q s. cbn [led]. rewrite <- (inv_led g H q s). unfold Reg, Regs. split.
      + intros [e [He' [Hpe Hre]]]. apply Hh in He'. split; [exists e; tauto|]. rewrite <- Hpe. tauto.
      + intros [[e [He' [Hpe Hre]]] Hne]. exists e. split; [apply Hh; split; [assumption|congruence]|auto].
    - intros e He'. apply Hcl. apply Hh. assumption.
  Qed.

  (* ---------------------------------------------------------------- registration (GC_Set up to the threshold test) *)
  Lemma Inv_log_viol g : Inv g -> Inv (log g EvViol).
  Proof. intros [[]]. split; [constructor|]; assumption. Qed.

  (* a fresh address has been inserted *)
  Lemma Inv_alloc g g' p r ev l2 l3 : Inv g -> ~ In (Some p) (pending g) -> Core l3 ->
    (ev = EvAlloc p r \/ ev = EvSpawn p r) ->
    (forall x, Holds l2 x <-> Holds (slots g) x) -> occupied l2 = occupied (slots g) ->
    (forall x, Holds l3 x <-> Holds l2 x \/ x = mkE p r false) -> occupied l3 = S (occupied l2) ->
    S (nitems g) < length l3 ->
    slots g' = l3 -> nitems g' = S (nitems g) ->
    minptr g' = N.min p (minptr g) -> maxptr g' = N.max p (maxptr g) ->
    pending g' = pending g -> evs g' = ev :: evs g -> Inv g'.
  Proof.
    intros [H Hcl] Hnp Hc Hev H2 Ho2 H3 Ho3 Hroom Hs Hn Hlo Hhi Hp He.
    pose proof (inv_count g H) as Hcnt. unfold Inv, Clear. rewrite Hs. split; [constructor|].
    - rewrite Hs. assumption.
    - rewrite Hs, Hn. lia.
    - unfold nslots. rewrite Hs, Hn. lia.
    - rewrite Hs, Hlo, Hhi. intros e He'. apply H3 in He'. destruct He' as [He'| ->]; [|simpl; lia].
      apply H2 in He'. pose proof (inv_bounds g H e He'). lia.
    - rewrite Hs, Hp. intros q Hq e He'. apply H3 in He'. destruct He' as [He'| ->].
      + apply (inv_pend g H q Hq). apply H2. assumption.
      + simpl. intros ->. contradiction.
    - unfold Reg. rewrite Hs, He. intros q s.
      assert (Hl : led (ev :: evs g) q s <-> (q = p /\ s = r) \/ led (evs g) q s)
        by (destruct Hev as [-> | ->]; reflexivity).
      rewrite Hl, <- (inv_led g H q s). unfold Reg, Regs. split.
      + intros [e [He' [Hpe Hre]]]. apply H3 in He'. destruct He' as [He'| ->].
        * right. exists e. split; [apply H2; assumption|auto].
        * left. simpl in *. auto.
      + intros [[-> ->]|[e [He' Hpr]]].
        * exists (mkE p r false). split; [apply H3; right; reflexivity|auto].
        * exists e. split; [apply H3; left; apply H2; assumption|assumption].
    - intros e He'. apply H3 in He'. destruct He' as [He'| ->]; [|reflexivity]. apply Hcl. apply H2. assumption.
  Qed.

  Local Notation gc_register' := (gc_register hashf swap primes num den).

  (* count, bounds, Resize_More, Set_Ptr for an address that is neither registered nor pending:
     total, keeps the invariant — also in the middle of a sweep (pending list not empty) *)
  Lemma gc_register_ok g p r ev : Inv g -> HAbsent (slots g) p -> ~ In (Some p) (pending g) ->
    (ev = EvAlloc p r \/ ev = EvSpawn p r) ->
    exists g3, gc_register' g p r ev = (g3, OOk) /\ Inv g3 /\ pending g3 = pending g /\
      running g3 = running g /\ nitems g3 = S (nitems g) /\
      (forall x, Holds (slots g3) x <-> Holds (slots g) x \/ x = mkE p r false).
  Proof.
    intros Hi Hfresh Hnp Hev. pose proof Hi as [H Hcl]. unfold gc_register.
    set (g1 := set_bounds (set_nitems g (S (nitems g))) (N.min p (minptr g)) (N.max p (maxptr g))).
    pose proof (inv_count g H) as Hcnt. pose proof (ideal_gt (S (nitems g))) as Hid.
    assert (Hrm : exists l2, resize_more hashf swap primes num den g1 = Some (set_slots g1 l2) /\ Core l2 /\
              (forall x, Holds l2 x <-> Holds (slots g) x) /\ occupied l2 = occupied (slots g) /\
              S (nitems g) < length l2).
    { unfold resize_more. change (nitems g1) with (S (nitems g)). change (nslots g1) with (nslots g).
      destruct (Nat.ltb_spec (nslots g) (ideal (S (nitems g)))) as [Hlt|Hge].
      - destruct (g_rehash_ok g1 (ideal (S (nitems g)))) as [l2 [Hr [Hc2 [Hlen2 [Hh2 Ho2]]]]].
        + apply (inv_core g H).
        + assumption.
        + simpl. unfold RegistryModel.ideal. lia.
        + unfold RegistryModel.ideal. lia.
        + exists l2. split; [exact Hr|]. split; [assumption|]. split; [exact Hh2|]. split; [exact Ho2|].
          rewrite Hlen2. exact Hid.
      - exists (slots g). split; [reflexivity|]. split; [apply (inv_core g H)|]. split; [tauto|]. split; [reflexivity|].
        unfold nslots, RegistryModel.ideal in Hge. lia. }
    destruct Hrm as [l2 [Hr [Hc2 [Hh2 [Ho2 Hlen2]]]]]. rewrite Hr.
    change (nslots (set_slots g1 l2)) with (length l2). change (slots (set_slots g1 l2)) with l2.
    destruct (Nat.eqb_spec (length l2) 0) as [|_]; [lia|].
    destruct (insert_absent_spec N gentry N.eqb ptr swap (fun old _ => old) N.eqb_eq swap_le swap_ge
                (fun q => home q (length l2)) l2 (mkE p r false) Hc2) as [l3 [Hins [Hc3 [Hlen3 [Hh3 Ho3]]]]].
    - apply home_lt. lia.
    - lia.
    - apply HAbsent_Absent. intros e He. apply Hfresh. apply Hh2. assumption.
    - unfold rh_insert. cbn [ptr] in Hins. rewrite Hins.
      set (g3 := log (set_slots (set_slots g1 l2) l3) ev).
      exists g3. split; [reflexivity|]. split; [|split; [reflexivity|split; [reflexivity|split; [reflexivity|]]]].
      + apply (Inv_alloc g g3 p r ev l2 l3 Hi Hnp); auto; try reflexivity.
        * unfold Core. rewrite Hlen3. exact Hc3.
        * lia.
      + intros x. simpl. rewrite Hh3, Hh2. tauto.
  Qed.

  Local Notation spawn_set' := (spawn_set hashf swap primes num den).

  (* GC_Set called from a destructor: registers the object (unless the run leaves the model's
     scope, which is only flagged), keeps the invariant, adds no owned address *)
  Lemma spawn_set_ok g pr : Inv g -> ~ In (fst pr) olist ->
    exists g', spawn_set' g pr = Some g' /\ Inv g' /\ Le g' g /\ length (pending g') = length (pending g).
  Proof.
    intros Hi Hno. destruct pr as [p r]. simpl in Hno. unfold spawn_set.
    destruct (running g); cbn [negb].
    2: { exists g. split; [reflexivity|]. split; [assumption|split; [apply Le_refl|reflexivity]]. }
    destruct (is_reg (slots g) p || is_pending p (pending g)) eqn:Hbusy.
    { exists (log g EvViol). split; [reflexivity|]. split; [apply Inv_log_viol; assumption|].
      split; [intros a _ Ha; exact Ha|reflexivity]. }
    apply orb_false_iff in Hbusy. destruct Hbusy as [Hr Hp].
    assert (Hnp : ~ In (Some p) (pending g)).
    { intros Hin. apply in_is_pending in Hin. congruence. }
    destruct (gc_register_ok g p r (EvSpawn p r) Hi (is_reg_false _ _ Hr) Hnp (or_intror eq_refl))
      as [g3 [H3 [Hi3 [Hp3 [_ [_ Hh3]]]]]].
    rewrite H3.
    assert (Hle : Le g3 g).
    { apply Le_sub.
      - intros e He. apply Hh3 in He. destruct He as [He| ->]; [left; assumption|right; exact Hno].
      - rewrite Hp3. auto. }
    assert (Hfin : forall g4, g4 = g3 \/ g4 = log g3 EvViol ->
              Inv g4 /\ Le g4 g /\ length (pending g4) = length (pending g)).
    { intros g4 [-> | ->].
      - split; [assumption|split; [assumption|rewrite Hp3; reflexivity]].
      - split; [apply Inv_log_viol; assumption|]. split; [|simpl; rewrite Hp3; reflexivity].
        intros a Ha Hl. apply Hle; assumption. }
    destruct (pending g3); [destruct (mitems g3 <? nitems g3)|]; eexists; (split; [reflexivity|]); apply Hfin; auto.
  Qed.

  (* ---------------------------------------------------------------- removal, nested *)
  Local Notation gc_rem' := (gc_rem hashf swap primes num den owns spawns rem_fin).

  (* a destructor that does nothing *)
  Definition leaf (p : N) : Prop := owns p = [] /\ spawns p = [].

  (* enough nesting fuel: more than the live owned addresses (+1 for an address outside olist),
     or any fuel at all for an object whose destructor does nothing *)
  Definition fuel_ok (f : nat) (g : gc) (p : N) : Prop :=
    measureO g + extra p < f \/ (leaf p /\ 0 < f).

  Definition rem_good (f : nat) : Prop := forall g p, Inv g -> fuel_ok f g p ->
    exists g', gc_rem' f g p = Some g' /\ Inv g' /\ Le g' g /\
               length (pending g') = length (pending g).

  Lemma extra_in p : In p olist -> extra p = 0.
  Proof. intros H. unfold extra. destruct (in_dec N.eq_dec p olist); [reflexivity|contradiction]. Qed.

  Lemma fold_rem_ok f : rem_good f -> forall ts g, (forall t, In t ts -> In t olist) -> Inv g -> measureO g < f ->
    exists g', fold_left (fun og t => match og with Some g1 => gc_rem' f g1 t | None => None end) ts (Some g) = Some g'
               /\ Inv g' /\ Le g' g /\ length (pending g') = length (pending g).
  Proof.
    intros Hg. induction ts as [|t ts IH]; intros g Hts Hi Hm; simpl.
    - exists g. split; [reflexivity|]. split; [assumption|split; [apply Le_refl|reflexivity]].
    - destruct (Hg g t Hi) as [g1 [H1 [Hi1 [Hl1 Hp1]]]].
      { left. rewrite (extra_in t (Hts t (or_introl eq_refl))). lia. }
      rewrite H1. pose proof (Le_measure _ _ Hl1).
      destruct (IH g1) as [g2 [H2 [Hi2 [Hl2 Hp2]]]]; auto; [intros; apply Hts; right; assumption|lia|].
      exists g2. split; [exact H2|]. split; [assumption|split; [eapply Le_trans; eauto|congruence]].
  Qed.

  Local Notation act_set' := (act_set hashf swap primes num den owns spawns).

  (* one allocation of a destructor; a temporary is deleted again by a nested GC_Rem, for which
     any positive fuel is enough because its own destructor does nothing *)
  Lemma act_set_ok f : rem_good f -> 0 < f -> forall g a, Inv g -> ~ In (fst (dact_pair a)) olist ->
    exists g', act_set' (gc_rem' f) g a = Some g' /\ Inv g' /\ Le g' g /\ length (pending g') = length (pending g).
  Proof.
    intros Hg Hf g a Hi Hno. destruct a as [p r|p r]; simpl in Hno; unfold act_set.
    - apply spawn_set_ok; assumption.
    - unfold temp_set. cbn [fst].
      destruct (owns p) eqn:Ho; [|exists (log g EvViol); split; [reflexivity|]; split; [apply Inv_log_viol; assumption|];
                                  split; [intros a _ Ha; exact Ha|reflexivity]].
      destruct (spawns p) eqn:Hs; [|exists (log g EvViol); split; [reflexivity|]; split; [apply Inv_log_viol; assumption|];
                                   split; [intros a _ Ha; exact Ha|reflexivity]].
      destruct (spawn_set_ok g (p, r) Hi Hno) as [g1 [H1 [Hi1 [Hl1 Hp1]]]]. rewrite H1.
      destruct (is_reg (slots g1) p && negb (is_reg (slots g) p)).
      + destruct (Hg g1 p Hi1) as [g2 [H2 [Hi2 [Hl2 Hp2]]]].
        { right. split; [split; assumption|exact Hf]. }
        exists g2. split; [exact H2|]. split; [assumption|split; [eapply Le_trans; eauto|congruence]].
      + exists g1. auto.
  Qed.

  Lemma fold_act_ok f : rem_good f -> 0 < f -> forall acts g, Inv g ->
    (forall a, In a acts -> ~ In (fst (dact_pair a)) olist) ->
    exists g', fold_left (fun og a => match og with Some g1 => act_set' (gc_rem' f) g1 a | None => None end) acts (Some g) = Some g'
               /\ Inv g' /\ Le g' g /\ length (pending g') = length (pending g).
  Proof.
    intros Hg Hf. induction acts as [|a acts IH]; intros g Hi Hps; simpl.
    - exists g. split; [reflexivity|]. split; [assumption|split; [apply Le_refl|reflexivity]].
    - destruct (act_set_ok f Hg Hf g a Hi (Hps a (or_introl eq_refl))) as [g1 [H1 [Hi1 [Hl1 Hp1]]]]. rewrite H1.
      destruct (IH g1 Hi1) as [g2 [H2 [Hi2 [Hl2 Hp2]]]]; [intros; apply Hps; right; assumption|].
      exists g2. split; [exact H2|]. split; [assumption|split; [eapply Le_trans; eauto|congruence]].
  Qed.

  Lemma finalise_ok f : rem_good f -> forall g q, Inv g -> (measureO g < f \/ leaf q) ->
    exists g', finalise_with hashf swap primes num den owns spawns (gc_rem' f) g q = Some g' /\ Inv g' /\ Le g' g /\
               length (pending g') = length (pending g).
  Proof.
    intros Hg g q Hi Hm. unfold finalise_with. destruct Hm as [Hm|[Ho Hs]].
    - destruct (fold_rem_ok f Hg (owns q) (log g (EvFin q))) as [g1 [H1 [Hi1 [Hl1 Hp1]]]].
      + intros t Ht. eapply owns_olist; eauto.
      + apply Inv_log_fin; assumption.
      + exact Hm.
      + rewrite H1. destruct (fold_act_ok f Hg ltac:(lia) (spawns q) g1 Hi1) as [g2 [H2 [Hi2 [Hl2 Hp2]]]].
        * intros a Hin. destruct (dact_pair a) as [p r] eqn:Hd. simpl. apply (spawns_olist q p r).
          rewrite <- Hd. apply in_map. assumption.
        * exists g2. split; [exact H2|]. split; [assumption|]. split; [|simpl in *; congruence].
          eapply Le_trans; [exact Hl2|]. intros a Ha Hl. apply Hl1; assumption.
    - rewrite Ho, Hs. simpl. exists (log g (EvFin q)). split; [reflexivity|]. split; [apply Inv_log_fin; assumption|].
      split; [intros a _ Ha; exact Ha|reflexivity].
  Qed.

  (* GC_Rem_Ptr, after the event has been logged *)
  Definition rem_ptr (f : nat) (g : gc) (p : N) : option gc :=
    if nslots g =? 0 then Some g else
    let hit := is_pending p (pending g) in
    let g0 := set_pending g (null_out p (pending g)) in
    if hit && rem_fin then finalise_with hashf swap primes num den owns spawns (gc_rem' f) g0 p
    else
      match rh_find (slots g0) (home p (nslots g0)) p with
      | None => None
      | Some None => Some g0
      | Some (Some i) =>
        match rh_delete (slots g0) i with
        | None => None
        | Some sl => finalise_with hashf swap primes num den owns spawns (gc_rem' f)
                       (set_nitems (set_slots g0 sl) (pred (nitems g0))) p
        end
      end.

  Lemma gc_rem_S f g p : gc_rem' (S f) g p =
    if negb (running g) then Some g else
    match rem_ptr f (log g (EvRem p)) p with
    | None => None
    | Some g1 => match resize_less hashf swap primes num den g1 with
                 | None => None
                 | Some g2 => Some (new_mitems g2)
                 end
    end.
  Proof. reflexivity. Qed.

  Lemma rem_ptr_ok f : rem_good f -> forall g p, Inv g -> fuel_ok (S f) g p ->
    exists g2, rem_ptr f (log g (EvRem p)) p = Some g2 /\ Inv g2 /\ Le g2 g /\
               length (pending g2) = length (pending g).
  Proof.
    intros Hg g p Hi Hm. pose proof Hi as [H Hcl]. unfold rem_ptr.
    change (nslots (log g (EvRem p))) with (nslots g).
    change (pending (log g (EvRem p))) with (pending g).
    destruct (Nat.eqb_spec (nslots g) 0) as [Hz|Hnz].
    - exists (log g (EvRem p)). split; [reflexivity|]. split; [|split; [intros a _ Ha; exact Ha|reflexivity]].
      apply (Inv_rem_absent g _ p Hi); try reflexivity; [|auto].
      intros e [i [h Hat]]. pose proof (at_some_lt _ _ _ _ Hat). unfold nslots in Hz. lia.
    - set (g0 := set_pending (log g (EvRem p)) (null_out p (pending g))).
      assert (Hl0 : Le g0 g).
      { apply Le_sub; [intros e He; left; exact He|]. intros q. simpl. apply null_out_in. }
      assert (Hlen0 : length (pending g0) = length (pending g)) by (simpl; unfold null_out; apply map_length).
      assert (Habs0 : HAbsent (slots g) p -> Inv g0).
      { intros Ha. apply (Inv_rem_absent g g0 p Hi Ha); try reflexivity. intros q. simpl. apply null_out_in. }
      (* once p is gone from table and pending list, one owned address less is live *)
      assert (Hdec : forall g1, Le g1 g -> live g p = true -> live g1 p = false -> measureO g1 < f \/ leaf p).
      { intros g1 Hl1 Hlp Hlp1. destruct Hm as [Hm|[Hlf _]]; [left|right; exact Hlf].
        unfold extra in Hm. destruct (in_dec N.eq_dec p olist) as [Hin|Hnin].
        - pose proof (Lt_measure g1 g p Hl1 Hin Hlp Hlp1). lia.
        - pose proof (Le_measure _ _ Hl1). lia. }
      cbv zeta. destruct (is_pending p (pending g) && rem_fin) eqn:Hhit.
      + apply andb_prop in Hhit. destruct Hhit as [Hhit _].
        assert (Ha : HAbsent (slots g) p) by (apply (inv_pend g H); apply is_pending_in; assumption).
        assert (Hm1 : measureO g0 < f \/ leaf p).
        { apply Hdec; [exact Hl0|unfold live; rewrite Hhit; apply orb_true_r|].
          unfold live. simpl. rewrite null_out_not_pending.
          destruct (is_reg (slots g) p) eqn:Hr; [|reflexivity].
          apply is_reg_spec in Hr. destruct Hr as [e [He Hpe]]. exfalso. apply (Ha e He Hpe). }
        destruct (finalise_ok f Hg g0 p (Habs0 Ha) Hm1) as [g2 [H2 [Hi2 [Hl2 Hp2]]]].
        exists g2. split; [exact H2|]. split; [assumption|split; [eapply Le_trans; eauto|congruence]].
      + change (slots g0) with (slots g). change (nslots g0) with (nslots g). change (nitems g0) with (nitems g).
        destruct (find_spec N gentry N.eqb ptr N.eqb_eq (fun q => home q (length (slots g))) (slots g) p (inv_core g H))
          as [r [Hr Hres]].
        { apply home_lt. unfold nslots in Hnz. lia. }
        unfold rh_find, nslots. rewrite Hr. destruct r as [i|].
        * destruct Hres as [e [Hat Hpe]].
          assert (Hocc : occupied (slots g) < length (slots g)).
          { pose proof (inv_room g H) as Hroom. pose proof (inv_count g H). unfold nslots in *. lia. }
          destruct (delete_at_spec N gentry ptr _ (slots g) i _ e (inv_core g H) Hat Hocc)
            as [l1 [Hd [Hc1 [Hlen1 [Hh1 Ho1]]]]].
          unfold rh_delete. rewrite Hd.
          set (g1 := set_nitems (set_slots g0 l1) (pred (nitems g))).
          assert (Hi1 : Inv g1).
          { apply (Inv_rem_found g g1 p l1 Hi); try reflexivity; auto.
            - unfold Core. rewrite Hlen1. exact Hc1.
            - intros x. rewrite Hh1, Hpe. tauto.
            - intros q. simpl. apply null_out_in. }
          assert (Hl1 : Le g1 g).
          { apply Le_sub; [intros x Hx; left; apply Hh1 in Hx; tauto|]. intros q. simpl. apply null_out_in. }
          assert (Hm1 : measureO g1 < f \/ leaf p).
          { apply Hdec; [exact Hl1| |].
            - unfold live. apply orb_true_iff. left. apply is_reg_spec. exists e. split; [exists i, (home p (length (slots g))); exact Hat|exact Hpe].
            - unfold live. simpl. rewrite null_out_not_pending.
              destruct (is_reg l1 p) eqn:Hr1; [|reflexivity].
              apply is_reg_spec in Hr1. destruct Hr1 as [x [Hx Hpx]]. apply Hh1 in Hx. destruct Hx as [_ Hne].
              exfalso. apply Hne. congruence. }
          destruct (finalise_ok f Hg g1 p Hi1 Hm1) as [g2 [H2 [Hi2 [Hl2 Hp2]]]].
          exists g2. split; [exact H2|]. split; [assumption|]. split; [eapply Le_trans; eauto|rewrite Hp2; exact Hlen0].
        * exists g0. split; [reflexivity|]. split; [|split; assumption]. apply Habs0. apply HAbsent_Absent. assumption.
  Qed.

  Theorem gc_rem_ok : forall f, rem_good f.
  Proof.
    induction f as [|f IH]; intros g p Hi Hm; [destruct Hm as [Hm|[_ Hm]]; lia|]. rewrite gc_rem_S.
    destruct (running g); cbn [negb].
    - destruct (rem_ptr_ok f IH g p Hi Hm) as [g1 [H1 [Hi1 [Hl1 Hp1]]]]. rewrite H1.
      destruct (resize_less_ok g1 Hi1) as [l' [Hr [Hi2 Hh2]]]. rewrite Hr.
      eexists. split; [reflexivity|]. split; [apply Inv_new_mitems; assumption|].
      split; [|exact Hp1]. eapply Le_trans; [|exact Hl1].
      apply Le_sub; [|auto]. intros e He. left. simpl in He. apply Hh2. exact He.
    - exists g. split; [reflexivity|]. split; [assumption|split; [apply Le_refl|reflexivity]].
  Qed.

  (* ---------------------------------------------------------------- sweep *)
  Local Notation fin_loop' := (fin_loop hashf swap primes num den owns spawns rem_fin null_first).

  Lemma upd_opt_length k pl : length (upd_opt k pl) = length pl.
  Proof. revert k. induction pl as [|x pl IH]; intros [|k]; simpl; auto. Qed.

  Lemma fin_loop_ok d : rem_good d -> forall c k g, Inv g -> measureO g < d ->
    exists g', fin_loop' c k d g = Some g' /\ Inv g' /\ Le g' g /\
               length (pending g') = length (pending g).
  Proof.
    intros Hg. induction c as [|c IH]; intros k g Hi Hm; cbn [fin_loop].
    - exists g. split; [reflexivity|]. split; [assumption|split; [apply Le_refl|reflexivity]].
    - destruct (nth k (pending g) None) as [q|].
      + set (g1 := if null_first then set_pending g (upd_opt k (pending g)) else g).
        assert (H1 : Inv g1 /\ Le g1 g /\ length (pending g1) = length (pending g)).
        { unfold g1. destruct null_first; [|split; [assumption|split; [apply Le_refl|reflexivity]]].
          split; [|split].
          - apply (Inv_fields g _ Hi); try reflexivity. intros q'. simpl. apply upd_opt_in.
          - apply Le_sub; [intros e He; left; exact He|]. intros q'. simpl. apply upd_opt_in.
          - simpl. apply upd_opt_length. }
        destruct H1 as [Hi1 [Hl1 Hp1]]. pose proof (Le_measure _ _ Hl1).
        unfold finalise.
        destruct (finalise_ok d Hg g1 q Hi1 ltac:(left; lia)) as [g2 [H2 [Hi2 [Hl2 Hp2]]]]. rewrite H2.
        pose proof (Le_measure _ _ Hl2).
        destruct (IH (S k) g2 Hi2 ltac:(lia)) as [g3 [H3 [Hi3 [Hl3 Hp3]]]].
        exists g3. split; [exact H3|]. split; [assumption|]. split; [|congruence].
        eapply Le_trans; [exact Hl3|]. eapply Le_trans; eauto.
      + apply IH; assumption.
  Qed.

  Lemma led_reclaim_gen ps t q s : led (map EvReclaim ps ++ t) q s <-> led t q s /\ ~ In q ps.
  Proof.
    induction ps as [|p ps IH]; simpl; [tauto|]. rewrite IH. intuition congruence.
  Qed.

  Lemma led_reclaim rm t q s : led (reclaim_evs rm ++ t) q s <-> led t q s /\ ~ In q (map ptr rm).
  Proof.
    unfold reclaim_evs. rewrite led_reclaim_gen. rewrite <- in_rev. tauto.
  Qed.

  (* the state after the compaction and mark-clearing loops *)
  Lemma Inv_compacted g l' rm g1 : InvM g -> Quiet g ->
    Core l' -> length l' = length (slots g) ->
    (forall x, Holds l' x <-> Holds (slots g) x /\ keeper x = true) ->
    (forall x, In x rm <-> Holds (slots g) x /\ keeper x = false) ->
    occupied l' + length rm = occupied (slots g) ->
    slots g1 = clear_marks l' -> nitems g1 = nitems g - length rm ->
    minptr g1 = minptr g -> maxptr g1 = maxptr g ->
    pending g1 = pend_of rm -> evs g1 = reclaim_evs rm ++ evs g -> Inv g1.
  Proof.
    intros H Hq Hc Hlen Hh Hrm Ho Hs Hn Hlo Hhi Hp He.
    pose proof (PW_clear_marks l') as Hpw. pose proof (inv_count g H) as Hcnt.
    unfold Inv. rewrite Hs. split; [constructor|apply Clear_clear_marks].
    - rewrite Hs. eapply Core_PW; eauto.
    - rewrite Hs, Hn, (PW_occupied _ _ Hpw). lia.
    - unfold nslots. rewrite Hs, Hn, (PW_length _ _ Hpw), Hlen. pose proof (inv_room g H) as Hr. unfold nslots in Hr. lia.
    - rewrite Hs, Hlo, Hhi. intros e He'. destruct (PW_holds _ _ _ Hpw He') as [x [Hx [Hpx _]]].
      rewrite <- Hpx. apply (inv_bounds g H). apply Hh. assumption.
    - rewrite Hs, Hp. intros q Hin e He'. unfold pend_of in Hin. apply in_map_iff in Hin.
      destruct Hin as [y [Hy Hiny]]. injection Hy as <-. apply Hrm in Hiny. destruct Hiny as [Hyh Hyk].
      destruct (PW_holds _ _ _ Hpw He') as [x [Hx [Hpx _]]]. apply Hh in Hx. destruct Hx as [Hxh Hxk].
      intros Heq. assert (x = y); [|subst x; congruence].
      apply (Core_UQ_same (slots g) x y (inv_core g H) Hxh Hyh). congruence.
    - unfold Reg. rewrite Hs, He. intros q s. rewrite led_reclaim, <- (inv_led g H q s).
      rewrite (PW_regs _ _ q s Hpw). unfold Reg, Regs. split.
      + intros [e [He' [Hpe Hre]]]. apply Hh in He'. destruct He' as [Heh Hek]. split; [exists e; auto|].
        intros Hin. apply in_map_iff in Hin. destruct Hin as [y [Hy Hiny]]. apply Hrm in Hiny. destruct Hiny as [Hyh Hyk].
        assert (e = y); [|subst e; congruence].
        apply (Core_UQ_same (slots g) e y (inv_core g H) Heh Hyh). congruence.
      + intros [[e [He' [Hpe Hre]]] Hnin]. exists e. split; [|auto]. apply Hh. split; [assumption|].
        destruct (keeper e) eqn:Hk; [reflexivity|]. exfalso. apply Hnin. rewrite <- Hpe. apply in_map.
        apply Hrm. auto.
  Qed.

  Local Notation gc_sweep' := (gc_sweep hashf swap primes num den owns spawns rem_fin null_first).

  (* GC_Sweep from any marking: total, ends with the invariant and an empty pending list *)
  Theorem gc_sweep_ok g : InvM g -> Quiet g -> exists g', gc_sweep' g = Some g' /\ Inv g' /\ Quiet g'.
  Proof.
    intros H Hq. unfold gc_sweep.
    pose proof (inv_count g H) as Hcnt. pose proof (inv_room g H) as Hroom. unfold nslots in Hroom.
    destruct (sweep_loop_ok (nslots g + occupied (slots g) + 1) (slots g) 0 (nitems g) [] (evs g) (inv_core g H))
      as [l' [rm [Hs [Hc' [Hlen' [Hh' [Hrm' Ho']]]]]]].
    - lia.
    - intros s h e Hs. lia.
    - unfold nslots. lia.
    - unfold rh_delete in *. rewrite Hs. cbn [app].
      set (g1 := mkGC (clear_marks l') (nitems g - length rm) (mitems g) (minptr g) (maxptr g) (running g)
                      (pend_of rm) (reclaim_evs rm ++ evs g)).
      assert (Hi1 : Inv g1) by (apply (Inv_compacted g l' rm g1 H Hq); auto).
      destruct (resize_less_ok g1 Hi1) as [l2 [Hr [Hi2 Hh2]]]. rewrite Hr.
      assert (Hm : measureO (new_mitems (set_slots g1 l2)) < depth g).
      { pose proof (measureO_bound g H) as Hb. rewrite Hq in Hb. simpl in Hb.
        assert (Hle : Le (new_mitems (set_slots g1 l2)) g); [|pose proof (Le_measure _ _ Hle); unfold depth; lia].
        intros a Ha Hl. unfold live in *. simpl in Hl. apply orb_true_iff. left.
        apply orb_true_iff in Hl. apply is_reg_spec. destruct Hl as [Hl|Hl].
        - apply is_reg_spec in Hl. destruct Hl as [e [He Hpe]].
          destruct Hi2 as [Hm2 _]. pose proof (inv_led _ Hm2 a (root e)) as L2.
          destruct Hi1 as [Hm1 _]. pose proof (inv_led _ Hm1 a (root e)) as L1.
          assert (R2 : Reg (set_slots g1 l2) a (root e)) by (exists e; auto).
          apply L2 in R2. simpl in R2. apply L1 in R2. destruct R2 as [x [Hx [Hpx _]]].
          simpl in Hx. destruct (PW_holds _ _ _ (PW_clear_marks l') Hx) as [y [Hy [Hpy _]]].
          apply Hh' in Hy. exists y. split; [tauto|congruence].
        - apply is_pending_in in Hl. unfold pend_of in Hl. apply in_map_iff in Hl. destruct Hl as [y [Hy Hin]].
          injection Hy as <-. apply Hrm' in Hin. exists y. tauto. }
      destruct (fin_loop_ok (depth g) (gc_rem_ok (depth g)) (length (pend_of rm)) 0 (new_mitems (set_slots g1 l2))
                  (Inv_new_mitems _ Hi2) Hm) as [g3 [H3 [Hi3 _]]].
      rewrite H3. exists (set_pending g3 []). split; [reflexivity|]. split; [|reflexivity].
      apply (Inv_fields g3 _ Hi3); try reflexivity. intros q [].
  Qed.

  Local Notation collect' := (collect hashf swap primes num den owns spawns rem_fin null_first).
  Local Notation gc_set' := (gc_set hashf swap primes num den owns spawns rem_fin null_first).
  Local Notation gc_step' := (gc_step hashf swap primes num den owns spawns rem_fin null_first).
  Local Notation gc_run' := (gc_run hashf swap primes num den owns spawns rem_fin null_first).

  (* GC_Mark; GC_Sweep *)
  Lemma collect_ok g ws : Inv g -> Quiet g -> exists g', collect' g ws = (g', OOk) /\ Inv g' /\ Quiet g'.
  Proof.
    intros [H Hcl] Hq. unfold collect.
    destruct (gc_mark_ok g ws (inv_core g H)) as [g1 [Hm [Hpw Hsr]]].
    - intros Hne Hz. pose proof (inv_count g H). unfold nslots in Hz.
      destruct (slots g); [|discriminate]. unfold RobinHood.occupied in *; simpl in *. lia.
    - rewrite Hm. destruct (gc_sweep_ok g1) as [g2 [Hs [Hi2 Hq2]]].
      + eapply InvM_PW; eauto.
      + unfold Quiet. destruct Hsr as [_ [_ [_ [_ [_ [Hp _]]]]]]. rewrite Hp. exact Hq.
      + rewrite Hs. exists g2. auto.
  Qed.

  (* GC_Set of an address that is not registered *)
  Theorem gc_set_ok g p r ws : Inv g -> Quiet g -> (running g = true -> HAbsent (slots g) p) ->
    exists g', gc_set' g p r ws = (g', OOk) /\ Inv g' /\ Quiet g'.
  Proof.
    intros Hi Hq Hfresh. unfold gc_set.
    destruct (running g) eqn:Hrun; cbn [negb]; [|exists g; auto].
    destruct (gc_register_ok g p r (EvAlloc p r) Hi (Hfresh eq_refl)) as [g3 [H3 [Hi3 [Hp3 _]]]].
    - rewrite Hq. intros [].
    - left. reflexivity.
    - rewrite H3. assert (Hq3 : Quiet g3) by (unfold Quiet; rewrite Hp3; exact Hq).
      destruct (mitems g3 <? nitems g3).
      + apply collect_ok; assumption.
      + exists g3. auto.
  Qed.

  (* GC_Mem_Ptr *)
  Theorem gc_mem_ok g p : InvM g -> exists b, gc_mem hashf g p = Some b /\ (b = true <-> exists s, Reg g p s).
  Proof.
    intros H. unfold gc_mem. destruct (Nat.eqb_spec (nslots g) 0) as [Hz|Hnz].
    - exists false. split; [reflexivity|]. split; [discriminate|].
      intros [s [e [[i [h Hat]] _]]]. pose proof (at_some_lt _ _ _ _ Hat). unfold nslots in Hz. lia.
    - destruct (find_spec N gentry N.eqb ptr N.eqb_eq (fun q => home q (length (slots g))) (slots g) p (inv_core g H))
        as [r [Hr Hres]].
      { apply home_lt. unfold nslots in Hnz. lia. }
      unfold rh_find, nslots. rewrite Hr. destruct r as [i|].
      + exists true. split; [reflexivity|]. split; [|reflexivity]. intros _.
        destruct Hres as [e [Hat Hpe]]. exists (root e), e. split; [exists i, (home p (length (slots g))); exact Hat|auto].
      + exists false. split; [reflexivity|]. split; [discriminate|].
        intros [s [e [[i [h Hat]] [Hpe _]]]]. exfalso. eapply Hres; eauto.
  Qed.

  (* ---------------------------------------------------------------- 6. steps and histories *)
  (* the allocator's contract: it never returns an address that is still registered *)
  Definition admissible (g : gc) (o : op) : Prop :=
    match o with
    | OAlloc p _ _ => running g = true -> HAbsent (slots g) p
    | _ => True
    end.

  Theorem gc_step_ok g o : Inv g -> Quiet g -> admissible g o ->
    exists g' out, gc_step' g o = (g', out) /\ out <> OFuel /\ out <> OCrash /\ Inv g' /\ Quiet g' /\
      (forall p, o = OMem p -> out = OBool true <-> exists s, Reg g p s).
  Proof.
    intros Hi Hq Ha. pose proof Hi as [H Hcl].
    assert (Hm0 : measureO g + 1 < depth g).
    { pose proof (measureO_bound g H) as Hb. rewrite Hq in Hb. simpl in Hb. unfold depth. rewrite Hq. simpl. lia. }
    assert (Hm : forall p, measureO g + extra p < depth g) by (intros p0; unfold extra; destruct (in_dec N.eq_dec p0 olist); lia).
    destruct o as [p r ws|p|p|ws| | | |p]; cbn [gc_step].
    - destruct (gc_set_ok g p r ws Hi Hq Ha) as [g' [Hs [Hi' Hq']]]. rewrite Hs.
      exists g', OOk. split; [reflexivity|]. split; [discriminate|]. split; [discriminate|].
      split; [assumption|]. split; [assumption|]. intros p0 Heq; discriminate.
    - destruct (gc_rem_ok (depth g) g p Hi (or_introl (Hm p))) as [g' [Hs [Hi' [_ Hp']]]]. rewrite Hs.
      exists g', OOk. split; [reflexivity|]. split; [discriminate|]. split; [discriminate|].
      split; [assumption|]. split; [|intros p0 Heq; discriminate].
      unfold Quiet in *. rewrite Hq in Hp'. destruct (pending g'); [reflexivity|discriminate].
    - unfold finalise.
      destruct (finalise_ok (depth g) (gc_rem_ok (depth g)) g p Hi ltac:(left; lia)) as [g' [Hs [Hi' [_ Hp']]]]. rewrite Hs.
      exists g', OOk. split; [reflexivity|]. split; [discriminate|]. split; [discriminate|].
      split; [assumption|]. split; [|intros p0 Heq; discriminate].
      unfold Quiet in *. rewrite Hq in Hp'. destruct (pending g'); [reflexivity|discriminate].
    - destruct (collect_ok g ws Hi Hq) as [g' [Hs [Hi' Hq']]]. rewrite Hs.
      exists g', OOk. split; [reflexivity|]. split; [discriminate|]. split; [discriminate|].
      split; [assumption|]. split; [assumption|]. intros p0 Heq; discriminate.
    - destruct (gc_sweep_ok g H Hq) as [g' [Hs [Hi' Hq']]]. rewrite Hs.
      exists g', OOk. split; [reflexivity|]. split; [discriminate|]. split; [discriminate|].
      split; [assumption|]. split; [assumption|]. intros p0 Heq; discriminate.
    - exists (set_running g false), OOk. split; [reflexivity|]. split; [discriminate|]. split; [discriminate|].
      split; [apply (Inv_fields g _ Hi); auto|]. split; [exact Hq|]. intros p0 Heq; discriminate.
    - exists (set_running g true), OOk. split; [reflexivity|]. split; [discriminate|]. split; [discriminate|].
      split; [apply (Inv_fields g _ Hi); auto|]. split; [exact Hq|]. intros p0 Heq; discriminate.
    - destruct (gc_mem_ok g p H) as [b [Hb Hbs]]. rewrite Hb.
      exists g, (OBool b). split; [reflexivity|]. split; [discriminate|]. split; [discriminate|].
      split; [assumption|]. split; [assumption|]. intros p0 Heq. injection Heq as <-. split.
      + intros Ho. injection Ho as ->. apply Hbs. reflexivity.
      + intros Hr. f_equal. apply Hbs. assumption.
  Qed.

  Fixpoint adm_run (ops : list op) (g : gc) : Prop :=
    match ops with
    | [] => True
    | o :: r => admissible g o /\ adm_run r (fst (gc_step' g o))
    end.

  Theorem gc_run_ok : forall ops g, Inv g -> Quiet g -> adm_run ops g ->
    Inv (gc_run' ops g) /\ Quiet (gc_run' ops g).
  Proof.
    induction ops as [|o ops IH]; intros g Hi Hq Ha; [split; assumption|].
    destruct Ha as [Ha Har]. unfold gc_run. cbn [fold_left].
    destruct (gc_step_ok g o Hi Hq Ha) as [g' [out [Hs [_ [_ [Hi' [Hq' _]]]]]]].
    rewrite Hs in *. cbn [fst] in *. apply IH; assumption.
  Qed.

End RP.

(* ------------------------------------------------------------------ 7. the generated parameters *)
Lemma gc_swap_le j p : gc_swap j p = true -> p <= j.
Proof. unfold gc_swap. intros H. bdestr; lia. Qed.

Lemma gc_swap_ge j p : gc_swap j p = false -> j <= p.
Proof. unfold gc_swap. intros H. bdestr; lia. Qed.

(* what destructors do: the addresses they delete, the (address, root flag) they allocate
   afterwards, and a finite list bounding what may be deleted *)
Record dtors := mkD { d_owns : N -> list N; d_spawns : N -> list dact; d_olist : list N }.

(* no destructor allocates an address that a destructor may delete *)
Definition dtors_ok (d : dtors) : Prop :=
  NoDup (d_olist d) /\ (forall q t, In t (d_owns d q) -> In t (d_olist d)) /\
  (forall q p r, In (p, r) (map dact_pair (d_spawns d q)) -> ~ In p (d_olist d)).

Definition Gstep (hashf : N -> N) (d : dtors) (rf nf : bool) :=
  gc_step hashf gc_swap gc_primes gc_load_num gc_load_den (d_owns d) (d_spawns d) rf nf.
Definition Grun (hashf : N -> N) (d : dtors) (rf nf : bool) :=
  gc_run hashf gc_swap gc_primes gc_load_num gc_load_den (d_owns d) (d_spawns d) rf nf.
Definition Gadm (hashf : N -> N) (d : dtors) (rf nf : bool) :=
  adm_run hashf gc_swap gc_primes gc_load_num gc_load_den (d_owns d) (d_spawns d) rf nf.
Definition Gsweep (hashf : N -> N) (d : dtors) (rf nf : bool) :=
  gc_sweep hashf gc_swap gc_primes gc_load_num gc_load_den (d_owns d) (d_spawns d) rf nf.
Definition Grem (hashf : N -> N) (d : dtors) (rf : bool) :=
  gc_rem hashf gc_swap gc_primes gc_load_num gc_load_den (d_owns d) (d_spawns d) rf.
Definition Gspawn (hashf : N -> N) :=
  spawn_set hashf gc_swap gc_primes gc_load_num gc_load_den.
Definition Gact (hashf : N -> N) (d : dtors) (rf : bool) (f : nat) :=
  act_set hashf gc_swap gc_primes gc_load_num gc_load_den (d_owns d) (d_spawns d) (Grem hashf d rf f).

Theorem registry_step_thm : forall hashf d rf nf g o, dtors_ok d ->
  Inv hashf g -> Quiet g -> admissible g o ->
  exists g' out, Gstep hashf d rf nf g o = (g', out) /\ out <> OFuel /\ out <> OCrash /\
    Inv hashf g' /\ Quiet g' /\
    (forall p, o = OMem p -> out = OBool true <-> exists s, Reg g p s).
Proof.
  intros hashf d rf nf g o [H1 [H2 H3]] Hi Hq Ha.
  apply (gc_step_ok hashf gc_swap gc_primes gc_load_num gc_load_den (d_owns d) (d_spawns d) rf nf
           gc_swap_le gc_swap_ge gc_ideal_gt (d_olist d) H1 H2 H3); assumption.
Qed.

Theorem registry_history_thm : forall hashf d rf nf ops, dtors_ok d ->
  Gadm hashf d rf nf ops gc_init ->
  Inv hashf (Grun hashf d rf nf ops gc_init) /\ Quiet (Grun hashf d rf nf ops gc_init).
Proof.
  intros hashf d rf nf ops [H1 [H2 H3]] Ha. destruct (Inv_init hashf).
  apply (gc_run_ok hashf gc_swap gc_primes gc_load_num gc_load_den (d_owns d) (d_spawns d) rf nf
           gc_swap_le gc_swap_ge gc_ideal_gt (d_olist d) H1 H2 H3); assumption.
Qed.

(* the property in one statement: after every admissible history the registry holds exactly
   what the ledger of the history says, each object once with its root flag, the count is
   right, lookups answer by the ledger, no mark bit is left, the address bounds enclose every
   entry, and the pending list is empty *)
Theorem registry_is_ledger_thm : forall hashf d rf nf ops, dtors_ok d ->
  Gadm hashf d rf nf ops gc_init ->
  let g := Grun hashf d rf nf ops gc_init in
  (forall q s, Reg g q s <-> led (evs g) q s) /\
  NoDup (map ptr (entries (slots g))) /\
  nitems g = length (entries (slots g)) /\
  (nslots g = 0 \/ nitems g < nslots g) /\
  (forall p, exists b, gc_mem hashf g p = Some b /\ (b = true <-> exists s, led (evs g) p s)) /\
  (forall e, In e (entries (slots g)) -> marked e = false /\ (minptr g <= ptr e <= maxptr g)%N) /\
  pending g = [].
Proof.
  intros hashf d rf nf ops Hd Ha g. destruct (registry_history_thm hashf d rf nf ops Hd Ha) as [[H Hcl] Hq].
  fold g in H, Hcl, Hq. destruct (Inv_nodup hashf g H) as [Hnd Hcnt].
  split; [apply (inv_led hashf g H)|]. split; [exact Hnd|]. split; [exact Hcnt|]. split; [apply (inv_room hashf g H)|].
  split; [|split; [|exact Hq]].
  - intros p. destruct (gc_mem_ok hashf g p H) as [b [Hb Hbs]]. exists b. split; [exact Hb|].
    rewrite Hbs. split; intros [s Hs]; exists s; apply (inv_led hashf g H); assumption.
  - intros e He. apply in_entries in He. split; [apply Hcl; assumption|apply (inv_bounds hashf g H); assumption].
Qed.

(* GC_Sweep's compaction loop started at slot 0 on any marking: never out of fuel, keeps the
   robin-hood invariant, keeps exactly the marked-or-root entries and hands exactly the others
   to the pending list, in the order of the Reclaim events *)
Theorem sweep_loop_exact_thm : forall hashf (l : list gslot) nit pl ev,
  Core hashf l -> (length l = 0 \/ occupied l < length l) ->
  exists l' rm,
    sweep_loop (length l + occupied l + 1) l 0 nit pl ev
      = Some (l', nit - length rm, pl ++ pend_of rm, reclaim_evs rm ++ ev) /\
    Core hashf l' /\ length l' = length l /\
    (forall x, Holds l' x <-> Holds l x /\ keeper x = true) /\
    (forall x, In x rm <-> Holds l x /\ keeper x = false) /\
    occupied l' + length rm = occupied l.
Proof.
  intros hashf l nit pl ev Hc Hroom.
  apply (sweep_loop_ok hashf); auto; [intros; lia|lia].
Qed.

Theorem sweep_total_thm : forall hashf d rf nf g, dtors_ok d -> InvM hashf g -> Quiet g ->
  exists g', Gsweep hashf d rf nf g = Some g' /\ Inv hashf g' /\ Quiet g'.
Proof.
  intros hashf d rf nf g [H1 [H2 H3]] Hi Hq.
  apply (gc_sweep_ok hashf gc_swap gc_primes gc_load_num gc_load_den (d_owns d) (d_spawns d) rf nf
           gc_swap_le gc_swap_ge gc_ideal_gt (d_olist d) H1 H2 H3); assumption.
Qed.

(* GC_Rem in any state satisfying the invariant — in particular in the middle of a sweep's
   finaliser loop (pending list not empty) and from inside another removal: the nesting fuel
   `depth` of the model (nitems + pending slots + 2) is enough, the invariant (ledger included)
   is kept, whatever the destructors delete and allocate on the way *)
Theorem removal_during_sweep_thm : forall hashf d rf g p f, dtors_ok d ->
  Inv hashf g -> depth g <= f ->
  exists g', Grem hashf d rf f g p = Some g' /\ Inv hashf g' /\
             length (pending g') = length (pending g).
Proof.
  intros hashf d rf g p f [H1 [H2 H3]] Hi Hf.
  destruct (gc_rem_ok hashf gc_swap gc_primes gc_load_num gc_load_den (d_owns d) (d_spawns d) rf
              gc_swap_le gc_swap_ge gc_ideal_gt (d_olist d) H2 H3 f g p Hi) as [g' [Hr [Hi' [_ Hp']]]].
  - left. destruct Hi as [Hm _]. pose proof (measureO_bound hashf (d_olist d) H1 g Hm) as Hb.
    unfold depth in Hf. unfold extra. destruct (in_dec N.eq_dec p (d_olist d)); lia.
  - exists g'. auto.
Qed.

(* GC_Set called from a destructor, in particular while a sweep is running (pending list not
   empty): total, keeps the invariant — so the object is registered with its root flag, counted,
   inside [minptr, maxptr], found by mem — unless the run leaves the model's scope (address still
   registered or pending; threshold crossed outside a sweep), which is flagged by EvViol *)
Theorem allocation_during_sweep_thm : forall hashf d g p r, dtors_ok d ->
  Inv hashf g -> ~ In p (d_olist d) ->
  exists g', Gspawn hashf g (p, r) = Some g' /\ Inv hashf g' /\
             length (pending g') = length (pending g) /\
             (running g = true -> is_reg (slots g) p = false -> is_pending p (pending g) = false ->
              Reg g' p r /\ nitems g' = S (nitems g) /\ hd EvViol (evs g') <> EvViol \/ pending g = []).
Proof.
  intros hashf d g p r [H1 [H2 H3]] Hi Hno.
  destruct (spawn_set_ok hashf gc_swap gc_primes gc_load_num gc_load_den gc_swap_le gc_swap_ge gc_ideal_gt
              (d_olist d) g (p, r) Hi Hno) as [g' [Hs [Hi' [_ Hp']]]].
  exists g'. split; [exact Hs|]. split; [exact Hi'|]. split; [exact Hp'|].
  intros Hrun Hr Hpd. unfold Gspawn, spawn_set in Hs. rewrite Hrun, Hr, Hpd in Hs. simpl in Hs.
  destruct (gc_register_ok hashf gc_swap gc_primes gc_load_num gc_load_den gc_swap_le gc_swap_ge gc_ideal_gt
              g p r (EvSpawn p r) Hi) as [g3 [H3' [Hi3 [Hp3 [_ [Hn3 Hh3]]]]]].
  - apply is_reg_false. exact Hr.
  - intros Hin. apply in_is_pending in Hin. congruence.
  - right. reflexivity.
  - rewrite H3' in Hs. destruct (pending g) eqn:Hpg; [right; reflexivity|left].
    rewrite Hp3 in Hs. injection Hs as <-. split; [|split; [exact Hn3|]].
    + exists (mkE p r false). split; [apply Hh3; right; reflexivity|auto].
    + unfold gc_register in H3'.
      destruct (resize_more hashf gc_swap gc_primes gc_load_num gc_load_den _) as [g2|]; [|discriminate].
      destruct (nslots g2 =? 0); [discriminate|]. destruct (rh_insert gc_swap _ _ _) as [[sl b]|]; [|discriminate].
      injection H3' as <-. simpl. discriminate.
Qed.

(* any allocation of a destructor — an object that stays, or a temporary that is deleted again
   inside the same destructor (possibly at an address finalised and released earlier in the same
   sweep) — in any state with the invariant, pending list not required empty: total with any
   positive nesting fuel, invariant kept, pending list untouched in length *)
Theorem destructor_action_thm : forall hashf d rf g a f, dtors_ok d ->
  Inv hashf g -> 0 < f -> ~ In (fst (dact_pair a)) (d_olist d) ->
  exists g', Gact hashf d rf f g a = Some g' /\ Inv hashf g' /\
             length (pending g') = length (pending g).
Proof.
  intros hashf d rf g a f [H1 [H2 H3]] Hi Hf Hno.
  destruct (act_set_ok hashf gc_swap gc_primes gc_load_num gc_load_den (d_owns d) (d_spawns d) rf
              gc_swap_le gc_swap_ge gc_ideal_gt (d_olist d) f
              (gc_rem_ok hashf gc_swap gc_primes gc_load_num gc_load_den (d_owns d) (d_spawns d) rf
                 gc_swap_le gc_swap_ge gc_ideal_gt (d_olist d) H2 H3 f) Hf g a Hi Hno) as [g' [Ha [Hi' [_ Hp']]]].
  exists g'. auto.
Qed.

(* the executable ledger used as the oracle of the correspondence check is `led` *)
Lemma drop_ptr_in p l q s : In (q, s) (drop_ptr p l) <-> In (q, s) l /\ q <> p.
Proof.
  unfold drop_ptr. rewrite filter_In. simpl. destruct (N.eqb_spec q p); simpl; intuition congruence.
Qed.

Theorem led_list_spec_thm : forall l q s, In (q, s) (led_list l) <-> led l q s.
Proof.
  induction l as [|e l IH]; intros q s; simpl; [tauto|].
  destruct e as [p r|p|p|p|p r|]; simpl.
  - rewrite IH. split; [intros [H|H]; [left; injection H; auto|right; assumption]|].
    intros [[-> ->]|H]; [left; reflexivity|right; assumption].
  - rewrite drop_ptr_in, IH. tauto.
  - rewrite drop_ptr_in, IH. tauto.
  - apply IH.
  - rewrite IH. split; [intros [H|H]; [left; injection H; auto|right; assumption]|].
    intros [[-> ->]|H]; [left; reflexivity|right; assumption].
  - apply IH.
Qed.

(* ------------------------------------------------------------------ 8. decidable admissibility *)

Definition admb (g : gc) (o : op) : bool :=
  match o with
  | OAlloc p _ _ => negb (running g) || negb (is_reg (slots g) p)
  | _ => true
  end.

Lemma admb_ok g o : admb g o = true -> admissible g o.
Proof.
  destruct o as [p r ws|p|p|ws| | | |p]; simpl; auto.
  intros H Hrun e He Hp. rewrite Hrun in H. simpl in H. apply negb_true_iff in H.
  assert (is_reg (slots g) p = true); [|congruence].
  unfold is_reg. apply existsb_exists. exists e. split; [apply in_entries; assumption|apply N.eqb_eq; assumption].
Qed.

Fixpoint adm_runb (hashf : N -> N) (d : dtors) (rf nf : bool) (ops : list op) (g : gc) : bool :=
  match ops with
  | [] => true
  | o :: r => admb g o && adm_runb hashf d rf nf r (fst (Gstep hashf d rf nf g o))
  end.

Lemma adm_runb_ok hashf d rf nf ops : forall g, adm_runb hashf d rf nf ops g = true -> Gadm hashf d rf nf ops g.
Proof.
  induction ops as [|o ops IH]; intros g H; simpl in *; [exact I|].
  apply andb_prop in H. destruct H as [H1 H2]. split; [apply admb_ok; assumption|apply IH; assumption].
Qed.

(* ------------------------------------------------------------------ 9. witnesses *)
Definition ex_hash (p : N) : N := N.shiftr p 3.
(* object 8 owns 16 and 24; object 16 owns 8 (a cycle); everything else owns nothing *)
Definition ex_owns (p : N) : list N :=
  if N.eqb p 8 then [16; 24]%N else if N.eqb p 16 then [8]%N else [].
(* allocations colliding modulo 5 (homes 1,1,1), a collection that reclaims 8 and 16 whose
   destructors delete a pending object and the marked survivor 24 from inside the sweep, an
   explicit deletion, re-use of a freed address, a root *)
(* the destructor of 8 also allocates a managed object at 4096 (outside the address window so
   far, home colliding modulo 5), a temporary at 4112 that it deletes at once, and a root at 4104 *)
Definition ex_spawns (p : N) : list dact :=
  if N.eqb p 8 then [DSpawn 4096 false; DTemp 4112 false; DSpawn 4104 true]%N else [].
Definition ex_d : dtors := mkD ex_owns ex_spawns [8; 16; 24]%N.

Lemma ex_d_ok : dtors_ok ex_d.
Proof.
  split; [|split].
  - repeat constructor; simpl; intuition discriminate.
  - intros q t. unfold ex_d, ex_owns; simpl. destruct (N.eqb q 8); [simpl; intuition|].
    destruct (N.eqb q 16); simpl; intuition.
  - intros q p r. unfold ex_d, ex_spawns; simpl. destruct (N.eqb q 8); simpl; [|tauto].
    intros [H|[H|[H|[]]]]; injection H as <- <-; intuition discriminate.
Qed.

Definition ex_ops : list op :=
  [OAlloc 8 false [8]; OAlloc 48 false [8; 48]; OAlloc 88 false [8; 48; 88];
   OAlloc 16 false [8; 48; 88; 16]; OAlloc 24 false [8; 48; 88; 16; 24];
   OMem 48; OCollect [24; 48; 88]; OMem 24; ORem 48; OAlloc 48 true [48; 88]; OStop; OAlloc 56 false [];
   OStart; OCollect []; OMem 48; OMem 88]%N.

(* the precondition on allocations is needed: registering an address twice breaks the count *)
Definition bad_ops : list op := [OAlloc 8 false [8]; OAlloc 8 false [8]]%N.

(* helpers for the non-vacuity examples (stated for an arbitrary state so that no conversion
   ever has to evaluate a concrete run) *)
Lemma mark_all_InvM hashf g : InvM hashf g -> Quiet g ->
  let g' := set_slots g (smap setmark (slots g)) in
  InvM hashf g' /\ Quiet g' /\ nitems g' = nitems g /\
  (forall e, In e (entries (slots g)) -> Holds (slots g') (setmark e) /\ marked (setmark e) = true).
Proof.
  intros H Hq g'. split; [|split; [exact Hq|split; [reflexivity|]]].
  - apply (InvM_PW hashf g); [exact H| |repeat split].
    apply PW_smap. intros x; split; reflexivity.
  - intros e He. split; [|reflexivity]. apply Holds_smap. exists e. split; [|reflexivity].
    apply in_entries. exact He.
Qed.

Lemma add_pending_Inv hashf g q : Inv hashf g -> is_reg (slots g) q = false ->
  let g' := set_pending g [Some q] in
  Inv hashf g' /\ pending g' = [Some q] /\ nitems g' = nitems g /\ depth g' = S (S (S (nitems g))).
Proof.
  intros [Hm Hcl] Hr g'. split; [|split; [reflexivity|split; [reflexivity|]]].
  - split; [|exact Hcl]. destruct Hm. constructor; auto.
    intros q0 [Hq0|[]] e He Hp. injection Hq0 as <-.
    assert (is_reg (slots g) q = true); [|congruence].
    unfold is_reg. apply existsb_exists. exists e. split; [apply in_entries; exact He|apply N.eqb_eq; exact Hp].
  - unfold depth. simpl. lia.
Qed.

(* ------------------------------------------------------------------ 10. GC_Mark_Item finds what is registered *)
Lemma mark_loop_shape p : forall f (l : list gslot) i j l', mark_loop f l i j p = Some l' ->
  l' = l \/ exists k h e, at_ l k = Some (h, e) /\ ptr e = p /\ l' = upd k (Some (h, setmark e)) l.
Proof.
  induction f as [|f IH]; intros l i j l' H; [discriminate|]. simpl in H.
  destruct (at_ l i) as [[h e]|] eqn:Hat.
  - destruct (dist (length l) i h <? j); [injection H as <-; left; reflexivity|].
    destruct (N.eqb_spec (ptr e) p) as [Hp|Hp]; simpl in H.
    + destruct (marked e); simpl in H.
      * apply IH in H. exact H.
      * injection H as <-. right. exists i, h, e. auto.
    + apply IH in H. exact H.
  - injection H as <-. left. reflexivity.
Qed.

Lemma mark_loop_reaches hashf (l : list gslot) p i0 e0 : Core hashf l ->
  at_ l i0 = Some (home hashf p (length l), e0) -> ptr e0 = p ->
  forall f j, j <= dist (length l) i0 (home hashf p (length l)) -> length l - j < f ->
    exists l', mark_loop f l (pos (length l) (home hashf p (length l)) j) j p = Some l' /\ PW l l' /\
      exists e', at_ l' i0 = Some (home hashf p (length l), e') /\ ptr e' = p /\ marked e' = true.
Proof.
  intros Hc Hat0 Hp0. pose proof Hc as [HL [Hwf Huq]].
  pose proof (at_some_lt _ _ _ _ Hat0) as Hi0.
  set (n := length l) in *. set (hp := home hashf p n) in *.
  assert (Hhp : hp < n) by (apply home_lt; lia).
  set (d := dist n i0 hp).
  assert (Hd : d < n) by (apply dist_lt; assumption).
  induction f as [|f IH]; intros j Hj Hf; [lia|].
  assert (Hin : pos n hp j < n) by (apply pos_lt; lia).
  destruct (Nat.eq_dec j d) as [->|Hne].
  - (* at the slot of the entry *)
    destruct (mark_loop_ok hashf l p Hc (S f) (pos n hp d) d Hin ltac:(fold n; lia)) as [l' [Hl Hpw]].
    exists l'. split; [exact Hl|]. split; [exact Hpw|].
    destruct (mark_loop_shape p _ _ _ _ _ Hl) as [->|[k [h [e [Hk [Hpe ->]]]]]].
    + (* nothing changed: then the entry was marked already *)
      exists e0. split; [exact Hat0|]. split; [exact Hp0|].
      simpl in Hl. fold n in Hl. unfold d in Hl. rewrite pos_dist in Hl by assumption. rewrite Hat0 in Hl.
      fold hp in Hl. fold d in Hl. rewrite Nat.ltb_irrefl in Hl.
      destruct (marked e0) eqn:Hm; [reflexivity|].
      rewrite Hp0, N.eqb_refl in Hl. simpl in Hl. injection Hl as Hl.
      assert (Hx : at_ (upd i0 (Some (hp, setmark e0)) l) i0 = Some (hp, setmark e0)) by (apply at_upd_eq; assumption).
      rewrite Hl, Hat0 in Hx. injection Hx as Hx. rewrite Hx in Hm. simpl in Hm. discriminate.
    + assert (k = i0) by (eapply Huq; eauto; congruence). subst k.
      rewrite Hat0 in Hk. injection Hk as <- <-.
      exists (setmark e0). split; [apply at_upd_eq; assumption|]. split; [exact Hp0|reflexivity].
  - (* before it: the slot is occupied by another address, far enough from home *)
    pose proof (RHL_path gentry l i0 hp e0 HL Hhp Hat0 j Hj) as Hpath. fold n in Hpath.
    set (i := pos n hp j) in *.
    destruct (wt_pos_some gentry l i ltac:(lia)) as [h [e Hat]].
    rewrite (wt_some gentry _ _ _ _ Hat) in Hpath. fold n in Hpath.
    assert (Hii : i <> i0).
    { intros Heq. assert (H2 : pos n hp j = pos n hp d) by (unfold d; rewrite pos_dist by assumption; exact Heq).
      apply pos_inj in H2; lia. }
    assert (Hpe : ptr e <> p).
    { intros Heq. apply Hii. eapply Huq; eauto. congruence. }
    cbn [mark_loop]. fold n. rewrite Hat.
    destruct (Nat.ltb_spec (dist n i h) j) as [|_]; [lia|].
    destruct (N.eqb_spec (ptr e) p) as [|_]; [contradiction|]. cbn [andb].
    unfold i. rewrite nxt_pos by lia.
    apply IH; [fold d; lia|lia].
Qed.

(* a registered, aligned address handed to GC_Mark_Item ends up marked: the [minptr, maxptr]
   pre-filter never rejects a registered address (this is what the bounds invariant is for) *)
Theorem mark_item_marks_thm : forall hashf g p s, InvM hashf g -> Reg g p s -> (p mod 8 = 0)%N ->
  exists g', mark_item hashf g p = Some (Some g') /\ PW (slots g) (slots g') /\
    exists e', Holds (slots g') e' /\ ptr e' = p /\ root e' = s /\ marked e' = true.
Proof.
  intros hashf g p s H [e [[i0 [h Hat]] [Hpe Hre]]] Hal.
  pose proof (inv_core hashf g H) as Hc. pose proof Hc as [HL [Hwf Huq]].
  destruct (Hwf _ _ _ Hat) as [Hh Hhn]. rewrite Hpe in Hh. subst h.
  pose proof (inv_bounds hashf g H e ltac:(exists i0, (home hashf p (length (slots g))); exact Hat)) as Hb. rewrite Hpe in Hb.
  pose proof (at_some_lt _ _ _ _ Hat) as Hi0.
  unfold mark_item. rewrite Hal. simpl.
  destruct (N.ltb_spec p (minptr g)) as [|_]; [lia|]. destruct (N.ltb_spec (maxptr g) p) as [|_]; [lia|]. simpl.
  destruct (Nat.eqb_spec (nslots g) 0) as [Hz|_]; [unfold nslots in Hz; lia|].
  destruct (mark_loop_reaches hashf (slots g) p i0 e Hc Hat Hpe (nslots g + 2) 0 ltac:(lia) ltac:(unfold nslots; lia))
    as [l' [Hl [Hpw [e' [Hat' [Hpe' Hm']]]]]].
  rewrite pos_0 in Hl by assumption. unfold nslots in *. rewrite Hl.
  eexists. split; [reflexivity|]. split; [exact Hpw|]. exists e'. simpl. split; [exists i0, (home hashf p (length (slots g))); exact Hat'|].
  split; [exact Hpe'|]. split; [|exact Hm'].
  pose proof (PW_at _ _ i0 Hpw) as Hs. rewrite Hat, Hat' in Hs. inversion Hs; subst. congruence.
Qed.

(* ------------------------------------------------------------------ 11. every intermediate step *)
Lemma Gadm_app hashf d rf nf : forall a b g, Gadm hashf d rf nf (a ++ b) g -> Gadm hashf d rf nf a g.
Proof.
  induction a as [|o a IH]; intros b g H; simpl in *; [exact I|].
  destruct H as [H1 H2]. split; [exact H1|]. eapply IH; eauto.
Qed.

Theorem registry_every_step_thm : forall hashf d rf nf done rest, dtors_ok d ->
  Gadm hashf d rf nf (done ++ rest) gc_init ->
  Inv hashf (Grun hashf d rf nf done gc_init) /\ Quiet (Grun hashf d rf nf done gc_init).
Proof.
  intros hashf d rf nf done rest Hd H. apply registry_history_thm; [exact Hd|]. eapply Gadm_app; eauto.
Qed.
