(* Extraction of the Tree model (RBTree.v) and its specification for the correspondence
   driver.  ExtrOcamlBasic only; numbers stay the extracted inductive types. *)
From Coq Require Import List Arith NArith ZArith Extraction ExtrOcamlBasic.
From CelloV Require Import Generated RBTree.

(* Int keys *)
Definition zt_empty := t_empty Z Z.
Definition zt_step := t_step Z Z int_cmp tree_rem_use_succ.
Definition zt_set_all := t_set_all Z Z int_cmp.
Definition zt_fwd := iter_forward Z Z.
Definition zt_bwd := iter_backward Z Z.
Definition zt_lookup := lookup Z Z int_cmp.
Definition zs_step := spec_step Z Z int_cmp.
Definition zs_set_all := a_set_all Z Z int_cmp.
(* String keys (byte lists) *)
Definition st_empty := t_empty (list N) Z.
Definition st_step := t_step (list N) Z bytes_cmp tree_rem_use_succ.
Definition st_set_all := t_set_all (list N) Z bytes_cmp.
Definition st_fwd := iter_forward (list N) Z.
Definition st_bwd := iter_backward (list N) Z.
Definition st_lookup := lookup (list N) Z bytes_cmp.
Definition ss_step := spec_step (list N) Z bytes_cmp.
Definition ss_set_all := a_set_all (list N) Z bytes_cmp.

Extraction Language OCaml.
Extraction "../ocaml/gen/Tree.ml" zt_empty zt_step zt_set_all zt_fwd zt_bwd zt_lookup zs_step zs_set_all
  st_empty st_step st_set_all st_fwd st_bwd st_lookup ss_step ss_set_all.
