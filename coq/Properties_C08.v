(* Property C08 — type-class dispatch returns exactly what the type declares.

   Model: Dispatch.v (small-step lookups over cache words, memoised class pointers, class names, instances).
   D : list (string * inst) is the declaration of a type (class NAME, instance) in the order written;
   dspec cn D c = instance of the FIRST pair whose name equals the name cn c of class c, or None.
   cold_type n D = the record as declared statically / built by Type_New: n empty cache words, empty memo words.
   Hypotheses on the wiring (no two Type_Cache_Entry lines share a slot; slots inside the cache area) are discharged
   for the wiring generated from src/Type.c in C08_generated_wiring_sound. *)
From Coq Require Import List Arith String Bool.
From CelloV Require Import Generated Dispatch DispatchProofs.
Import ListNotations.

(* (1) every history of lookups (type_instance/instance/method lookups = KInstance, implements/type_implements =
   KScan), in any order, cold then warm: each returns the declared instance or none, within the model's fuel, and
   the record stays in a state from which this remains true *)
Theorem C08_every_history_returns_declared :
  forall (cn : cls -> string) (wiring : list (nat * cls)) (skipnull reread : bool) (ncache : nat),
    NoDup (map fst wiring) -> (forall i c, In (i, c) wiring -> i < ncache) ->
  forall (D : list (string * inst)) (h : list (kind * cls)),
  exists T', run_history cn wiring skipnull reread (cold_type ncache D) h = Some (T', map (fun kc => dspec cn D (snd kc)) h)
             /\ inv cn wiring ncache D T'.
Proof. exact every_history_from_cold. Qed.
Print Assumptions C08_every_history_returns_declared.

Example C08_every_history_nonvacuous :
  NoDup (map fst [(0, 5); (1, 7)]) /\ (forall i c, In (i, c) [(0, 5); (1, 7)] -> i < 2) /\
  run_history (fun c => if Nat.eqb c 5 then "A" else if Nat.eqb c 6 then "A" else "B")%string [(0, 5); (1, 7)] false false
    (cold_type 2 [("B", 10); ("A", 11); ("A", 12)]%string) [(KScan, 6); (KInstance, 5); (KInstance, 5); (KInstance, 9)]
  = Some (mkTrec [Some 11; None] [mkTriple (Some 9) "B" 10; mkTriple (Some 5) "A" 11; mkTriple None "A" 12]%string,
          [Some 11; Some 11; Some 11; Some 10]).
Proof.
  split; [repeat constructor; simpl; intuition discriminate|].
  split; [intros i c [H|[H|[]]]; inversion H; subst; auto|]. vm_compute. reflexivity.
Qed.

(* (2) the same under EVERY interleaving of the small steps of any number of threads (schedule = list of thread
   ids, each step contains at most one access to a mutable shared word): no word outside the cache area is touched,
   and every result any thread has obtained is the declared instance *)
Theorem C08_every_schedule_returns_declared :
  forall (cn : cls -> string) (wiring : list (nat * cls)) (skipnull reread : bool) (ncache : nat),
    NoDup (map fst wiring) -> (forall i c, In (i, c) wiring -> i < ncache) ->
  forall (D : list (string * inst)) (scripts : list (list (kind * cls))) (sched : list nat),
  exists s', run_sched cn wiring skipnull reread sched (cold_type ncache D, map idle_thread scripts) = Some s' /\
             inv cn wiring ncache D (fst s') /\
             forall th, In th (snd s') -> Forall (fun e => snd e = dspec cn D (fst e)) (th_log th).
Proof. exact every_schedule_from_cold. Qed.
Print Assumptions C08_every_schedule_returns_declared.

(* (2b) lookups are wait-free: a thread that gets (#lookups) * (2 * #instances + 8) turns completes its whole
   script, with exactly the declared answers in script order, whatever the other threads do in between *)
Theorem C08_lookups_complete_under_any_interleaving :
  forall (cn : cls -> string) (wiring : list (nat * cls)) (skipnull reread : bool) (ncache : nat),
    NoDup (map fst wiring) -> (forall i c, In (i, c) wiring -> i < ncache) ->
  forall (D : list (string * inst)) (scripts : list (list (kind * cls))) (sched : list nat),
    (forall tid scr, nth_error scripts tid = Some scr ->
       List.length scr * (2 * List.length D + 8) <= count_occ Nat.eq_dec sched tid) ->
  exists s', run_sched cn wiring skipnull reread sched (cold_type ncache D, map idle_thread scripts) = Some s' /\
             List.length (snd s') = List.length scripts /\
             forall tid scr th', nth_error scripts tid = Some scr -> nth_error (snd s') tid = Some th' ->
               th_todo th' = [] /\ th_cur th' = None /\
               th_log th' = map (fun kc => (snd kc, dspec cn D (snd kc))) scr.
Proof. exact wait_free_from_cold. Qed.
Print Assumptions C08_lookups_complete_under_any_interleaving.

Example C08_schedule_nonvacuous :
  let cn := (fun c => if Nat.eqb c 5 then "A" else "B")%string in
  exists s', run_sched cn [(0, 5)] true true (flat_map (fun _ => [0; 1; 1; 0]) (seq 0 14))
               (cold_type 1 [("B", 10); ("A", 11)]%string, map idle_thread [[(KInstance, 5); (KScan, 7)]; [(KInstance, 5)]]) = Some s' /\
             map (@th_log) (snd s') = [[(5, Some 11); (7, Some 10)]; [(5, Some 11)]].
Proof. eexists. split; vm_compute; reflexivity. Qed.

(* (3a) method call through method()/type_method(): the member of the declared instance is invoked; a class the
   type does not implement, or a member it leaves empty, gives ClassError (and therefore no invocation: the outcome
   is MRaise, not MInvoke) *)
Theorem C08_method_call_invokes_declared_or_raises_ClassError :
  forall (cn : cls -> string) (wiring : list (nat * cls)) (skipnull reread : bool) (ncache : nat),
    NoDup (map fst wiring) -> (forall i c, In (i, c) wiring -> i < ncache) ->
  forall (D : list (string * inst)) (imem : inst -> nat -> bool) (T : trec) (c : cls) (m : nat),
    inv cn wiring ncache D T ->
  exists T' v, lookup cn wiring skipnull reread KInstance c T = ROk T' v /\ inv cn wiring ncache D T' /\
    method_result imem true v m =
      match dspec cn D c with
      | None => MRaise ClassError
      | Some i => if imem i m then MInvoke i m else MRaise ClassError
      end.
Proof. exact method_call_from_reachable. Qed.
Print Assumptions C08_method_call_invokes_declared_or_raises_ClassError.

Example C08_method_call_nonvacuous :
  inv (fun _ => "A"%string) [(0, 5)] 1 [("A"%string, 3)] (cold_type 1 [("A"%string, 3)]) /\
  method_result (fun i m => Nat.eqb m 1) true (Some 3) 1 = MInvoke 3 1 /\
  method_result (fun i m => Nat.eqb m 1) true (Some 3) 0 = MRaise ClassError /\
  method_result (fun i m => Nat.eqb m 1) true None 1 = MRaise ClassError.
Proof. split; [apply inv_cold_type | repeat split]. Qed.

Theorem C08_implements_method_reports_declared_member :
  forall (cn : cls -> string) (wiring : list (nat * cls)) (skipnull reread : bool) (ncache : nat),
    NoDup (map fst wiring) -> (forall i c, In (i, c) wiring -> i < ncache) ->
  forall (D : list (string * inst)) (imem : inst -> nat -> bool) (T : trec) (c : cls) (m : nat),
    inv cn wiring ncache D T ->
  exists T' v, lookup cn wiring skipnull reread KScan c T = ROk T' v /\ inv cn wiring ncache D T' /\
    implements_method_result imem v m = match dspec cn D c with None => false | Some i => imem i m end.
Proof. exact implements_method_from_reachable. Qed.
Print Assumptions C08_implements_method_reports_declared_member.

(* (3b) cast: unless the type declares its own Cast member, cast to another type raises ValueError, to its own type
   returns the object *)
Theorem C08_cast_checks_the_type :
  forall (cn : cls -> string) (wiring : list (nat * cls)) (skipnull reread : bool) (ncache : nat),
    NoDup (map fst wiring) -> (forall i c, In (i, c) wiring -> i < ncache) ->
  forall (D : list (string * inst)) (imem : inst -> nat -> bool) (T : trec) (ccast tself ttype : nat),
    inv cn wiring ncache D T ->
  exists T' v, lookup cn wiring skipnull reread KInstance ccast T = ROk T' v /\ inv cn wiring ncache D T' /\
    cast_result imem v tself ttype =
      match dspec cn D ccast with
      | Some i => if imem i 0 then CCustom i else if Nat.eqb tself ttype then CSelf else CRaise ValueError
      | None => if Nat.eqb tself ttype then CSelf else CRaise ValueError
      end.
Proof. exact cast_from_reachable. Qed.
Print Assumptions C08_cast_checks_the_type.

Theorem C08_cast_to_another_type_raises_ValueError :
  forall imem r tself ttype, tself <> ttype ->
    (r = None \/ exists i, r = Some i /\ imem i 0 = false) -> cast_result imem r tself ttype = CRaise ValueError.
Proof. exact cast_other_type_raises. Qed.
Print Assumptions C08_cast_to_another_type_raises_ValueError.

Example C08_cast_nonvacuous : cast_result (fun _ _ => false) None 3 4 = CRaise ValueError /\
                              cast_result (fun _ _ => false) (Some 2) 3 3 = CSelf.
Proof. split; reflexivity. Qed.

(* (4) the data generated from the working tree: no two cache entries share a slot, every slot lies inside the
   CELLO_CACHE_NUM words, every wired name is a class, builtin objects have pairwise distinct names, every declared
   instance is of a class struct with that many members, and the rule texts the model encodes are the source's *)
Theorem C08_generated_wiring_sound :
  NoDup (map fst cache_wiring) /\
  (forall i n, In (i, n) cache_wiring -> i < cello_cache_num /\ exists k, In (n, k) builtin_classes) /\
  Nat.modulo cello_cache_num 3 = 0 /\
  NoDup builtin_objects /\
  (forall t insts, In (t, insts) builtin_types -> Forall (fun s => In s builtin_objects) (map fst insts)) /\
  all_shapes_ok = true.
Proof. exact generated_facts. Qed.
Print Assumptions C08_generated_wiring_sound.

(* (5) hence for every builtin type object and every history of lookups of builtin objects used as classes, with
   the generated wiring: the instance declared for that class by class IDENTITY (first Instance(Class, ...) entry) *)
Theorem C08_builtin_types_return_declared_instance :
  forall tname insts h, In (tname, insts) builtin_types ->
    Forall (fun kc => snd kc < List.length builtin_objects) h ->
  exists T', run_history cn_b wiring_b cache_write_skips_null cache_fetch_rereads (cold_type cello_cache_num (builtin_decl insts)) h =
             Some (T', map (fun kc => decl_lookup (builtin_decl_ids insts) (snd kc)) h).
Proof. exact builtin_every_history. Qed.
Print Assumptions C08_builtin_types_return_declared_instance.

Example C08_builtin_nonvacuous :
  exists insts, In ("Int"%string, insts) builtin_types /\
    map (fun c => decl_lookup (builtin_decl_ids insts) (index_of c builtin_objects)) ["Cmp"; "Len"; "Doc"]%string
    = [Some 2; None; Some 0].
Proof.
  exists (match find (fun t => String.eqb (fst t) "Int"%string) builtin_types with Some x => snd x | None => [] end).
  split; [|vm_compute; reflexivity].
  destruct (find (fun t => String.eqb (fst t) "Int"%string) builtin_types) as [[n i]|] eqn:E; [|vm_compute in E; discriminate].
  apply find_some in E. destruct E as [Hin Hn]. cbn [fst] in Hn. apply String.eqb_eq in Hn. subst n. exact Hin.
Qed.

(* the reading by class identity needs distinct classes to have distinct names: two class objects that carry one name
   are indistinguishable to Type_Scan (declaration is by name: Instance(I, ...) stores #I) *)
Theorem C08_same_name_classes_alias :
  exists (cn : cls -> string) dl c, dspec cn (map (fun d => (cn (fst d), snd d)) dl) c <> decl_lookup dl c.
Proof. exact same_name_classes_alias. Qed.
Print Assumptions C08_same_name_classes_alias.

Theorem C08_distinct_names_give_identity_reading :
  forall cn dl c, (forall c', In c' (map fst dl) -> cn c' = cn c -> c' = c) ->
    dspec cn (map (fun d => (cn (fst d), snd d)) dl) c = decl_lookup dl c.
Proof. exact dspec_decl_lookup. Qed.
Print Assumptions C08_distinct_names_give_identity_reading.

(* the hypotheses on the wiring are necessary (what the cache-slot mutants break) *)
Theorem C08_shared_slot_refuted : exists cn wiring D h,
  ~ NoDup (map fst wiring) /\
  exists T' r, run_history cn wiring false false (cold_type 2 D) h = Some (T', r) /\ r <> map (fun kc => dspec cn D (snd kc)) h.
Proof. exact shared_slot_breaks_lookup. Qed.
Print Assumptions C08_shared_slot_refuted.

Theorem C08_slot_outside_cache_refuted : exists cn wiring D c,
  lookup cn wiring false false KInstance c (cold_type 1 D) = RCrash.
Proof. exact slot_outside_cache_corrupts. Qed.
Print Assumptions C08_slot_outside_cache_refuted.

(* (6) run-time types: the allocator zeroes the block or Type_New clears all CELLO_CACHE_NUM cache words (read from the
   source), so a new type starts cold in whatever block it is built, and every history of lookups on it answers from
   its own declaration only -- not from what a deleted type left in a recycled block *)
Theorem C08_fresh_runtime_type_answers_from_own_declaration :
  forall (cn : cls -> string) (wiring : list (nat * cls)) (skipnull reread : bool),
    NoDup (map fst wiring) -> (forall i c, In (i, c) wiring -> i < cello_cache_num) ->
  forall (garbage : list (option inst)) (D : list (string * inst)) (h : list (kind * cls)),
    List.length garbage = cello_cache_num ->
  exists T', run_history cn wiring skipnull reread
               (fresh_type type_alloc_zeroed type_new_cleared_words cello_cache_num garbage D) h
             = Some (T', map (fun kc => dspec cn D (snd kc)) h).
Proof. exact fresh_type_every_history. Qed.
Print Assumptions C08_fresh_runtime_type_answers_from_own_declaration.

Theorem C08_partial_cache_clear_refuted : exists cn wiring garbage D h,
  NoDup (map fst wiring) /\ (forall i c, In (i, c) wiring -> i < 2) /\ List.length garbage = 2 /\
  exists T' r, run_history cn wiring false false (fresh_type false 1 2 garbage D) h = Some (T', r) /\
               r <> map (fun kc => dspec cn D (snd kc)) h.
Proof. exact partial_clear_breaks_fresh_type. Qed.
Print Assumptions C08_partial_cache_clear_refuted.
