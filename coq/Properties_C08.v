(* Property C08 — type-class dispatch returns exactly what the type declares. *)
From Coq Require Import List Arith String Bool.
From CelloV Require Import Generated Dispatch.
Import ListNotations.
