(* Properties_C18_glue.v — property C18, second part: hypotheses of the configuration theorems discharged from what
   OTHER properties prove (coq/ConfigGlue.v instantiates theorems of C08, C01, C04/C12).  Kept apart from
   Properties_C18.v because the cone of this file contains the other properties' modules: when one of THEIR
   source ties breaks (their obligation, reported by their check), this file cannot be rebuilt either, and
   props/C18.py then reports "glue not re-established (inherited)" in the evidence instead of a C18 alarm; a
   failure inside Config*.v / ConfigGlue.v / this file is a C18 obligation as usual.
   Only statements closed by `exact`, each followed by Print Assumptions. *)
From CelloV Require Import Generated Config ConfigProofs ConfigGlue.
From Coq Require Import List Bool ZArith String.
Import ListNotations.

(* ================================================================================================
   Hypotheses discharged from what other properties prove (coq/ConfigGlue.v).  The modules of the other
   properties are used qualified. *)

(* G1 (C08). Cache on (the wiring generated from Type_Instance, CELLO_CACHE_NUM cache words) and cache off (no
   wiring, no cache words) in C08's dispatch model of Type.c: every history of lookups from a cold type
   succeeds in both and returns the same list — the instance the type declares for each class.  No hypothesis
   left: NoDup / bound of the wiring are computed facts about the source *)
Theorem cache_on_off_agree_for_the_generated_wiring :
  forall (cn : Dispatch.cls -> String.string) (sn rr : bool) (D : list (String.string * Dispatch.inst))
         (h : list (Dispatch.kind * Dispatch.cls)),
  exists Ton Toff,
    Dispatch.run_history cn cfg_cache_wiring sn rr (Dispatch.cold_type cello_cache_num D) h
      = Some (Ton, map (fun kc => DispatchProofs.dspec cn D (snd kc)) h) /\
    Dispatch.run_history cn [] sn rr (Dispatch.cold_type 0 D) h
      = Some (Toff, map (fun kc => DispatchProofs.dspec cn D (snd kc)) h).
Proof. exact ConfigGlue.cache_on_off_agree_for_the_generated_wiring. Qed.
Print Assumptions cache_on_off_agree_for_the_generated_wiring.

(* G2 (C08). C08's invariant of a type record implies the cache-soundness hypothesis (`cache_ok` / `types_ok`) of
   theorems 1-3c, for the same cache words and the declaration read by class identity (classes with pairwise
   distinct names, the condition C08 itself needs for that reading) *)
Theorem c08_invariant_gives_sound_caches :
  forall (cn : Dispatch.cls -> String.string) (dl : list (Dispatch.cls * Dispatch.inst)) (ncache : nat) (T : Dispatch.trec),
  (forall c c', In c' (map fst dl) -> cn c' = cn c -> c' = c) ->
  DispatchProofs.inv cn cfg_cache_wiring ncache (map (fun d => (cn (fst d), snd d)) dl) T ->
  cache_ok (mkTy (Dispatch.cache T) dl).
Proof. exact ConfigGlue.c08_invariant_gives_sound_caches. Qed.
Print Assumptions c08_invariant_gives_sound_caches.

(* G3 (C08). Hence after ANY history of lookups run by C08's model from the cold type a declaration builds, the
   cache words satisfy the soundness hypothesis, and the results are what a plain scan returns *)
Theorem sound_caches_after_every_lookup_history :
  forall (cn : Dispatch.cls -> String.string) (sn rr : bool) (dl : list (Dispatch.cls * Dispatch.inst)) (h : list (Dispatch.kind * Dispatch.cls)),
  (forall c c', In c' (map fst dl) -> cn c' = cn c -> c' = c) ->
  exists T' r, Dispatch.run_history cn cfg_cache_wiring sn rr (Dispatch.type_of_decl cn cello_cache_num dl) h = Some (T', r) /\
               cache_ok (mkTy (Dispatch.cache T') dl) /\
               r = map (fun kc => scan dl (snd kc)) h.
Proof. exact ConfigGlue.sound_caches_after_every_lookup_history. Qed.
Print Assumptions sound_caches_after_every_lookup_history.

Example sound_caches_after_every_lookup_history_nonvacuous :
  forall c c' : nat, In c' (map fst [(11, 7); (10, 9)]) ->
    (fun k => if Nat.eqb k 11 then "Len" else if Nat.eqb k 10 then "Hash" else "Other")%string c' =
    (fun k => if Nat.eqb k 11 then "Len" else if Nat.eqb k 10 then "Hash" else "Other")%string c -> c' = c.
Proof.
  intros c c' [H | [H | []]]; subst; simpl;
    destruct (Nat.eqb c 11) eqn:E1; destruct (Nat.eqb c 10) eqn:E2; intro H; try discriminate;
    try (apply PeanoNat.Nat.eqb_eq in E1; congruence); try (apply PeanoNat.Nat.eqb_eq in E2; congruence).
Qed.

(* G4 (C01). The collector C01 models (mark phase of GC.c with the switches read off the source, abstract sweep),
   run on the translation of the register machine's heap into C01's heap graph (nodes = bound addresses as
   aligned words, contents = the stored references as words of a plain struct, every node registered, none
   root-flagged, stack = the registers, no TLS), is `collector_safe`: by C01's collect_safe and preservation of
   reachability under the translation *)
Theorem collector_safe_for_the_modelled_collector : collector_safe c01_collect.
Proof. exact ConfigGlue.c01_collect_safe. Qed.
Print Assumptions collector_safe_for_the_modelled_collector.

(* G5 (C01). Collector transparency WITHOUT hypothesis for that collector: whatever the gc flag of the two
   configurations, the program observes the same values *)
Theorem collector_transparent_for_the_modelled_collector :
  forall (ops : list gop) (s : gstate) (c1 c2 : config),
  snd (grun_cfg c1 c01_collect 0 ops s) = snd (grun_cfg c2 c01_collect 0 ops s).
Proof. exact ConfigGlue.collector_transparent_for_c01. Qed.
Print Assumptions collector_transparent_for_the_modelled_collector.

(* the modelled collector is not the identity: it frees three of four bindings of this program *)
Example collector_transparent_for_the_modelled_collector_nonvacuous :
  let ops := [GAlloc 0 5%Z []; GAlloc 1 6%Z [(0, [])]; GDrop 0; GRead (1, [0]); GWrite (1, [0]) 9%Z;
              GMove 2 (1, [0]); GRead (2, []); GAlloc 1 7%Z []; GRead (1, []); GDrop 2; GRead (1, []); GRead (1, [])] in
  snd (grun true c01_collect 0 ops g_empty)
    = [GUnit; GUnit; GUnit; GVal 5%Z; GUnit; GUnit; GVal 9%Z; GUnit; GVal 7%Z; GUnit; GVal 7%Z; GVal 7%Z] /\
  List.length (gheap (fst (grun true c01_collect 0 ops g_empty))) = 1 /\
  List.length (gheap (fst (grun false c01_collect 0 ops g_empty))) = 4.
Proof. exact ConfigGlue.c01_collect_frees. Qed.

(* G6 (C04/C12). The Array configuration theorem about the model that is compared with the library: from any
   state of C04's memory-level model of Array.c satisfying its invariant, on a history (without len, which C04
   states as an observation) on which no bounds test fires, EVERY build of Config.v computes the sequence
   contents and the outcomes C04's model computes *)
Theorem array_every_build_agrees_with_c04_model :
  forall (h : list aop) (a : SeqModels.array Z) (c : config),
  no_len h = true -> SeqModels.a_inv Z a -> afires h (SeqModels.a_abs Z a) = false ->
  fst (arun c h (SeqModels.a_abs Z a)) = SeqModels.a_abs Z (fst (a_run a (map tr h))) /\
  conv_all h (snd (arun c h (SeqModels.a_abs Z a))) = snd (a_run a (map tr h)).
Proof. exact ConfigGlue.array_every_build_agrees_with_c04_model. Qed.
Print Assumptions array_every_build_agrees_with_c04_model.

(* G7 (C04/C12). On EVERY history the default build follows C04/C12's model: outside the contract the documented
   exception and an unchanged array *)
Theorem array_default_build_agrees_with_c04_model_on_every_history :
  forall (h : list aop) (a : SeqModels.array Z),
  no_len h = true -> SeqModels.a_inv Z a ->
  fst (arun cfg_default h (SeqModels.a_abs Z a)) = SeqModels.a_abs Z (fst (a_run a (map tr h))) /\
  conv_all h (snd (arun cfg_default h (SeqModels.a_abs Z a))) = snd (a_run a (map tr h)).
Proof. exact ConfigGlue.array_default_build_agrees_with_c04_model_on_every_history. Qed.
Print Assumptions array_default_build_agrees_with_c04_model_on_every_history.

Example array_every_build_agrees_with_c04_model_nonvacuous :
  let a := SeqModels.a_new Z [4; 5; 6]%Z in
  let h := [APush 7; APushAt 9 (-1); AGet (-5); APopAt 1; AMem 9; ARem 9; APop; ASet (-1) 8]%Z in
  no_len h = true /\ afires h (SeqModels.a_abs Z a) = false /\
  arun (cfg_build true true true) h (SeqModels.a_abs Z a) =
    ([4; 8]%Z, [ODone; ODone; OVal 4%Z; ODone; OVal 1%Z; ODone; ODone; ODone]) /\
  SeqModels.a_abs Z (fst (a_run a (map tr h))) = [4; 8]%Z.
Proof. exact ConfigGlue.c04_glue_example. Qed.
