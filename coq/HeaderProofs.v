(* HeaderProofs.v — proofs about the model of Header.v (property C19). *)
From Coq Require Import List Arith Bool Lia.
From CelloV Require Import Generated Header.
Import ListNotations.

Lemma rules_ok : hdr_rules_ok = true.
Proof. vm_compute. reflexivity. Qed.
