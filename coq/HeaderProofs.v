(* HeaderProofs.v — proofs about the model of Header.v (property C19).

   The model is finite in everything except the length of operation histories and the identity
   of user types; the theorems quantify over ALL histories (induction, with an invariant that is
   checked by complete case analysis of one step) and over all type names.  Constants come from
   Generated.v: if the source changes a class code, the class written at a header_init site, the
   refusals of dealloc, the order in del_by or a guard of String/Tuple, the case analyses below are
   re-run on the new values and fail where the property no longer follows. *)
From Coq Require Import List Arith Bool Lia.
From CelloV Require Import Generated Header.
Import ListNotations.

Lemma rules_ok : hdr_rules_ok = true.
Proof. vm_compute. reflexivity. Qed.

(* the four class codes are pairwise different (needed for aclass_of_code to invert code_of) *)
Lemma codes_distinct :
  forall a b, code_of a = code_of b -> a = b.
Proof. intros [] []; vm_compute; intro H; try reflexivity; discriminate H. Qed.

Lemma aclass_of_code_of : forall a, aclass_of_code (code_of a) = Some a.
Proof. intros []; vm_compute; reflexivity. Qed.

(* ------------------------------------------------------------------ T1: headers of everything the API hands out *)

Lemma produce_header :
  forall ngc p T K V, valid p T K V = true ->
    let o := m_produce (cfg_src ngc) p T K V in
    m_type_of o = spec_type p T K V /\
    aclass_of_code (o_alloc o) = Some (spec_class p) /\
    o_magic o = true.
Proof.
  intros ngc p T K V Hv.
  destruct p as [| | | | | | | | | |c|c|c|c|c| | | | |i|i|]; try destruct c; try destruct i;
    destruct T; try discriminate Hv; vm_compute; repeat split; reflexivity.
Qed.

(* registration: only alloc/new/copy (standard, root) ever enter the registry, and what they register
   is a heap object *)
Lemma registered_is_heap :
  forall ngc p T K V, valid p T K V = true ->
    o_reg (m_produce (cfg_src ngc) p T K V) <> RNone -> spec_class p = AHeap.
Proof.
  intros ngc p T K V Hv.
  destruct p as [| | | | | | | | | |c|c|c|c|c| | | | |i|i|]; try destruct c; try destruct i; try reflexivity;
    destruct T; try discriminate Hv; vm_compute; intro H; try reflexivity; exfalso; apply H; reflexivity.
Qed.

(* ------------------------------------------------------------------ the invariant of a non-heap object *)

Definition kind_eqb (a b : kind) : bool :=
  match a, b with KPlain, KPlain | KString, KString | KTuple, KTuple | KType, KType => true | _, _ => false end.

Definition has_buffer (k : kind) : bool := match k with KString | KTuple => true | _ => false end.

(* nh: the object's buffer is not heap memory (String/Tuple on the stack) *)
Definition nh_of (cls : aclass) (k : kind) : bool :=
  match cls with AStack | AStatic => has_buffer k | _ => false end.

Definition invb (cls : aclass) (k : kind) (o : obj) : bool :=
  negb (aclass_eqb cls AHeap) &&
  Nat.eqb (o_alloc o) (code_of cls) && kind_eqb (o_kind o) k && o_magic o &&
  match o_reg o with RNone => true | _ => false end &&
  (if nh_of cls k then match o_buf o with BLive false => true | _ => false end
   else match o_buf o with BLive false => false | _ => true end).

(* what the property demands of a step on such an object *)
Definition demand_of (cls : aclass) (k : kind) (q : op) : demand :=
  let nh := nh_of cls k in
  if deleting q then DAttempt nh
  else if nh && match q with
                | OpDestruct => true
                | OpSweep => false
                | _ => match inplace_fn k q with Some _ => true | None => false end
                end
       then DAttempt nh else DNotFreed nh.

Definition step_ok (c : cfg) (cls : aclass) (k : kind) (q : op) (o : obj) : Prop :=
  let s := m_op c q o in
  meets o s (weaken c q (demand_of cls k q)) /\ invb cls k (fst (fst s)) = true.

(* complete case analysis of one step (the header's type word is irrelevant and stays abstract) *)
Lemma step_ok_all :
  forall ngc cls k q o, invb cls k o = true -> step_ok (cfg_src ngc) cls k q o.
Proof.
  intros ngc cls k q [ty al mg ok bd bf bc rg] H.
  unfold invb in H; cbn [o_alloc o_kind o_magic o_reg o_buf] in H.
  destruct cls; try discriminate H;
  destruct k, ok; try discriminate H;
  destruct mg; try (rewrite ?andb_false_r in H; discriminate H);
  destruct rg; try (rewrite ?andb_false_r in H; simpl in H; discriminate H);
  destruct (Nat.eqb al _) eqn:E in H; try discriminate H;
  apply Nat.eqb_eq in E; subst al;
  destruct bf as [|[]|]; try discriminate H; clear H;
  destruct ngc, q, bd, bc; vm_compute; repeat split; reflexivity.
Qed.

(* ------------------------------------------------------------------ T2: every history on a non-heap object *)

Lemma produce_inv :
  forall ngc p T K V, valid p T K V = true -> spec_class p <> AHeap ->
    invb (spec_class p) (kind_of (spec_type p T K V)) (m_produce (cfg_src ngc) p T K V) = true.
Proof.
  intros ngc p T K V Hv Hh.
  destruct p as [| | | | | | | | | |c|c|c|c|c| | | | |i|i|]; try (exfalso; apply Hh; reflexivity);
    try destruct c; try destruct i; try (exfalso; apply Hh; reflexivity);
    first [ solve [destruct T; try discriminate Hv; vm_compute; reflexivity]
          | solve [destruct K; try discriminate Hv; vm_compute; reflexivity]
          | solve [destruct V; try discriminate Hv; vm_compute; reflexivity] ].
Qed.

Lemma demand_of_spec :
  forall p T K V q, spec_class p <> AHeap ->
    demand_of (spec_class p) (kind_of (spec_type p T K V)) q = spec_demand p T K V q.
Proof.
  intros p T K V q Hh. unfold demand_of, spec_demand, spec_bufnh, nh_of, has_buffer.
  destruct (spec_class p); try (exfalso; apply Hh; reflexivity);
    destruct (kind_of (spec_type p T K V)); reflexivity.
Qed.

Lemma history_inv :
  forall ngc p T K V ops o, spec_class p <> AHeap ->
    invb (spec_class p) (kind_of (spec_type p T K V)) o = true ->
    history_meets (cfg_src ngc) p T K V ops o.
Proof.
  intros ngc p T K V ops. induction ops as [|q r IH]; intros o Hh Hi; simpl; auto.
  destruct (step_ok_all ngc _ _ q o Hi) as [Hm Hi'].
  rewrite demand_of_spec in Hm by exact Hh. split; [exact Hm | apply IH; assumption].
Qed.

Theorem nonheap_histories :
  forall ngc p T K V ops, valid p T K V = true -> spec_class p <> AHeap ->
    history_meets (cfg_src ngc) p T K V ops (m_produce (cfg_src ngc) p T K V).
Proof.
  intros. apply history_inv; [assumption | apply produce_inv; assumption].
Qed.

(* without the collector nothing is weakened: the full demand holds for every operation *)
Lemma weaken_ngc : forall q d, weaken (cfg_src true) q d = d.
Proof. intros q d. unfold weaken, f7_cell. reflexivity. Qed.

(* with the collector only del and del_root are weakened *)
Lemma weaken_gc : forall q d, q <> OpDel -> q <> OpDelRoot -> weaken (cfg_src false) q d = d.
Proof. intros q d H1 H2. unfold weaken, f7_cell. destruct q; try reflexivity; contradiction. Qed.

(* plain reading: no event of any history releases the block, or the non-heap buffer *)
Lemma meets_released :
  forall c q o s d, meets o s (weaken c q d) -> d <> DAny ->
    released_nothing (match d with DNotFreed nh | DAttempt nh => nh | DAny => false end) (snd s) = true.
Proof.
  intros c q o [[o' out] e] d H Hd. unfold weaken in H.
  destruct d as [|nh|nh]; [contradiction | |]; destruct (f7_cell c q); simpl in *; tauto.
Qed.

Theorem nonheap_never_released :
  forall ngc p T K V ops, valid p T K V = true -> spec_class p <> AHeap ->
    forall e, In e (events (m_run (cfg_src ngc) ops (m_produce (cfg_src ngc) p T K V))) ->
      is_obj_ev e = false /\ (spec_bufnh p T K V = true -> is_buf_ev e = false).
Proof.
  intros ngc p T K V ops Hv Hh.
  pose proof (nonheap_histories ngc p T K V ops Hv Hh) as H.
  revert H. generalize (m_produce (cfg_src ngc) p T K V) as o.
  induction ops as [|q r IH]; intros o H e He; simpl in He; [contradiction|].
  simpl in H. destruct H as [Hm Hr].
  destruct (m_op (cfg_src ngc) q o) as [[o' out] ev] eqn:E. simpl in He, Hr.
  unfold events in He. simpl in He. apply in_app_or in He. destruct He as [He|He].
  - assert (Hd : spec_demand p T K V q <> DAny).
    { unfold spec_demand. destruct (spec_class p); try (exfalso; apply Hh; reflexivity);
        destruct (deleting q); try discriminate;
        match goal with |- (if ?b then _ else _) <> _ => destruct b end; discriminate. }
    pose proof (meets_released _ _ _ _ _ Hm Hd) as R. simpl in R.
    assert (Hnh : match spec_demand p T K V q with DNotFreed nh | DAttempt nh => nh | DAny => false end = spec_bufnh p T K V).
    { unfold spec_demand. destruct (spec_class p); try (exfalso; apply Hh; reflexivity);
        destruct (deleting q); try reflexivity;
        match goal with |- context [if ?b then _ else _] => destruct b end; reflexivity. }
    rewrite Hnh in R. unfold released_nothing in R. apply andb_true_iff in R. destruct R as [R1 R2].
    split.
    + apply negb_true_iff in R1. destruct (is_obj_ev e) eqn:X; auto.
      assert (existsb is_obj_ev ev = true) by (apply existsb_exists; exists e; auto). congruence.
    + intro Hb. rewrite Hb in R2. simpl in R2. apply negb_true_iff in R2.
      destruct (is_buf_ev e) eqn:X; auto.
      assert (existsb is_buf_ev ev = true) by (apply existsb_exists; exists e; auto). congruence.
  - apply (IH o' Hr e). exact He.
Qed.

(* ------------------------------------------------------------------ refuted variants *)

(* F7: with the collector compiled in, del of a stack Int raises nothing *)
Lemma f7_refuted :
  exists p T K V q, valid p T K V = true /\ spec_class p <> AHeap /\
    let o := m_produce (cfg_src false) p T K V in
    ~ meets o (m_op (cfg_src false) q o) (spec_demand p T K V q).
Proof.
  exists PStack, TInt, TInt, TInt, OpDel. split; [reflexivity|]. split; [discriminate|].
  vm_compute. intros [_ [H _]]. discriminate H.
Qed.

(* D22 (repaired by 129f69d): had del_by run the destructor before the class check, del_raw of a String
   stored in an Array would raise ResourceError after releasing the string's buffer *)
Definition cfg_d22 (ngc : bool) : cfg := mkCfg ngc false hdr_dealloc_refuses guards_src.

Lemma d22_refuted :
  exists p T K V q, valid p T K V = true /\ spec_class p <> AHeap /\
    let o := m_produce (cfg_d22 false) p T K V in
    ~ meets o (m_op (cfg_d22 false) q o) (spec_demand p T K V q).
Proof.
  exists (PGet CArray), TString, TInt, TInt, OpDelRaw. split; [reflexivity|]. split; [discriminate|].
  vm_compute. intros [_ [_ H]]. discriminate H.
Qed.

(* ------------------------------------------------------------------ T3: heap objects, matched histories *)

Lemma frees_cons :
  forall c q r o, frees (m_run c (q :: r) o) =
    count is_free_obj (snd (m_op c q o)) + frees (m_run c r (fst (fst (m_op c q o)))).
Proof.
  intros c q r o. unfold frees, events, count. simpl.
  destruct (m_op c q o) as [[o' out] e]. simpl.
  rewrite filter_app, app_length. reflexivity.
Qed.

Lemma sweeps_release_nothing :
  forall c r o, sweeps r = true -> o_reg o <> RAuto -> frees (m_run c r o) = 0.
Proof.
  intros c r. induction r as [|q r IH]; intros o Hs Hr; [reflexivity|].
  simpl in Hs. apply andb_true_iff in Hs. destruct Hs as [Hq Hs]. destruct q; try discriminate Hq.
  rewrite frees_cons.
  assert (E : m_op c OpSweep o = (o, (if c_ngc c then ONa else OOk), [])).
  { unfold m_op, m_sweep. destruct (c_ngc c); [reflexivity|]. destruct (o_reg o); try reflexivity. contradiction. }
  rewrite E. simpl. apply IH; assumption.
Qed.

Theorem heap_released_exactly_once :
  forall ngc p T K V ops n, valid p T K V = true ->
    matched_total (cfg_src ngc) p ops = Some n ->
    frees (m_run (cfg_src ngc) ops (m_produce (cfg_src ngc) p T K V)) = n.
Proof.
  intros ngc p T K V ops n Hv Hm.
  destruct ops as [|q r]; [destruct ngc, p; discriminate Hm|].
  destruct ngc.
  - (* no collector: single operations *)
    destruct p, q; try discriminate Hm; destruct r; try discriminate Hm;
      vm_compute in Hm; injection Hm as <-;
      destruct T; try discriminate Hv; vm_compute; reflexivity.
  - destruct q;
      try (destruct p; try discriminate Hm;
           unfold matched_total in Hm; cbn [c_ngc cfg_src] in Hm;
           destruct (sweeps r) eqn:Hs; try discriminate Hm; injection Hm as <-;
           rewrite frees_cons;
           destruct T; try discriminate Hv;
           (rewrite sweeps_release_nothing; [vm_compute; reflexivity | exact Hs | vm_compute; discriminate])).
    (* del while stopped: nothing now, released by the sweep that follows, never again *)
    destruct p; try discriminate Hm;
      unfold matched_total in Hm; cbn [c_ngc cfg_src] in Hm;
      destruct r as [|q2 r2]; try discriminate Hm; destruct q2; try discriminate Hm;
      destruct (sweeps r2) eqn:Hs; try discriminate Hm; injection Hm as <-;
      rewrite frees_cons; rewrite frees_cons;
      destruct T; try discriminate Hv;
      (rewrite sweeps_release_nothing; [vm_compute; reflexivity | exact Hs | vm_compute; discriminate]).
Qed.

(* ------------------------------------------------------------------ finding F8 (open): alloc + dealloc *)

(* dealloc releases an alloc()ed object but leaves its registry entry; the next sweep then runs the
   release sequence on the released block (in a debug build Type_Of's magic-number test turns this into a
   ValueError thrown out of the collection; nothing in the model stands for a reused block) *)
Lemma alloc_dealloc_stale_entry :
  forall T, kind_of T <> KType ->
    let c := cfg_src false in
    let o1 := fst (fst (m_op c OpDealloc (m_produce c PAlloc T T T))) in
    snd (m_op c OpDealloc (m_produce c PAlloc T T T)) = [FreeObj] /\
    o_reg o1 = RAuto /\
    snd (fst (m_op c OpSweep o1)) = ORaise ValueError.
Proof. intros T H. destruct T; try (exfalso; apply H; reflexivity); vm_compute; repeat split. Qed.

(* ------------------------------------------------------------------ storage layout *)

Lemma layout_ok : hdr_layout_ok = true.
Proof. vm_compute. reflexivity. Qed.

Lemma round_up_ge : forall w s, 0 < w -> s <= round_up w s.
Proof.
  intros w s Hw. unfold round_up.
  pose proof (Nat.div_mod (s + w - 1) w ltac:(lia)) as E.
  pose proof (Nat.mod_upper_bound (s + w - 1) w ltac:(lia)) as B.
  rewrite Nat.mul_comm. lia.
Qed.

(* an object's s = size(type) bytes lie inside its block, behind its own header, and end before the next
   header of the same block *)
Lemma plain_fits : forall H s, plain_body H + s <= plain_block H s.
Proof. intros. unfold plain_body, plain_block. lia. Qed.

Lemma array_fits :
  forall H w s n i, 0 < w -> i < n ->
    array_head H w s i + H = array_body H w s i /\
    array_body H w s i + s <= array_head H w s (i + 1) /\
    array_head H w s (i + 1) <= array_block H w s n /\
    (forall j, i < j -> array_body H w s i + s <= array_head H w s j).
Proof.
  intros H w s n i Hw Hi. pose proof (round_up_ge w s Hw) as R.
  unfold array_head, array_body, array_block, array_step in *.
  repeat split; nia.
Qed.

Lemma list_fits : forall H w s,
  list_head w + H = list_body H w /\ list_body H w + s <= list_block H w s.
Proof. intros. unfold list_head, list_body, list_block. lia. Qed.

Lemma tree_fits : forall H w ks vs,
  tree_khead w + H = tree_kbody H w /\
  tree_kbody H w + ks <= tree_vhead H w ks /\
  tree_vhead H w ks + H = tree_vbody H w ks /\
  tree_vbody H w ks + vs <= tree_block H w ks vs.
Proof. intros. unfold tree_khead, tree_kbody, tree_vhead, tree_vbody, tree_block. lia. Qed.

Lemma table_fits :
  forall H w ks vs n i, 0 < w -> i < n ->
    table_khead H w ks vs i + H = table_kbody H w ks vs i /\
    table_kbody H w ks vs i + ks <= table_vhead H w ks vs i /\
    table_vhead H w ks vs i + H = table_vbody H w ks vs i /\
    table_vbody H w ks vs i + vs <= table_step H w ks vs * (i + 1) /\
    table_step H w ks vs * (i + 1) <= table_block H w ks vs n.
Proof.
  intros H w ks vs n i Hw Hi.
  pose proof (round_up_ge w ks Hw) as Rk. pose proof (round_up_ge w vs Hw) as Rv.
  unfold table_khead, table_kbody, table_vhead, table_vbody, table_block, table_step in *.
  repeat split; nia.
Qed.

(* the four sites of Tree.c that place things behind the key agree, for every key size *)
Lemma tree_sites_agree :
  forall H w ks vs, 0 < w ->
    tree_kbody H w + ks <= tree_site_vhead H w ks /\
    tree_site_vhead H w ks + H = tree_site_vbody H w ks /\
    tree_site_vbody H w ks + vs <= tree_site_block H w ks vs /\
    tree_site_copy_end H w ks vs = tree_site_block H w ks vs.
Proof.
  intros H w ks vs Hw. pose proof (round_up_ge w ks Hw) as R.
  unfold tree_kbody, tree_site_vhead, tree_site_vbody, tree_site_block, tree_site_copy_end, ks_at,
    hdr_tree_alloc_block_kround, hdr_tree_alloc_vhead_kround, hdr_tree_val_kround, hdr_tree_rem_copy_kround.
  repeat split; lia.
Qed.

(* dealloc's poison loop (model: `scribble`): it starts at the header and writes hdr_poison_words H w s words, an
   expression read off the source.  With a header of k whole words that is the k header words plus every whole
   word of the body - the header (type, class, magic) is always covered, and nothing beyond header + body is
   written: (k + s / w) * w <= k * w + s. *)
Lemma poison_covers :
  forall k w s, 0 < w ->
    hdr_poison_words (k * w) w s = k + s / w /\
    hdr_poison_words (k * w) w s * w <= k * w + s.
Proof.
  intros k w s Hw.
  assert (E : hdr_poison_words (k * w) w s = k + s / w).
  { unfold hdr_poison_words. rewrite ?Nat.div_add_l, ?Nat.div_mul by lia. reflexivity. }
  split; [exact E|]. rewrite E.
  pose proof (Nat.mul_div_le s w ltac:(lia)). nia.
Qed.
