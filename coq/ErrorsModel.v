(* ErrorsModel.v — property C12 (a failed operation is reported as an exception and changes nothing).
   MODEL ONLY.
   (1) The contract table of the failed-operation matrix: for every invalid call the harness
       harness/err_matrix.c makes, on which container kinds it applies and which of the documented
       exceptions may report it.  The correspondence check compares the real library against this
       table (and demands an unchanged, still usable object); the faithful container models of
       C02/C04/C16 (and C03/C11) carry the theorems that their raising steps change nothing.
   (2) Guarded operations: the shape "validate every argument, then mutate" that the C code follows
       (CELLO_*_CHECK blocks and casts in front of the first write). *)
From Coq Require Import List String Bool.
From CelloV Require Import TableModel.
Import ListNotations.
Local Open Scope string_scope.

(* kinds: A Array<Int>  L List<Int>  U heap Tuple  T Table<Int,Int>  R Tree<Int,Int>
          K Table<String,String>  S String  G range(0,n)  H range(5,5+n)  J range(0,3n,3)
          V slice(array,0,3n,3)  Z String over a borrowed buffer (alloc class Stack) *)
Definition contract : list (string * string * list cexn) := [
  ("get_len",  "ALUGHJV", [IndexError]);   ("get_neg",  "ALUGHJV", [IndexError]);
  ("get_far",  "ALUGHJV", [IndexError]);   ("get_max",  "ALUGHJV", [IndexError]);  ("get_min", "ALUGHJV", [IndexError]);
  (* indices whose product with the step wraps around in int64 *)
  ("get_wrap", "ALUGHJV", [IndexError]);   ("get_wrap2", "ALUGHJV", [IndexError]);
  ("set_len",  "ALU", [IndexError]);    ("set_neg",  "ALU", [IndexError]);
  ("set_max",  "ALU", [IndexError]);    ("set_min",  "ALU", [IndexError]);
  ("popat_len", "ALU", [IndexError]);   ("popat_neg", "ALU", [IndexError]);
  ("popat_max", "ALU", [IndexError]);   ("popat_min", "ALU", [IndexError]);
  ("pushat_far", "ALU", [IndexError]);  ("pushat_neg", "ALU", [IndexError]);
  ("pushat_max", "ALU", [IndexError]);  ("pushat_min", "ALU", [IndexError]);
  ("pop_empty", "ALU", [IndexError]);
  ("rem_absent", "ALUS", [ValueError]); ("rem_absent", "TRK", [KeyError]);
  ("get_absent", "TRK", [KeyError]);
  (* a key or value of the wrong type: ValueError (cast), TypeError or ClassError (the element type
     cannot take the value) are the documented reports *)
  ("push_wrongtype", "AL", [ClassError; TypeError; ValueError]);
  ("pushat_wrongtype", "AL", [ClassError; TypeError; ValueError]);
  ("set_wrongtype", "AL", [ClassError; TypeError; ValueError]);
  ("concat_wrongtype", "ALS", [ClassError; TypeError; ValueError]);
  ("get_wrongkey", "ALUTRK", [ClassError; TypeError; ValueError]);
  ("mem_wrongkey", "TRK", [ClassError; TypeError; ValueError]);
  ("rem_wrongkey", "TRK", [ClassError; TypeError; ValueError]);
  ("set_wrongkey", "TRK", [ClassError; TypeError; ValueError]);
  ("set_wrongval", "TRK", [ClassError; TypeError; ValueError]);
  ("set_wrongval_new", "TRK", [ClassError; TypeError; ValueError]);
  ("rem_wrongtype", "S", [ClassError; TypeError; ValueError]);
  ("assign_wrongtype", "S", [ClassError; TypeError; ValueError]);
  (* NULL objects *)
  ("get_nullkey", "ALUTRK", [ValueError]); ("push_null", "AL", [ValueError]);
  ("set_nullkey", "TRK", [ValueError]);    ("set_nullval", "TRK", [ValueError]);
  ("assign_null", "S", [ValueError]);      ("len_null", "ALUTRKSG", [ValueError]);
  (* a resize the container cannot honour *)
  ("resize_small", "TRK", [FormatError]);  ("resize_tree", "R", [FormatError]);
  (* unimplemented class or member, cast to another type *)
  ("unimplemented", "ALUTRKSGHJV", [ClassError]); ("sort_list", "L", [ClassError]);
  ("unimplemented_member", "ALUTRKSGHJV", [ClassError]); ("unimplemented_member2", "ALUSGHJV", [ClassError]);
  ("cast_wrong", "ALUTRKSGHJV", [ValueError]);
  (* Z: a String over a borrowed buffer ($S(buf), alloc class Stack): whatever would reallocate or free the buffer *)
  ("stack_resize_shrink", "Z", [ValueError]); ("stack_resize_one", "Z", [ValueError]); ("stack_resize_same", "Z", [ValueError]);
  ("stack_resize_grow", "Z", [ValueError]);   ("stack_resize_zero", "Z", [ValueError]);
  ("stack_concat", "Z", [ValueError]); ("stack_append", "Z", [ValueError]); ("stack_assign", "Z", [ValueError]);
  ("stack_print", "Z", [ValueError]);  ("stack_destruct", "Z", [ValueError]);
  (* too few format arguments *)
  ("print_fewargs", "S", [FormatError]);   ("print_fewargs_dollar", "S", [FormatError])
].

(* ------------------------------------------------------------------ guarded operations *)
Section Guarded.
  Variables S X : Type.
  Record gop := mkG { guards : list (S -> option X); body : S -> S }.

  Fixpoint first_failure (gs : list (S -> option X)) (s : S) : option X :=
    match gs with
    | [] => None
    | g :: r => match g s with Some e => Some e | None => first_failure r s end
    end.

  Definition run_gop (o : gop) (s : S) : S * option X :=
    match first_failure (guards o) s with
    | Some e => (s, Some e)
    | None => (body o s, None)
    end.
End Guarded.
