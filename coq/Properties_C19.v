(* Properties_C19.v — property C19: every object the API hands out carries its true type and
   allocation class; stack, static and container-embedded objects are never freed or reallocated
   (attempts raise ResourceError or ValueError and change nothing); heap objects deleted once are
   released exactly once.  Statements about the model of Header.v, closed by `exact`. *)
From CelloV Require Import Generated Header HeaderProofs.

(* the rules of the C text the model's shape relies on are still the ones the generator recognises *)
Theorem c19_rules_ok : hdr_rules_ok = true.
Proof. exact HeaderProofs.rules_ok. Qed.
Print Assumptions c19_rules_ok.

(* every producer (new, new_raw, new_root, alloc*, copy, $, static and run-time types, element / key /
   value of every container, iterator and view items, range and zip items, Tuple members), every type:
   type_of gives the declared type, the header's class word is the stated class, the magic number is set *)
Theorem c19_true_type_and_class :
  forall ngc p T K V, valid p T K V = true ->
    let o := m_produce (cfg_src ngc) p T K V in
    m_type_of o = spec_type p T K V /\
    aclass_of_code (o_alloc o) = Some (spec_class p) /\
    o_magic o = true.
Proof. exact HeaderProofs.produce_header. Qed.
Print Assumptions c19_true_type_and_class.

Example c19_true_type_nonvacuous :
  valid (PGet CTableV) TInt TString TFloat = true /\
  m_type_of (m_produce (cfg_src false) (PGet CTableV) TInt TString TFloat) = TFloat /\
  spec_class (PGet CTableV) = AData.
Proof. repeat split. Qed.

(* the collector's registry only ever receives heap objects *)
Theorem c19_registered_is_heap :
  forall ngc p T K V, valid p T K V = true ->
    o_reg (m_produce (cfg_src ngc) p T K V) <> RNone -> spec_class p = AHeap.
Proof. exact HeaderProofs.registered_is_heap. Qed.
Print Assumptions c19_registered_is_heap.

(* EVERY history of operations (del, del_raw, del_root, dealloc*, destruct, every reallocating member of
   String and Tuple, collector sweeps) on EVERY non-heap object: each step releases nothing, and each
   attempt raises ResourceError/ValueError leaving the object unchanged — except that del/del_root are only
   shown not to release when the collector is compiled in (finding F7, see c19_f7_refuted) *)
Theorem c19_nonheap_histories :
  forall ngc p T K V ops, valid p T K V = true -> spec_class p <> AHeap ->
    history_meets (cfg_src ngc) p T K V ops (m_produce (cfg_src ngc) p T K V).
Proof. exact HeaderProofs.nonheap_histories. Qed.
Print Assumptions c19_nonheap_histories.

Example c19_nonheap_histories_nonvacuous :
  valid PStack TString TInt TInt = true /\ spec_class PStack <> AHeap /\
  spec_demand PStack TString TInt TInt OpResize = DAttempt true /\
  m_op (cfg_src false) OpResize (m_produce (cfg_src false) PStack TString TInt TInt)
    = (m_produce (cfg_src false) PStack TString TInt TInt, ORaise ValueError, nil).
Proof. repeat split. discriminate. Qed.

(* nothing is weakened without the collector ... *)
Theorem c19_full_demand_without_collector : forall q d, weaken (cfg_src true) q d = d.
Proof. exact HeaderProofs.weaken_ngc. Qed.
Print Assumptions c19_full_demand_without_collector.

(* ... and with it only for del and del_root *)
Theorem c19_full_demand_except_del :
  forall q d, q <> OpDel -> q <> OpDelRoot -> weaken (cfg_src false) q d = d.
Proof. exact HeaderProofs.weaken_gc. Qed.
Print Assumptions c19_full_demand_except_del.

(* plain reading of the safety half: over any history no event passes the block of a non-heap object, or
   the non-heap buffer of a stack String/Tuple, to free or realloc *)
Theorem c19_nonheap_never_released :
  forall ngc p T K V ops, valid p T K V = true -> spec_class p <> AHeap ->
    forall e, List.In e (events (m_run (cfg_src ngc) ops (m_produce (cfg_src ngc) p T K V))) ->
      is_obj_ev e = false /\ (spec_bufnh p T K V = true -> is_buf_ev e = false).
Proof. exact HeaderProofs.nonheap_never_released. Qed.
Print Assumptions c19_nonheap_never_released.

(* finding F7 (open): with the collector compiled in, del of a non-heap object raises nothing *)
Theorem c19_f7_refuted :
  exists p T K V q, valid p T K V = true /\ spec_class p <> AHeap /\
    let o := m_produce (cfg_src false) p T K V in
    ~ meets o (m_op (cfg_src false) q o) (spec_demand p T K V q).
Proof. exact HeaderProofs.f7_refuted. Qed.
Print Assumptions c19_f7_refuted.

(* defect D22 (repaired): with the pre-repair order in del_by the demand fails for del_raw of an embedded String *)
Theorem c19_d22_refuted :
  exists p T K V q, valid p T K V = true /\ spec_class p <> AHeap /\
    let o := m_produce (cfg_d22 false) p T K V in
    ~ meets o (m_op (cfg_d22 false) q o) (spec_demand p T K V q).
Proof. exact HeaderProofs.d22_refuted. Qed.
Print Assumptions c19_d22_refuted.

(* heap objects: a matched deletion (new/del, new_root/del_root, new_raw/del_raw, alloc_raw/dealloc_raw,
   run-time type/del_raw, reclamation by a sweep, or del issued while the collector is stopped and carried out by
   the next sweep) followed by ANY number of further sweeps passes the
   block to free exactly once; roots and raw objects are never released by sweeps *)
Theorem c19_heap_released_exactly_once :
  forall ngc p T K V ops n, valid p T K V = true ->
    matched_total (cfg_src ngc) p ops = Some n ->
    frees (m_run (cfg_src ngc) ops (m_produce (cfg_src ngc) p T K V)) = n.
Proof. exact HeaderProofs.heap_released_exactly_once. Qed.
Print Assumptions c19_heap_released_exactly_once.

Example c19_heap_once_nonvacuous :
  matched_total (cfg_src false) PNew (OpDel :: OpSweep :: OpSweep :: nil) = Some 1 /\
  matched_total (cfg_src false) PNewRoot (OpSweep :: nil) = Some 0 /\
  matched_total (cfg_src false) PNew (OpDelStopped :: OpSweep :: OpSweep :: nil) = Some 1 /\
  frees (m_run (cfg_src false) (OpDel :: OpSweep :: OpSweep :: nil) (m_produce (cfg_src false) PNew TString TInt TInt)) = 1.
Proof. repeat split. Qed.

(* finding F8 (open): alloc(T) + dealloc(x) releases the block once but the registry keeps the entry; the
   next collection works on the released block *)
Theorem c19_f8_alloc_dealloc_stale_entry :
  forall T, kind_of T <> KType ->
    let c := cfg_src false in
    let o1 := fst (fst (m_op c OpDealloc (m_produce c PAlloc T T T))) in
    snd (m_op c OpDealloc (m_produce c PAlloc T T T)) = cons FreeObj nil /\
    o_reg o1 = RAuto /\
    snd (fst (m_op c OpSweep o1)) = ORaise ValueError.
Proof. exact HeaderProofs.alloc_dealloc_stale_entry. Qed.
Print Assumptions c19_f8_alloc_dealloc_stale_entry.

(* size(type) bytes of every object are usable: in each kind of storage the s bytes behind the header lie
   inside the block and end before the next header.  (The shapes of the C size expressions these functions
   mirror are confirmed by the generator: c19_layout_shapes; the bytes themselves are exercised by the
   harness, under AddressSanitizer in the thorough tier.) *)
Theorem c19_layout_shapes : hdr_layout_ok = true.
Proof. exact HeaderProofs.layout_ok. Qed.
Print Assumptions c19_layout_shapes.

Theorem c19_array_elements_fit :
  forall H w s n i, 0 < w -> i < n ->
    array_head H w s i + H = array_body H w s i /\
    array_body H w s i + s <= array_head H w s (i + 1) /\
    array_head H w s (i + 1) <= array_block H w s n /\
    (forall j, i < j -> array_body H w s i + s <= array_head H w s j).
Proof. exact HeaderProofs.array_fits. Qed.
Print Assumptions c19_array_elements_fit.

Theorem c19_table_entries_fit :
  forall H w ks vs n i, 0 < w -> i < n ->
    table_khead H w ks vs i + H = table_kbody H w ks vs i /\
    table_kbody H w ks vs i + ks <= table_vhead H w ks vs i /\
    table_vhead H w ks vs i + H = table_vbody H w ks vs i /\
    table_vbody H w ks vs i + vs <= table_step H w ks vs * (i + 1) /\
    table_step H w ks vs * (i + 1) <= table_block H w ks vs n.
Proof. exact HeaderProofs.table_fits. Qed.
Print Assumptions c19_table_entries_fit.

Theorem c19_list_tree_plain_fit :
  forall H w s ks vs,
    (plain_body H + s <= plain_block H s) /\
    (list_head w + H = list_body H w /\ list_body H w + s <= list_block H w s) /\
    (tree_khead w + H = tree_kbody H w /\ tree_kbody H w + ks <= tree_vhead H w ks /\
     tree_vhead H w ks + H = tree_vbody H w ks /\ tree_vbody H w ks + vs <= tree_block H w ks vs).
Proof. exact (fun H w s ks vs => conj (HeaderProofs.plain_fits H s) (conj (HeaderProofs.list_fits H w s) (HeaderProofs.tree_fits H w ks vs))). Qed.
Print Assumptions c19_list_tree_plain_fit.

Example c19_layout_nonvacuous :
  (* a 12-byte element type in an Array of 3 slots on a 64-bit debug build: H = 24, w = 8 *)
  array_step 24 8 12 = 40 /\ array_body 24 8 12 1 = 64 /\ array_block 24 8 12 3 = 120.
Proof. repeat split. Qed.

(* Tree nodes site by site: for EVERY key size (multiple of sizeof(var) or not) the place where Tree_Alloc writes
   the value's header is the place Tree_Val reads it, the value fits the block Tree_Alloc requested, and Tree_Rem
   copies exactly the node.  Which size expression each of the four sites uses is read off the source. *)
Theorem c19_tree_sites_agree :
  forall H w ks vs, 0 < w ->
    tree_kbody H w + ks <= tree_site_vhead H w ks /\
    tree_site_vhead H w ks + H = tree_site_vbody H w ks /\
    tree_site_vbody H w ks + vs <= tree_site_block H w ks vs /\
    tree_site_copy_end H w ks vs = tree_site_block H w ks vs.
Proof. exact HeaderProofs.tree_sites_agree. Qed.
Print Assumptions c19_tree_sites_agree.

Example c19_tree_sites_rounding_matters :
  (* a 4-byte key on a 64-bit build: a site that rounds and a site that does not are 4 bytes apart *)
  ks_at true 8 4 = 8 /\ ks_at false 8 4 = 4.
Proof. repeat split. Qed.

(* the poison loop of dealloc (what the model calls scribble) covers the whole header and every whole word of
   the body, and writes nothing behind the object; the word count is the expression found in the source *)
Theorem c19_poison_covers_header_and_body :
  forall k w s, 0 < w ->
    hdr_poison_words (k * w) w s = k + Nat.div s w /\
    hdr_poison_words (k * w) w s * w <= k * w + s.
Proof. exact HeaderProofs.poison_covers. Qed.
Print Assumptions c19_poison_covers_header_and_body.
