(* Properties_C19.v — property C19: objects carry their true type and allocation class;
   non-heap objects are never freed.  Only statements closed by `exact`. *)
From CelloV Require Import Generated Header HeaderProofs.

Theorem c19_rules_ok : hdr_rules_ok = true.
Proof. exact HeaderProofs.rules_ok. Qed.
Print Assumptions c19_rules_ok.
