(* Extraction of the ownership model (C05) for the correspondence driver; ExtrOcamlBasic only. *)
From Coq Require Import List Arith NArith ZArith Extraction ExtrOcamlBasic.
From CelloV Require Import Ownership.

Definition z_ltb := Z.ltb.
Definition n_of_nat := N.of_nat.   (* keeps type N in the extracted module: ocaml/conv.ml.inc mentions it *)

Extraction Language OCaml.
Extraction "../ocaml/gen/Ownership.ml" w_init step sstep conts next dead zdead held total_len total_zeros z_ltb n_of_nat.
