(* RobinHood.v — executable model of the open-addressing scheme shared by
   src/Table.c (Table_Set_Move / Table_Mem / Table_Get / Table_Rem / Table_Rehash) and
   src/GC.c (GC_Set_Ptr / GC_Mem_Ptr / GC_Rem_Ptr / GC_Mark_Item / GC_Sweep).

   A slot is None (stored hash word 0) or Some (home, e): the C code stores home+1.
   Loops are structural recursions on fuel; None = fuel exhausted (never happens under
   the invariant: that is the termination claim, proved in RobinHoodProofs.v).
   MODEL ONLY: no proofs in this file, so that it keeps running when a proof breaks. *)
From Coq Require Import List Arith Bool NArith.
Import ListNotations.

Section RH.
  Variables K E : Type.
  Variable keq : K -> K -> bool.
  Variable ekey : E -> K.
  (* displacement test `if (j >= p)` of the insertion loop: swap j p *)
  Variable swap : nat -> nat -> bool.
  (* what is stored when an equal key is met: Table replaces (new), GC keeps (old) *)
  Variable on_eq : E -> E -> E.

  Definition slot := option (nat * E).

  (* Table_Probe / GC_Probe: v = i - (h-1); if (v < 0) v += nslots *)
  Definition dist (n i h : nat) : nat := if h <=? i then i - h else n + i - h.

  Definition nxt (n i : nat) : nat := (S i) mod n.

  Fixpoint upd (i : nat) (x : slot) (l : list slot) : list slot :=
    match l, i with
    | [], _ => []
    | _ :: t, O => x :: t
    | y :: t, S i' => y :: upd i' x t
    end.

  Definition at_ (l : list slot) (i : nat) : slot := nth i l None.

  (* result of an insertion: new slot array, and whether an empty slot was consumed *)
  Fixpoint insert_loop (fuel : nat) (sl : list slot) (i j : nat) (ch : nat) (ce : E)
    : option (list slot * bool) :=
    match fuel with
    | O => None
    | S f =>
      let n := length sl in
      match at_ sl i with
      | None => Some (upd i (Some (ch, ce)) sl, true)
      | Some (h, e) =>
        if keq (ekey e) (ekey ce) then Some (upd i (Some (ch, on_eq e ce)) sl, false)
        else
          let p := dist n i h in
          if swap j p
          then insert_loop f (upd i (Some (ch, ce)) sl) (nxt n i) (S p) h e
          else insert_loop f sl (nxt n i) (S j) ch ce
      end
    end.

  (* fuel: every displacement chain visits each slot at most once under the invariant;
     2n+2 is generous and its adequacy is a theorem *)
  Definition insert (sl : list slot) (home : nat) (e : E) : option (list slot * bool) :=
    insert_loop (2 * length sl + 2) sl home 0 home e.

  (* lookup: index of the slot holding key k *)
  Fixpoint find_loop (fuel : nat) (sl : list slot) (i j : nat) (k : K) : option (option nat) :=
    match fuel with
    | O => None
    | S f =>
      let n := length sl in
      match at_ sl i with
      | None => Some None
      | Some (h, e) =>
        if dist n i h <? j then Some None
        else if keq (ekey e) k then Some (Some i)
        else find_loop f sl (nxt n i) (S j) k
      end
    end.

  Definition find (sl : list slot) (home : nat) (k : K) : option (option nat) :=
    find_loop (length sl + 2) sl home 0 k.

  (* backward shift after emptying slot i *)
  Fixpoint backshift (fuel : nat) (sl : list slot) (i : nat) : option (list slot) :=
    match fuel with
    | O => None
    | S f =>
      let n := length sl in
      let ni := nxt n i in
      match at_ sl ni with
      | Some (h, e) =>
        if 0 <? dist n ni h
        then backshift f (upd ni None (upd i (Some (h, e)) sl)) ni
        else Some sl
      | None => Some sl
      end
    end.

  Definition delete_at (sl : list slot) (i : nat) : option (list slot) :=
    backshift (length sl + 2) (upd i None sl) i.

  (* re-insert every entry of [old] (slot order) into [acc] with homes recomputed *)
  Variable home_of : K -> nat -> nat.   (* hash k mod n *)

  Fixpoint reinsert (old : list slot) (acc : list slot) : option (list slot) :=
    match old with
    | [] => Some acc
    | None :: t => reinsert t acc
    | Some (_, e) :: t =>
      match insert acc (home_of (ekey e) (length acc)) e with
      | Some (acc', _) => reinsert t acc'
      | None => None
      end
    end.

  Definition rehash (sl : list slot) (n : nat) : option (list slot) :=
    reinsert sl (repeat None n).

  Definition entries (sl : list slot) : list E :=
    flat_map (fun s => match s with Some (_, e) => [e] | None => [] end) sl.

  Definition occupied (sl : list slot) : nat := length (entries sl).
End RH.

Arguments dist n i h : simpl never.
Arguments nxt n i : simpl never.

(* Table_Ideal_Size / GC_Ideal_Size:
     size = (size_t)((double)(size+1) / 0.9); first prime >= size; else multiples of the last.
   Computed in N (the prime table goes up to 8.8e6).  The double division is modelled as
   floor((n+1)*den/num); this is validated differentially against the C static function
   (DESIGN section 9: modelled, not verified). *)
Section Ideal.
  Local Open Scope N_scope.
  Variable primes : list N.
  Variables num den : N.     (* load factor = num/den = 9/10 *)

  Fixpoint first_ge (l : list N) (x : N) : option N :=
    match l with
    | [] => None
    | p :: t => if x <=? p then Some p else first_ge t x
    end.

  (* for (i = 0;; i++) if (last * i >= size) return last * i;  closed form: ceil(x/last)*last *)
  Definition mult_ge (last x : N) : N :=
    if last =? 0 then 0 else ((x + last - 1) / last) * last.

  Definition ideal_size_N (n : N) : N :=
    let x := ((n + 1) * den) / num in
    match first_ge primes x with
    | Some p => p
    | None => mult_ge (List.last primes 0) x
    end.

  Definition ideal_size (n : nat) : nat := N.to_nat (ideal_size_N (N.of_nat n)).
End Ideal.
