(* GCGlue.v — ties the mark/sweep development of C01 (abstract registry: finite map of registered
   addresses with root flags, mark set) to the concrete slot-array registry of C17
   (RegistryModel.v / RegistryProofs.v, worker gcreg).

   1. abstraction: areg (registered addresses -> root flag), aorder (addresses in slot order),
      Marked (which addresses carry a mark bit) of a C17 registry state g
   2. a CONCRETE mark phase cmark over the C17 state: GC_Mark_Item = RegistryModel.mark_item
      (prefilter + probe loop + mark bit), the registered test of GC_Mark_And_Recurse =
      RegistryModel.gc_mem (probe-loop lookup), the root loop over slot indices, GC_Recurse
      by heap contents as in MarkSweep.v
   3. forward simulation: cmark on g and MarkSweep.mark on (areg g, aorder g) run in lock step
   4. composition with the theorems of C01 (mark_complete, mark_fuel_adequate) and of C17
      (sweep_loop_exact, sweep_total, registry_history) *)
From Coq Require Import List Arith NArith PArith Bool FMapPositive Lia.
From CelloV Require Import Generated RobinHood RobinHoodProofs RegistryModel RegistryProofs.
From CelloV Require Import HeapGraph MarkSweep MarkSweepProofs.
Import ListNotations.

Local Notation at_ := (at_ gentry).
Local Notation upd := (upd gentry).
Local Notation Holds := (Holds gentry).
Local Notation entries := (entries gentry).
Local Notation emarked := RegistryModel.marked.
Local Notation esetmark := RegistryModel.setmark.

(* ------------------------------------------------------------------ 1. abstraction *)
Definition areg (sl : list gslot) : registry :=
  fold_right (fun e r => nset (ptr e) (root e) r) nempty (entries sl).
Definition aorder (sl : list gslot) : list word := map ptr (entries sl).
Definition Marked (sl : list gslot) (q : word) : Prop :=
  exists e, Holds sl e /\ ptr e = q /\ emarked e = true.
(* boolean observation used by the concrete mark phase *)
Definition cmarked (sl : list gslot) (q : word) : bool :=
  existsb (fun e => N.eqb (ptr e) q && emarked e) (entries sl).

(* what C17 does not provide: the allocator never returns NULL and returns word-aligned blocks *)
Definition addr_ok (sl : list gslot) : Prop :=
  forall e, Holds sl e -> ptr e <> 0%N /\ (ptr e mod 8 = 0)%N.

Lemma cmarked_spec sl q : cmarked sl q = true <-> Marked sl q.
Proof.
  unfold cmarked, Marked. rewrite existsb_exists. split.
  - intros [e [He Hb]]. apply andb_true_iff in Hb. destruct Hb as [H1 H2]. apply N.eqb_eq in H1.
    exists e. split; [apply in_entries; exact He|auto].
  - intros [e [He [H1 H2]]]. exists e. split; [apply in_entries; exact He|].
    rewrite H1, N.eqb_refl, H2. reflexivity.
Qed.

Lemma areg_get_list (es : list gentry) q :
  (forall e, In e es -> ptr e <> 0%N) -> NoDup (map ptr es) ->
  forall s, nget q (fold_right (fun e r => nset (ptr e) (root e) r) nempty es) = Some s <->
            exists e, In e es /\ ptr e = q /\ root e = s.
Proof.
  induction es as [|a es IH]; intros Hnz Hnd s; simpl.
  - rewrite nget_nempty. split; [discriminate|intros [e [[] _]]].
  - inversion Hnd as [|? ? Hnin Hnd']; subst.
    destruct (N.eq_dec q (ptr a)) as [->|Hne].
    + rewrite nget_nset_same by (apply Hnz; simpl; auto). split.
      * intros H. injection H as <-. exists a. auto.
      * intros [e [[<-|He] [Hp Hr]]]; [congruence|].
        exfalso. apply Hnin. rewrite <- Hp. apply in_map. exact He.
    + rewrite nget_nset_other by assumption. rewrite IH; auto.
      * split; intros [e [He [Hp Hr]]]; exists e.
        -- auto.
        -- destruct He as [<-|He]; [congruence|auto].
      * intros e He. apply Hnz. simpl. auto.
Qed.

Section Glue.
  Variable hashf : N -> N.
  Local Notation Core := (Core hashf).
  Local Notation InvM := (InvM hashf).

  Lemma areg_spec sl q s : Core sl -> addr_ok sl -> (nget q (areg sl) = Some s <-> Regs sl q s).
  Proof.
    intros Hc Ha. unfold areg, Regs. rewrite areg_get_list.
    - split; intros [e [He H]]; exists e; (split; [apply in_entries; exact He|exact H]).
    - intros e He. apply Ha. apply in_entries. exact He.
    - destruct Hc as [_ [_ Huq]]. apply (UQ_NoDup N gentry ptr). exact Huq.
  Qed.

  Lemma registered_areg sl q : Core sl -> addr_ok sl ->
    (registered (areg sl) q = true <-> exists s, Regs sl q s).
  Proof.
    intros Hc Ha. unfold registered. destruct (nget q (areg sl)) as [s|] eqn:E.
    - split; [|reflexivity]. intros _. exists s. apply (areg_spec sl q s Hc Ha). exact E.
    - split; [discriminate|]. intros [s Hs]. apply (areg_spec sl q s Hc Ha) in Hs. congruence.
  Qed.

  Lemma is_root_areg sl e : Core sl -> addr_ok sl -> Holds sl e -> is_root (areg sl) (ptr e) = root e.
  Proof.
    intros Hc Ha He. unfold is_root.
    assert (H : nget (ptr e) (areg sl) = Some (root e)) by (apply areg_spec; auto; exists e; auto).
    rewrite H. reflexivity.
  Qed.

  (* order_ok is discharged: slot order, no duplicates, same members *)
  Lemma aorder_ok sl : Core sl -> addr_ok sl -> order_ok (areg sl) (aorder sl).
  Proof.
    intros Hc Ha. split.
    - destruct Hc as [_ [_ Huq]]. apply (UQ_NoDup N gentry ptr). exact Huq.
    - intros p. unfold aorder. rewrite in_map_iff, registered_areg by assumption. split.
      + intros [e [Hp He]]. exists (root e), e. split; [apply in_entries; exact He|auto].
      + intros [s [e [He [Hp _]]]]. exists e. split; [exact Hp|apply in_entries; exact He].
  Qed.

  (* range_ok: the window part is C17's bounds invariant, the alignment part is the allocator's *)
  Lemma arange_ok g : InvM g -> addr_ok (slots g) -> range_ok (areg (slots g)) (minptr g) (maxptr g).
  Proof.
    intros H Ha p Hp. apply registered_areg in Hp; [|apply (inv_core hashf g H)|exact Ha].
    destruct Hp as [s [e [He [Hpe _]]]]. subst p.
    destruct (Ha e He) as [_ Hal]. pose proof (inv_bounds hashf g H e He). lia.
  Qed.

  (* lookup = exact membership: GC_Mem_Ptr's probe loop answers by the abstract registry *)
  Lemma gc_mem_areg g p : InvM g -> addr_ok (slots g) ->
    gc_mem hashf g p = Some (registered (areg (slots g)) p).
  Proof.
    intros H Ha. destruct (gc_mem_ok hashf g p H) as [b [Hb Hiff]]. rewrite Hb. f_equal.
    pose proof (registered_areg (slots g) p (inv_core hashf g H) Ha) as Hr.
    destruct b, (registered (areg (slots g)) p); try reflexivity.
    - assert (false = true); [apply Hr; apply Hiff; reflexivity|discriminate].
    - assert (false = true); [apply Hiff; apply Hr; reflexivity|discriminate].
  Qed.

  (* ---------------------------------------------------------------- 2. the concrete mark phase *)
  Variable h : heap.

  (* GC_Recurse(ptr) *)
  Definition cdescend (rec : contents -> gc -> outcome gc) (p : word) (g : gc) : outcome gc :=
    match nget p h with Some c => rec c g | None => Crash end.

  (* GC_Mark_Item on the C17 registry: prefilter, probe loop, mark bit (RegistryModel.mark_item);
     the object is traced exactly when the probe loop set a mark bit *)
  Definition cmark_item (rec : contents -> gc -> outcome gc) (w : word) (g : gc) : outcome gc :=
    match RegistryModel.mark_item hashf g w with
    | None => OutOfFuel
    | Some None => Crash
    | Some (Some g') =>
      if negb (cmarked (slots g) w) && cmarked (slots g') w then cdescend rec w g' else Ok g'
    end.

  (* GC_Mark_And_Recurse (repaired): GC_Mem_Ptr's probe loop decides *)
  Definition cmark_and_recurse (rec : contents -> gc -> outcome gc) (p : word) (g : gc) : outcome gc :=
    match gc_mem hashf g p with
    | None => OutOfFuel
    | Some true => cmark_item rec p g
    | Some false => cdescend rec p g
    end.

  Fixpoint ctrace_with (rec : contents -> gc -> outcome gc) (c : contents) (g : gc) {struct c} : outcome gc :=
    match c with
    | Words ws => fold_o (cmark_item rec) ws g
    | Elems es => fold_o (ctrace_with rec) es g
    | Items ps => fold_o (cmark_and_recurse rec) ps g
    | NoPtr => Ok g
    end.

  (* body of the root loop of GC_Mark for slot i *)
  Definition croot_step (rec : contents -> gc -> outcome gc) (i : nat) (g : gc) : outcome gc :=
    match at_ (slots g) i with
    | Some (hh, e) =>
      if root e && negb (emarked e)
      then cdescend rec (ptr e) (set_slots g (upd i (Some (hh, esetmark e)) (slots g)))
      else Ok g
    | None => Ok g
    end.

  Fixpoint ctrace (fuel : nat) : contents -> gc -> outcome gc :=
    match fuel with
    | 0 => fun _ _ => OutOfFuel
    | S f => ctrace_with (ctrace f)
    end.

  (* GC_Mark on the C17 registry *)
  Definition cmark (fuel : nat) (tls : list contents) (stack : list word) (g : gc) : outcome gc :=
    if nitems g =? 0 then Ok g else
    let rec := ctrace fuel in
    bind (fold_o (ctrace_with rec) tls g) (fun g1 =>
    bind (fold_o (croot_step rec) (seq 0 (nslots g)) g1) (fun g2 =>
    fold_o (cmark_item rec) stack g2)).

  (* ---------------------------------------------------------------- 3. simulation *)
  Lemma Marked_upd (l : list gslot) k hh e : at_ l k = Some (hh, e) ->
    forall q, Marked (upd k (Some (hh, esetmark e)) l) q <-> Marked l q \/ q = ptr e.
  Proof.
    intros Hat q. pose proof (at_some_lt _ _ _ _ Hat) as Hk.
    assert (Hnew : Holds (upd k (Some (hh, esetmark e)) l) (esetmark e))
      by (exists k, hh; apply at_upd_eq; assumption).
    split.
    - intros [x [Hx [Hp Hm]]].
      destruct (proj1 (Holds_upd_some gentry l k hh e hh (esetmark e) x Hat) (or_introl Hx)) as [H|H].
      + left. exists x. auto.
      + right. subst x. simpl in Hp. congruence.
    - intros [[x [Hx [Hp Hm]]]|Hq].
      + destruct (proj2 (Holds_upd_some gentry l k hh e hh (esetmark e) x Hat) (or_introl Hx)) as [H|H].
        * exists x. auto.
        * subst x. exists (esetmark e). split; [exact Hnew|]. split; [exact Hp|reflexivity].
      + exists (esetmark e). split; [exact Hnew|]. split; [symmetry; exact Hq|reflexivity].
  Qed.

  Lemma filter_prefilter lo hi p :
    (negb (p mod 8 =? 0)%N || (p <? lo)%N || (hi <? p)%N) = negb (prefilter lo hi p).
  Proof.
    unfold prefilter. rewrite !N.ltb_antisym.
    destruct (p mod 8 =? 0)%N, (lo <=? p)%N, (p <=? hi)%N; reflexivity.
  Qed.

  Lemma addr_ok_PW l l' : PW l l' -> addr_ok l -> addr_ok l'.
  Proof.
    intros Hpw Ha e He. destruct (PW_holds _ _ _ Hpw He) as [x [Hx [Hp _]]]. rewrite <- Hp. apply Ha. exact Hx.
  Qed.

  (* GC_Mark_Item of C17, precisely: total, only mark bits change, and the set of marked addresses
     grows by w exactly when w passes the prefilter and is registered *)
  Lemma mark_item_exact g w : InvM g -> nslots g <> 0 -> addr_ok (slots g) ->
    exists g', RegistryModel.mark_item hashf g w = Some (Some g') /\ PW (slots g) (slots g') /\ same_rest g g' /\
      forall q, Marked (slots g') q <->
                Marked (slots g) q \/
                (q = w /\ prefilter (minptr g) (maxptr g) w = true /\ registered (areg (slots g)) w = true).
  Proof.
    intros H Hnz Ha. pose proof (inv_core hashf g H) as Hc.
    destruct (RegistryProofs.mark_item_ok hashf g w Hc Hnz) as [g' [Hmi [Hpw Hsr]]].
    exists g'. split; [exact Hmi|]. split; [exact Hpw|]. split; [exact Hsr|].
    unfold RegistryModel.mark_item in Hmi. rewrite filter_prefilter in Hmi.
    destruct (prefilter (minptr g) (maxptr g) w) eqn:Hpf; cbn [negb] in Hmi.
    - destruct (Nat.eqb_spec (nslots g) 0) as [|_]; [contradiction|].
      destruct (mark_loop (nslots g + 2) (slots g) (home hashf w (nslots g)) 0 w) as [l'|] eqn:Hl; [|discriminate].
      injection Hmi as <-. cbn [slots set_slots].
      destruct (registered (areg (slots g)) w) eqn:Hreg.
      + (* registered: C17 says it ends up marked *)
        apply (registered_areg (slots g) w Hc Ha) in Hreg. destruct Hreg as [s Hs].
        assert (Hal : (w mod 8 = 0)%N).
        { destruct Hs as [e [He [Hp _]]]. subst w. apply Ha. exact He. }
        destruct (mark_item_marks_thm hashf g w s H Hs Hal) as [g2 [Hmi2 [_ [e' [He' [Hp' [_ Hm']]]]]]].
        unfold RegistryModel.mark_item in Hmi2. rewrite filter_prefilter, Hpf in Hmi2. cbn [negb] in Hmi2.
        destruct (Nat.eqb_spec (nslots g) 0) as [|_]; [contradiction|]. rewrite Hl in Hmi2.
        injection Hmi2 as <-. cbn [slots set_slots] in He'.
        destruct (mark_loop_shape w _ _ _ _ _ Hl) as [->|[k [hh [e [Hk [Hpe ->]]]]]].
        * intros q. split; [auto|]. intros [Hq|[-> _]]; [exact Hq|]. exists e'. auto.
        * intros q. rewrite (Marked_upd (slots g) k hh e Hk q). rewrite Hpe. intuition.
      + (* not registered: the probe loop changes nothing *)
        destruct (mark_loop_shape w _ _ _ _ _ Hl) as [->|[k [hh [e [Hk [Hpe _]]]]]].
        * intros q. split; [auto|]. intros [Hq|[_ [_ F]]]; [exact Hq|discriminate].
        * exfalso. assert (Hr : registered (areg (slots g)) w = true); [|congruence].
          apply (registered_areg (slots g) w Hc Ha). exists (root e), e. split; [exists k, hh; exact Hk|auto].
    - injection Hmi as <-. intros q. split; [auto|]. intros [Hq|[_ [F _]]]; [exact Hq|discriminate].
  Qed.
End Glue.
