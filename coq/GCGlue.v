(* GCGlue.v — ties the mark/sweep development of C01 (abstract registry: finite map of registered
   addresses with root flags, mark set) to the concrete slot-array registry of C17
   (RegistryModel.v / RegistryProofs.v, worker gcreg).

   1. abstraction: areg (registered addresses -> root flag), aorder (addresses in slot order),
      Marked (which addresses carry a mark bit) of a C17 registry state g
   2. a CONCRETE mark phase cmark over the C17 state: GC_Mark_Item = RegistryModel.mark_item
      (prefilter + probe loop + mark bit), the registered test of GC_Mark_And_Recurse =
      RegistryModel.gc_mem (probe-loop lookup), the root loop over slot indices, GC_Recurse
      by heap contents as in MarkSweep.v
   3. forward simulation: cmark on g and MarkSweep.mark on (areg g, aorder g) run in lock step
   4. composition with the theorems of C01 (mark_complete, mark_fuel_adequate) and of C17
      (sweep_loop_exact, sweep_total, registry_history) *)
From Coq Require Import List Arith NArith PArith Bool FMapPositive Lia.
From CelloV Require Import Generated RobinHood RobinHoodProofs RegistryModel RegistryProofs.
From CelloV Require Import HeapGraph MarkSweep MarkSweepProofs.
Import ListNotations.

Local Notation at_ := (at_ gentry).
Local Notation upd := (upd gentry).
Local Notation Holds := (Holds gentry).
Local Notation entries := (entries gentry).
Local Notation emarked := RegistryModel.marked.
Local Notation esetmark := RegistryModel.setmark.

(* ------------------------------------------------------------------ 1. abstraction *)
Definition areg (sl : list gslot) : registry :=
  fold_right (fun e r => nset (ptr e) (root e) r) nempty (entries sl).
Definition aorder (sl : list gslot) : list word := map ptr (entries sl).
Definition Marked (sl : list gslot) (q : word) : Prop :=
  exists e, Holds sl e /\ ptr e = q /\ emarked e = true.
(* boolean observation used by the concrete mark phase *)
Definition cmarked (sl : list gslot) (q : word) : bool :=
  existsb (fun e => N.eqb (ptr e) q && emarked e) (entries sl).

(* what C17 does not provide: the allocator never returns NULL and returns word-aligned blocks *)
Definition addr_ok (sl : list gslot) : Prop :=
  forall e, Holds sl e -> ptr e <> 0%N /\ (ptr e mod 8 = 0)%N.

Lemma cmarked_spec sl q : cmarked sl q = true <-> Marked sl q.
Proof.
  unfold cmarked, Marked. rewrite existsb_exists. split.
  - intros [e [He Hb]]. apply andb_true_iff in Hb. destruct Hb as [H1 H2]. apply N.eqb_eq in H1.
    exists e. split; [apply in_entries; exact He|auto].
  - intros [e [He [H1 H2]]]. exists e. split; [apply in_entries; exact He|].
    rewrite H1, N.eqb_refl, H2. reflexivity.
Qed.

Lemma areg_get_list (es : list gentry) q :
  (forall e, In e es -> ptr e <> 0%N) -> NoDup (map ptr es) ->
  forall s, nget q (fold_right (fun e r => nset (ptr e) (root e) r) nempty es) = Some s <->
            exists e, In e es /\ ptr e = q /\ root e = s.
Proof.
  induction es as [|a es IH]; intros Hnz Hnd s; simpl.
  - rewrite nget_nempty. split; [discriminate|intros [e [[] _]]].
  - inversion Hnd as [|? ? Hnin Hnd']; subst.
    destruct (N.eq_dec q (ptr a)) as [->|Hne].
    + rewrite nget_nset_same by (apply Hnz; simpl; auto). split.
      * intros H. injection H as <-. exists a. auto.
      * intros [e [[<-|He] [Hp Hr]]]; [congruence|].
        exfalso. apply Hnin. rewrite <- Hp. apply in_map. exact He.
    + rewrite nget_nset_other by assumption. rewrite IH; auto.
      * split; intros [e [He [Hp Hr]]]; exists e.
        -- auto.
        -- destruct He as [<-|He]; [congruence|auto].
      * intros e He. apply Hnz. simpl. auto.
Qed.

Section Glue.
  Variable hashf : N -> N.
  Local Notation Core := (Core hashf).
  Local Notation InvM := (InvM hashf).

  Lemma areg_spec sl q s : Core sl -> addr_ok sl -> (nget q (areg sl) = Some s <-> Regs sl q s).
  Proof.
    intros Hc Ha. unfold areg, Regs. rewrite areg_get_list.
    - split; intros [e [He H]]; exists e; (split; [apply in_entries; exact He|exact H]).
    - intros e He. apply Ha. apply in_entries. exact He.
    - destruct Hc as [_ [_ Huq]]. apply (UQ_NoDup N gentry ptr). exact Huq.
  Qed.

  Lemma registered_areg sl q : Core sl -> addr_ok sl ->
    (registered (areg sl) q = true <-> exists s, Regs sl q s).
  Proof.
    intros Hc Ha. unfold registered. destruct (nget q (areg sl)) as [s|] eqn:E.
    - split; [|reflexivity]. intros _. exists s. apply (areg_spec sl q s Hc Ha). exact E.
    - split; [discriminate|]. intros [s Hs]. apply (areg_spec sl q s Hc Ha) in Hs. congruence.
  Qed.

  Lemma is_root_areg sl e : Core sl -> addr_ok sl -> Holds sl e -> is_root (areg sl) (ptr e) = root e.
  Proof.
    intros Hc Ha He. unfold is_root.
    assert (H : nget (ptr e) (areg sl) = Some (root e)) by (apply areg_spec; auto; exists e; auto).
    rewrite H. reflexivity.
  Qed.

  (* order_ok is discharged: slot order, no duplicates, same members *)
  Lemma aorder_ok sl : Core sl -> addr_ok sl -> order_ok (areg sl) (aorder sl).
  Proof.
    intros Hc Ha. split.
    - destruct Hc as [_ [_ Huq]]. apply (UQ_NoDup N gentry ptr). exact Huq.
    - intros p. unfold aorder. rewrite in_map_iff, registered_areg by assumption. split.
      + intros [e [Hp He]]. exists (root e), e. split; [apply in_entries; exact He|auto].
      + intros [s [e [He [Hp _]]]]. exists e. split; [exact Hp|apply in_entries; exact He].
  Qed.

  (* range_ok: the window part is C17's bounds invariant, the alignment part is the allocator's *)
  Lemma arange_ok g : InvM g -> addr_ok (slots g) -> range_ok (areg (slots g)) (minptr g) (maxptr g).
  Proof.
    intros H Ha p Hp. apply registered_areg in Hp; [|apply (inv_core hashf g H)|exact Ha].
    destruct Hp as [s [e [He [Hpe _]]]]. subst p.
    destruct (Ha e He) as [_ Hal]. pose proof (inv_bounds hashf g H e He). lia.
  Qed.

  (* lookup = exact membership: GC_Mem_Ptr's probe loop answers by the abstract registry *)
  Lemma gc_mem_areg g p : InvM g -> addr_ok (slots g) ->
    gc_mem hashf g p = Some (registered (areg (slots g)) p).
  Proof.
    intros H Ha. destruct (gc_mem_ok hashf g p H) as [b [Hb Hiff]]. rewrite Hb. f_equal.
    pose proof (registered_areg (slots g) p (inv_core hashf g H) Ha) as Hr.
    destruct b, (registered (areg (slots g)) p); try reflexivity.
    - assert (false = true); [apply Hr; apply Hiff; reflexivity|discriminate].
    - assert (false = true); [apply Hiff; apply Hr; reflexivity|discriminate].
  Qed.

  (* ---------------------------------------------------------------- 2. the concrete mark phase *)
  Variable h : heap.

  (* GC_Recurse(ptr) *)
  Definition cdescend (rec : contents -> gc -> outcome gc) (p : word) (g : gc) : outcome gc :=
    match nget p h with Some c => rec c g | None => Crash end.

  (* GC_Mark_Item on the C17 registry: prefilter, probe loop, mark bit (RegistryModel.mark_item);
     the object is traced exactly when the probe loop set a mark bit *)
  Definition cmark_item (rec : contents -> gc -> outcome gc) (w : word) (g : gc) : outcome gc :=
    match RegistryModel.mark_item hashf g w with
    | None => OutOfFuel
    | Some None => Crash
    | Some (Some g') =>
      if negb (cmarked (slots g) w) && cmarked (slots g') w then cdescend rec w g' else Ok g'
    end.

  (* GC_Mark_And_Recurse (repaired): GC_Mem_Ptr's probe loop decides *)
  Definition cmark_and_recurse (rec : contents -> gc -> outcome gc) (p : word) (g : gc) : outcome gc :=
    match gc_mem hashf g p with
    | None => OutOfFuel
    | Some true => cmark_item rec p g
    | Some false => cdescend rec p g
    end.

  Fixpoint ctrace_with (rec : contents -> gc -> outcome gc) (c : contents) (g : gc) {struct c} : outcome gc :=
    match c with
    | Words ws => fold_o (cmark_item rec) ws g
    | Elems es => fold_o (ctrace_with rec) es g
    | Items ps => fold_o (cmark_and_recurse rec) ps g
    | NoPtr => Ok g
    end.

  (* body of the root loop of GC_Mark for slot i *)
  Definition croot_step (rec : contents -> gc -> outcome gc) (i : nat) (g : gc) : outcome gc :=
    match at_ (slots g) i with
    | Some (hh, e) =>
      if root e && negb (emarked e)
      then cdescend rec (ptr e) (set_slots g (upd i (Some (hh, esetmark e)) (slots g)))
      else Ok g
    | None => Ok g
    end.

  Fixpoint ctrace (fuel : nat) : contents -> gc -> outcome gc :=
    match fuel with
    | 0 => fun _ _ => OutOfFuel
    | S f => ctrace_with (ctrace f)
    end.

  (* GC_Mark on the C17 registry *)
  Definition cmark (fuel : nat) (tls : list contents) (stack : list word) (g : gc) : outcome gc :=
    if nitems g =? 0 then Ok g else
    let rec := ctrace fuel in
    bind (fold_o (ctrace_with rec) tls g) (fun g1 =>
    bind (fold_o (croot_step rec) (seq 0 (nslots g)) g1) (fun g2 =>
    fold_o (cmark_item rec) stack g2)).

  (* ---------------------------------------------------------------- 3. simulation *)
  Lemma Marked_upd (l : list gslot) k hh e : at_ l k = Some (hh, e) ->
    forall q, Marked (upd k (Some (hh, esetmark e)) l) q <-> Marked l q \/ q = ptr e.
  Proof.
    intros Hat q. pose proof (at_some_lt _ _ _ _ Hat) as Hk.
    assert (Hnew : Holds (upd k (Some (hh, esetmark e)) l) (esetmark e))
      by (exists k, hh; apply at_upd_eq; assumption).
    split.
    - intros [x [Hx [Hp Hm]]].
      destruct (proj1 (Holds_upd_some gentry l k hh e hh (esetmark e) x Hat) (or_introl Hx)) as [H|H].
      + left. exists x. auto.
      + right. subst x. simpl in Hp. congruence.
    - intros [[x [Hx [Hp Hm]]]|Hq].
      + destruct (proj2 (Holds_upd_some gentry l k hh e hh (esetmark e) x Hat) (or_introl Hx)) as [H|H].
        * exists x. auto.
        * subst x. exists (esetmark e). split; [exact Hnew|]. split; [exact Hp|reflexivity].
      + exists (esetmark e). split; [exact Hnew|]. split; [symmetry; exact Hq|reflexivity].
  Qed.

  Lemma filter_prefilter lo hi p :
    (negb (p mod 8 =? 0)%N || (p <? lo)%N || (hi <? p)%N) = negb (prefilter lo hi p).
  Proof.
    unfold prefilter. rewrite !N.ltb_antisym.
    destruct (p mod 8 =? 0)%N, (lo <=? p)%N, (p <=? hi)%N; reflexivity.
  Qed.

  Lemma addr_ok_PW l l' : PW l l' -> addr_ok l -> addr_ok l'.
  Proof.
    intros Hpw Ha e He. destruct (PW_holds _ _ _ Hpw He) as [x [Hx [Hp _]]]. rewrite <- Hp. apply Ha. exact Hx.
  Qed.

  (* GC_Mark_Item of C17, precisely: total, only mark bits change, and the set of marked addresses
     grows by w exactly when w passes the prefilter and is registered *)
  Lemma mark_item_exact g w : InvM g -> nslots g <> 0 -> addr_ok (slots g) ->
    exists g', RegistryModel.mark_item hashf g w = Some (Some g') /\ PW (slots g) (slots g') /\ same_rest g g' /\
      forall q, Marked (slots g') q <->
                Marked (slots g) q \/
                (q = w /\ prefilter (minptr g) (maxptr g) w = true /\ registered (areg (slots g)) w = true).
  Proof.
    intros H Hnz Ha. pose proof (inv_core hashf g H) as Hc.
    destruct (RegistryProofs.mark_item_ok hashf g w Hc Hnz) as [g' [Hmi [Hpw Hsr]]].
    exists g'. split; [exact Hmi|]. split; [exact Hpw|]. split; [exact Hsr|].
    unfold RegistryModel.mark_item in Hmi. rewrite filter_prefilter in Hmi.
    destruct (prefilter (minptr g) (maxptr g) w) eqn:Hpf; cbn [negb] in Hmi.
    - destruct (Nat.eqb_spec (nslots g) 0) as [|_]; [contradiction|].
      destruct (mark_loop (nslots g + 2) (slots g) (home hashf w (nslots g)) 0 w) as [l'|] eqn:Hl; [|discriminate].
      injection Hmi as <-. cbn [slots set_slots].
      destruct (registered (areg (slots g)) w) eqn:Hreg.
      + (* registered: C17 says it ends up marked *)
        apply (registered_areg (slots g) w Hc Ha) in Hreg. destruct Hreg as [s Hs].
        assert (Hal : (w mod 8 = 0)%N).
        { destruct Hs as [e [He [Hp _]]]. subst w. apply Ha. exact He. }
        destruct (mark_item_marks_thm hashf g w s H Hs Hal) as [g2 [Hmi2 [_ [e' [He' [Hp' [_ Hm']]]]]]].
        unfold RegistryModel.mark_item in Hmi2. rewrite filter_prefilter, Hpf in Hmi2. cbn [negb] in Hmi2.
        destruct (Nat.eqb_spec (nslots g) 0) as [|_]; [contradiction|]. rewrite Hl in Hmi2.
        injection Hmi2 as <-. cbn [slots set_slots] in He'.
        destruct (mark_loop_shape w _ _ _ _ _ Hl) as [->|[k [hh [e [Hk [Hpe ->]]]]]].
        * intros q. split; [auto|]. intros [Hq|[-> _]]; [exact Hq|]. exists e'. auto.
        * intros q. rewrite (Marked_upd (slots g) k hh e Hk q). rewrite Hpe. intuition.
      + (* not registered: the probe loop changes nothing *)
        destruct (mark_loop_shape w _ _ _ _ _ Hl) as [->|[k [hh [e [Hk [Hpe _]]]]]].
        * intros q. split; [auto|]. intros [Hq|[_ [_ F]]]; [exact Hq|discriminate].
        * exfalso. assert (Hr : registered (areg (slots g)) w = true); [|congruence].
          apply (registered_areg (slots g) w Hc Ha). exists (root e), e. split; [exists k, hh; exact Hk|auto].
    - injection Hmi as <-. intros q. split; [auto|]. intros [Hq|[_ [F _]]]; [exact Hq|discriminate].
  Qed.
  Lemma registered_areg_PW l l' q : PW l l' -> Core l -> addr_ok l ->
    registered (areg l') q = registered (areg l) q.
  Proof.
    intros Hpw Hc Ha.
    pose proof (registered_areg l q Hc Ha) as H1.
    pose proof (registered_areg l' q (Core_PW hashf _ _ Hpw Hc) (addr_ok_PW _ _ Hpw Ha)) as H2.
    assert (Hiff : registered (areg l') q = true <-> registered (areg l) q = true).
    { rewrite H1, H2. split; intros [s Hs]; exists s; apply (PW_regs _ _ q s Hpw); exact Hs. }
    destruct (registered (areg l') q), (registered (areg l) q); try reflexivity.
    - symmetry. apply Hiff. reflexivity.
    - apply Hiff. reflexivity.
  Qed.

  Section Sim.
    Variable sl0 : list gslot.            (* the slot array when the collection starts *)
    Hypothesis Hc0 : Core sl0.
    Hypothesis Ha0 : addr_ok sl0.
    Variables lo hi : N.                  (* gc->minptr, gc->maxptr: constant during a mark phase *)
    Let rg := areg sl0.

    Record Sim (g : gc) (m : marks) : Prop := mkSim {
      sim_inv : InvM g;
      sim_pw : PW sl0 (slots g);
      sim_nz : nslots g <> 0;
      sim_lo : minptr g = lo;
      sim_hi : maxptr g = hi;
      sim_quiet : Quiet g;
      sim_marks : forall q, Marked (slots g) q <-> marked m q = true
    }.

    Definition osim (oc : outcome gc) (oa : outcome marks) : Prop :=
      match oc, oa with
      | Ok g', Ok m' => Sim g' m'
      | Crash, Crash => True
      | OutOfFuel, OutOfFuel => True
      | _, _ => False
      end.

    Definition rec_sim (crec : contents -> gc -> outcome gc) (arec : contents -> marks -> outcome marks) : Prop :=
      forall c g m, Sim g m -> osim (crec c g) (arec c m).

    Lemma Sim_addr_ok g m : Sim g m -> addr_ok (slots g).
    Proof. intros S. eapply addr_ok_PW; [apply (sim_pw g m S)|exact Ha0]. Qed.

    Lemma Sim_registered g m q : Sim g m -> registered (areg (slots g)) q = registered rg q.
    Proof. intros S. apply registered_areg_PW; [apply (sim_pw g m S)|exact Hc0|exact Ha0]. Qed.

    Lemma bind_sim oc oa (fc : gc -> outcome gc) (fa : marks -> outcome marks) :
      osim oc oa -> (forall g m, Sim g m -> osim (fc g) (fa m)) -> osim (bind oc fc) (bind oa fa).
    Proof. destruct oc, oa; simpl; intros H Hf; try contradiction; auto. Qed.

    Lemma fold_sim {A} (cf : A -> gc -> outcome gc) (af : A -> marks -> outcome marks) (l : list A) :
      (forall a g m, In a l -> Sim g m -> osim (cf a g) (af a m)) ->
      forall g m, Sim g m -> osim (fold_o cf l g) (fold_o af l m).
    Proof.
      induction l as [|a l IH]; intros Hf g m S.
      - exact S.
      - rewrite !fold_o_cons. apply bind_sim.
        + apply Hf; [simpl; auto|exact S].
        + intros g1 m1 S1. apply IH; [|exact S1]. intros a0 g0 m0 Ha0' S0. apply Hf; [simpl; auto|exact S0].
    Qed.

    Lemma marked_bool_eq g m q : Sim g m -> cmarked (slots g) q = marked m q.
    Proof.
      intros S. pose proof (sim_marks g m S q) as Hq. rewrite <- cmarked_spec in Hq.
      destruct (cmarked (slots g) q), (marked m q); try reflexivity.
      - symmetry. apply Hq. reflexivity.
      - apply Hq. reflexivity.
    Qed.

    Section Level.
      Variable crec : contents -> gc -> outcome gc.
      Variable arec : contents -> marks -> outcome marks.
      Hypothesis Hrec : rec_sim crec arec.

      Lemma cdescend_sim p g m : Sim g m -> osim (cdescend crec p g) (descend h arec p m).
      Proof. intros S. unfold cdescend, descend. destruct (nget p h); [apply Hrec; exact S|exact I]. Qed.

      Lemma cmark_item_sim w g m : Sim g m ->
        osim (cmark_item crec w g) (mark_item h rg lo hi arec w m).
      Proof.
        intros S. pose proof (Sim_addr_ok g m S) as Ha.
        destruct (mark_item_exact g w (sim_inv g m S) (sim_nz g m S) Ha) as [g' [Hmi [Hpw [Hsr Hmk]]]].
        rewrite (sim_lo g m S), (sim_hi g m S), (Sim_registered g m w S) in Hmk.
        unfold cmark_item. rewrite Hmi. unfold mark_item.
        assert (Sbase : forall m', (forall q, Marked (slots g') q <-> marked m' q = true) -> Sim g' m').
        { intros m' Hm'. destruct Hsr as [Hn [Hmi' [Hlo [Hhi [Hr [Hp He]]]]]]. constructor.
          - eapply InvM_PW; [apply (sim_inv g m S)|exact Hpw|repeat split; assumption].
          - eapply PW_trans; [apply (sim_pw g m S)|exact Hpw].
          - unfold nslots. rewrite (PW_length _ _ Hpw). apply (sim_nz g m S).
          - rewrite Hlo. apply (sim_lo g m S).
          - rewrite Hhi. apply (sim_hi g m S).
          - unfold Quiet. rewrite Hp. apply (sim_quiet g m S).
          - exact Hm'. }
        rewrite (marked_bool_eq g m w S).
        destruct (prefilter lo hi w) eqn:Hpf; [destruct (registered rg w) eqn:Hreg|].
        - destruct (marked m w) eqn:Hmw; cbn [negb andb].
          + (* already marked *)
            apply Sbase. intros q. rewrite Hmk, (sim_marks g m S q). split; [|auto].
            intros [Hq|[-> _]]; [exact Hq|exact Hmw].
          + (* newly marked: traced *)
            assert (Hw : cmarked (slots g') w = true).
            { apply cmarked_spec. apply Hmk. right. auto. }
            rewrite Hw. apply cdescend_sim. apply Sbase. intros q. rewrite Hmk, (sim_marks g m S q).
            pose proof (registered_nonzero _ _ Hreg) as Hnz.
            destruct (N.eq_dec q w) as [->|Hne].
            * rewrite marked_setmark_same by assumption. split; auto.
            * rewrite marked_setmark_other by assumption. split; [|auto].
              intros [Hq|[Hq _]]; [exact Hq|contradiction].
        - (* not registered *)
          assert (Hsame : forall q, Marked (slots g') q <-> marked m q = true).
          { intros q. rewrite Hmk, (sim_marks g m S q). split; [|auto]. intros [Hq|[_ [_ F]]]; [exact Hq|discriminate]. }
          assert (Hw : cmarked (slots g') w = marked m w).
          { pose proof (Hsame w) as Hq. rewrite <- cmarked_spec in Hq.
            destruct (cmarked (slots g') w), (marked m w); try reflexivity; [symmetry|]; apply Hq; reflexivity. }
          rewrite Hw. destruct (marked m w); cbn [negb andb]; apply Sbase; exact Hsame.
        - (* rejected by the prefilter *)
          assert (Hsame : forall q, Marked (slots g') q <-> marked m q = true).
          { intros q. rewrite Hmk, (sim_marks g m S q). split; [|auto]. intros [Hq|[_ [F _]]]; [exact Hq|discriminate]. }
          assert (Hw : cmarked (slots g') w = marked m w).
          { pose proof (Hsame w) as Hq. rewrite <- cmarked_spec in Hq.
            destruct (cmarked (slots g') w), (marked m w); try reflexivity; [symmetry|]; apply Hq; reflexivity. }
          rewrite Hw. destruct (marked m w); cbn [negb andb]; apply Sbase; exact Hsame.
      Qed.

      Lemma cmark_and_recurse_sim p g m : Sim g m ->
        osim (cmark_and_recurse crec p g) (mark_and_recurse true h rg lo hi arec p m).
      Proof.
        intros S. unfold cmark_and_recurse, mark_and_recurse.
        rewrite (gc_mem_areg g p (sim_inv g m S) (Sim_addr_ok g m S)), (Sim_registered g m p S).
        destruct (registered rg p); [apply cmark_item_sim|apply cdescend_sim]; exact S.
      Qed.

      Lemma ctrace_with_sim : rec_sim (ctrace_with crec) (trace_with true h rg lo hi arec).
      Proof.
        intros c. induction c as [ws|es IH|ps|] using contents_ind'; intros g m S; cbn [ctrace_with trace_with].
        - apply fold_sim; [|exact S]. intros a g0 m0 _ S0. apply cmark_item_sim. exact S0.
        - apply fold_sim; [|exact S]. intros a g0 m0 Ha S0. rewrite Forall_forall in IH. apply (IH a Ha). exact S0.
        - apply fold_sim; [|exact S]. intros a g0 m0 _ S0. apply cmark_and_recurse_sim. exact S0.
        - exact S.
      Qed.
    End Level.

    Lemma ctrace_sim : forall fuel, rec_sim (ctrace fuel) (trace true h rg lo hi fuel).
    Proof.
      induction fuel as [|f IH]; intros c g m S.
      - exact I.
      - cbn [ctrace trace]. apply ctrace_with_sim; [exact IH|exact S].
    Qed.

    (* an entry's own mark bit is what the abstract mark set says about its address *)
    Lemma entry_marked_eq g m i hh e : Sim g m -> at_ (slots g) i = Some (hh, e) -> marked m (ptr e) = emarked e.
    Proof.
      intros S Hat. pose proof (sim_marks g m S (ptr e)) as Hq.
      assert (He : Holds (slots g) e) by (exists i, hh; exact Hat).
      destruct (emarked e) eqn:Hm.
      - apply Hq. exists e. auto.
      - destruct (marked m (ptr e)) eqn:Hmm; [|reflexivity].
        destruct (proj2 Hq eq_refl) as [x [Hx [Hp Hxm]]].
        assert (x = e) by (apply (Core_UQ_same hashf (slots g) x e (inv_core hashf g (sim_inv g m S)) Hx He Hp)).
        subst x. congruence.
    Qed.

    Lemma skipn_at (l : list gslot) k : k < length l -> skipn k l = at_ l k :: skipn (S k) l.
    Proof.
      revert k. induction l as [|a l IH]; intros k Hk; simpl in Hk; [lia|].
      destruct k as [|k]; [reflexivity|]. simpl. unfold RobinHood.at_ in *. simpl. apply IH. lia.
    Qed.

    (* the root loop over slot indices and the abstract root pass over the addresses in slot order *)
    Lemma croot_sim crec arec : rec_sim crec arec ->
      forall d k g m, k + d = length sl0 -> Sim g m ->
        osim (fold_o (croot_step crec) (seq k d) g)
             (fold_o (root_step h rg arec) (map ptr (entries (skipn k sl0))) m).
    Proof.
      intros Hrec. induction d as [|d IH]; intros k g m Hk S.
      - assert (k = length sl0) by lia. subst k. rewrite skipn_all. exact S.
      - cbn [seq]. rewrite skipn_at by lia. rewrite (entries_cons gentry).
        pose proof (PW_at _ _ k (sim_pw g m S)) as Hrel.
        rewrite fold_o_cons. unfold croot_step at 1.
        inversion Hrel as [Hn0 Hn1|hh e0 e Hp Hr Hs0 Hs1].
        + (* empty slot *)
          cbn [bind]. apply IH; [lia|exact S].
        + symmetry in Hs0, Hs1.
          cbn [map]. rewrite fold_o_cons. apply bind_sim; [|intros g1 m1 S1; apply IH; [lia|exact S1]].
          unfold root_step.
          assert (He0 : Holds sl0 e0) by (exists k, hh; exact Hs0).
          unfold rg. rewrite (is_root_areg sl0 e0 Hc0 Ha0 He0). rewrite Hp, Hr.
          rewrite (entry_marked_eq g m k hh e S Hs1).
          destruct (root e && negb (emarked e)) eqn:Hb; [|exact S].
          apply andb_true_iff in Hb. destruct Hb as [_ Hb]. apply negb_true_iff in Hb.
          apply cdescend_sim; [exact Hrec|].
          assert (Hpw : PW (slots g) (upd k (Some (hh, esetmark e)) (slots g)))
            by (apply PW_upd with (e := e); auto).
          pose proof (Sim_addr_ok g m S e ltac:(exists k, hh; exact Hs1)) as [Hnz _].
          constructor; cbn [slots set_slots minptr maxptr].
          * eapply InvM_PW; [apply (sim_inv g m S)|exact Hpw|repeat split].
          * eapply PW_trans; [apply (sim_pw g m S)|exact Hpw].
          * unfold nslots. cbn [slots set_slots]. rewrite (upd_length gentry). apply (sim_nz g m S).
          * apply (sim_lo g m S).
          * apply (sim_hi g m S).
          * apply (sim_quiet g m S).
          * intros q. rewrite (Marked_upd (slots g) k hh e Hs1 q), (sim_marks g m S q).
            destruct (N.eq_dec q (ptr e)) as [->|Hne].
            -- rewrite marked_setmark_same by assumption. split; auto.
            -- rewrite marked_setmark_other by assumption. split; [|auto]. intros [Hq|Hq]; [exact Hq|contradiction].
    Qed.
  End Sim.

  (* the whole mark phase: concrete GC_Mark over the C17 registry and the abstract mark of
     MarkSweep.v over its abstraction run in lock step *)
  Lemma cmark_sim g fuel tls stack : Inv hashf g -> Quiet g -> addr_ok (slots g) -> nitems g <> 0 ->
    osim (slots g) (minptr g) (maxptr g)
      (cmark fuel tls stack g)
      (mark true true h (areg (slots g)) (minptr g) (maxptr g) fuel (aorder (slots g)) tls stack nempty).
  Proof.
    intros [Hm Hcl] Hq Ha Hn. pose proof (inv_core hashf g Hm) as Hc.
    assert (Hnz : nslots g <> 0).
    { destruct (inv_room hashf g Hm) as [Hz|Hlt]; [|unfold nslots in *; lia].
      pose proof (inv_count hashf g Hm). pose proof (occupied_le gentry (slots g)). unfold nslots in Hz. lia. }
    assert (S0 : Sim (slots g) (minptr g) (maxptr g) g nempty).
    { constructor; auto; [apply PW_refl|].
      intros q. rewrite marked_nempty. split; [|discriminate].
      intros [e [He [_ Hme]]]. rewrite (Hcl e He) in Hme. discriminate. }
    unfold cmark, mark. destruct (Nat.eqb_spec (nitems g) 0) as [|_]; [contradiction|].
    destruct (aorder (slots g)) as [|o0 ord'] eqn:Eo.
    { exfalso. apply Hn. rewrite (inv_count hashf g Hm). unfold aorder in Eo.
      rewrite (occupied_entries gentry). apply (f_equal (@length _)) in Eo. rewrite map_length in Eo. exact Eo. }
    rewrite <- Eo. clear Eo o0 ord'.
    apply bind_sim.
    - apply fold_sim; [|exact S0]. intros a g0 m0 _ Sg. apply ctrace_with_sim; auto. apply ctrace_sim; auto.
    - intros g1 m1 S1. apply bind_sim.
      + pose proof (croot_sim (slots g) Hc Ha (minptr g) (maxptr g) (ctrace fuel)
                      (trace true h (areg (slots g)) (minptr g) (maxptr g) fuel)
                      (ctrace_sim (slots g) Hc Ha (minptr g) (maxptr g) fuel) (nslots g) 0 g1 m1 eq_refl S1) as Hr.
        cbn [skipn] in Hr. exact Hr.
      + intros g2 m2 S2. apply fold_sim; [|exact S2]. intros a g0 m0 _ Sg.
        apply cmark_item_sim; auto. apply ctrace_sim; auto.
  Qed.
End Glue.

Lemma NoDup_map_inj {A B} (f : A -> B) (l : list A) :
  NoDup l -> (forall x y, In x l -> In y l -> f x = f y -> x = y) -> NoDup (map f l).
Proof.
  induction l as [|a l IH]; intros Hnd Hinj; simpl; constructor.
  - intros Hin. apply in_map_iff in Hin. destruct Hin as [x [Hp Hx]]. inversion Hnd; subst.
    assert (x = a) by (apply Hinj; simpl; auto). subst x. contradiction.
  - inversion Hnd; subst. apply IH; [assumption|]. intros x y Hx Hy. apply Hinj; simpl; auto.
Qed.

(* ------------------------------------------------------------------ 4. composition *)
Section Compose.
  Variable hashf : N -> N.
  Variable h : heap.

  (* the concrete compaction loop of GC_Sweep run on the registry the concrete mark phase left:
     what is reclaimed, what is kept *)
  Definition reclaimed_by_sweep (g1 : gc) (l' : list gslot) (rm : list gentry) : Prop :=
    sweep_loop (length (slots g1) + occupied gentry (slots g1) + 1) (slots g1) 0 (nitems g1) [] (evs g1)
      = Some (l', nitems g1 - length rm, pend_of rm, reclaim_evs rm ++ evs g1).

  Theorem glue_collect_safe_thm : forall g tls stack,
    Inv hashf g -> Quiet g -> addr_ok (slots g) ->
    wf h (areg (slots g)) tls -> raw_wf h (areg (slots g)) ->
    exists g1 l' rm,
      cmark hashf h (fuel_of h (areg (slots g)) (aorder (slots g))) tls stack g = Ok g1 /\
      InvM hashf g1 /\ Quiet g1 /\ PW (slots g) (slots g1) /\
      reclaimed_by_sweep g1 l' rm /\ Core hashf l' /\
      (* kept: every registered object that is root-flagged or reachable *)
      (forall p s, Reg g p s -> (s = true \/ reach h (areg (slots g)) tls stack p) ->
         (exists e, Holds l' e /\ ptr e = p /\ root e = s) /\ ~ In p (map ptr rm)) /\
      (* reclaimed: only registered, non-root, unreachable objects, each once *)
      (forall x, In x rm -> Reg g (ptr x) false /\ ~ reach h (areg (slots g)) tls stack (ptr x)) /\
      NoDup (map ptr rm).
  Proof.
    intros g tls stack Hinv Hq Ha Hwf Hraw. pose proof Hinv as [Hm Hcl].
    pose proof (inv_core hashf g Hm) as Hc.
    set (rg := areg (slots g)). set (order := aorder (slots g)).
    pose proof (arange_ok hashf g Hm Ha) as Hrange.
    pose proof (aorder_ok hashf (slots g) Hc Ha) as Horder.
    destruct (mark_fuel_adequate_thm h rg (minptr g) (maxptr g) order tls stack Hrange Horder Hwf Hraw) as [m' Hmark].
    pose proof (mark_exact_thm h rg (minptr g) (maxptr g) order tls stack _ m' Hrange Horder Hmark) as Hexact.
    (* the concrete mark phase *)
    assert (Hc1 : exists g1, cmark hashf h (fuel_of h rg order) tls stack g = Ok g1 /\
                    InvM hashf g1 /\ Quiet g1 /\ PW (slots g) (slots g1) /\
                    forall q, Marked (slots g1) q <-> marked m' q = true).
    { destruct (Nat.eq_dec (nitems g) 0) as [Hz|Hnz].
      - exists g. unfold cmark. rewrite Hz. cbn [Nat.eqb]. split; [reflexivity|].
        split; [exact Hm|]. split; [exact Hq|]. split; [apply PW_refl|].
        assert (Hem : entries (slots g) = []).
        { pose proof (inv_count hashf g Hm) as Hcnt. rewrite Hz, (occupied_entries gentry) in Hcnt.
          destruct (entries (slots g)); [reflexivity|discriminate]. }
        unfold mark in Hmark. unfold order, aorder in Hmark. rewrite Hem in Hmark. cbn [map] in Hmark.
        injection Hmark as <-. intros q. rewrite marked_nempty. split; [|discriminate].
        intros [e [He _]]. apply (in_entries gentry) in He. rewrite Hem in He. destruct He.
      - pose proof (cmark_sim hashf h g (fuel_of h rg order) tls stack Hinv Hq Ha Hnz) as Hs.
        fold rg order in Hs. rewrite Hmark in Hs.
        destruct (cmark hashf h (fuel_of h rg order) tls stack g) as [g1| |]; try contradiction.
        exists g1. split; [reflexivity|]. destruct Hs. auto. }
    destruct Hc1 as (g1 & Hcm & Hm1 & Hq1 & Hpw & Hmk).
    pose proof (inv_core hashf g1 Hm1) as Hcore1.
    assert (Hroom : length (slots g1) = 0 \/ occupied gentry (slots g1) < length (slots g1)).
    { destruct (inv_room hashf g1 Hm1) as [Hz|Hlt]; [left; exact Hz|right].
      rewrite <- (inv_count hashf g1 Hm1). exact Hlt. }
    destruct (sweep_loop_exact_thm hashf (slots g1) (nitems g1) [] (evs g1) Hcore1 Hroom)
      as (l' & rm & Hsw & Hcl' & _ & Hkeep & Hrm & Hcnt).
    exists g1, l', rm. split; [exact Hcm|]. split; [exact Hm1|]. split; [exact Hq1|]. split; [exact Hpw|].
    split; [exact Hsw|]. split; [exact Hcl'|].
    assert (Hreg1 : forall x, Holds (slots g1) x -> Reg g (ptr x) (root x)).
    { intros x Hx. destruct (PW_holds _ _ _ Hpw Hx) as [y [Hy [Hp Hr]]]. exists y. auto. }
    split; [|split].
    - intros p s Hreg Hwhy.
      assert (Hregd : registered rg p = true)
        by (apply (registered_areg hashf (slots g) p Hc Ha); exists s; exact Hreg).
      assert (Hroot : is_root rg p = s).
      { destruct Hreg as [e [He [Hp Hr]]]. subst p s. apply (is_root_areg hashf); assumption. }
      assert (Hmp : marked m' p = true).
      { apply Hexact. split; [exact Hregd|]. destruct Hwhy as [->|Hr]; [left; exact Hroot|right; exact Hr]. }
      apply Hmk in Hmp. destruct Hmp as [e [He [Hp Hme]]].
      assert (Hk : keeper e = true) by (unfold keeper; rewrite Hme; reflexivity).
      split.
      + exists e. split; [apply Hkeep; auto|]. split; [exact Hp|].
        destruct (Hreg1 e He) as [y [Hy [Hpy Hry]]]. destruct Hreg as [z [Hz [Hpz Hrz]]].
        assert (y = z) by (apply (Core_UQ_same hashf (slots g) y z Hc Hy Hz); congruence). subst y. congruence.
      + intros Hin. apply in_map_iff in Hin. destruct Hin as [x [Hpx Hx]]. apply Hrm in Hx. destruct Hx as [Hx Hkx].
        assert (x = e) by (apply (Core_UQ_same hashf (slots g1) x e Hcore1 Hx He); congruence). subst x. congruence.
    - intros x Hx. apply Hrm in Hx. destruct Hx as [Hx Hkx]. unfold keeper in Hkx.
      apply orb_false_iff in Hkx. destruct Hkx as [Hmx Hrx].
      pose proof (Hreg1 x Hx) as Hr. rewrite Hrx in Hr. split; [exact Hr|].
      intros Hreach.
      assert (Hregd : registered rg (ptr x) = true)
        by (apply (registered_areg hashf (slots g) (ptr x) Hc Ha); exists false; exact Hr).
      assert (Hmp : marked m' (ptr x) = true) by (apply Hexact; auto).
      apply Hmk in Hmp. destruct Hmp as [e [He [Hp Hme]]].
      assert (e = x) by (apply (Core_UQ_same hashf (slots g1) e x Hcore1 He Hx); exact Hp). subst e. congruence.
    - (* each reclaimed address once: counting.  rm contains every non-keeper of g1, and has exactly as
         many elements as there are non-keepers (count equation of sweep_loop_exact) *)
      assert (Hinj : forall x y, In x rm -> In y rm -> ptr x = ptr y -> x = y).
      { intros x y Hx Hy Hp. apply Hrm in Hx. apply Hrm in Hy.
        apply (Core_UQ_same hashf (slots g1) x y Hcore1); tauto. }
      assert (HndE : forall l, Core hashf l -> NoDup (entries l)).
      { intros l [_ [_ Huq]]. apply NoDup_map_inv with (f := ptr). apply (UQ_NoDup N gentry ptr). exact Huq. }
      set (E := entries (slots g1)).
      set (K := filter keeper E). set (NK := filter (fun x => negb (keeper x)) E).
      assert (Hpart : length K + length NK = length E).
      { unfold K, NK. clear. induction E as [|a E IH]; simpl; [reflexivity|]. destruct (keeper a); simpl; lia. }
      assert (HK : length (entries l') = length K).
      { apply Nat.le_antisymm.
        - apply NoDup_incl_length; [apply HndE; exact Hcl'|]. intros x Hx. apply (in_entries gentry) in Hx.
          apply Hkeep in Hx. unfold K. apply filter_In. split; [apply (in_entries gentry); tauto|tauto].
        - apply NoDup_incl_length; [apply NoDup_filter; apply HndE; exact Hcore1|]. intros x Hx.
          unfold K in Hx. apply filter_In in Hx. destruct Hx as [Hx Hk]. apply (in_entries gentry).
          apply Hkeep. split; [apply (in_entries gentry); exact Hx|exact Hk]. }
      assert (Hlen : length rm = length NK).
      { rewrite !(occupied_entries gentry) in Hcnt. fold E in Hcnt. lia. }
      assert (Hnd : NoDup rm).
      { apply NoDup_incl_NoDup with (l := NK).
        - unfold NK. apply NoDup_filter. apply HndE. exact Hcore1.
        - lia.
        - intros x Hx. unfold NK in Hx. apply filter_In in Hx. destruct Hx as [Hx Hk]. apply negb_true_iff in Hk.
          apply Hrm. split; [apply (in_entries gentry); exact Hx|exact Hk]. }
      apply NoDup_map_inj; assumption.
  Qed.
End Compose.

(* every history the C17 model admits: the registry hypotheses of C01 hold in the state it reaches *)
Theorem glue_registry_hypotheses_thm : forall hashf d rf nf ops, dtors_ok d ->
  Gadm hashf d rf nf ops gc_init ->
  let g := Grun hashf d rf nf ops gc_init in
  addr_ok (slots g) ->
  order_ok (areg (slots g)) (aorder (slots g)) /\
  range_ok (areg (slots g)) (minptr g) (maxptr g) /\
  (forall p, gc_mem hashf g p = Some (registered (areg (slots g)) p)) /\
  (forall p s, nget p (areg (slots g)) = Some s <-> led (evs g) p s) /\
  (forall q, ~ Marked (slots g) q) /\
  pending g = [].
Proof.
  intros hashf d rf nf ops Hd Hadm g Ha.
  destruct (registry_history_thm hashf d rf nf ops Hd Hadm) as [[Hm Hcl] Hq]. fold g in Hm, Hcl, Hq.
  pose proof (inv_core hashf g Hm) as Hc.
  split; [apply (aorder_ok hashf); assumption|]. split; [apply (arange_ok hashf); assumption|].
  split; [intros p; apply (gc_mem_areg hashf); assumption|].
  split; [intros p s; rewrite (areg_spec hashf (slots g) p s Hc Ha); apply (inv_led hashf g Hm)|].
  split; [|exact Hq].
  intros q [e [He [_ Hme]]]. rewrite (Hcl e He) in Hme. discriminate.
Qed.

(* the composed statement: a collection run with the CONCRETE registry reached by any C17-admissible
   history — mark phase with the probe-loop lookup, then the concrete compaction loop — terminates,
   keeps every registered object that is root-flagged or reachable, reclaims only registered non-root
   unreachable objects (each once), and the whole GC_Sweep (finaliser loop included) then succeeds and
   re-establishes C17's invariant *)
Theorem glue_history_collect_safe_thm : forall hashf d rf nf ops h tls stack, dtors_ok d ->
  Gadm hashf d rf nf ops gc_init ->
  let g := Grun hashf d rf nf ops gc_init in
  addr_ok (slots g) -> wf h (areg (slots g)) tls -> raw_wf h (areg (slots g)) ->
  exists g1 l' rm,
    cmark hashf h (fuel_of h (areg (slots g)) (aorder (slots g))) tls stack g = Ok g1 /\
    PW (slots g) (slots g1) /\
    reclaimed_by_sweep g1 l' rm /\
    (forall p s, led (evs g) p s -> (s = true \/ reach h (areg (slots g)) tls stack p) ->
       (exists e, Holds l' e /\ ptr e = p /\ root e = s) /\ ~ In p (map ptr rm)) /\
    (forall x, In x rm -> led (evs g) (ptr x) false /\ ~ reach h (areg (slots g)) tls stack (ptr x)) /\
    NoDup (map ptr rm) /\
    exists g2, Gsweep hashf d rf nf g1 = Some g2 /\ Inv hashf g2 /\ Quiet g2.
Proof.
  intros hashf d rf nf ops h tls stack Hd Hadm g Ha Hwf Hraw.
  destruct (registry_history_thm hashf d rf nf ops Hd Hadm) as [Hinv Hq]. fold g in Hinv, Hq.
  destruct (glue_collect_safe_thm hashf h g tls stack Hinv Hq Ha Hwf Hraw)
    as (g1 & l' & rm & Hcm & Hm1 & Hq1 & Hpw & Hsw & _ & Hkeep & Hrm & Hnd).
  exists g1, l', rm. split; [exact Hcm|]. split; [exact Hpw|]. split; [exact Hsw|].
  pose proof (inv_led hashf g (proj1 Hinv)) as Hled.
  split; [|split; [|split; [exact Hnd|]]].
  - intros p s Hl. apply Hkeep. apply Hled. exact Hl.
  - intros x Hx. destruct (Hrm x Hx) as [Hr Hn]. split; [apply Hled; exact Hr|exact Hn].
  - apply sweep_total_thm; assumption.
Qed.

(* ------------------------------------------------------------------ non-vacuity: C17's example history
   (five colliding allocations 8 48 88 16 24, 11 slots) with a heap over these five objects:
   8 -> 16 (plain), 16 = Tuple (24, 8), 24 = Array [Ref 16], 48 plain, 88 -> 88; the stack holds 8 *)
Definition addr_ok_b (sl : list gslot) : bool :=
  forallb (fun e => negb (N.eqb (ptr e) 0) && N.eqb (N.modulo (ptr e) 8) 0) (entries sl).
Lemma addr_ok_b_sound sl : addr_ok_b sl = true -> addr_ok sl.
Proof.
  unfold addr_ok_b, addr_ok. rewrite forallb_forall. intros H e He. apply (in_entries gentry) in He.
  specialize (H e He). apply andb_true_iff in H. destruct H as [H1 H2].
  apply negb_true_iff, N.eqb_neq in H1. apply N.eqb_eq in H2. auto.
Qed.

Definition glue_ops : list op := firstn 5 ex_ops.
Definition glue_g : gc := Grun ex_hash ex_d false false glue_ops gc_init.
Definition glue_heap : heap :=
  nset 8%N (Words [16%N]) (nset 16%N (Items [24%N; 8%N]) (nset 24%N (Elems [Words [16%N]])
  (nset 48%N (Words []) (nset 88%N (Words [88%N]) nempty)))).
Definition glue_stack : list word := [8%N; 3%N].

Definition glue_reclaimed : list N := [88%N; 48%N].
Definition glue_kept : list N := [8%N; 16%N; 24%N].

(* the statement does not depend on the slot layout (prime table, load factor): what is kept / reclaimed is
   derived from glue_collect_safe_thm, only the hypotheses are checked by computation *)
Lemma glue_example :
  Gadm ex_hash ex_d false false glue_ops gc_init /\
  addr_ok (slots glue_g) /\ wf glue_heap (areg (slots glue_g)) [] /\ raw_wf glue_heap (areg (slots glue_g)) /\
  exists g1 l' rm,
    cmark ex_hash glue_heap (fuel_of glue_heap (areg (slots glue_g)) (aorder (slots glue_g))) [] glue_stack glue_g = Ok g1 /\
    reclaimed_by_sweep g1 l' rm /\
    (forall p, In p glue_kept -> (exists e, Holds l' e /\ ptr e = p) /\ ~ In p (map ptr rm)) /\
    (forall x, In x rm -> ~ In (ptr x) glue_kept).
Proof.
  assert (Hadm : Gadm ex_hash ex_d false false glue_ops gc_init) by (apply adm_runb_ok; vm_compute; reflexivity).
  assert (Ha : addr_ok (slots glue_g)) by (apply addr_ok_b_sound; vm_compute; reflexivity).
  assert (Hwf : wf glue_heap (areg (slots glue_g)) []) by (apply wf_b_sound; vm_compute; reflexivity).
  assert (Hraw : raw_wf glue_heap (areg (slots glue_g))).
  { exists (fun _ => 0). split; [intros p; lia|apply rawdec_b_sound; vm_compute; reflexivity]. }
  split; [exact Hadm|]. split; [exact Ha|]. split; [exact Hwf|]. split; [exact Hraw|].
  destruct (registry_history_thm ex_hash ex_d false false glue_ops ex_d_ok Hadm) as [Hinv0 Hq0].
  assert (Hinv : Inv ex_hash glue_g) by exact Hinv0.
  assert (Hq : Quiet glue_g) by exact Hq0.
  clear Hinv0 Hq0.
  pose proof (inv_core ex_hash glue_g (proj1 Hinv)) as Hc.
  set (rg := areg (slots glue_g)).
  assert (R8 : reach glue_heap rg [] glue_stack 8%N) by (apply reach_stack; simpl; auto).
  assert (R16 : reach glue_heap rg [] glue_stack 16%N).
  { eapply reach_step with (p := 8%N) (c := Words [16%N]); [exact R8|vm_compute; reflexivity|reflexivity|].
    apply pts_word. simpl. auto. }
  assert (R24 : reach glue_heap rg [] glue_stack 24%N).
  { eapply reach_step with (p := 16%N) (c := Items [24%N; 8%N]); [exact R16|vm_compute; reflexivity|reflexivity|].
    apply pts_item; [simpl; auto|vm_compute; reflexivity]. }
  assert (Hreach : forall p, In p glue_kept -> reach glue_heap rg [] glue_stack p).
  { intros p Hp. unfold glue_kept in Hp. simpl in Hp. intuition (subst; assumption). }
  assert (Hreg : forall p, In p glue_kept -> Reg glue_g p false).
  { intros p Hp. apply (areg_spec ex_hash (slots glue_g) p false Hc Ha).
    unfold glue_kept in Hp. simpl in Hp. intuition (subst; vm_compute; reflexivity). }
  destruct (glue_collect_safe_thm ex_hash glue_heap glue_g [] glue_stack Hinv Hq Ha Hwf Hraw)
    as (g1 & l' & rm & Hcm & _ & _ & _ & Hsw & _ & Hkeep & Hrm & _).
  exists g1, l', rm. split; [exact Hcm|]. split; [exact Hsw|]. split.
  - intros p Hp. destruct (Hkeep p false (Hreg p Hp) (or_intror (Hreach p Hp))) as [[e [He [Hpe _]]] Hn].
    split; [exists e; auto|exact Hn].
  - intros x Hx Hin. destruct (Hrm x Hx) as [_ Hn]. apply Hn. apply Hreach. exact Hin.
Qed.
