(* SeqTheorems.v — the closed statements of property C04, assembled from SeqProofs.v (Array, List,
   specification facts), SortProofs.v (quicksort) and SeqTupleProofs.v (Tuple), with the capacity
   rules of Array_Reserve_More/Less taken from Generated.v. *)
From Coq Require Import List Arith Bool ZArith Lia Permutation Sorted.
From CelloV Require Import Generated SeqModels SeqCmps SeqProofs SortProofs SeqTupleProofs SeqErrorProofs SeqAccessProofs.
Import ListNotations.

Section Main.
  Variable E : Type.
  Variable eqb ltb same : E -> E -> bool.
  Variable zero : E.

  Notation a_stepG := (a_step E eqb ltb array_grow_cond array_shrink_cond array_grow_size array_shrink_size).

  Section WithOrder.
    (* the function handed to sort_by is asymmetric and transitive (a strict order such as lt) *)
    Hypothesis ltb_asym : forall x y, ltb x y = true -> ltb y x = false.
    Hypothesis ltb_trans : forall x y z, ltb x y = true -> ltb y z = true -> ltb x z = true.

    Lemma qsort_ok : forall xs : list E,
      exists ys, qsort ltb xs = Ok ys /\ Permutation xs ys /\ sorted_by_ltb E ltb ys.
    Proof. exact (qsort_correct E ltb ltb_asym ltb_trans). Qed.

    (* Array: one step, then every history *)
    Theorem array_step_refines_list (a : array E) (o : sop E) :
      a_inv E a -> in_range E eqb KArray (a_abs E a) o = true ->
      a_inv E (fst (a_stepG a o)) /\
      spec_ok E eqb ltb zero KArray (a_abs E a) o (a_abs E (fst (a_stepG a o))) (snd (a_stepG a o)).
    Proof.
      exact (a_step_refines E eqb ltb zero _ _ _ _ array_grow_ok array_shrink_ok qsort_ok a o).
    Qed.

    Theorem array_refines_list : forall (ops : list (sop E)) (a : array E),
      a_inv E a ->
      refines E eqb ltb zero (array E) a_stepG (a_abs E) (a_inv E) KArray (fun _ _ => True) a ops.
    Proof.
      apply refines_lift. intros s o Hs Hin _. apply array_step_refines_list; assumption.
    Qed.

    (* ... and along every history: outside the contract the documented exception, nothing changes *)
    Theorem array_refines_list_all : forall (ops : list (sop E)) (a : array E),
      a_inv E a ->
      refines_all E eqb ltb zero (array E) a_stepG (a_abs E) (a_inv E) KArray (fun _ _ => True) a ops.
    Proof.
      apply refines_all_lift.
      - intros s o Hs Hin _. apply array_step_refines_list; assumption.
      - intros s o Hs Hin. apply a_step_out_of_range; assumption.
    Qed.

    (* Tuple: pointers pairwise distinct (finding F3 excluded), eq symmetric *)
    Hypothesis same_refl : forall x, same x x = true.
    Hypothesis eqb_sym : forall x y, eqb x y = eqb y x.

    Theorem tuple_refines_list_all : forall (ops : list (sop E)) (t : tuple E),
      t_inv E same t ->
      refines_all E eqb ltb zero (tuple E) (t_step E eqb ltb same) (t_abs E) (t_inv E same) KTuple
                  (t_fresh E same) t ops.
    Proof.
      apply refines_all_lift.
      - intros s o Hs Hin Hfr.
        apply (t_step_refines E eqb ltb same zero same_refl eqb_sym qsort_ok); assumption.
      - intros s o Hs Hin. apply t_step_out_of_range; assumption.
    Qed.

    Theorem tuple_refines_list : forall (ops : list (sop E)) (t : tuple E),
      t_inv E same t ->
      refines E eqb ltb zero (tuple E) (t_step E eqb ltb same) (t_abs E) (t_inv E same) KTuple
              (t_fresh E same) t ops.
    Proof.
      apply refines_lift. intros s o Hs Hin Hfr.
      apply (t_step_refines E eqb ltb same zero same_refl eqb_sym qsort_ok); assumption.
    Qed.

    Theorem tuple_observe (t : tuple E) :
      t_inv E same t -> t_len E t = Some (length (t_abs E t)) /\ t_iter E same t = Ok (t_abs E t).
    Proof. exact (t_observe E same same_refl t). Qed.
  End WithOrder.

  Theorem list_refines_list : forall (ops : list (sop E)) (l : llist E),
    l_inv E l ->
    refines E eqb ltb zero (llist E) (l_step E eqb zero) (l_abs E) (l_inv E) KList (fun _ _ => True) l ops.
  Proof.
    apply refines_lift. intros s o Hs Hin _. apply l_step_refines; assumption.
  Qed.

  Theorem list_refines_list_all : forall (ops : list (sop E)) (l : llist E),
    l_inv E l ->
    refines_all E eqb ltb zero (llist E) (l_step E eqb zero) (l_abs E) (l_inv E) KList (fun _ _ => True) l ops.
  Proof.
    apply refines_all_lift.
    - intros s o Hs Hin _. apply l_step_refines; assumption.
    - intros s o Hs Hin. apply l_step_out_of_range; assumption.
  Qed.

  (* finding F3: the excluded case does fail *)
  Theorem tuple_repeated_pointer_refuted (p : E) :
    same p p = true ->
    forall fuel, t_iter_fuel E same fuel (mkTu E [TObj E p; TObj E p; TTerm E] true) = Fuel.
  Proof.
    intros Hp fuel. unfold t_iter_fuel. cbn [titems]. generalize (@nil E).
    induction fuel as [|fu IH]; intros acc; [reflexivity|].
    cbn [t_iter_loop t_next]. rewrite Hp. apply IH.
  Qed.
End Main.

(* sort for a total preorder leq: sort() hands over lt, i.e. x < y := not (y <= x) *)
Section TotalPreorder.
  Variable E : Type.
  Variable leq : E -> E -> bool.
  Hypothesis leq_total : forall x y, leq x y = true \/ leq y x = true.
  Hypothesis leq_trans : forall x y z, leq x y = true -> leq y z = true -> leq x z = true.

  Definition lt_of (x y : E) : bool := negb (leq y x).

  Lemma StronglySorted_impl (R S : E -> E -> Prop) l :
    (forall x y, R x y -> S x y) -> StronglySorted R l -> StronglySorted S l.
  Proof.
    intros H. induction 1 as [|a l Hs IH Hf]; constructor; auto.
    eapply Forall_impl; [|exact Hf]. auto.
  Qed.

  Theorem sort_perm_sorted : forall xs : list E,
    exists ys, qsort lt_of xs = Ok ys /\ Permutation xs ys /\
               StronglySorted (fun x y => leq x y = true) ys /\
               Sorted (fun x y => leq x y = true) ys.
  Proof.
    intros xs.
    assert (Hasym : forall x y, lt_of x y = true -> lt_of y x = false).
    { unfold lt_of. intros x y H. apply negb_true_iff in H. apply negb_false_iff.
      destruct (leq_total x y) as [H1|H1]; [exact H1 | congruence]. }
    assert (Htrans : forall x y z, lt_of x y = true -> lt_of y z = true -> lt_of x z = true).
    { unfold lt_of. intros x y z H1 H2. apply negb_true_iff in H1, H2. apply negb_true_iff.
      destruct (leq z x) eqn:Ezx; [|reflexivity].
      destruct (leq_total x y) as [H3|H3]; [|congruence].
      rewrite (leq_trans z x y Ezx H3) in H2. discriminate. }
    destruct (qsort_correct E lt_of Hasym Htrans xs) as (ys & H1 & H2 & H3).
    exists ys. split; [exact H1|]. split; [exact H2|].
    assert (Hs : StronglySorted (fun x y => leq x y = true) ys).
    { eapply StronglySorted_impl; [|exact H3]. unfold lt_of. intros x y H.
      apply negb_false_iff in H. exact H. }
    split; [exact Hs | apply StronglySorted_Sorted; exact Hs].
  Qed.
End TotalPreorder.

(* ------------------------------------------------------------------ corollaries *)
Section Corollaries.
  Variable E : Type.

  (* the Array invariant says in particular: nitems <= nslots = number of allocated cells *)
  Theorem array_invariant_capacity (a : array E) :
    a_inv E a -> nitems E a <= nslots E a /\ length (cells E a) = nslots E a.
  Proof.
    intros (vs & rest & Hc & Hn & Hl). split; [|exact Hl].
    rewrite <- Hl, Hc, app_length, map_length. lia.
  Qed.
End Corollaries.

(* ------------------------------------------------------------------ the repaired defects were real *)
(* witnesses on the pre-repair variants of the models (DESIGN section 8 D13, D14, D15) *)
Section PreRepair.
  Local Open Scope Z_scope.
  Definition zarr : array Z := a_new Z [1; 2; 3].

  (* D13: a failed push_at left the Array one element longer *)
  Theorem array_push_at_pre_repair_refuted :
    exists (a : array Z) (k v : Z),
      in_range Z Z.eqb KArray (a_abs Z a) (SPushAt Z k v) = false /\
      snd (a_push_at_old Z array_grow_cond array_grow_size a k v) = ORaise Z IndexError /\
      nitems Z (fst (a_push_at_old Z array_grow_cond array_grow_size a k v)) = S (nitems Z a).
  Proof. exists zarr, 7, 9. vm_compute. repeat split. Qed.

  (* D14: pop_at on a stack Tuple raised ValueError after the element was gone *)
  Theorem tuple_pop_at_pre_repair_refuted :
    exists (t : tuple Z) (k : Z),
      theap Z t = false /\
      snd (t_pop_at_old Z t 3 k) = ORaise Z ValueError /\
      t_abs Z (fst (t_pop_at_old Z t 3 k)) <> t_abs Z t.
  Proof.
    exists (t_new Z [1; 2; 3] false), 0. vm_compute. repeat split. intros H. discriminate H.
  Qed.

  (* D15: rem of an absent element was silent *)
  Theorem tuple_rem_pre_repair_refuted :
    exists (t : tuple Z) (v : Z),
      in_range Z Z.eqb KTuple (t_abs Z t) (SRem Z v) = false /\
      snd (t_rem_old Z Z.eqb t 3 v) = OUnit Z.
  Proof. exists (t_new Z [1; 2; 3] true), 9. vm_compute. repeat split. Qed.
End PreRepair.

(* ------------------------------------------------------------------ no hidden access state *)
Section Access.
  Variable E : Type.
  Variable eqb ltb same : E -> E -> bool.
  Variable zero : E.
  Variables gc sc : nat -> nat -> bool.
  Variables gs ss : nat -> nat -> nat.

  (* reads (get, mem) interleaved anywhere in a history — from ANY start state — change neither
     the final state nor the outcome of any other operation, for each of the three models *)
  Theorem reads_never_disturb (ops : list (sop E)) :
    (forall a : array E,
       final E _ (a_step E eqb ltb gc sc gs ss) a ops =
         final E _ (a_step E eqb ltb gc sc gs ss) a (filter (is_write E) ops) /\
       filter (fun p => is_write E (fst p)) (trace E _ (a_step E eqb ltb gc sc gs ss) a ops) =
         trace E _ (a_step E eqb ltb gc sc gs ss) a (filter (is_write E) ops)) /\
    (forall l : llist E,
       final E _ (l_step E eqb zero) l ops = final E _ (l_step E eqb zero) l (filter (is_write E) ops) /\
       filter (fun p => is_write E (fst p)) (trace E _ (l_step E eqb zero) l ops) =
         trace E _ (l_step E eqb zero) l (filter (is_write E) ops)) /\
    (forall t : tuple E,
       final E _ (t_step E eqb ltb same) t ops = final E _ (t_step E eqb ltb same) t (filter (is_write E) ops) /\
       filter (fun p => is_write E (fst p)) (trace E _ (t_step E eqb ltb same) t ops) =
         trace E _ (t_step E eqb ltb same) t (filter (is_write E) ops)).
  Proof.
    split; [|split]; intros s; apply reads_do_not_disturb.
    - apply a_read_pure.
    - apply l_read_pure.
    - apply t_read_pure.
  Qed.
End Access.

(* ------------------------------------------------------------------ sort_by: ordered by the GIVEN function *)
(* the comparisons the harness hands to sort_by that are asymmetric and transitive (lt, gt, by absolute
   value, by a key with ties, never) satisfy the hypotheses of the sort theorem *)
Lemma z_cmp_in_contract (k : nat) :
  cmp_in_contract k = true ->
  (forall x y, z_cmp k x y = true -> z_cmp k y x = false) /\
  (forall x y z, z_cmp k x y = true -> z_cmp k y z = true -> z_cmp k x z = true).
Proof.
  destruct k as [|[|[|[|[|[|[|k]]]]]]]; simpl; intros Hc; try discriminate Hc; split; intros;
    try discriminate; try reflexivity;
    repeat match goal with H : (_ <? _)%Z = true |- _ => apply Z.ltb_lt in H end;
    try (apply Z.ltb_ge); try (apply Z.ltb_lt); lia.
Qed.

Theorem driver_comparisons_in_contract (k : nat) :
  cmp_in_contract k = true ->
  (forall a b, e_cmp k a b = true -> e_cmp k b a = false) /\
  (forall a b c, e_cmp k a b = true -> e_cmp k b c = true -> e_cmp k a c = true).
Proof.
  intros H. destruct (z_cmp_in_contract k H) as [Ha Ht]. unfold e_cmp. split.
  - intros a b. apply Ha.
  - intros a b c. apply Ht.
Qed.
