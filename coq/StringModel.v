(* StringModel.v — executable model of src/String.c (heap String as a C-string value) and the
   abstract-string specification it is proved to refine (StringProofs.v, Properties_C16.v).
   MODEL ONLY (no proofs here).

   A String object owns ONE heap allocation `val`.  The model keeps that allocation as a list
   of cells, one per byte of the allocation: `Some c` = the byte holds c, `None` = the byte is
   indeterminate (fresh from realloc).  Every libc routine String.c uses is modelled on cells:
   reading an indeterminate byte, or reading/writing outside the allocation, is a CRASH of the
   model (undefined behaviour of the C code), never a silently "working" value.

   The small rules of the C text (allocation sizes, the byte count of String_Rem's memmove,
   whether String_Rem checks for an absent needle) are Section variables here; they are
   instantiated from coq/Generated.v, which tools/genx_str.py re-extracts from src/String.c. *)
From Coq Require Import List Arith Bool NArith ZArith.
Import ListNotations.

(* (notations, not definitions: `lia` compares atoms syntactically) *)
Notation byte := nat (only parsing).                    (* 0 = NUL; values < 256 in every generated case *)
Notation cell := (option nat) (only parsing).
Notation buffer := (list (option nat)) (only parsing).  (* length = size of the allocation in bytes *)

Inductive sexn := SValueError.

Inductive sout :=
| SUnit
| SNat (n : nat)             (* len, print_to's new position *)
| SBool (b : bool)           (* mem, eq *)
| SSign (c : comparison)     (* sign of cmp *)
| SHash (h : N)
| SChars (s : list byte)     (* c_str *)
| SRaise (e : sexn)
| SCrash.                    (* the C code has undefined behaviour here *)

(* one piece of a print_to format: literal text, "%s" with a C string, "%li" with an Int,
   "%s" with the target String itself *)
Inductive piece := PLit (t : list byte) | PStr (t : list byte) | PInt (z : Z) | PSelf.

Inductive sop :=
| OAssign (v : list byte)            (* assign(s, $S(v)) *)
| OConcat (v : list byte)            (* concat(s, $S(v)) *)
| OAppend (v : list byte)            (* append(s, $S(v)) — same function as concat for String *)
| OResize (n : nat)                  (* resize(s, n) *)
| ORem (v : list byte)               (* rem(s, $S(v)) *)
| OMem (v : list byte)               (* mem(s, $S(v)) *)
| OCmp (v : list byte)               (* cmp(s, $S(v)) *)
| OEq (v : list byte)                (* eq(s, $S(v)) *)
| OLen                               (* len(s) *)
| OCStr                              (* c_str(s) *)
| OHash                              (* hash(s) *)
| OPrint (pos : nat) (ps : list piece)   (* print_to(s, pos, fmt, args...) *)
(* the String itself as the argument *)
| OAssignSelf                        (* assign(s, s) *)
| OConcatSelf                        (* concat(s, s) / append(s, s) *)
| ORemSelf                           (* rem(s, s) *)
| OMemSelf                           (* mem(s, s) *)
| OCmpSelf                           (* cmp(s, s) *)
| OEqSelf                            (* eq(s, s) *)
| OCopy.                             (* s = assign(alloc(String), s), the original is deleted *)

(* ------------------------------------------------------------------ list helpers *)

(* strncmp(n, h, strlen(n)) == 0 : n is a prefix of h *)
Fixpoint prefixb (n h : list byte) : bool :=
  match n, h with
  | [], _ => true
  | _ :: _, [] => false
  | a :: n', b :: h' => (a =? b) && prefixb n' h'
  end.

(* strstr(h, n): offset of the first occurrence, scanning from the left *)
Fixpoint find_sub (n h : list byte) : option nat :=
  if prefixb n h then Some 0
  else match h with
       | [] => None
       | _ :: h' => option_map S (find_sub n h')
       end.

(* strcmp on unsigned bytes: sign only *)
Fixpoint str_compare (a b : list byte) : comparison :=
  match a, b with
  | [], [] => Eq
  | [], _ :: _ => Lt
  | _ :: _, [] => Gt
  | x :: a', y :: b' => match Nat.compare x y with Eq => str_compare a' b' | c => c end
  end.

(* ------------------------------------------------------------------ decimal rendering ("%li") *)

Definition digit_char (d : N) : byte := 48 + N.to_nat d.

Fixpoint dec_digits (fuel : nat) (n : N) (acc : list byte) : list byte :=
  match fuel with
  | 0 => acc
  | S f => let acc' := digit_char (N.modulo n 10) :: acc in
           if (n <? 10)%N then acc' else dec_digits f (N.div n 10) acc'
  end.

Definition dec_of_N (n : N) : list byte := dec_digits (S (N.to_nat (N.log2 n))) n [].

Definition dec_of_Z (z : Z) : list byte :=
  match z with
  | Z0 => [48]
  | Zpos p => dec_of_N (Npos p)
  | Zneg p => 45 :: dec_of_N (Npos p)
  end.

Definition render (p : piece) : list byte :=
  match p with PLit t => t | PStr t => t | PInt z => dec_of_Z z | PSelf => [] end.

(* the text of a piece when the target currently reads cur *)
Definition piece_text (cur : list byte) (p : piece) : list byte :=
  match p with PSelf => cur | _ => render p end.

(* ------------------------------------------------------------------ Murmur (hash_data of src/Hash.c) *)

Definition W64 : N := 18446744073709551616%N.
Definition mm_m : N := 14313749767032793493%N.     (* 0xc6a4a7935bd1e995 *)
Definition mm_seed : N := 844048%N.                (* 0xCe110 *)
Definition mul64 (a b : N) : N := N.modulo (a * b) W64.
Definition mixr (k : N) : N := N.lxor k (N.shiftr k 47).

(* little-endian value of up to 8 bytes *)
Fixpoint le_bytes (d : list byte) : N :=
  match d with
  | [] => 0%N
  | c :: r => (N.of_nat c + 256 * le_bytes r)%N
  end.

Fixpoint mm_blocks (d : list byte) (h : N) : N * list byte :=
  match d with
  | a :: b :: c :: e :: f :: g :: i :: j :: rest =>
      let k := mul64 (mixr (mul64 (le_bytes [a; b; c; e; f; g; i; j]) mm_m)) mm_m in
      mm_blocks rest (mul64 (N.lxor h k) mm_m)
  | _ => (h, d)
  end.

Definition murmur64 (d : list byte) : N :=
  let h0 := N.lxor mm_seed (mul64 (N.of_nat (length d)) mm_m) in
  let '(h, tail) := mm_blocks d h0 in
  let h := match tail with [] => h | _ => mul64 (N.lxor h (le_bytes tail)) mm_m end in
  let h := mul64 (mixr h) mm_m in
  mixr h.

(* ------------------------------------------------------------------ libc on cells *)

(* realloc(p, n): the first min(n, old) bytes survive, the rest is indeterminate *)
Definition realloc (b : buffer) (n : nat) : buffer := firstn n b ++ repeat None (n - length b).

(* the C string starting at the allocation's first byte: None = an indeterminate byte is read
   or the scan leaves the allocation before a NUL is found *)
Fixpoint c_str (b : buffer) : option (list byte) :=
  match b with
  | [] => None
  | None :: _ => None
  | Some 0 :: _ => Some []
  | Some c :: r => option_map (cons c) (c_str r)
  end.

Definition c_strlen (b : buffer) : option nat := option_map (@length byte) (c_str b).

(* store the bytes d at offset off: None = write outside the allocation *)
Definition write (b : buffer) (off : nat) (d : list byte) : option buffer :=
  if off + length d <=? length b
  then Some (firstn off b ++ map Some d ++ skipn (off + length d) b)
  else None.

(* memmove(p + dst, p + src, cnt): cells are copied as they are *)
Definition memmove (b : buffer) (dst src cnt : nat) : option buffer :=
  if (src + cnt <=? length b) && (dst + cnt <=? length b)
  then Some (firstn dst b ++ firstn cnt (skipn src b) ++ skipn (dst + cnt) b)
  else None.

(* ------------------------------------------------------------------ String.c *)

Section Model.
  (* rules re-extracted from the source (Generated.v) *)
  Variable assign_alloc : nat -> nat.             (* realloc size in String_Assign, of strlen(val) *)
  Variable concat_alloc : nat -> nat -> nat.      (* ... String_Concat, of strlen(s->val), strlen(c_str(obj)) *)
  Variable resize_alloc : nat -> nat.             (* ... String_Resize, of n *)
  Variable format_alloc : nat -> nat -> nat.      (* ... String_Format_To, of pos, size *)
  Variable rem_count : Z -> Z -> Z -> Z.          (* memmove count in String_Rem, of strlen(self), strlen(pos), strlen(needle) *)
  Variable rem_checks : bool.                     (* String_Rem throws ValueError when strstr returns NULL *)
  (* true: String_Assign / String_Concat take the argument's length first and copy from
     c_str(obj) as it is AFTER the realloc (memmove / memcpy + terminator);
     false: strcpy(s->val, val) with val fetched before the realloc / strcat(s->val, c_str(obj)) *)
  Variable assign_self_safe : bool.
  Variable concat_self_safe : bool.
  (* true: String_Format_To renders into a temporary buffer before the realloc and copies it in;
     false: vsprintf(s->val + pos, fmt, va) after the realloc — an argument pointing into the old
     block is read after it was released *)
  Variable format_self_safe : bool.
  (* String_Resize as policy: whether n == strlen returns at once (no realloc); which of the two
     paths runs after the realloc (true: val[n] = 0; false: memset(val + m, 0, fill n m)); the
     number of bytes zeroed from m on (over Z: a negative count is a size_t wrap-around) *)
  Variable resize_same_returns : bool.
  Variable resize_shrinks : nat -> nat -> bool.
  Variable resize_fill : Z -> Z -> Z.
  (* String_Format_To may render into a local buffer of format_cap bytes while it measures and
     use that text unless format_heap_when size cap says "render again into a heap temporary".
     No local buffer: cap = 0 and heap_when = true. *)
  Variable format_cap : nat.
  Variable format_heap_when : nat -> nat -> bool.

  (* String_New(self, args) with one argument: val = NULL, then String_Assign *)
  (* String_Assign: val = realloc(val, strlen(v)+1); strcpy(val, v) *)
  Definition m_assign (b : buffer) (v : list byte) : option buffer :=
    write (realloc b (assign_alloc (length v))) 0 (v ++ [0]).

  Definition m_new (v : list byte) : option buffer := m_assign [] v.

  (* String_New without arguments: val = calloc(1, 1) *)
  Definition m_new_empty : buffer := [Some 0].

  (* assign(s, s).  New shape: n = strlen(c_str(obj)); val = realloc(val, n+1);
     memmove(val, c_str(obj), n+1) with c_str(obj) = the new val.
     Old shape: val fetched before the realloc and read by strcpy after it — the block may have
     moved (use after free), and strcpy on identical pointers is an overlapping copy: undefined *)
  Definition m_assign_self (b : buffer) : option buffer :=
    if assign_self_safe then
      match c_strlen b with
      | None => None
      | Some n => memmove (realloc b (assign_alloc n)) 0 0 (n + 1)
      end
    else None.

  (* String_Concat.  New shape: n = strlen(val); m = strlen(v); val = realloc(val, n+m+1);
     memcpy(val+n, v, m); val[n+m] = 0.   Old shape: realloc(..); strcat(val, v) *)
  Definition m_concat (b : buffer) (v : list byte) : option buffer :=
    match c_strlen b with
    | None => None
    | Some n =>
        let b' := realloc b (concat_alloc n (length v)) in
        if concat_self_safe then write b' n (v ++ [0])
        else match c_strlen b' with              (* strcat looks for the terminator itself *)
             | None => None
             | Some n' => write b' n' (v ++ [0])
             end
    end.

  (* concat(s, s).  New shape: the source is the String's own (new) buffer, first n bytes.
     Old shape: strcat(val, val) overwrites the terminator it is looking for: undefined *)
  Definition m_concat_self (b : buffer) : option buffer :=
    if concat_self_safe then
      match c_strlen b with
      | None => None
      | Some n =>
          match memmove (realloc b (concat_alloc n n)) n 0 n with
          | None => None
          | Some b' => write b' (n + n) [0]
          end
      end
    else None.

  (* String_Resize: m = strlen; [n == m: return;] realloc(..); then either val[n] = 0 or
     memset(val + m, 0, fill) *)
  Definition m_resize (b : buffer) (n : nat) : option buffer :=
    match c_strlen b with
    | None => None
    | Some m =>
        if resize_same_returns && (n =? m) then Some b
        else
          let b' := realloc b (resize_alloc n) in
          if resize_shrinks n m then write b' n [0]
          else let f := resize_fill (Z.of_nat n) (Z.of_nat m) in
               if (f <? 0)%Z then None            (* size_t wrap-around: a memset of ~2^64 bytes *)
               else write b' m (repeat 0 (Z.to_nat f))
    end.

  (* String_Rem: pos = strstr(val, v); memmove(pos, pos+strlen(v), count) *)
  Definition m_rem (b : buffer) (v : list byte) : buffer * sout :=
    match c_str b with
    | None => (b, SCrash)
    | Some h =>
        match find_sub v h with
        | None => if rem_checks then (b, SRaise SValueError) else (b, SCrash)   (* strlen(NULL) *)
        | Some i =>
            let cnt := rem_count (Z.of_nat (length h)) (Z.of_nat (length h - i)) (Z.of_nat (length v)) in
            if (cnt <? 0)%Z then (b, SCrash)        (* size_t wrap-around: a move of ~2^64 bytes *)
            else match memmove b i (i + length v) (Z.to_nat cnt) with
                 | Some b' => (b', SUnit)
                 | None => (b, SCrash)
                 end
        end
    end.

  (* String_Format_To: size = vsnprintf(buf-or-NULL, cap, ..); the text is taken from the local
     buffer (which holds at most cap-1 characters and a NUL: copying size+1 bytes out of it when
     size+1 > cap reads past the array — undefined) or rendered into a heap temporary;
     realloc(pos+size+1); memcpy(val+pos, text, size+1) *)
  Definition m_format_to (b : buffer) (pos : nat) (text : list byte) : option buffer :=
    if format_heap_when (length text) format_cap || (length text + 1 <=? format_cap)
    then write (realloc b (format_alloc pos (length text))) pos (text ++ [0])
    else None.

  (* print_to_with: one format_to per piece of the format, the position advances.  The varargs
     are evaluated per piece: "%s" with the target itself passes the target's current buffer *)
  Fixpoint m_print_to (b : buffer) (pos : nat) (ps : list piece) : option (buffer * nat) :=
    match ps with
    | [] => Some (b, pos)
    | p :: r =>
        match (match p with
               | PSelf => if format_self_safe then c_str b else None
               | _ => Some (render p)
               end) with
        | None => None
        | Some text => match m_format_to b pos text with
                       | None => None
                       | Some b' => m_print_to b' (pos + length text) r
                       end
        end
    end.

  Definition lift (b : buffer) (r : option buffer) : buffer * sout :=
    match r with Some b' => (b', SUnit) | None => (b, SCrash) end.

  Definition obs (b : buffer) (f : list byte -> sout) : buffer * sout :=
    match c_str b with Some h => (b, f h) | None => (b, SCrash) end.

  Definition m_step (b : buffer) (o : sop) : buffer * sout :=
    match o with
    | OAssign v => lift b (m_assign b v)
    | OConcat v | OAppend v => lift b (m_concat b v)
    | OResize n => lift b (m_resize b n)
    | ORem v => m_rem b v
    | OMem v => obs b (fun h => SBool (match find_sub v h with Some _ => true | None => false end))
    | OCmp v => obs b (fun h => SSign (str_compare h v))
    | OEq v => obs b (fun h => SBool (match str_compare h v with Eq => true | _ => false end))
    | OLen => obs b (fun h => SNat (length h))
    | OCStr => obs b SChars
    | OHash => obs b (fun h => SHash (murmur64 h))
    | OPrint pos ps => match m_print_to b pos ps with
                       | Some (b', p) => (b', SNat p)
                       | None => (b, SCrash)
                       end
    | OAssignSelf => lift b (m_assign_self b)
    | OConcatSelf => lift b (m_concat_self b)
    (* rem/mem/cmp/eq with the String itself: the argument is read in place, nothing moves
       before the last read *)
    | ORemSelf => match c_str b with Some h => m_rem b h | None => (b, SCrash) end
    | OMemSelf => obs b (fun h => SBool (match find_sub h h with Some _ => true | None => false end))
    | OCmpSelf => obs b (fun h => SSign (str_compare h h))
    | OEqSelf => obs b (fun h => SBool (match str_compare h h with Eq => true | _ => false end))
    (* a fresh object (val = NULL) assigned from this one; this one's buffer is freed *)
    | OCopy => match c_str b with
               | Some h => match m_assign [] h with Some b' => (b', SUnit) | None => (b, SCrash) end
               | None => (b, SCrash)
               end
    end.

  (* a history: stops at the first crash (nothing is defined after undefined behaviour) *)
  Fixpoint m_run (b : buffer) (ops : list sop) : list sout * buffer :=
    match ops with
    | [] => ([], b)
    | o :: r => let '(b', out) := m_step b o in
                match out with
                | SCrash => ([SCrash], b')
                | _ => let '(outs, bf) := m_run b' r in (out :: outs, bf)
                end
    end.
End Model.

(* ------------------------------------------------------------------ specification: abstract strings *)

(* the C library applied to the abstract string *)
Definition occurs_at (v s : list byte) (i : nat) : bool := prefixb v (skipn i s).

(* offsets 0 .. |s| tried in order *)
Definition first_occ (v s : list byte) : option nat :=
  find (occurs_at v s) (seq 0 (S (length s))).

(* print_to(s, pos, fmt, ...), piece by piece: the text replaces everything from pos on; a position
   behind the terminator leaves the C string as it is (the text lands behind the NUL); a format
   without any piece makes no format_to call at all.  Returns the new string and position. *)
Fixpoint spec_print (s : list byte) (pos : nat) (ps : list piece) : list byte * nat :=
  match ps with
  | [] => (s, pos)
  | p :: r => let text := piece_text s p in
              spec_print (if pos <=? length s then firstn pos s ++ text else s) (pos + length text) r
  end.

Definition spec_step (s : list byte) (o : sop) : list byte * sout :=
  match o with
  | OAssign v => (v, SUnit)
  | OConcat v | OAppend v => (s ++ v, SUnit)
  | OResize n => (firstn n s, SUnit)
  | ORem v => match first_occ v s with
              | Some i => (firstn i s ++ skipn (i + length v) s, SUnit)
              | None => (s, SRaise SValueError)
              end
  | OMem v => (s, SBool (existsb (occurs_at v s) (seq 0 (S (length s)))))
  | OCmp v => (s, SSign (str_compare s v))
  | OEq v => (s, SBool (if list_eq_dec Nat.eq_dec s v then true else false))
  | OLen => (s, SNat (length s))
  | OCStr => (s, SChars s)
  | OHash => (s, SHash (murmur64 s))
  | OPrint pos ps => (fst (spec_print s pos ps), SNat (snd (spec_print s pos ps)))
  | OAssignSelf => (s, SUnit)
  | OConcatSelf => (s ++ s, SUnit)
  | ORemSelf => ([], SUnit)
  | OMemSelf => (s, SBool true)
  | OCmpSelf => (s, SSign Eq)
  | OEqSelf => (s, SBool true)
  | OCopy => (s, SUnit)
  end.

Fixpoint spec_run (s : list byte) (ops : list sop) : list sout * list byte :=
  match ops with
  | [] => ([], s)
  | o :: r => let '(s', out) := spec_step s o in
              let '(outs, sf) := spec_run s' r in (out :: outs, sf)
  end.

(* arguments the property quantifies over: C strings, i.e. NUL-free byte lists *)
Definition nulfree (v : list byte) : Prop := Forall (fun c => c <> 0) v.

Definition piece_ok (p : piece) : Prop :=
  match p with PLit t | PStr t => nulfree t | PInt _ | PSelf => True end.

Definition op_ok (o : sop) : Prop :=
  match o with
  | OAssign v | OConcat v | OAppend v | ORem v | OMem v | OCmp v | OEq v => nulfree v
  | OPrint _ ps => Forall piece_ok ps
  | _ => True
  end.

(* representation: the allocation starts with the characters and their terminator *)
Definition repr (b : buffer) (s : list byte) : Prop :=
  nulfree s /\ exists tail, b = map Some s ++ Some 0 :: tail.
