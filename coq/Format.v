(* Format.v — executable model of the print side of src/Show.c (print_to_with, show_to), of the
   two sinks src/String.c String_Format_To and src/File.c File_Format_To, and of the container
   Show functions (Array_Show, List_Show, Tuple_Show, Table_Show).  Property C14.  NO proofs here.

   Bytes are natural numbers (< 256); a format text is the list of its bytes WITHOUT the
   terminating NUL.  Every access of the scanner to the format text goes through [rd] (index
   explicit, [None] = index beyond the NUL = outside the format text) and every access to the
   piece buffer fmt_buf goes through [buf_put] (size explicit): an access outside yields [Crash].
   "Never reads or writes outside the format text" is therefore the theorem "no Crash".

   libc's rendering of ONE specification applied to one C value is a Section variable [render]
   (an oracle: vsnprintf is not modelled); [None] stands for a negative return value.
   The character sets, the `fmt += 2`, and the buffer size come from Generated.v. *)
From Coq Require Import List Arith Bool.
From CelloV Require Import Generated.
Import ListNotations.

Definition byte := nat.
Definition PCT : byte := 37.      (* '%' *)
Definition DOLLAR : byte := 36.   (* '$' *)
Definition CH_s : byte := 115.
Definition CH_c : byte := 99.
Definition CH_p : byte := 112.

Definition memb (c : byte) (l : list byte) : bool := existsb (Nat.eqb c) l.

(* strchr(set, c) != NULL.  The terminator belongs to the string: strchr(set, '\0') is not NULL. *)
Definition strchr_hit (set : list byte) (c : byte) : bool := (c =? 0) || memb c set.

(* the test selecting one arm of the conversion dispatch of print_to_with.  Two source forms:
     if (strchr("diouxX", *fmt)) { ... }     the NUL hits too           (print_dispatch_nul_hits = true)
     switch ( *fmt ) { case 'd': case 'i': ... } the NUL goes to default  (print_dispatch_nul_hits = false)
   A switch runs exactly one arm; its labels are pairwise distinct (C requires it), so it is the chain of
   independent tests over the label sets. *)
Definition arm_hit (set : list byte) (c : byte) : bool := (print_dispatch_nul_hits && (c =? 0)) || memb c set.

Inductive res (A : Type) : Type :=
| Ok (a : A)
| Crash          (* an index outside the format text / the piece buffer was touched *)
| Fuel.          (* fuel exhausted (never happens: see FormatProofs.no_fuel) *)
Arguments Ok {A} a.
Arguments Crash {A}.
Arguments Fuel {A}.

(* *(fmt + i) for a text of strlen = length fmt: indices 0..length fmt are inside (the last is the NUL) *)
Definition rd (fmt : list byte) (i : nat) : option byte :=
  if i <? length fmt then Some (nth i fmt 0)
  else if i =? length fmt then Some 0
  else None.

(* while ( *fmt isnt NUL and *fmt isnt PCT ) { fmt++; } *)
Fixpoint skip_lit (fmt : list byte) (i fuel : nat) : res nat :=
  match fuel with
  | 0 => Fuel
  | S f =>
    match rd fmt i with
    | None => Crash
    | Some c => if (c =? 0) || (c =? PCT) then Ok i else skip_lit fmt (S i) f
    end
  end.

(* while (not strchr("diuoxXfFeEgGaAxcsp$", *fmt)) { fmt++; } *)
Fixpoint skip_spec (convs : list byte) (fmt : list byte) (i fuel : nat) : res nat :=
  match fuel with
  | 0 => Fuel
  | S f =>
    match rd fmt i with
    | None => Crash
    | Some c => if strchr_hit convs c then Ok i else skip_spec convs fmt (S i) f
    end
  end.

(* the bytes of a C string: up to the first NUL *)
Fixpoint cstr (l : list byte) : list byte :=
  match l with
  | [] => []
  | c :: r => if c =? 0 then [] else c :: cstr r
  end.

(* the capacity of the piece buffer fmt_buf:
     char* fmt_buf = malloc(strlen(fmt)+EXTRA)                                    (print_buf_stack_cap = 0)
     char stack[CAP]; fmt_buf = strlen(fmt)+TEST <= CAP ? stack : malloc(strlen(fmt)+EXTRA)
   EXTRA, CAP, TEST are read from the source (print_buf_extra, print_buf_stack_cap, print_buf_stack_test) *)
Definition bufsize (fmt : list byte) : nat :=
  if length fmt + print_buf_stack_test <=? print_buf_stack_cap
  then print_buf_stack_cap
  else length fmt + print_buf_extra.

(* memcpy(fmt_buf, start, n); fmt_buf[n] = '\0';
   reads fmt[start .. start+n-1], writes fmt_buf[0 .. n]; the result is the C string in fmt_buf *)
Definition buf_put (fmt : list byte) (start n : nat) : option (list byte) :=
  if (start + n <=? length fmt + 1) && (n <? bufsize fmt)
  then Some (cstr (firstn n (skipn start (fmt ++ [0]))))
  else None.

Inductive token : Type :=
| TEnd                                   (* *fmt is '\0': leave the loop *)
| TLit (piece : list byte)               (* literal run, copied to fmt_buf *)
| TPct                                   (* "%%" *)
| TSpec (piece : list byte) (c : byte)   (* one specification (copied to fmt_buf) and its last character *)
| TBad.                                  (* throw(FormatError, "Invalid Format String!") *)

Definition scan_fuel (fmt : list byte) : nat := length fmt + 2.

(* the scanning part of one iteration of the loop of print_to_with, started with fmt at index i;
   result: the token and the index after it *)
Definition next_token (fmt : list byte) (i : nat) : res (token * nat) :=
  match rd fmt i with
  | None => Crash
  | Some c0 =>
    if c0 =? 0 then Ok (TEnd, i) else
    match skip_lit fmt i (scan_fuel fmt) with
    | Crash => Crash
    | Fuel => Fuel
    | Ok j =>
      if negb (j =? i) then
        match buf_put fmt i (j - i) with
        | None => Crash
        | Some p => Ok (TLit p, j)
        end
      else
        let spec (_ : unit) :=
          match skip_spec print_convs fmt i (scan_fuel fmt) with
          | Crash => Crash
          | Fuel => Fuel
          | Ok j' =>
            if negb (j' =? i) then
              match buf_put fmt i (j' - i + 1), rd fmt j' with
              | Some p, Some c => Ok (TSpec p c, j' + 1)
              | _, _ => Crash
              end
            else Ok (TBad, i)
          end in
        if c0 =? PCT then
          match rd fmt (i + 1) with
          | None => Crash
          | Some c1 => if c1 =? PCT then Ok (TPct, i + print_pct_skip) else spec tt
          end
        else spec tt
    end
  end.

(* the scanner alone: the sequence of pieces print_to_with cuts a format text into *)
Fixpoint scan_loop (fmt : list byte) (i fuel : nat) : res (list token) :=
  match fuel with
  | 0 => Fuel
  | S f =>
    match next_token fmt i with
    | Crash => Crash
    | Fuel => Fuel
    | Ok (TEnd, _) => Ok []
    | Ok (TBad, _) => Ok [TBad]
    | Ok (t, j) =>
      match scan_loop fmt j f with
      | Ok ts => Ok (t :: ts)
      | r => r
      end
    end
  end.

(* at most length fmt tokens of at least one byte, the final test of the NUL, and one more
   iteration in which a malformed text whose last specification swallowed the NUL is left *)
Definition loop_fuel (fmt : list byte) : nat := length fmt + 2.

Definition scan (fmt : list byte) : res (list token) := scan_loop fmt 0 (loop_fuel fmt).

(* ------------------------------------------------------------------------------------------ *)
(* sinks *)

Inductive sink : Type :=
| SString (s : list byte)     (* heap String: the bytes before the terminating NUL *)
| SFile (s : list byte).      (* File: everything written so far *)

(* String_Format_To: size = vsnprintf(NULL,0,..); val = realloc(val, pos+size+1); vsprintf(val+pos,..)
     pos <= length: the old bytes before pos, then the text (and its NUL)
     pos >  length: the text lands behind the old NUL; the C string is unchanged
   File_Format_To: vfprintf appends, pos is ignored.  Both return the number of bytes written. *)
Definition sink_write (k : sink) (pos : nat) (text : list byte) : sink * nat :=
  match k with
  | SString s => (SString (if pos <=? length s then firstn pos s ++ text else s), length text)
  | SFile s => (SFile (s ++ text), length text)
  end.

Definition sink_bytes (k : sink) : list byte :=
  match k with SString s => s | SFile s => s end.

(* which C value of the argument is handed to format_to *)
Inductive ckind : Type := KInt | KFloat | KStr | KPtr.    (* c_int(a) | c_float(a) | c_str(a) | a *)

(* calls made on the sink (what a recording sink sees) *)
Inductive call : Type :=
| CFmt (pos : nat) (piece : list byte) (arg : option (ckind * nat))   (* format_to(out,pos,piece[,value of argument #n]) *)
| CShow (pos : nat) (arg : nat).                                      (* show_to(argument #n, out, pos) *)

Record pstate : Type := mkP {
  p_sink : sink;
  p_pos : nat;
  p_idx : nat;             (* size_t index: next argument *)
  p_calls : list call      (* most recent first *)
}.

Inductive outcome : Type :=
| ODone (st : pstate)      (* returned p_pos *)
| ORaise (st : pstate)     (* FormatError thrown; st = what had been done before *)
| OCrash                   (* access outside the format text or the piece buffer *)
| OFuel.

Section Print.
Variable V : Type.                                              (* argument objects *)
Variable render : list byte -> ckind -> V -> option (list byte).   (* libc: one specification, one C value *)
Variable show : V -> list byte.                                 (* the text show_to writes for an object *)

(* format_to(out, pos, piece [, value]); off < 0 -> None *)
Definition do_format (piece : list byte) (arg : option (ckind * V)) (text : option (list byte)) (st : pstate)
  : option pstate :=
  match text with
  | None => None
  | Some t =>
    let (k', off) := sink_write (p_sink st) (p_pos st) t in
    Some (mkP k' (p_pos st + off) (p_idx st)
              (CFmt (p_pos st) piece
                    (match arg with None => None | Some (kd, _) => Some (kd, p_idx st - 1) end)
               :: p_calls st))
  end.

(* pos = show_to(a, out, pos) : no check of the result *)
Definition do_show (a : V) (st : pstate) : option pstate :=
  let t := show a in
  let (k', off) := sink_write (p_sink st) (p_pos st) t in
  Some (mkP k' (p_pos st + off) (p_idx st) (CShow (p_pos st) (p_idx st - 1) :: p_calls st)).

(* `if (cond) { ... }` in a sequence of statements, None = an exception left the sequence;
   the state reached so far is kept in the second component *)
Definition step_if (cond : bool) (f : pstate -> option pstate) (s : pstate + pstate) : pstate + pstate :=
  match s with
  | inr st => inr st
  | inl st => if cond then match f st with Some st' => inl st' | None => inr st end else inl st
  end.

(* the body executed for one token; inl = continue, inr = FormatError thrown *)
Definition exec (t : token) (args : list V) (st : pstate) : pstate + pstate :=
  match t with
  | TEnd => inl st
  | TBad => inr st
  | TLit p => step_if true (do_format p None (Some p)) (inl st)
  | TPct => step_if true (do_format [PCT; PCT] None (Some [PCT])) (inl st)
  | TSpec p c =>
    match nth_error args (p_idx st) with
    | None => inr st                        (* index >= len(args): "Not enough arguments to Format String!" *)
    | Some a =>
      let st1 := mkP (p_sink st) (p_pos st) (S (p_idx st)) (p_calls st) in
      let fmt_with kd := do_format p (Some (kd, a)) (render p kd a) in
      step_if (c =? CH_p) (fmt_with KPtr)
      (step_if (c =? CH_c) (fmt_with KInt)
      (step_if (arm_hit print_float_convs c) (fmt_with KFloat)
      (step_if (arm_hit print_int_convs c) (fmt_with KInt)
      (step_if (c =? CH_s) (fmt_with KStr)
      (step_if (c =? DOLLAR) (do_show a)
      (inl st1))))))
    end
  end.

Fixpoint print_loop (fmt : list byte) (args : list V) (i : nat) (st : pstate) (fuel : nat) : outcome :=
  match fuel with
  | 0 => OFuel
  | S f =>
    match next_token fmt i with
    | Crash => OCrash
    | Fuel => OFuel
    | Ok (TEnd, _) => ODone st
    | Ok (t, j) =>
      match exec t args st with
      | inr st' => ORaise st'
      | inl st' => print_loop fmt args j st' f
      end
    end
  end.

(* int print_to_with(var out, int pos, const char* fmt, var args) *)
Definition print_to_from (st : pstate) (fmt : list byte) (args : list V) : outcome :=
  print_loop fmt args 0 st (loop_fuel fmt).

Definition print_to (k : sink) (pos : nat) (fmt : list byte) (args : list V) : outcome :=
  print_to_from (mkP k pos 0 []) fmt args.

End Print.

(* ------------------------------------------------------------------------------------------ *)
(* the grammar of well-formed format strings (the property's quantifier) *)

Inductive item : Type :=
| Lit (s : list byte)
| Percent
| Conv (flags width prec len : list byte) (c : byte)
| ShowDollar.

Definition conv_mid (flags width prec len : list byte) : list byte := flags ++ width ++ prec ++ len.

Definition unparse_item (it : item) : list byte :=
  match it with
  | Lit s => s
  | Percent => [PCT; PCT]
  | Conv f w p l c => PCT :: conv_mid f w p l ++ [c]
  | ShowDollar => [PCT; DOLLAR]
  end.

Definition unparse (items : list item) : list byte := concat (map unparse_item items).

(* "-+ #0" | digits | '.' digits | h hh l ll j z t L *)
Definition flag_chars : list byte := [45; 43; 32; 35; 48].
Definition digit_chars : list byte := [48; 49; 50; 51; 52; 53; 54; 55; 56; 57].
Definition length_mods : list (list byte) :=
  [[]; [104]; [104; 104]; [108]; [108; 108]; [106]; [122]; [116]; [76]].
(* d i u o x X c s f F e E g G a A p — the conversions named by the property *)
Definition std_convs : list byte :=
  [100; 105; 117; 111; 120; 88; 99; 115; 102; 70; 101; 69; 103; 71; 97; 65; 112].

Definition all_in (l set : list byte) : bool := forallb (fun c => memb c set) l.
Definition list_eqb (a b : list byte) : bool :=
  (length a =? length b) && forallb (fun p => fst p =? snd p) (combine a b).

Definition wf_prec (p : list byte) : bool :=
  match p with
  | [] => true
  | d :: r => (d =? 46) && all_in r digit_chars
  end.

Definition wf_item (it : item) : bool :=
  match it with
  | Lit s => negb (length s =? 0) && forallb (fun c => negb (c =? 0) && negb (c =? PCT)) s
  | Percent => true
  | Conv f w p l c =>
    all_in f flag_chars && all_in w digit_chars && wf_prec p
    && existsb (list_eqb l) length_mods && memb c std_convs
  | ShowDollar => true
  end.

Definition is_lit (it : item) : bool := match it with Lit _ => true | _ => false end.

(* two literals never touch: their concatenation is one literal run *)
Fixpoint wf_items (items : list item) : bool :=
  match items with
  | [] => true
  | it :: rest =>
    wf_item it
    && (match rest with it' :: _ => negb (is_lit it && is_lit it') | [] => true end)
    && wf_items rest
  end.

(* which C value the property assigns to a conversion *)
Definition conv_kind (c : byte) : ckind :=
  if memb c [100; 105; 117; 111; 120; 88; 99] then KInt
  else if memb c [102; 70; 101; 69; 103; 71; 97; 65] then KFloat
  else if c =? CH_s then KStr else KPtr.

Definition consumes (it : item) : bool :=
  match it with Conv _ _ _ _ _ | ShowDollar => true | _ => false end.

Definition tok_of (it : item) : token :=
  match it with
  | Lit s => TLit s
  | Percent => TPct
  | Conv f w p l c => TSpec (unparse_item it) c
  | ShowDollar => TSpec [PCT; DOLLAR] DOLLAR
  end.

Section Spec.
Variable V : Type.
Variable render : list byte -> ckind -> V -> option (list byte).
Variable show : V -> list byte.

(* the text one item stands for, given the arguments not yet used; None = printf fails *)
Definition item_text (it : item) (a : option V) : option (list byte) :=
  match it, a with
  | Lit s, _ => Some s
  | Percent, _ => Some [PCT]
  | Conv f w p l c, Some v => render (unparse_item it) (conv_kind c) v
  | ShowDollar, Some v => Some (show v)
  | _, None => None
  end.

(* the texts of all items, left to right; None when the arguments run out (or printf fails) *)
Fixpoint texts (items : list item) (args : list V) : option (list (list byte)) :=
  match items with
  | [] => Some []
  | it :: rest =>
    if consumes it then
      match args with
      | [] => None
      | a :: args' =>
        match item_text it (Some a), texts rest args' with
        | Some t, Some ts => Some (t :: ts)
        | _, _ => None
        end
      end
    else
      match item_text it None, texts rest args with
      | Some t, Some ts => Some (t :: ts)
      | _, _ => None
      end
  end.

Definition nconsumers (items : list item) : nat := length (filter consumes items).

End Spec.

(* ------------------------------------------------------------------------------------------ *)
(* Show of the sequence containers, written with print_to as in the C text:
     pos = print_to(output, pos, OPEN, self);
     for each item: pos = print_to(output, pos, "%$", item); if (not last) pos = print_to(output, pos, ", ");
     return print_to(output, pos, CLOSE);
   Array: OPEN = "<'Array' At 0x%p [" CLOSE = "]>"; List alike; Tuple: OPEN = "tuple(" CLOSE = ")". *)
Section ContainerShow.
Variable V : Type.
Variable render : list byte -> ckind -> V -> option (list byte).
Variable show : V -> list byte.

Definition then_print (o : outcome) (fmt : list byte) (args : list V) : outcome :=
  match o with
  | ODone st => print_to_from V render show (mkP (p_sink st) (p_pos st) 0 (p_calls st)) fmt args
  | other => other
  end.

Definition SEP : list byte := [44; 32].   (* ", " *)

Fixpoint show_elems (o : outcome) (elems : list V) : outcome :=
  match elems with
  | [] => o
  | e :: rest =>
    let o1 := then_print o [PCT; DOLLAR] [e] in
    let o2 := match rest with [] => o1 | _ => then_print o1 SEP [] end in
    show_elems o2 rest
  end.

Definition show_seq (open close : list byte) (self : V) (elems : list V) (k : sink) (pos : nat) : outcome :=
  let o0 := print_to V render show k pos open [self] in
  then_print (show_elems o0 elems) close [].

(* Table_Show / Tree_Show:  OPEN = "<'Table' At 0x%p {", per entry print_to(output, pos, "%$:%$", key, val),
   ", " between entries, CLOSE = "}>".  (Table_Show decides "not last" by j < Table_Len(t)-1 with j the number
   of entries printed so far; with the Table invariant "occupied slots = Table_Len" that is "entries remain".) *)
Definition KV : list byte := [PCT; DOLLAR; 58; PCT; DOLLAR].   (* "%$:%$" *)

Fixpoint show_pairs (o : outcome) (elems : list (V * V)) : outcome :=
  match elems with
  | [] => o
  | (key, val) :: rest =>
    let o1 := then_print o KV [key; val] in
    let o2 := match rest with [] => o1 | _ => then_print o1 SEP [] end in
    show_pairs o2 rest
  end.

Definition show_map (open close : list byte) (self : V) (elems : list (V * V)) (k : sink) (pos : nat) : outcome :=
  let o0 := print_to V render show k pos open [self] in
  then_print (show_pairs o0 elems) close [].

End ContainerShow.
