(* Properties_C14.v — property C14: print formatting equals C formatting, on every sink, with exact
   positions.  Only statements closed by `exact`, each followed by Print Assumptions.
   Model: Format.v (print_to = print_to_with of src/Show.c over byte lists with explicit indices;
   sinks = String_Format_To / File_Format_To; render/show = libc's rendering of one specification and
   the text show_to writes: Section variables, i.e. the theorems hold for EVERY such function).
   Grammar: Format.item / wf_items / unparse; texts = the text each item stands for. *)
From CelloV Require Import Generated Format FormatProofs.

(* data re-extracted from the C source is admissible: the skip after "%%" is 2; the piece buffer (heap of
   strlen+print_buf_extra bytes, or a stack array when the format is short) has room for the whole format text and
   a NUL, for EVERY format text; String_Format_To reserves the NUL; when it takes short texts from the stack buffer
   its measuring vsnprintf wrote into (size < string_fmt_stack_limit), that buffer of string_fmt_stack_cap bytes
   holds the complete text and its NUL, for every size; File_Format_To returns vfprintf's count; print_to_with
   consists of accepted statement forms *)
Theorem source_constants :
  print_pct_skip = 2 /\ (1 <= print_buf_extra /\ forall fmt, length fmt < bufsize fmt)
  /\ string_fmt_room = 1 /\ file_fmt_returns_count = true /\ print_shape_ok = true
  /\ (forall size, size < string_fmt_stack_limit -> size + string_fmt_room <= string_fmt_stack_cap).
Proof.
  exact (conj FormatProofs.pct_skip_is_2 (conj (conj FormatProofs.buf_extra_ge_1 FormatProofs.bufsize_gt)
          (conj (proj1 FormatProofs.source_shape) (conj (proj1 (proj2 FormatProofs.source_shape))
            (conj (proj2 (proj2 FormatProofs.source_shape)) FormatProofs.stack_buffer_holds_text))))).
Qed.
Print Assumptions source_constants.

(* the two accepted source forms of the "%%" test (with and without the `*fmt is '%'` half) are one test *)
Theorem pct_test_guard_redundant : forall fmt i fuel c0,
  rd fmt i = Some c0 -> Nat.eqb c0 0 = false -> skip_lit fmt i fuel = Ok i -> Nat.eqb c0 PCT = true.
Proof. exact FormatProofs.pct_guard_redundant. Qed.
Print Assumptions pct_test_guard_redundant.

(* every conversion character the property names ends a specification in the scanner of Show.c *)
Theorem conversions_recognised : List.forallb (fun c => memb c print_convs) std_convs = true.
Proof. exact FormatProofs.std_convs_recognised. Qed.
Print Assumptions conversions_recognised.

(* the scanner cuts the text of a well-formed item list back into exactly these items: literal runs,
   %%, one specification at a time (piece = '%' .. conversion character), wherever they stand
   (very start, very end, adjacent) *)
Theorem scanner_recovers_items : forall items,
  wf_items items = true -> scan (unparse items) = Ok (List.map tok_of items).
Proof. exact FormatProofs.scan_unparse. Qed.
Print Assumptions scanner_recovers_items.

Example scanner_recovers_items_nonvacuous :
  (wf_items ex_items = true /\ unparse ex_items = ex_fmt /\ ex_items <> nil) /\ scan ex_fmt = Ok (List.map tok_of ex_items).
Proof. exact (conj FormatProofs.ex_wf FormatProofs.ex_scan). Qed.

(* String sink, start position inside the String: the old text before pos, then the concatenation of
   the items' texts; returned position = pos + number of bytes written *)
Theorem print_to_string : forall (V : Type) (render : list byte -> ckind -> V -> option (list byte)) (show : V -> list byte)
    items args s pos ts,
  wf_items items = true -> texts V render show items args = Some ts -> items <> nil -> pos <= length s ->
  exists st, print_to V render show (SString s) pos (unparse items) args = ODone st
    /\ p_sink st = SString (List.firstn pos s ++ List.concat ts)
    /\ p_pos st = pos + length (List.concat ts).
Proof. exact FormatProofs.print_string. Qed.
Print Assumptions print_to_string.

Example print_to_string_nonvacuous :
  texts nat ex_render ex_show ex_items (cons 1 (cons 2 (cons 3 (cons 4 nil)))) <> None
  /\ exists st, print_to nat ex_render ex_show (SString (cons 104 (cons 105 (cons 33 nil)))) 2 ex_fmt (cons 1 (cons 2 (cons 3 (cons 4 nil)))) = ODone st.
Proof. exact FormatProofs.ex_string_bundle. Qed.

(* String sink, start position behind the end: the text lands behind the old NUL (inside the grown
   buffer), the C string is unchanged, the returned position still counts the bytes *)
Theorem print_to_string_beyond : forall (V : Type) (render : list byte -> ckind -> V -> option (list byte)) (show : V -> list byte)
    items args s pos ts,
  wf_items items = true -> texts V render show items args = Some ts -> length s < pos ->
  exists st, print_to V render show (SString s) pos (unparse items) args = ODone st
    /\ p_sink st = SString s
    /\ p_pos st = pos + length (List.concat ts).
Proof. exact FormatProofs.print_string_beyond. Qed.
Print Assumptions print_to_string_beyond.

(* File sink: the same bytes are appended, pos is ignored by the sink and the result is pos + count *)
Theorem print_to_file : forall (V : Type) (render : list byte -> ckind -> V -> option (list byte)) (show : V -> list byte)
    items args s pos ts,
  wf_items items = true -> texts V render show items args = Some ts ->
  exists st, print_to V render show (SFile s) pos (unparse items) args = ODone st
    /\ p_sink st = SFile (s ++ List.concat ts)
    /\ p_pos st = pos + length (List.concat ts).
Proof. exact FormatProofs.print_file. Qed.
Print Assumptions print_to_file.

(* exact positions: the sink is called once per item, in order, each call at the start position plus
   the length of the texts before it, with the item's own text as the piece and the argument in turn *)
Theorem print_to_calls_exact : forall (V : Type) (render : list byte -> ckind -> V -> option (list byte)) (show : V -> list byte)
    items args k pos ts,
  wf_items items = true -> texts V render show items args = Some ts ->
  exists st, print_to V render show k pos (unparse items) args = ODone st
    /\ List.rev (p_calls st) = calls_of items ts pos 0.
Proof. exact FormatProofs.print_to_calls. Qed.
Print Assumptions print_to_calls_exact.

(* the empty format writes nothing and returns pos *)
Theorem print_to_empty : forall (V : Type) (render : list byte -> ckind -> V -> option (list byte)) (show : V -> list byte)
    k pos args, print_to V render show k pos nil args = ODone (mkP k pos 0 nil).
Proof. exact FormatProofs.print_empty. Qed.
Print Assumptions print_to_empty.

(* fewer arguments than specifications/%$ : FormatError, on every sink, at every position *)
Theorem too_few_arguments_raise : forall (V : Type) (render : list byte -> ckind -> V -> option (list byte)) (show : V -> list byte)
    items args k pos,
  wf_items items = true -> length args < nconsumers items ->
  exists st, print_to V render show k pos (unparse items) args = ORaise st.
Proof. exact FormatProofs.too_few_arguments. Qed.
Print Assumptions too_few_arguments_raise.

Example too_few_arguments_nonvacuous :
  length (cons 1 (cons 2 nil)) < nconsumers ex_items
  /\ exists st, print_to nat ex_render ex_show (SFile nil) 0 ex_fmt (cons 1 (cons 2 nil)) = ORaise st
       /\ p_sink st = SFile (cons 1 (cons 1 (cons 2 (cons 2 (cons 32 (cons 97 (cons 37 nil))))))).
Proof. exact FormatProofs.ex_few. Qed.

(* ... and at that moment exactly the items before the first one left without argument have been
   written (the property only demands the exception; this states what the code does) *)
Theorem too_few_arguments_partial_output : forall (V : Type) (render : list byte -> ckind -> V -> option (list byte)) (show : V -> list byte)
    before it after args k pos ts,
  wf_items (before ++ it :: after) = true -> consumes it = true ->
  texts V render show before args = Some ts -> nconsumers before = length args ->
  exists st, print_to V render show k pos (unparse (before ++ it :: after)) args = ORaise st
    /\ p_sink st = write_all k pos ts
    /\ p_pos st = pos + length (List.concat ts).
Proof. exact FormatProofs.too_few_arguments_partial. Qed.
Print Assumptions too_few_arguments_partial_output.

Example too_few_arguments_partial_nonvacuous :
  wf_items (List.firstn 4 ex_items ++ ShowDollar :: List.skipn 5 ex_items) = true /\ consumes ShowDollar = true
  /\ texts nat ex_render ex_show (List.firstn 4 ex_items) (cons 1 (cons 2 nil))
     = Some (cons (cons 1 (cons 1 nil)) (cons (cons 2 (cons 2 nil)) (cons (cons 32 (cons 97 nil)) (cons (cons 37 nil) nil))))
  /\ nconsumers (List.firstn 4 ex_items) = length (cons 1 (cons 2 nil)).
Proof. exact FormatProofs.ex_partial_bundle. Qed.

(* FormatError is raised ONLY when some item has no text (arguments ran out, or libc failed) ... *)
Theorem print_to_raises_without_text : forall (V : Type) (render : list byte -> ckind -> V -> option (list byte)) (show : V -> list byte)
    items args k pos,
  wf_items items = true -> texts V render show items args = None ->
  exists st, print_to V render show k pos (unparse items) args = ORaise st.
Proof. exact FormatProofs.print_to_raise. Qed.
Print Assumptions print_to_raises_without_text.

(* ... and with enough arguments and a libc that does not fail every item has a text *)
Theorem enough_arguments_give_text : forall (V : Type) (render : list byte -> ckind -> V -> option (list byte)) (show : V -> list byte)
    items args,
  (forall p kd v, render p kd v <> None) -> nconsumers items <= length args ->
  exists ts, texts V render show items args = Some ts.
Proof. exact FormatProofs.texts_enough. Qed.
Print Assumptions enough_arguments_give_text.

(* never outside the format text or the piece buffer: every index the scanner reads is <= strlen(fmt)
   (rd yields None beyond, which makes the model Crash) and every write into fmt_buf is < its size
   (buf_put), whatever the arguments are and whatever libc returns *)
Theorem scanner_in_bounds : forall (V : Type) (render : list byte -> ckind -> V -> option (list byte)) (show : V -> list byte)
    items args k pos,
  wf_items items = true ->
  print_to V render show k pos (unparse items) args <> OCrash /\ print_to V render show k pos (unparse items) args <> OFuel.
Proof. exact FormatProofs.print_to_in_bounds. Qed.
Print Assumptions scanner_in_bounds.

(* the bound checks of the model are not vacuous: a write at or behind the capacity of the piece buffer is
   refused, a read behind the NUL is refused, and outside the grammar they fire: a lone '%' ends in Crash (with
   malloc(strlen+1) its NUL write overruns the buffer by one byte; with a roomier buffer the scanner walks past
   the terminator), and so does "a%" unless libc refuses "%" *)
Example scanner_in_bounds_needs_wellformed :
  (forall fmt start n, bufsize fmt <= n -> buf_put fmt start n = None)
  /\ (forall fmt i, length fmt < i -> rd fmt i = None)
  /\ (forall k pos a, print_to nat ex_render ex_show k pos (cons PCT nil) (cons a nil) = OCrash)
  /\ (andb (Nat.eqb print_buf_extra 1) (Nat.eqb print_buf_stack_cap 0) = true -> buf_put (cons PCT nil) 0 2 = None)
  /\ print_to nat (fun _ _ _ => Some nil) ex_show (SFile nil) 0 (cons 97 (cons PCT nil)) (cons 1 nil) = OCrash.
Proof.
  exact (conj FormatProofs.buf_put_refuses (conj FormatProofs.rd_beyond (conj FormatProofs.lone_percent_crashes
          (conj FormatProofs.lone_percent_overruns_tight_buffer (proj1 FormatProofs.trailing_percent_crashes))))).
Qed.

(* the loops of the model never run out of fuel, for ANY format text and arguments *)
Theorem model_fuel_adequate : forall (V : Type) (render : list byte -> ckind -> V -> option (list byte)) (show : V -> list byte)
    k pos fmt args,
  print_to V render show k pos fmt args <> OFuel /\ scan fmt <> Fuel.
Proof. exact (fun V render show k pos fmt args => conj (FormatProofs.print_to_no_fuel V render show k pos fmt args) (FormatProofs.scan_no_fuel fmt)). Qed.
Print Assumptions model_fuel_adequate.

(* %$ on a sequence container (Array_Show / List_Show / Tuple_Show: opener, then "%$" per element with
   ", " between, closer): exactly the opener's text, the elements' own show texts once each in
   iteration order joined by ", ", the closer's text *)
Theorem container_show_is_elements_show : forall (V : Type) (render : list byte -> ckind -> V -> option (list byte)) (show : V -> list byte)
    oi ci self elems k pos tops tcl,
  wf_items oi = true -> wf_items ci = true ->
  texts V render show oi (cons self nil) = Some tops -> texts V render show ci nil = Some tcl ->
  exists st, show_seq V render show (unparse oi) (unparse ci) self elems k pos = ODone st
    /\ p_sink st = write_all k pos (tops ++ sep_texts V show elems ++ tcl)
    /\ p_pos st = pos + length (List.concat tops ++ join SEP (List.map show elems) ++ List.concat tcl).
Proof. exact FormatProofs.show_seq_spec. Qed.
Print Assumptions container_show_is_elements_show.

Example container_show_nonvacuous :
  wf_items array_open = true /\ wf_items array_close = true
  /\ texts nat ex_render ex_show array_open (cons 9 nil) <> None /\ texts nat ex_render ex_show array_close nil <> None.
Proof. exact FormatProofs.ex_container_bundle. Qed.

(* %$ on a key/value container (Table_Show / Tree_Show: opener, "%$:%$" per entry with ", " between,
   closer): the entries' key and value show texts once each, in iteration order *)
Theorem map_show_is_entries_show : forall (V : Type) (render : list byte -> ckind -> V -> option (list byte)) (show : V -> list byte)
    oi ci self elems k pos tops tcl,
  wf_items oi = true -> wf_items ci = true ->
  texts V render show oi (cons self nil) = Some tops -> texts V render show ci nil = Some tcl ->
  exists st, show_map V render show (unparse oi) (unparse ci) self elems k pos = ODone st
    /\ p_sink st = write_all k pos (tops ++ pair_texts V show elems ++ tcl)
    /\ p_pos st = pos + length (List.concat tops
                                ++ join SEP (List.map (fun kv => (show (fst kv) ++ COLON ++ show (snd kv))%list) elems)
                                ++ List.concat tcl).
Proof. exact FormatProofs.show_map_spec. Qed.
Print Assumptions map_show_is_entries_show.

Example map_show_nonvacuous :
  wf_items table_open = true /\ wf_items table_close = true
  /\ texts nat ex_render ex_show table_open (cons 9 nil) <> None /\ texts nat ex_render ex_show table_close nil <> None.
Proof. exact (conj (proj1 FormatProofs.ex_table_bundle) (conj (proj1 (proj2 FormatProofs.ex_table_bundle))
        (conj (proj1 (proj2 (proj2 FormatProofs.ex_table_bundle))) (proj1 (proj2 (proj2 (proj2 FormatProofs.ex_table_bundle))))))). Qed.

(* the format strings of the built-in Show functions (taken from the C source on every run) are texts of
   well-formed item lists with the loop shape show_seq / show_map encode: the two container theorems
   apply to Array, List, Tuple, Table and Tree, and %$ of an Int / a Float is "%li" / "%f" of its C value *)
Theorem builtin_show_formats_wellformed :
  (show_format_ok array_open array_show_open /\ show_format_ok array_close array_show_close /\ array_show_shape_ok = true)
  /\ (show_format_ok list_open list_show_open /\ show_format_ok array_close list_show_close /\ list_show_shape_ok = true)
  /\ (show_format_ok tuple_open tuple_show_open /\ show_format_ok tuple_close tuple_show_close /\ tuple_show_shape_ok = true)
  /\ (show_format_ok table_open table_show_open /\ show_format_ok table_close table_show_close /\ table_show_shape_ok = true)
  /\ (show_format_ok tree_open tree_show_open /\ show_format_ok table_close tree_show_close /\ tree_show_shape_ok = true)
  /\ (show_format_ok int_show_items int_show_fmt /\ conv_kind 105 = KInt)
  /\ (show_format_ok float_show_items float_show_fmt /\ conv_kind 102 = KFloat).
Proof. exact FormatProofs.builtin_show_formats. Qed.
Print Assumptions builtin_show_formats_wellformed.
