(* Properties_C14.v — property C14: print formatting equals C formatting, on every sink, with exact
   positions.  Only statements closed by `exact`, each followed by Print Assumptions. *)
From CelloV Require Import Generated Format FormatProofs.

Theorem conversions_recognised : List.forallb (fun c => memb c print_convs) std_convs = true.
Proof. exact FormatProofs.std_convs_recognised. Qed.
Print Assumptions conversions_recognised.
