(* Extraction of the interleaving machine of Threads.v for the C13 correspondence driver.
   The three model parameters come from Generated.v (re-read from Thread.c / Exception.c on every run). *)
From Coq Require Import List Arith NArith ZArith Extraction ExtrOcamlBasic.
From CelloV Require Import Generated Threads.

Definition th_shared : bool := negb thr_exc_via_tls.
Definition th_walk : bool := negb thr_mark_own_tls_only.
Definition th_lstep := lstep thr_clear_on_catch.
Definition th_gstep := gstep thr_clear_on_catch thr_trylock_busy_result th_shared th_walk.
Definition th_run := run thr_clear_on_catch thr_trylock_busy_result th_shared th_walk.
Definition th_rr := rr thr_clear_on_catch thr_trylock_busy_result th_shared th_walk.
Definition th_ginit := ginit.
Definition th_linit := linit.
Definition th_all_done := all_done.
(* ocaml/conv.ml.inc mentions the extracted positive / N / Z types *)
Definition th_conv_z : Z -> Z -> Z := Z.add.
Definition th_conv_n : N -> N -> N := N.add.

Extraction Language OCaml.
Extraction "../ocaml/gen/Threads.ml" th_shared th_lstep th_gstep th_run th_rr th_ginit th_linit th_all_done th_conv_z th_conv_n.
