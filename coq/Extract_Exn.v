(* Extraction of the exception machine and the structured reference semantics (C07) for the
   correspondence driver.  ExtrOcamlBasic only; numbers stay extracted inductives. *)
From Coq Require Import List Arith NArith ZArith Extraction ExtrOcamlBasic.
From CelloV Require Import Generated Exn.

(* the machine with the nesting bound of the working tree; the flags clear_active_on_catch,
   throw_records_obj_after_format, try_keeps_obj are handed over by props/C07.py, which reads it from the same Generated.v (so that the driver still
   builds, and the specification still runs, when the source no longer yields the flag) *)
Definition exn_mach_clr (clr oaf tko : bool) := mrun exc_max_depth clr oaf tko.
Definition exn_ref := ref_run.
Definition exn_nesting := nesting.
Definition exn_max := exc_max_depth.
Definition exn_init := st_init.
Definition exn_depth := depth.
Definition exn_kind_of := kind_of.

(* ocaml/conv.ml.inc (prepended to every driver) mentions positive, Z and N *)
Definition exn_conv_z : Z := 0%Z.
Definition exn_conv_n : N := 0%N.

Extraction Language OCaml.
Extraction "../ocaml/gen/Exn.ml" exn_mach_clr exn_ref exn_nesting exn_max exn_init exn_depth exn_kind_of exn_conv_z exn_conv_n.
