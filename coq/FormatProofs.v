(* FormatProofs.v — proofs about the print-formatting model Format.v (property C14). *)
From Coq Require Import List Arith Bool Lia.
From CelloV Require Import Generated Format.
Import ListNotations.

(* every conversion character named by the property is recognised by the scanner's strchr set *)
Lemma std_convs_recognised : forallb (fun c => memb c print_convs) std_convs = true.
Proof. vm_compute. reflexivity. Qed.
