(* FormatProofs.v — proofs about the print-formatting model Format.v (property C14). *)
From Coq Require Import List Arith Bool Lia.
From CelloV Require Import Generated Format.
Import ListNotations.

(* ------------------------------------------------------------------------------------------ *)
(* finite side conditions on the character sets re-extracted from the C source *)

(* every conversion character named by the property is recognised by the scanner's strchr set *)
Lemma std_convs_recognised : forallb (fun c => memb c print_convs) std_convs = true.
Proof. vm_compute. reflexivity. Qed.

(* characters that may stand between '%' and the conversion character *)
Definition mid_chars : list byte := flag_chars ++ digit_chars ++ [46] ++ concat length_mods.

(* none of them ends a specification, none is '%' *)
Lemma mid_chars_pass :
  forallb (fun m => negb (strchr_hit print_convs m) && negb (m =? PCT)) mid_chars = true.
Proof. vm_compute. reflexivity. Qed.

Lemma std_convs_stop :
  forallb (fun c => strchr_hit print_convs c && negb (c =? 0) && negb (c =? PCT)) (DOLLAR :: std_convs) = true.
Proof. vm_compute. reflexivity. Qed.

Lemma pct_passes : strchr_hit print_convs PCT = false.
Proof. vm_compute. reflexivity. Qed.

Lemma pct_skip_is_2 : print_pct_skip = 2.
Proof. reflexivity. Qed.

(* admissible piece-buffer parameters: the heap size is at least strlen+1, and the stack array is chosen only
   when strlen+1 fits (any EXTRA >= 1 and any TEST >= 1 will do; decided on the generated values) *)
Lemma buf_params_admissible : (1 <=? print_buf_extra) && (1 <=? print_buf_stack_test) = true.
Proof. vm_compute. reflexivity. Qed.

Lemma buf_extra_ge_1 : 1 <= print_buf_extra.
Proof. pose proof buf_params_admissible as A. apply andb_prop in A. destruct A as [A1 _]. apply Nat.leb_le. exact A1. Qed.

(* ... hence the buffer always has room for the whole format text and a NUL, for EVERY format text *)
Lemma bufsize_gt : forall fmt, length fmt < bufsize fmt.
Proof.
  intros fmt. pose proof buf_params_admissible as A. apply andb_prop in A. destruct A as [A1 A2].
  apply Nat.leb_le in A1. apply Nat.leb_le in A2. unfold bufsize.
  destruct (Nat.leb_spec (length fmt + print_buf_stack_test) print_buf_stack_cap); lia.
Qed.

(* the bound check of the piece buffer is live: a write at or behind its capacity is refused *)
Lemma buf_put_refuses : forall fmt start n, bufsize fmt <= n -> buf_put fmt start n = None.
Proof.
  intros fmt start n H. unfold buf_put.
  destruct (Nat.ltb_spec n (bufsize fmt)); [lia|]. rewrite andb_false_r. reflexivity.
Qed.

(* String_Format_To reserves room for the text and its NUL; File_Format_To returns vfprintf's count;
   print_to_with has the statement shape the model encodes *)
Lemma source_shape : string_fmt_room = 1 /\ file_fmt_returns_count = true /\ print_shape_ok = true.
Proof. repeat split; reflexivity. Qed.

(* String_Format_To may let the measuring vsnprintf write into a stack buffer of string_fmt_stack_cap bytes and
   take the text from there when size < string_fmt_stack_limit (both 0 when there is no such buffer).
   vsnprintf(buf, cap, ..) has written the complete text and its NUL exactly when size + 1 <= cap, so the
   shortcut yields the bytes a second rendering would yield iff limit <= cap - decided here on the
   generated values, for every size. *)
Lemma stack_limit_le_cap : string_fmt_stack_limit <=? string_fmt_stack_cap = true.
Proof. vm_compute. reflexivity. Qed.

Lemma stack_buffer_holds_text : forall size,
  size < string_fmt_stack_limit -> size + string_fmt_room <= string_fmt_stack_cap.
Proof.
  intros size H. pose proof stack_limit_le_cap as L. apply Nat.leb_le in L.
  replace string_fmt_room with 1 by reflexivity. lia.
Qed.

(* ------------------------------------------------------------------------------------------ *)
(* small list facts *)

Lemma memb_In : forall c l, memb c l = true <-> In c l.
Proof.
  intros c l. unfold memb. rewrite existsb_exists. split.
  - intros [x [Hin He]]. apply Nat.eqb_eq in He. subst. exact Hin.
  - intros H. exists c. split; [exact H | apply Nat.eqb_refl].
Qed.

Lemma all_in_Forall : forall l set, all_in l set = true -> Forall (fun c => In c set) l.
Proof.
  intros l set H. unfold all_in in H. rewrite forallb_forall in H.
  apply Forall_forall. intros x Hx. apply memb_In. apply H. exact Hx.
Qed.

Lemma list_eqb_eq : forall a b, list_eqb a b = true -> a = b.
Proof.
  induction a as [|x a IH]; intros [|y b] H; unfold list_eqb in H; simpl in H; try discriminate; try reflexivity.
  apply andb_prop in H. destruct H as [Hl Hf].
  apply andb_prop in Hf. destruct Hf as [Hxy Hf].
  apply Nat.eqb_eq in Hxy. subst. f_equal. apply IH. unfold list_eqb. rewrite Hl, Hf. reflexivity.
Qed.

Lemma cstr_id : forall l, Forall (fun c => c <> 0) l -> forall r, cstr (l ++ 0 :: r) = l.
Proof.
  induction l as [|c l IH]; intros H r; simpl.
  - reflexivity.
  - inversion H; subst. destruct (Nat.eqb_spec c 0); [contradiction|]. f_equal. apply IH. assumption.
Qed.

(* ------------------------------------------------------------------------------------------ *)
(* reading the format text *)

Lemma rd_shift : forall pre suf k, rd (pre ++ suf) (length pre + k) = rd suf k.
Proof.
  intros pre suf k. unfold rd. rewrite app_length.
  destruct (Nat.ltb_spec k (length suf)).
  - destruct (Nat.ltb_spec (length pre + k) (length pre + length suf)); [|lia].
    rewrite app_nth2_plus. reflexivity.
  - destruct (Nat.ltb_spec (length pre + k) (length pre + length suf)); [lia|].
    destruct (Nat.eqb_spec k (length suf)).
    + subst. rewrite Nat.eqb_refl. reflexivity.
    + destruct (Nat.eqb_spec (length pre + k) (length pre + length suf)); [lia|reflexivity].
Qed.

Lemma rd_at : forall pre suf, rd (pre ++ suf) (length pre) = rd suf 0.
Proof. intros. rewrite <- (Nat.add_0_r (length pre)) at 1. apply rd_shift. Qed.

Lemma rd_cons0 : forall c r, rd (c :: r) 0 = Some c.
Proof. reflexivity. Qed.

Lemma rd_nil0 : rd [] 0 = Some 0.
Proof. reflexivity. Qed.

Lemma rd_some_le : forall fmt i c, rd fmt i = Some c -> i <= length fmt.
Proof.
  intros fmt i c. unfold rd.
  destruct (Nat.ltb_spec i (length fmt)); [lia|].
  destruct (Nat.eqb_spec i (length fmt)); [lia|discriminate].
Qed.

(* ------------------------------------------------------------------------------------------ *)
(* the two inner loops *)

Definition stops_lit (rest : list byte) : Prop :=
  match rest with [] => True | c :: _ => c = 0 \/ c = PCT end.

Lemma skip_lit_run : forall s pre rest fuel,
  Forall (fun c => c <> 0 /\ c <> PCT) s -> stops_lit rest -> length s < fuel ->
  skip_lit (pre ++ s ++ rest) (length pre) fuel = Ok (length pre + length s).
Proof.
  induction s as [|c s IH]; intros pre rest fuel Hs Hr Hf.
  - destruct fuel as [|f]; [simpl in Hf; lia|]. simpl. rewrite rd_at.
    destruct rest as [|r0 rest].
    + rewrite rd_nil0. simpl. f_equal. lia.
    + rewrite rd_cons0. simpl in Hr.
      assert (E : ((r0 =? 0) || (r0 =? PCT)) = true).
      { destruct Hr as [-> | ->]; reflexivity. }
      rewrite E. f_equal. simpl. lia.
  - destruct fuel as [|f]; [simpl in Hf; lia|].
    inversion Hs as [|? ? [Hc0 Hcp] Hs']; subst.
    cbn [skip_lit]. rewrite rd_at. cbn [app]. rewrite rd_cons0.
    destruct (Nat.eqb_spec c 0); [contradiction|].
    destruct (Nat.eqb_spec c PCT); [contradiction|].
    cbn [orb].
    replace (pre ++ c :: s ++ rest) with ((pre ++ [c]) ++ s ++ rest) by (rewrite <- app_assoc; reflexivity).
    replace (S (length pre)) with (length (pre ++ [c])) by (rewrite app_length; simpl; lia).
    rewrite IH; [|assumption|assumption|simpl in Hf; lia].
    f_equal. rewrite app_length. simpl. lia.
Qed.

Lemma skip_spec_run : forall convs mid pre c rest fuel,
  Forall (fun m => strchr_hit convs m = false) mid -> strchr_hit convs c = true -> length mid < fuel ->
  skip_spec convs (pre ++ mid ++ c :: rest) (length pre) fuel = Ok (length pre + length mid).
Proof.
  induction mid as [|m mid IH]; intros pre c rest fuel Hm Hc Hf.
  - destruct fuel as [|f]; [simpl in Hf; lia|]. simpl. rewrite rd_at, rd_cons0, Hc. f_equal. lia.
  - destruct fuel as [|f]; [simpl in Hf; lia|].
    inversion Hm as [|? ? Hm0 Hm']; subst.
    cbn [skip_spec]. rewrite rd_at. cbn [app]. rewrite rd_cons0, Hm0.
    replace (pre ++ m :: mid ++ c :: rest) with ((pre ++ [m]) ++ mid ++ c :: rest) by (rewrite <- app_assoc; reflexivity).
    replace (S (length pre)) with (length (pre ++ [m])) by (rewrite app_length; simpl; lia).
    rewrite IH; [|assumption|assumption|simpl in Hf; lia].
    f_equal. rewrite app_length. simpl. lia.
Qed.

(* results of the inner loops are readable indices not before the start; enough fuel never runs out *)
Lemma skip_lit_ok : forall fmt fuel i j, skip_lit fmt i fuel = Ok j -> i <= j /\ j <= length fmt.
Proof.
  intros fmt. induction fuel as [|f IH]; intros i j H; [discriminate|].
  simpl in H. destruct (rd fmt i) as [c|] eqn:E; [|discriminate].
  destruct ((c =? 0) || (c =? PCT)).
  - inversion H; subst. split; [lia|]. eapply rd_some_le; eauto.
  - apply IH in H. lia.
Qed.

(* where the "%%" test stands, *fmt is '%': the literal run was empty and *fmt is not the terminator.
   Hence `if ( *fmt is '%' and fmt[1] is '%')` and `if (fmt[1] is '%')` are the same test there (both source
   forms are accepted by tools/fmt_shapes.py as the one [next_token]). *)
Lemma pct_guard_redundant : forall fmt i fuel c0,
  rd fmt i = Some c0 -> (c0 =? 0) = false -> skip_lit fmt i fuel = Ok i -> (c0 =? PCT) = true.
Proof.
  intros fmt i fuel c0 Hrd H0 Hs. destruct fuel as [|f]; [discriminate|].
  simpl in Hs. rewrite Hrd, H0 in Hs. cbn [orb] in Hs.
  destruct (c0 =? PCT); [reflexivity|].
  apply skip_lit_ok in Hs. lia.
Qed.

Lemma skip_spec_ok : forall convs fmt fuel i j, skip_spec convs fmt i fuel = Ok j -> i <= j /\ j <= length fmt.
Proof.
  intros convs fmt. induction fuel as [|f IH]; intros i j H; [discriminate|].
  simpl in H. destruct (rd fmt i) as [c|] eqn:E; [|discriminate].
  destruct (strchr_hit convs c).
  - inversion H; subst. split; [lia|]. eapply rd_some_le; eauto.
  - apply IH in H. lia.
Qed.

Lemma rd_beyond : forall fmt i, length fmt < i -> rd fmt i = None.
Proof.
  intros fmt i H. unfold rd.
  destruct (Nat.ltb_spec i (length fmt)); [lia|].
  destruct (Nat.eqb_spec i (length fmt)); [lia|reflexivity].
Qed.

Lemma skip_lit_fuel : forall fmt fuel i,
  length fmt + 2 <= fuel + i -> i <= length fmt + 1 -> skip_lit fmt i fuel <> Fuel.
Proof.
  intros fmt. induction fuel as [|f IH]; intros i H Hi.
  - lia.
  - simpl. destruct (rd fmt i) as [c|] eqn:E; [|discriminate].
    apply rd_some_le in E.
    destruct ((c =? 0) || (c =? PCT)); [discriminate|]. apply IH; lia.
Qed.

Lemma skip_spec_fuel : forall convs fmt fuel i,
  length fmt + 2 <= fuel + i -> i <= length fmt + 1 -> skip_spec convs fmt i fuel <> Fuel.
Proof.
  intros convs fmt. induction fuel as [|f IH]; intros i H Hi.
  - lia.
  - simpl. destruct (rd fmt i) as [c|] eqn:E; [|discriminate].
    apply rd_some_le in E.
    destruct (strchr_hit convs c); [discriminate|]. apply IH; lia.
Qed.

(* ------------------------------------------------------------------------------------------ *)
(* the copy into the piece buffer *)

Lemma cstr_nozero : forall l, Forall (fun c => c <> 0) l -> cstr l = l.
Proof.
  induction l as [|c l IH]; intros Hl; simpl; [reflexivity|].
  inversion Hl; subst. destruct (Nat.eqb_spec c 0); [contradiction|]. f_equal. auto.
Qed.

Lemma buf_put_mid : forall pre x rest,
  Forall (fun c => c <> 0) x ->
  buf_put (pre ++ x ++ rest) (length pre) (length x) = Some x.
Proof.
  intros pre x rest Hx. unfold buf_put.
  pose proof (bufsize_gt (pre ++ x ++ rest)) as Hb.
  destruct (Nat.ltb_spec (length x) (bufsize (pre ++ x ++ rest))) as [_|Hbad]; [|rewrite !app_length in Hb; lia].
  rewrite !app_length.
  destruct (Nat.leb_spec (length pre + length x) (length pre + (length x + length rest) + 1)) as [_|Hbad]; [|lia].
  cbn [andb]. f_equal.
  rewrite <- !app_assoc. rewrite skipn_app, skipn_all, Nat.sub_diag. cbn [skipn app].
  rewrite firstn_app, firstn_all, Nat.sub_diag. cbn [firstn].
  rewrite app_nil_r. apply cstr_nozero. exact Hx.
Qed.

(* ------------------------------------------------------------------------------------------ *)
(* one iteration of the scanner on the text of one item, wherever it stands *)

Lemma scan_fuel_gt : forall fmt n, n <= length fmt -> n < scan_fuel fmt.
Proof. intros. unfold scan_fuel. lia. Qed.

Lemma next_token_end : forall pre, next_token (pre ++ []) (length pre) = Ok (TEnd, length pre).
Proof. intros. unfold next_token. rewrite rd_at, rd_nil0. reflexivity. Qed.

Lemma next_token_lit : forall pre s rest,
  s <> [] -> Forall (fun c => c <> 0 /\ c <> PCT) s -> stops_lit rest ->
  next_token (pre ++ s ++ rest) (length pre) = Ok (TLit s, length pre + length s).
Proof.
  intros pre s rest Hne Hs Hr. unfold next_token.
  rewrite rd_at. destruct s as [|c s']; [contradiction|].
  cbn [app]. rewrite rd_cons0.
  inversion Hs as [|? ? [Hc0 Hcp] Hs']; subst.
  destruct (Nat.eqb_spec c 0); [contradiction|].
  change (pre ++ c :: s' ++ rest) with (pre ++ (c :: s') ++ rest).
  rewrite skip_lit_run; [|assumption|assumption|].
  2:{ apply scan_fuel_gt. rewrite !app_length. lia. }
  destruct (Nat.eqb_spec (length pre + length (c :: s')) (length pre)) as [E|_]; [simpl in E; lia|].
  cbn [negb].
  replace (length pre + length (c :: s') - length pre) with (length (c :: s')) by lia.
  rewrite buf_put_mid; [reflexivity|].
  apply Forall_impl with (2 := Hs). intros a [Ha _]. exact Ha.
Qed.

Lemma skip_lit_at_pct : forall pre rest,
  skip_lit (pre ++ PCT :: rest) (length pre) (scan_fuel (pre ++ PCT :: rest)) = Ok (length pre).
Proof.
  intros pre rest.
  pose proof (skip_lit_run [] pre (PCT :: rest) (scan_fuel (pre ++ PCT :: rest))) as H.
  cbn [app length] in H. rewrite Nat.add_0_r in H. apply H.
  - constructor.
  - right. reflexivity.
  - unfold scan_fuel. lia.
Qed.

Lemma next_token_pct : forall pre rest,
  next_token (pre ++ [PCT; PCT] ++ rest) (length pre) = Ok (TPct, length pre + 2).
Proof.
  intros pre rest. unfold next_token. cbn [app].
  rewrite rd_at, rd_cons0. change (PCT =? 0) with false. cbv iota.
  rewrite skip_lit_at_pct. rewrite Nat.eqb_refl. cbn [negb]. cbv zeta.
  rewrite Nat.eqb_refl.
  rewrite rd_shift. change (rd (PCT :: PCT :: rest) 1) with (Some PCT).
  rewrite pct_skip_is_2. reflexivity.
Qed.

Definition passes (m : byte) : Prop := strchr_hit print_convs m = false /\ m <> PCT.

Lemma passes_nonzero : forall m, passes m -> m <> 0.
Proof. intros m [H _] E. subst. discriminate H. Qed.

Lemma next_token_spec : forall pre mid c rest,
  Forall passes mid -> strchr_hit print_convs c = true -> c <> 0 -> c <> PCT ->
  next_token (pre ++ (PCT :: mid ++ [c]) ++ rest) (length pre)
  = Ok (TSpec (PCT :: mid ++ [c]) c, length pre + length (PCT :: mid ++ [c])).
Proof.
  intros pre mid c rest Hm Hc Hc0 Hcp. unfold next_token.
  set (fmt := pre ++ (PCT :: mid ++ [c]) ++ rest).
  assert (Efmt : fmt = pre ++ PCT :: (mid ++ [c]) ++ rest) by reflexivity.
  rewrite Efmt at 1. rewrite rd_at, rd_cons0. change (PCT =? 0) with false. cbv iota.
  rewrite Efmt at 1 2. rewrite skip_lit_at_pct. rewrite Nat.eqb_refl. cbn [negb]. cbv zeta.
  rewrite Nat.eqb_refl.
  rewrite Efmt at 1. rewrite rd_shift.
  assert (E1 : exists c1, rd (PCT :: (mid ++ [c]) ++ rest) 1 = Some c1 /\ c1 <> PCT).
  { destruct mid as [|m mid'].
    - exists c. split; [reflexivity|assumption].
    - exists m. split; [reflexivity|]. inversion Hm as [|? ? [_ Hmp] _]. exact Hmp. }
  destruct E1 as [c1 [E1 Hc1]]. rewrite E1.
  destruct (Nat.eqb_spec c1 PCT); [contradiction|].
  assert (Efmt2 : fmt = pre ++ (PCT :: mid) ++ c :: rest).
  { unfold fmt. cbn [app]. rewrite <- !app_assoc. reflexivity. }
  rewrite Efmt2 at 1.
  rewrite skip_spec_run.
  2:{ constructor; [apply pct_passes|]. apply Forall_impl with (2 := Hm). intros a [Ha _]. exact Ha. }
  2:{ exact Hc. }
  2:{ apply scan_fuel_gt. rewrite Efmt2. rewrite !app_length. simpl. lia. }
  destruct (Nat.eqb_spec (length pre + length (PCT :: mid)) (length pre)) as [E|_]; [simpl in E; lia|].
  cbn [negb].
  replace (length pre + length (PCT :: mid) - length pre + 1) with (length (PCT :: mid ++ [c])).
  2:{ simpl. rewrite app_length. simpl. lia. }
  unfold fmt at 1. rewrite buf_put_mid.
  2:{ constructor; [discriminate|]. apply Forall_app. split.
      - apply Forall_impl with (2 := Hm). apply passes_nonzero.
      - constructor; [assumption|constructor]. }
  assert (Efmt3 : fmt = (pre ++ PCT :: mid) ++ c :: rest).
  { rewrite Efmt2. rewrite <- app_assoc. reflexivity. }
  replace (length pre + length (PCT :: mid)) with (length (pre ++ PCT :: mid)) by (rewrite app_length; reflexivity).
  rewrite Efmt3 at 1. rewrite rd_at, rd_cons0.
  f_equal. f_equal. rewrite !app_length. simpl. rewrite app_length. simpl. lia.
Qed.

(* ------------------------------------------------------------------------------------------ *)
(* well-formed items *)

Lemma unparse_cons : forall it r, unparse (it :: r) = unparse_item it ++ unparse r.
Proof. reflexivity. Qed.

Lemma mid_chars_passes : forall m, In m mid_chars -> passes m.
Proof.
  intros m H. pose proof mid_chars_pass as P. rewrite forallb_forall in P.
  specialize (P m H). apply andb_prop in P. destruct P as [P1 P2].
  split.
  - destruct (strchr_hit print_convs m); [discriminate|reflexivity].
  - intros E. subst. discriminate P2.
Qed.

Lemma conv_stops : forall c, In c (DOLLAR :: std_convs) -> strchr_hit print_convs c = true /\ c <> 0 /\ c <> PCT.
Proof.
  intros c H. pose proof std_convs_stop as P. rewrite forallb_forall in P.
  specialize (P c H). apply andb_prop in P. destruct P as [P P3]. apply andb_prop in P. destruct P as [P1 P2].
  repeat split.
  - exact P1.
  - intros E. subst. discriminate P2.
  - intros E. subst. discriminate P3.
Qed.

Lemma wf_conv_mid : forall f w p l c, wf_item (Conv f w p l c) = true -> Forall passes (conv_mid f w p l).
Proof.
  intros f w p l c H. cbn [wf_item] in H.
  repeat (apply andb_prop in H; destruct H as [H ?]).
  rename H into Hf, H0 into Hc, H1 into Hl, H2 into Hp, H3 into Hw.
  unfold conv_mid. repeat (apply Forall_app; split).
  - apply all_in_Forall in Hf. apply Forall_impl with (2 := Hf). intros a Ha.
    apply mid_chars_passes. unfold mid_chars. apply in_or_app. left. exact Ha.
  - apply all_in_Forall in Hw. apply Forall_impl with (2 := Hw). intros a Ha.
    apply mid_chars_passes. unfold mid_chars. apply in_or_app. right. apply in_or_app. left. exact Ha.
  - destruct p as [|d r]; [constructor|]. cbn [wf_prec] in Hp. apply andb_prop in Hp. destruct Hp as [Hd Hr].
    apply Nat.eqb_eq in Hd. subst d. constructor.
    + apply mid_chars_passes. unfold mid_chars. apply in_or_app. right. apply in_or_app. right. left. reflexivity.
    + apply all_in_Forall in Hr. apply Forall_impl with (2 := Hr). intros a Ha.
      apply mid_chars_passes. unfold mid_chars. apply in_or_app. right. apply in_or_app. left. exact Ha.
  - rewrite existsb_exists in Hl. destruct Hl as [l' [Hin He]]. apply list_eqb_eq in He. subst l'.
    apply Forall_forall. intros a Ha. apply mid_chars_passes. unfold mid_chars.
    apply in_or_app. right. apply in_or_app. right. right. apply in_concat. exists l. split; assumption.
Qed.

Lemma wf_conv_char : forall f w p l c, wf_item (Conv f w p l c) = true -> In c std_convs.
Proof.
  intros f w p l c H. cbn [wf_item] in H. apply andb_prop in H. destruct H as [_ H]. apply memb_In. exact H.
Qed.

Lemma wf_lit : forall s, wf_item (Lit s) = true -> s <> [] /\ Forall (fun c => c <> 0 /\ c <> PCT) s.
Proof.
  intros s H. cbn [wf_item] in H. apply andb_prop in H. destruct H as [Hn Hs]. split.
  - intros E. subst. discriminate Hn.
  - apply Forall_forall. intros c Hc. rewrite forallb_forall in Hs. specialize (Hs c Hc).
    apply andb_prop in Hs. destruct Hs as [A B]. split; intros E; subst; discriminate.
Qed.

(* what may follow a literal: nothing, or an item that is not a literal (its text starts with '%') *)
Definition follows_ok (it : item) (rest : list item) : Prop :=
  match rest with it' :: _ => is_lit it && is_lit it' = false | [] => True end.

Lemma wf_items_cons : forall it rest, wf_items (it :: rest) = true ->
  wf_item it = true /\ follows_ok it rest /\ wf_items rest = true.
Proof.
  intros it rest H. cbn [wf_items] in H. apply andb_prop in H. destruct H as [H H3].
  apply andb_prop in H. destruct H as [H1 H2]. repeat split; try assumption.
  unfold follows_ok. destruct rest as [|it' r]; [exact I|].
  destruct (is_lit it && is_lit it'); [discriminate|reflexivity].
Qed.

Lemma nonlit_starts_pct : forall it r, is_lit it = false -> exists t, unparse (it :: r) = PCT :: t.
Proof.
  intros it r H. rewrite unparse_cons. destruct it; try discriminate; cbn [unparse_item app]; eexists; reflexivity.
Qed.

Lemma stops_after_lit : forall s rest, follows_ok (Lit s) rest -> stops_lit (unparse rest).
Proof.
  intros s rest H. destruct rest as [|it' r]; [exact I|].
  unfold follows_ok in H. cbn [is_lit andb] in H.
  destruct (nonlit_starts_pct it' r H) as [t E]. rewrite E. right. reflexivity.
Qed.

Lemma next_token_item : forall it pre rest,
  wf_item it = true -> follows_ok it rest ->
  next_token (pre ++ unparse (it :: rest)) (length pre) = Ok (tok_of it, length pre + length (unparse_item it)).
Proof.
  intros it pre rest Hwf Hfo. rewrite unparse_cons.
  destruct it as [s| |f w p l c|].
  - apply wf_lit in Hwf. destruct Hwf as [Hne Hs]. cbn [unparse_item tok_of].
    apply next_token_lit; try assumption. eapply stops_after_lit; eauto.
  - cbn [unparse_item tok_of]. apply next_token_pct.
  - pose proof (wf_conv_mid _ _ _ _ _ Hwf) as Hm. pose proof (wf_conv_char _ _ _ _ _ Hwf) as Hc.
    destruct (conv_stops c (or_intror Hc)) as [H1 [H2 H3]].
    cbn [unparse_item tok_of]. apply next_token_spec; assumption.
  - destruct (conv_stops DOLLAR (or_introl eq_refl)) as [H1 [H2 H3]].
    cbn [unparse_item tok_of]. apply (next_token_spec pre [] DOLLAR (unparse rest)); try assumption. constructor.
Qed.

Lemma unparse_item_nonempty : forall it, wf_item it = true -> 1 <= length (unparse_item it).
Proof.
  intros it H. destruct it; cbn [unparse_item length]; try lia.
  apply wf_lit in H. destruct H as [Hne _]. destruct s; [contradiction|simpl; lia].
Qed.

Lemma unparse_length : forall items, wf_items items = true -> length items <= length (unparse items).
Proof.
  induction items as [|it r IH]; intros H; [simpl; lia|].
  apply wf_items_cons in H. destruct H as [H1 [_ H3]].
  rewrite unparse_cons, app_length. pose proof (unparse_item_nonempty it H1). specialize (IH H3). simpl. lia.
Qed.

(* ------------------------------------------------------------------------------------------ *)
(* the scanner recovers the items *)

Lemma tok_of_proper : forall it, tok_of it <> TEnd /\ tok_of it <> TBad.
Proof. intros it. destruct it; split; discriminate. Qed.

Lemma scan_loop_items : forall items pre fuel,
  wf_items items = true -> length items < fuel ->
  scan_loop (pre ++ unparse items) (length pre) fuel = Ok (map tok_of items).
Proof.
  induction items as [|it r IH]; intros pre fuel Hwf Hf.
  - destruct fuel as [|f]; [simpl in Hf; lia|]. cbn [scan_loop unparse map concat].
    rewrite next_token_end. reflexivity.
  - destruct fuel as [|f]; [simpl in Hf; lia|].
    apply wf_items_cons in Hwf. destruct Hwf as [H1 [H2 H3]].
    cbn [scan_loop]. rewrite next_token_item by assumption.
    rewrite unparse_cons.
    replace (pre ++ unparse_item it ++ unparse r) with ((pre ++ unparse_item it) ++ unparse r) by (rewrite app_assoc; reflexivity).
    replace (length pre + length (unparse_item it)) with (length (pre ++ unparse_item it)) by (rewrite app_length; reflexivity).
    rewrite IH; [|assumption|simpl in Hf; lia].
    destruct it; reflexivity.
Qed.

Theorem scan_unparse : forall items, wf_items items = true -> scan (unparse items) = Ok (map tok_of items).
Proof.
  intros items H. unfold scan, loop_fuel.
  apply (scan_loop_items items [] _ H). pose proof (unparse_length items H). lia.
Qed.

(* ------------------------------------------------------------------------------------------ *)
(* printing: the loop over a well-formed text executes its items one after the other *)

Section PrintProofs.
Variable V : Type.
Variable render : list byte -> ckind -> V -> option (list byte).
Variable show : V -> list byte.

Notation exec := (exec V render show).
Notation print_loop := (print_loop V render show).
Notation print_to := (print_to V render show).
Notation print_to_from := (print_to_from V render show).

Fixpoint run_items (items : list item) (args : list V) (st : pstate) : pstate + pstate :=
  match items with
  | [] => inl st
  | it :: r =>
    match exec (tok_of it) args st with
    | inl st' => run_items r args st'
    | inr st' => inr st'
    end
  end.

Definition outcome_of (r : pstate + pstate) : outcome :=
  match r with inl st => ODone st | inr st => ORaise st end.

Lemma print_loop_items : forall items pre args st fuel,
  wf_items items = true -> length items < fuel ->
  print_loop (pre ++ unparse items) args (length pre) st fuel = outcome_of (run_items items args st).
Proof.
  induction items as [|it r IH]; intros pre args st fuel Hwf Hf.
  - destruct fuel as [|f]; [simpl in Hf; lia|]. cbn [Format.print_loop unparse map concat].
    rewrite next_token_end. reflexivity.
  - destruct fuel as [|f]; [simpl in Hf; lia|].
    apply wf_items_cons in Hwf. destruct Hwf as [H1 [H2 H3]].
    cbn [Format.print_loop]. rewrite next_token_item by assumption.
    cbn [run_items].
    assert (E : forall (X : outcome),
      match tok_of it with
      | TEnd => ODone st
      | _ => X
      end = X).
    { intros X. destruct it; reflexivity. }
    rewrite E. clear E.
    destruct (exec (tok_of it) args st) as [st'|st']; [|reflexivity].
    rewrite unparse_cons.
    replace (pre ++ unparse_item it ++ unparse r) with ((pre ++ unparse_item it) ++ unparse r) by (rewrite app_assoc; reflexivity).
    replace (length pre + length (unparse_item it)) with (length (pre ++ unparse_item it)) by (rewrite app_length; reflexivity).
    apply IH; [assumption|simpl in Hf; lia].
Qed.

Lemma print_to_from_items : forall items args st,
  wf_items items = true ->
  print_to_from st (unparse items) args = outcome_of (run_items items args st).
Proof.
  intros items args st H. unfold Format.print_to_from, loop_fuel.
  apply (print_loop_items items [] args st _ H). pose proof (unparse_length items H). lia.
Qed.

(* ---- what one item does ---- *)

Lemma sink_write_eta : forall k pos t, sink_write k pos t = (fst (sink_write k pos t), length t).
Proof. intros [s|s] pos t; reflexivity. Qed.

(* the state after format_to/show_to wrote text t *)
Definition wrote (st : pstate) (t : list byte) (idx' : nat) (c : call) : pstate :=
  mkP (fst (sink_write (p_sink st) (p_pos st) t)) (p_pos st + length t) idx' (c :: p_calls st).

Lemma exec_lit : forall s args st,
  exec (TLit s) args st = inl (wrote st s (p_idx st) (CFmt (p_pos st) s None)).
Proof.
  intros. cbn [Format.exec step_if]. unfold do_format. rewrite sink_write_eta. reflexivity.
Qed.

Lemma exec_pct : forall args st,
  exec TPct args st = inl (wrote st [PCT] (p_idx st) (CFmt (p_pos st) [PCT; PCT] None)).
Proof.
  intros. cbn [Format.exec step_if]. unfold do_format. rewrite sink_write_eta. reflexivity.
Qed.

Lemma exec_noarg : forall p c args st,
  nth_error args (p_idx st) = None -> exec (TSpec p c) args st = inr st.
Proof. intros p c args st H. cbn [Format.exec]. rewrite H. reflexivity. Qed.

Definition arg_taken (st : pstate) : pstate := mkP (p_sink st) (p_pos st) (S (p_idx st)) (p_calls st).

Lemma exec_conv : forall p c a args st,
  In c std_convs -> nth_error args (p_idx st) = Some a ->
  exec (TSpec p c) args st =
  match render p (conv_kind c) a with
  | Some t => inl (wrote (arg_taken st) t (S (p_idx st)) (CFmt (p_pos st) p (Some (conv_kind c, p_idx st))))
  | None => inr (arg_taken st)
  end.
Proof.
  intros p c a args st Hin Hnth. unfold std_convs in Hin.
  repeat (destruct Hin as [<-|Hin]; [
    unfold Format.exec; rewrite Hnth;
    cbv [step_if Nat.eqb CH_p CH_c CH_s DOLLAR arm_hit print_dispatch_nul_hits andb memb existsb print_float_convs print_int_convs orb conv_kind];
    fold (arg_taken st);
    destruct (render p _ a) as [t|]; cbv [do_format];
    [rewrite (sink_write_eta (p_sink (arg_taken st))); cbn [p_idx arg_taken Nat.sub]; rewrite Nat.sub_0_r; reflexivity | reflexivity] |]).
  destruct Hin.
Qed.

Lemma exec_dollar : forall p a args st,
  nth_error args (p_idx st) = Some a ->
  exec (TSpec p DOLLAR) args st
  = inl (wrote (arg_taken st) (show a) (S (p_idx st)) (CShow (p_pos st) (p_idx st))).
Proof.
  intros p a args st Hnth. unfold Format.exec. rewrite Hnth.
  cbv [step_if Nat.eqb CH_p CH_c CH_s DOLLAR arm_hit print_dispatch_nul_hits andb memb existsb print_float_convs print_int_convs orb].
  fold (arg_taken st). cbv [do_show].
  rewrite (sink_write_eta (p_sink (arg_taken st))). cbn [p_idx arg_taken Nat.sub]. rewrite Nat.sub_0_r. reflexivity.
Qed.

(* ---- all items: the texts are written one after the other ---- *)

Fixpoint write_all (k : sink) (pos : nat) (ts : list (list byte)) : sink :=
  match ts with
  | [] => k
  | t :: r => write_all (fst (sink_write k pos t)) (pos + length t) r
  end.

Lemma skipn_cons_nth : forall (A : Type) n (l : list A) a r,
  skipn n l = a :: r -> nth_error l n = Some a /\ skipn (S n) l = r.
Proof.
  intros A. induction n as [|n IH]; intros l a r H.
  - destruct l; simpl in H; [discriminate|]. inversion H; subst. split; reflexivity.
  - destruct l as [|x l]; [discriminate|]. simpl in H. apply IH in H. exact H.
Qed.

Lemma skipn_nil_nth : forall (A : Type) n (l : list A), skipn n l = [] -> nth_error l n = None.
Proof.
  intros A. induction n as [|n IH]; intros l H.
  - destruct l; [reflexivity|discriminate].
  - destruct l as [|x l]; [reflexivity|]. simpl in H. simpl. apply IH. exact H.
Qed.

Notation texts := (texts V render show).

Lemma run_items_texts : forall items args st,
  wf_items items = true ->
  match texts items (skipn (p_idx st) args) with
  | Some ts => exists st', run_items items args st = inl st'
                 /\ p_sink st' = write_all (p_sink st) (p_pos st) ts
                 /\ p_pos st' = p_pos st + length (concat ts)
                 /\ p_idx st' = p_idx st + nconsumers items
  | None => exists st', run_items items args st = inr st'
  end.
Proof.
  induction items as [|it r IH]; intros args st Hwf.
  - cbn [Format.texts run_items]. exists st. cbn [write_all concat length nconsumers filter]. repeat split; lia.
  - apply wf_items_cons in Hwf. destruct Hwf as [H1 [_ H3]].
    destruct it as [s| |f w p l c|].
    + (* literal *)
      cbn [Format.texts consumes item_text run_items tok_of]. rewrite exec_lit.
      set (st1 := wrote st s (p_idx st) (CFmt (p_pos st) s None)).
      specialize (IH args st1 H3). change (p_idx st1) with (p_idx st) in IH.
      destruct (texts r (skipn (p_idx st) args)) as [ts|].
      * destruct IH as [st' [E [A [B C]]]]. exists st'. split; [exact E|].
        cbn [write_all concat]. rewrite A, B, C. cbn [st1 wrote p_sink p_pos p_idx].
        unfold nconsumers. cbn [filter consumes]. rewrite app_length. repeat split; lia.
      * exact IH.
    + (* %% *)
      cbn [Format.texts consumes item_text run_items tok_of]. rewrite exec_pct.
      set (st1 := wrote st [PCT] (p_idx st) (CFmt (p_pos st) [PCT; PCT] None)).
      specialize (IH args st1 H3). change (p_idx st1) with (p_idx st) in IH.
      destruct (texts r (skipn (p_idx st) args)) as [ts|].
      * destruct IH as [st' [E [A [B C]]]]. exists st'. split; [exact E|].
        cbn [write_all concat]. rewrite A, B, C. cbn [st1 wrote p_sink p_pos p_idx].
        unfold nconsumers. cbn [filter consumes]. rewrite app_length. repeat split; lia.
      * exact IH.
    + (* conversion *)
      cbn [Format.texts consumes run_items tok_of].
      destruct (skipn (p_idx st) args) as [|a args'] eqn:Esk.
      * rewrite exec_noarg by (apply skipn_nil_nth; exact Esk). exists st. reflexivity.
      * apply skipn_cons_nth in Esk. destruct Esk as [Hn Hs].
        rewrite (exec_conv _ _ a) by (eauto using wf_conv_char).
        cbn [item_text].
        destruct (render (unparse_item (Conv f w p l c)) (conv_kind c) a) as [t|]; [|eexists; reflexivity].
        set (st1 := wrote (arg_taken st) t (S (p_idx st)) _).
        specialize (IH args st1 H3). change (p_idx st1) with (S (p_idx st)) in IH. rewrite Hs in IH.
        destruct (texts r args') as [ts|].
        -- destruct IH as [st' [E [A [B C]]]]. exists st'. split; [exact E|].
           cbn [write_all concat]. rewrite A, B, C. cbn [st1 wrote arg_taken p_sink p_pos p_idx].
           unfold nconsumers. cbn [filter consumes length]. rewrite app_length. repeat split; lia.
        -- exact IH.
    + (* %$ *)
      cbn [Format.texts consumes run_items tok_of].
      destruct (skipn (p_idx st) args) as [|a args'] eqn:Esk.
      * rewrite exec_noarg by (apply skipn_nil_nth; exact Esk). exists st. reflexivity.
      * apply skipn_cons_nth in Esk. destruct Esk as [Hn Hs].
        rewrite (exec_dollar _ a) by exact Hn.
        cbn [item_text].
        set (st1 := wrote (arg_taken st) (show a) (S (p_idx st)) _).
        specialize (IH args st1 H3). change (p_idx st1) with (S (p_idx st)) in IH. rewrite Hs in IH.
        destruct (texts r args') as [ts|].
        -- destruct IH as [st' [E [A [B C]]]]. exists st'. split; [exact E|].
           cbn [write_all concat]. rewrite A, B, C. cbn [st1 wrote arg_taken p_sink p_pos p_idx].
           unfold nconsumers. cbn [filter consumes length]. rewrite app_length. repeat split; lia.
        -- exact IH.
Qed.

(* ---- the statements about print_to ---- *)

Theorem print_to_done : forall items args k pos ts,
  wf_items items = true -> texts items args = Some ts ->
  exists st, print_to k pos (unparse items) args = ODone st
    /\ p_sink st = write_all k pos ts
    /\ p_pos st = pos + length (concat ts)
    /\ p_idx st = nconsumers items.
Proof.
  intros items args k pos ts Hwf Ht. unfold Format.print_to.
  rewrite print_to_from_items by exact Hwf.
  pose proof (run_items_texts items args (mkP k pos 0 []) Hwf) as R.
  cbn [p_idx skipn] in R. rewrite Ht in R. destruct R as [st' [E [A [B C]]]].
  exists st'. rewrite E. cbn [outcome_of]. cbn [p_sink p_pos] in A, B. repeat split; assumption.
Qed.

Theorem print_to_raise : forall items args k pos,
  wf_items items = true -> texts items args = None ->
  exists st, print_to k pos (unparse items) args = ORaise st.
Proof.
  intros items args k pos Hwf Ht. unfold Format.print_to.
  rewrite print_to_from_items by exact Hwf.
  pose proof (run_items_texts items args (mkP k pos 0 []) Hwf) as R.
  cbn [p_idx skipn] in R. rewrite Ht in R. destruct R as [st' E].
  exists st'. rewrite E. reflexivity.
Qed.

Lemma texts_too_few : forall items args, length args < nconsumers items -> texts items args = None.
Proof.
  induction items as [|it r IH]; intros args H.
  - unfold nconsumers in H. simpl in H. lia.
  - unfold nconsumers in H. cbn [filter] in H. cbn [Format.texts].
    destruct (consumes it).
    + destruct args as [|a args']; [reflexivity|].
      cbn [length] in H. rewrite (IH args') by (unfold nconsumers; lia).
      destruct (item_text V render show it (Some a)); reflexivity.
    + rewrite (IH args) by (unfold nconsumers; lia).
      destruct (item_text V render show it None); reflexivity.
Qed.

Theorem too_few_arguments : forall items args k pos,
  wf_items items = true -> length args < nconsumers items ->
  exists st, print_to k pos (unparse items) args = ORaise st.
Proof. intros. apply print_to_raise; [assumption|]. apply texts_too_few. assumption. Qed.

(* with a libc that never fails and enough arguments there is a text for every item *)
Lemma texts_enough : forall items args,
  (forall p kd v, render p kd v <> None) -> nconsumers items <= length args ->
  exists ts, texts items args = Some ts.
Proof.
  intros items args Hr. revert args. induction items as [|it r IH]; intros args H.
  - exists []. reflexivity.
  - unfold nconsumers in H. cbn [filter] in H. cbn [Format.texts].
    destruct (consumes it) eqn:Ec.
    + destruct args as [|a args']; [simpl in H; lia|].
      destruct (IH args') as [ts Ets]; [unfold nconsumers; simpl in H; lia|]. rewrite Ets.
      destruct it; try discriminate; cbn [item_text].
      * destruct (render (unparse_item (Conv flags width prec len c)) (conv_kind c) a) eqn:Er; [eexists; reflexivity|].
        exfalso. eapply Hr; eauto.
      * eexists; reflexivity.
    + destruct (IH args) as [ts Ets]; [unfold nconsumers; lia|]. rewrite Ets.
      destruct it; try discriminate; cbn [item_text]; eexists; reflexivity.
Qed.

(* never outside the format text or the piece buffer *)
Theorem print_to_in_bounds : forall items args k pos,
  wf_items items = true ->
  print_to k pos (unparse items) args <> OCrash /\ print_to k pos (unparse items) args <> OFuel.
Proof.
  intros items args k pos Hwf.
  destruct (texts items args) as [ts|] eqn:Et.
  - destruct (print_to_done items args k pos ts Hwf Et) as [st [E _]]. rewrite E. split; discriminate.
  - destruct (print_to_raise items args k pos Hwf Et) as [st E]. rewrite E. split; discriminate.
Qed.

End PrintProofs.

(* ---- the sinks ---- *)

Lemma write_all_file : forall ts s pos, write_all (SFile s) pos ts = SFile (s ++ concat ts).
Proof.
  induction ts as [|t r IH]; intros s pos; cbn [write_all concat].
  - rewrite app_nil_r. reflexivity.
  - cbn [sink_write fst]. rewrite IH. rewrite app_assoc. reflexivity.
Qed.

Lemma write_all_string : forall ts s pos,
  ts <> [] -> pos <= length s -> write_all (SString s) pos ts = SString (firstn pos s ++ concat ts).
Proof.
  induction ts as [|t r IH]; intros s pos Hne Hp; [contradiction|].
  cbn [write_all concat sink_write fst].
  destruct (Nat.leb_spec pos (length s)) as [_|Hbad]; [|lia].
  destruct r as [|t2 r'].
  - cbn [write_all concat]. rewrite app_nil_r. reflexivity.
  - rewrite IH; [|discriminate|].
    + assert (L : pos + length t = length (firstn pos s ++ t)).
      { rewrite app_length, firstn_length. lia. }
      rewrite L. rewrite firstn_all. rewrite app_assoc. reflexivity.
    + rewrite app_length, firstn_length. lia.
Qed.

Lemma write_all_string_beyond : forall ts s pos,
  length s < pos -> write_all (SString s) pos ts = SString s.
Proof.
  induction ts as [|t r IH]; intros s pos Hp; cbn [write_all]; [reflexivity|].
  cbn [sink_write fst]. destruct (Nat.leb_spec pos (length s)) as [Hbad|_]; [lia|].
  apply IH. lia.
Qed.

(* ------------------------------------------------------------------------------------------ *)
(* fuel adequacy, for EVERY format text (well-formed or not): the loops never run out of fuel *)

Lemma next_token_progress : forall fmt i t j,
  next_token fmt i = Ok (t, j) -> t <> TEnd -> t <> TBad -> i < j /\ j <= length fmt + 1.
Proof.
  intros fmt i t j H Hne Hnb. unfold next_token in H.
  destruct (rd fmt i) as [c0|] eqn:E0; [|discriminate].
  destruct (c0 =? 0); [inversion H; subst; contradiction|].
  destruct (skip_lit fmt i (scan_fuel fmt)) as [j0| |] eqn:El; try discriminate.
  apply skip_lit_ok in El.
  destruct (Nat.eqb_spec j0 i) as [Ej|Ej]; cbn [negb] in H.
  - subst j0.
    assert (Hspec : match skip_spec print_convs fmt i (scan_fuel fmt) with
            | Ok j' => if negb (j' =? i)
                       then match buf_put fmt i (j' - i + 1), rd fmt j' with
                            | Some p, Some c => Ok (TSpec p c, j' + 1)
                            | _, _ => Crash
                            end
                       else Ok (TBad, i)
            | Crash => Crash
            | Fuel => Fuel
            end = Ok (t, j) -> i < j /\ j <= length fmt + 1).
    { intros Hs. destruct (skip_spec print_convs fmt i (scan_fuel fmt)) as [j'| |] eqn:Es; try discriminate.
      apply skip_spec_ok in Es.
      destruct (Nat.eqb_spec j' i); cbn [negb] in Hs.
      - inversion Hs; subst. contradiction.
      - destruct (buf_put fmt i (j' - i + 1)); [|discriminate].
        destruct (rd fmt j'); [|discriminate]. inversion Hs; subst. lia. }
    destruct (c0 =? PCT).
    + destruct (rd fmt (i + 1)) as [c1|] eqn:E1; [|discriminate].
      apply rd_some_le in E1.
      destruct (c1 =? PCT).
      * inversion H; subst. rewrite pct_skip_is_2. lia.
      * apply Hspec. exact H.
    + apply Hspec. exact H.
  - destruct (buf_put fmt i (j0 - i)); [|discriminate]. inversion H; subst. lia.
Qed.

Lemma next_token_no_fuel : forall fmt i, i <= length fmt + 1 -> next_token fmt i <> Fuel.
Proof.
  intros fmt i Hi. unfold next_token.
  destruct (rd fmt i) as [c0|] eqn:E0; [|discriminate].
  apply rd_some_le in E0.
  destruct (c0 =? 0); [discriminate|].
  pose proof (skip_lit_fuel fmt (scan_fuel fmt) i) as Fl.
  pose proof (skip_spec_fuel print_convs fmt (scan_fuel fmt) i) as Fs.
  unfold scan_fuel in *.
  destruct (skip_lit fmt i (length fmt + 2)) as [j0| |]; [|discriminate|exfalso; apply Fl; [lia|lia|reflexivity]].
  assert (Hspec : match skip_spec print_convs fmt i (length fmt + 2) with
            | Ok j' => if negb (j' =? i)
                       then match buf_put fmt i (j' - i + 1), rd fmt j' with
                            | Some p, Some c => Ok (TSpec p c, j' + 1)
                            | _, _ => Crash
                            end
                       else Ok (TBad, i)
            | Crash => Crash
            | Fuel => Fuel
            end <> Fuel).
  { destruct (skip_spec print_convs fmt i (length fmt + 2)) as [j'| |]; [|discriminate|exfalso; apply Fs; [lia|lia|reflexivity]].
    destruct (negb (j' =? i)); [|discriminate].
    destruct (buf_put fmt i (j' - i + 1)); [|discriminate]. destruct (rd fmt j'); discriminate. }
  destruct (negb (j0 =? i)).
  - destruct (buf_put fmt i (j0 - i)); discriminate.
  - destruct (c0 =? PCT); [|exact Hspec].
    destruct (rd fmt (i + 1)) as [c1|]; [|discriminate]. destruct (c1 =? PCT); [discriminate|exact Hspec].
Qed.

Lemma scan_loop_no_fuel : forall fmt fuel i,
  i <= length fmt + 1 -> length fmt + 2 <= fuel + i -> scan_loop fmt i fuel <> Fuel.
Proof.
  intros fmt. induction fuel as [|f IH]; intros i Hi Hf; [lia|].
  cbn [scan_loop].
  destruct (next_token fmt i) as [[t j]| |] eqn:En; [|discriminate|exfalso; eapply next_token_no_fuel; eauto].
  destruct t as [|p| |p c|]; try discriminate;
    (destruct (next_token_progress fmt i _ j En) as [P1 P2]; [discriminate|discriminate|];
     specialize (IH j P2 ltac:(lia)); destruct (scan_loop fmt j f); [discriminate|discriminate|contradiction]).
Qed.

Theorem scan_no_fuel : forall fmt, scan fmt <> Fuel.
Proof. intros fmt. unfold scan, loop_fuel. apply scan_loop_no_fuel; lia. Qed.

Section FuelProofs.
Variable V : Type.
Variable render : list byte -> ckind -> V -> option (list byte).
Variable show : V -> list byte.

Lemma print_loop_no_fuel : forall fmt args fuel i st,
  i <= length fmt + 1 -> length fmt + 2 <= fuel + i -> print_loop V render show fmt args i st fuel <> OFuel.
Proof.
  intros fmt args. induction fuel as [|f IH]; intros i st Hi Hf; [lia|].
  cbn [print_loop].
  destruct (next_token fmt i) as [[t j]| |] eqn:En; [|discriminate|exfalso; eapply next_token_no_fuel; eauto].
  destruct t as [|p| |p c|]; try discriminate.
  - destruct (next_token_progress fmt i _ j En) as [P1 P2]; [discriminate|discriminate|].
    destruct (exec V render show (TLit p) args st); [apply IH; lia|discriminate].
  - destruct (next_token_progress fmt i _ j En) as [P1 P2]; [discriminate|discriminate|].
    destruct (exec V render show TPct args st); [apply IH; lia|discriminate].
  - destruct (next_token_progress fmt i _ j En) as [P1 P2]; [discriminate|discriminate|].
    destruct (exec V render show (TSpec p c) args st); [apply IH; lia|discriminate].
Qed.

Theorem print_to_no_fuel : forall k pos fmt args, print_to V render show k pos fmt args <> OFuel.
Proof. intros. unfold print_to, print_to_from, loop_fuel. apply print_loop_no_fuel; lia. Qed.

End FuelProofs.

(* ------------------------------------------------------------------------------------------ *)
(* Show of a sequence container: its elements' own show texts, each once, in iteration order *)

Lemma write_all_app : forall a b k pos,
  write_all k pos (a ++ b) = write_all (write_all k pos a) (pos + length (concat a)) b.
Proof.
  induction a as [|t a IH]; intros b k pos; cbn [app write_all concat length].
  - rewrite Nat.add_0_r. reflexivity.
  - rewrite IH. rewrite app_length. rewrite Nat.add_assoc. reflexivity.
Qed.

Fixpoint join (sep : list byte) (l : list (list byte)) : list byte :=
  match l with
  | [] => []
  | x :: r => match r with [] => x | _ => x ++ sep ++ join sep r end
  end.

Section ShowProofs.
Variable V : Type.
Variable render : list byte -> ckind -> V -> option (list byte).
Variable show : V -> list byte.

Notation texts := (texts V render show).

(* the texts of the calls Array_Show makes for its elements: show e1, ", ", show e2, ... *)
Fixpoint sep_texts (elems : list V) : list (list byte) :=
  match elems with
  | [] => []
  | e :: rest => show e :: match rest with [] => [] | _ => SEP :: sep_texts rest end
  end.

Lemma sep_texts_join : forall elems, concat (sep_texts elems) = join SEP (map show elems).
Proof.
  induction elems as [|e rest IH]; [reflexivity|].
  cbn [sep_texts map join concat]. destruct rest as [|e2 rest'].
  - cbn [concat map]. apply app_nil_r.
  - cbn [map]. cbn [map] in IH. rewrite <- IH. reflexivity.
Qed.

Lemma print_from_done : forall items args st ts,
  wf_items items = true -> p_idx st = 0 -> texts items args = Some ts ->
  exists st', print_to_from V render show st (unparse items) args = ODone st'
    /\ p_sink st' = write_all (p_sink st) (p_pos st) ts
    /\ p_pos st' = p_pos st + length (concat ts).
Proof.
  intros items args st ts Hwf Hi Ht.
  rewrite print_to_from_items by exact Hwf.
  pose proof (run_items_texts V render show items args st Hwf) as R.
  rewrite Hi in R. cbn [skipn] in R. rewrite Ht in R. destruct R as [st' [E [A [B C]]]].
  exists st'. rewrite E. repeat split; assumption.
Qed.

Lemma sep_wf : wf_items [Lit SEP] = true.
Proof. reflexivity. Qed.

Lemma dollar_wf : wf_items [ShowDollar] = true.
Proof. reflexivity. Qed.

Lemma show_elems_spec : forall elems st,
  exists st', show_elems V render show (ODone st) elems = ODone st'
    /\ p_sink st' = write_all (p_sink st) (p_pos st) (sep_texts elems)
    /\ p_pos st' = p_pos st + length (concat (sep_texts elems)).
Proof.
  induction elems as [|e rest IH]; intros st.
  - exists st. cbn [show_elems sep_texts write_all concat length]. repeat split. lia.
  - cbn [show_elems then_print].
    destruct (print_from_done [ShowDollar] [e] (mkP (p_sink st) (p_pos st) 0 (p_calls st)) [show e] dollar_wf eq_refl eq_refl)
      as [st1 [E1 [A1 B1]]].
    change (unparse [ShowDollar]) with [PCT; DOLLAR] in E1. rewrite E1.
    cbn [p_sink p_pos concat] in A1, B1. rewrite app_nil_r in B1.
    destruct rest as [|e2 rest'].
    + cbn [show_elems sep_texts]. exists st1. cbn [write_all concat]. rewrite app_nil_r.
      repeat split; assumption.
    + cbn [then_print].
      destruct (print_from_done [Lit SEP] [] (mkP (p_sink st1) (p_pos st1) 0 (p_calls st1)) [SEP] sep_wf eq_refl eq_refl)
        as [st2 [E2 [A2 B2]]].
      change (unparse [Lit SEP]) with SEP in E2. rewrite E2.
      cbn [p_sink p_pos concat] in A2, B2. rewrite app_nil_r in B2.
      destruct (IH st2) as [st3 [E3 [A3 B3]]].
      exists st3. split; [exact E3|].
      set (tl := sep_texts (e2 :: rest')) in *.
      change (sep_texts (e :: e2 :: rest')) with (show e :: SEP :: tl).
      cbn [write_all concat]. rewrite A3, B3, A2, B2, A1, B1. cbn [write_all].
      rewrite !app_length. split; [reflexivity|lia].
Qed.

Theorem show_seq_spec : forall oi ci self elems k pos tops tcl,
  wf_items oi = true -> wf_items ci = true ->
  texts oi [self] = Some tops -> texts ci [] = Some tcl ->
  exists st, show_seq V render show (unparse oi) (unparse ci) self elems k pos = ODone st
    /\ p_sink st = write_all k pos (tops ++ sep_texts elems ++ tcl)
    /\ p_pos st = pos + length (concat tops ++ join SEP (map show elems) ++ concat tcl).
Proof.
  intros oi ci self elems k pos tops tcl Ho Hc Hto Htc. unfold show_seq.
  destruct (print_to_done V render show oi [self] k pos tops Ho Hto) as [st0 [E0 [A0 [B0 _]]]].
  rewrite E0.
  destruct (show_elems_spec elems st0) as [st1 [E1 [A1 B1]]]. rewrite E1.
  cbn [then_print].
  destruct (print_from_done ci [] (mkP (p_sink st1) (p_pos st1) 0 (p_calls st1)) tcl Hc eq_refl Htc) as [st2 [E2 [A2 B2]]].
  rewrite E2. exists st2. split; [reflexivity|].
  cbn [p_sink p_pos] in A2, B2.
  rewrite !write_all_app. rewrite A2, B2, A1, B1, A0, B0.
  rewrite <- sep_texts_join. rewrite !app_length.
  split; [reflexivity|lia].
Qed.

End ShowProofs.

(* ------------------------------------------------------------------------------------------ *)
(* the statements in the form Properties_C14.v quotes them *)

Section Final.
Variable V : Type.
Variable render : list byte -> ckind -> V -> option (list byte).
Variable show : V -> list byte.
Notation texts := (texts V render show).
Notation print_to := (print_to V render show).

Lemma texts_length : forall items args ts, texts items args = Some ts -> length ts = length items.
Proof.
  induction items as [|it r IH]; intros args ts H.
  - inversion H. reflexivity.
  - cbn [Format.texts] in H. destruct (consumes it).
    + destruct args as [|a args']; [discriminate|].
      destruct (item_text V render show it (Some a)); [|discriminate].
      destruct (texts r args') as [ts'|] eqn:E; [|discriminate].
      inversion H; subst. simpl. f_equal. eapply IH; eauto.
    + destruct (item_text V render show it None); [|discriminate].
      destruct (texts r args) as [ts'|] eqn:E; [|discriminate].
      inversion H; subst. simpl. f_equal. eapply IH; eauto.
Qed.

Theorem print_string : forall items args s pos ts,
  wf_items items = true -> texts items args = Some ts -> items <> [] -> pos <= length s ->
  exists st, print_to (SString s) pos (unparse items) args = ODone st
    /\ p_sink st = SString (firstn pos s ++ concat ts)
    /\ p_pos st = pos + length (concat ts).
Proof.
  intros items args s pos ts Hwf Ht Hne Hp.
  destruct (print_to_done V render show items args (SString s) pos ts Hwf Ht) as [st [E [A [B _]]]].
  exists st. split; [exact E|]. split; [|exact B].
  rewrite A. apply write_all_string; [|exact Hp].
  intros Ets. subst ts. apply texts_length in Ht. destruct items; [contradiction|discriminate].
Qed.

Theorem print_string_beyond : forall items args s pos ts,
  wf_items items = true -> texts items args = Some ts -> length s < pos ->
  exists st, print_to (SString s) pos (unparse items) args = ODone st
    /\ p_sink st = SString s
    /\ p_pos st = pos + length (concat ts).
Proof.
  intros items args s pos ts Hwf Ht Hp.
  destruct (print_to_done V render show items args (SString s) pos ts Hwf Ht) as [st [E [A [B _]]]].
  exists st. split; [exact E|]. split; [|exact B].
  rewrite A. apply write_all_string_beyond. exact Hp.
Qed.

Theorem print_file : forall items args s pos ts,
  wf_items items = true -> texts items args = Some ts ->
  exists st, print_to (SFile s) pos (unparse items) args = ODone st
    /\ p_sink st = SFile (s ++ concat ts)
    /\ p_pos st = pos + length (concat ts).
Proof.
  intros items args s pos ts Hwf Ht.
  destruct (print_to_done V render show items args (SFile s) pos ts Hwf Ht) as [st [E [A [B _]]]].
  exists st. split; [exact E|]. split; [|exact B].
  rewrite A. apply write_all_file.
Qed.

Theorem print_empty : forall k pos args,
  print_to k pos [] args = ODone (mkP k pos 0 []).
Proof. reflexivity. Qed.

End Final.

(* ---- a concrete instance: the hypotheses of the theorems are satisfiable ---- *)
Definition ex_render (p : list byte) (k : ckind) (v : nat) : option (list byte) := Some [v; v].
Definition ex_show (v : nat) : list byte := [v].
(* "%-5ld%.2f a%%%$%s" : specifications at the very start and the very end, adjacent ones, %%, %$ *)
Definition ex_items : list item :=
  [Conv [45] [53] [] [108] 100; Conv [] [] [46; 50] [] 102; Lit [32; 97]; Percent; ShowDollar; Conv [] [] [] [] 115].
Definition ex_fmt : list byte := [37; 45; 53; 108; 100; 37; 46; 50; 102; 32; 97; 37; 37; 37; 36; 37; 115].

Lemma ex_wf : wf_items ex_items = true /\ unparse ex_items = ex_fmt /\ ex_items <> [].
Proof. repeat split. discriminate. Qed.

Lemma ex_texts : texts nat ex_render ex_show ex_items [1; 2; 3; 4] = Some [[1; 1]; [2; 2]; [32; 97]; [37]; [3]; [4; 4]].
Proof. reflexivity. Qed.

Lemma ex_print_string :
  print_to nat ex_render ex_show (SString [104; 105; 33]) 2 ex_fmt [1; 2; 3; 4]
  = ODone (mkP (SString [104; 105; 1; 1; 2; 2; 32; 97; 37; 3; 4; 4]) 12 4
               [CFmt 10 [37; 115] (Some (KStr, 3)); CShow 9 2; CFmt 8 [37; 37] None; CFmt 6 [32; 97] None;
                CFmt 4 [37; 46; 50; 102] (Some (KFloat, 1)); CFmt 2 [37; 45; 53; 108; 100] (Some (KInt, 0))]).
Proof. vm_compute. reflexivity. Qed.

Lemma ex_few : length [1; 2] < nconsumers ex_items
  /\ exists st, print_to nat ex_render ex_show (SFile []) 0 ex_fmt [1; 2] = ORaise st /\ p_sink st = SFile [1; 1; 2; 2; 32; 97; 37].
Proof. split; [vm_compute; lia|]. eexists. split; vm_compute; reflexivity. Qed.

(* when the unfinished specification is not the whole text, the scanner walks past the NUL
   (provided libc does not fail on the incomplete specification) *)
(* a lone '%' : with malloc(strlen+1) the NUL write of the piece buffer lands one byte behind it; with a
   roomier buffer the unfinished specification swallows the terminator and the scanner walks past it *)
Lemma lone_percent_crashes : forall k pos a, print_to nat ex_render ex_show k pos [PCT] [a] = OCrash.
Proof. intros k pos a. destruct k; reflexivity. Qed.

Lemma lone_percent_overruns_tight_buffer :
  (print_buf_extra =? 1) && (print_buf_stack_cap =? 0) = true -> buf_put [PCT] 0 2 = None.
Proof. intros H. apply buf_put_refuses. revert H. vm_compute. intros H. first [discriminate H | lia]. Qed.

Lemma trailing_percent_crashes :
  print_to nat (fun _ _ _ => Some []) ex_show (SFile []) 0 [97; PCT] [1] = OCrash
  /\ (print_dispatch_nul_hits = true ->
      print_to nat (fun _ _ _ => None) ex_show (SFile []) 0 [97; PCT] [1] = ORaise (mkP (SFile [97]) 1 1 [CFmt 0 [97] None])).
Proof. split; [vm_compute; reflexivity|]. vm_compute. intros H. first [reflexivity | discriminate H]. Qed.

Lemma ex_scan : scan ex_fmt = Ok (map tok_of ex_items).
Proof. vm_compute. reflexivity. Qed.

(* Array_Show's opener "<'Array' At 0x%p [" and closer "]>" *)
Definition array_open : list item :=
  [Lit [60; 39; 65; 114; 114; 97; 121; 39; 32; 65; 116; 32; 48; 120]; Conv [] [] [] [] 112; Lit [32; 91]].
Definition array_close : list item := [Lit [93; 62]].

Lemma ex_array_show :
  wf_items array_open = true /\ wf_items array_close = true
  /\ texts nat ex_render ex_show array_open [9] = Some [[60; 39; 65; 114; 114; 97; 121; 39; 32; 65; 116; 32; 48; 120]; [9; 9]; [32; 91]]
  /\ texts nat ex_render ex_show array_close [] = Some [[93; 62]]
  /\ exists st, show_seq nat ex_render ex_show (unparse array_open) (unparse array_close) 9 [5; 6; 7] (SFile []) 0 = ODone st
       /\ p_sink st = SFile ([60; 39; 65; 114; 114; 97; 121; 39; 32; 65; 116; 32; 48; 120; 9; 9; 32; 91] ++ [5; 44; 32; 6; 44; 32; 7] ++ [93; 62]).
Proof. repeat split. eexists. split; vm_compute; reflexivity. Qed.

Lemma ex_string_bundle :
  texts nat ex_render ex_show ex_items [1; 2; 3; 4] <> None
  /\ exists st, print_to nat ex_render ex_show (SString [104; 105; 33]) 2 ex_fmt [1; 2; 3; 4] = ODone st.
Proof. split; [rewrite ex_texts; discriminate|]. eexists. apply ex_print_string. Qed.

Lemma ex_container_bundle :
  wf_items array_open = true /\ wf_items array_close = true
  /\ texts nat ex_render ex_show array_open [9] <> None /\ texts nat ex_render ex_show array_close [] <> None.
Proof. repeat split; discriminate. Qed.

(* ------------------------------------------------------------------------------------------ *)
(* the calls made on the sink (what a recording sink sees), with their exact positions,
   and what has been written when FormatError is raised *)

Fixpoint calls_of (items : list item) (ts : list (list byte)) (pos idx : nat) : list call :=
  match items, ts with
  | it :: r, t :: tr =>
    (match it with
     | Lit s => CFmt pos s None
     | Percent => CFmt pos [PCT; PCT] None
     | Conv f w p l c => CFmt pos (unparse_item it) (Some (conv_kind c, idx))
     | ShowDollar => CShow pos idx
     end) :: calls_of r tr (pos + length t) (if consumes it then S idx else idx)
  | _, _ => []
  end.

Section CallProofs.
Variable V : Type.
Variable render : list byte -> ckind -> V -> option (list byte).
Variable show : V -> list byte.
Notation texts := (texts V render show).
Notation run_items := (run_items V render show).

Lemma run_items_calls : forall items args st ts,
  wf_items items = true -> texts items (skipn (p_idx st) args) = Some ts ->
  exists st', run_items items args st = inl st'
    /\ p_calls st' = rev (calls_of items ts (p_pos st) (p_idx st)) ++ p_calls st.
Proof.
  induction items as [|it r IH]; intros args st ts Hwf Ht.
  - inversion Ht; subst. exists st. split; reflexivity.
  - apply wf_items_cons in Hwf. destruct Hwf as [H1 [_ H3]].
    destruct it as [s| |f w p l c|].
    + cbn [Format.texts consumes item_text] in Ht.
      destruct (texts r (skipn (p_idx st) args)) as [ts'|] eqn:Et; [|discriminate]. inversion Ht; subst ts.
      cbn [FormatProofs.run_items tok_of]. rewrite exec_lit.
      set (st1 := wrote st s (p_idx st) (CFmt (p_pos st) s None)).
      destruct (IH args st1 ts' H3 Et) as [st' [E C]]. exists st'. split; [exact E|].
      rewrite C. cbn [calls_of consumes rev st1 wrote p_pos p_idx p_calls]. rewrite <- app_assoc. reflexivity.
    + cbn [Format.texts consumes item_text] in Ht.
      destruct (texts r (skipn (p_idx st) args)) as [ts'|] eqn:Et; [|discriminate]. inversion Ht; subst ts.
      cbn [FormatProofs.run_items tok_of]. rewrite exec_pct.
      set (st1 := wrote st [PCT] (p_idx st) (CFmt (p_pos st) [PCT; PCT] None)).
      destruct (IH args st1 ts' H3 Et) as [st' [E C]]. exists st'. split; [exact E|].
      rewrite C. cbn [calls_of consumes rev st1 wrote p_pos p_idx p_calls]. rewrite <- app_assoc. reflexivity.
    + cbn [Format.texts consumes] in Ht.
      destruct (skipn (p_idx st) args) as [|a args'] eqn:Esk; [discriminate|].
      apply skipn_cons_nth in Esk. destruct Esk as [Hn Hs].
      cbn [item_text] in Ht.
      destruct (render (unparse_item (Conv f w p l c)) (conv_kind c) a) as [t|] eqn:Er; [|discriminate].
      destruct (texts r args') as [ts'|] eqn:Et; [|discriminate]. inversion Ht; subst ts.
      cbn [FormatProofs.run_items tok_of]. rewrite (exec_conv _ _ _ _ _ a) by (eauto using wf_conv_char). rewrite Er.
      set (st1 := wrote (arg_taken st) t (S (p_idx st)) _).
      assert (Et1 : texts r (skipn (p_idx st1) args) = Some ts') by (cbn [st1 wrote p_idx]; rewrite Hs; exact Et).
      destruct (IH args st1 ts' H3 Et1) as [st' [E C]]. exists st'. split; [exact E|].
      rewrite C. cbn [calls_of consumes rev st1 wrote arg_taken p_pos p_idx p_calls]. rewrite <- app_assoc. reflexivity.
    + cbn [Format.texts consumes] in Ht.
      destruct (skipn (p_idx st) args) as [|a args'] eqn:Esk; [discriminate|].
      apply skipn_cons_nth in Esk. destruct Esk as [Hn Hs].
      cbn [item_text] in Ht.
      destruct (texts r args') as [ts'|] eqn:Et; [|discriminate]. inversion Ht; subst ts.
      cbn [FormatProofs.run_items tok_of]. rewrite (exec_dollar _ _ _ _ a) by exact Hn.
      set (st1 := wrote (arg_taken st) (show a) (S (p_idx st)) _).
      assert (Et1 : texts r (skipn (p_idx st1) args) = Some ts') by (cbn [st1 wrote p_idx]; rewrite Hs; exact Et).
      destruct (IH args st1 ts' H3 Et1) as [st' [E C]]. exists st'. split; [exact E|].
      rewrite C. cbn [calls_of consumes rev st1 wrote arg_taken p_pos p_idx p_calls]. rewrite <- app_assoc. reflexivity.
Qed.

(* every call reaches the sink at the start position plus the length of the texts before it,
   with the item's own text as the piece *)
Theorem print_to_calls : forall items args k pos ts,
  wf_items items = true -> texts items args = Some ts ->
  exists st, print_to V render show k pos (unparse items) args = ODone st
    /\ rev (p_calls st) = calls_of items ts pos 0.
Proof.
  intros items args k pos ts Hwf Ht. unfold print_to. rewrite print_to_from_items by exact Hwf.
  destruct (run_items_calls items args (mkP k pos 0 []) ts Hwf Ht) as [st' [E C]].
  exists st'. rewrite E. split; [reflexivity|]. rewrite C. cbn [p_calls p_pos p_idx].
  rewrite app_nil_r. apply rev_involutive.
Qed.

Lemma run_items_app : forall a b args st,
  run_items (a ++ b) args st =
  match run_items a args st with inl st' => run_items b args st' | inr st' => inr st' end.
Proof.
  induction a as [|it a IH]; intros b args st; [reflexivity|].
  cbn [app FormatProofs.run_items]. destruct (exec V render show (tok_of it) args st); [apply IH|reflexivity].
Qed.

Lemma wf_items_app_l : forall a b, wf_items (a ++ b) = true -> wf_items a = true.
Proof.
  induction a as [|it a IH]; intros b H; [reflexivity|].
  cbn [app] in H. apply wf_items_cons in H. destruct H as [H1 [H2 H3]].
  cbn [wf_items]. rewrite H1, (IH b H3).
  destruct a as [|it' a']; [reflexivity|]. unfold follows_ok in H2. cbn [app] in H2. rewrite H2. reflexivity.
Qed.

(* what has been done when the arguments run out: exactly the items before the first one left
   without argument have been written, nothing of it or after it *)
Theorem too_few_arguments_partial : forall before it after args k pos ts,
  wf_items (before ++ it :: after) = true -> consumes it = true ->
  texts before args = Some ts -> nconsumers before = length args ->
  exists st, print_to V render show k pos (unparse (before ++ it :: after)) args = ORaise st
    /\ p_sink st = write_all k pos ts
    /\ p_pos st = pos + length (concat ts).
Proof.
  intros before it after args k pos ts Hwf Hc Ht Hn.
  unfold print_to. rewrite print_to_from_items by exact Hwf.
  rewrite run_items_app.
  pose proof (run_items_texts V render show before args (mkP k pos 0 []) (wf_items_app_l _ _ Hwf)) as R.
  cbn [p_idx skipn] in R. rewrite Ht in R. destruct R as [st' [E [A [B C]]]].
  rewrite E. cbn [FormatProofs.run_items].
  assert (Hnone : nth_error args (p_idx st') = None).
  { apply nth_error_None. rewrite C. cbn [p_idx]. lia. }
  assert (Ex : exec V render show (tok_of it) args st' = inr st').
  { destruct it; try discriminate; cbn [tok_of]; apply exec_noarg; exact Hnone. }
  rewrite Ex. exists st'. cbn [outcome_of]. cbn [p_sink p_pos] in A, B. repeat split; assumption.
Qed.

End CallProofs.

Lemma ex_partial_bundle :
  wf_items (firstn 4 ex_items ++ ShowDollar :: skipn 5 ex_items) = true /\ consumes ShowDollar = true
  /\ texts nat ex_render ex_show (firstn 4 ex_items) [1; 2] = Some [[1; 1]; [2; 2]; [32; 97]; [37]]
  /\ nconsumers (firstn 4 ex_items) = length [1; 2].
Proof. repeat split. Qed.

(* ------------------------------------------------------------------------------------------ *)
(* Show of a key/value container (Table_Show, Tree_Show) *)

Section MapShowProofs.
Variable V : Type.
Variable render : list byte -> ckind -> V -> option (list byte).
Variable show : V -> list byte.
Notation texts := (texts V render show).

Definition COLON : list byte := [58].

(* show k1, ":", show v1, ", ", show k2, ":", show v2, ... *)
Fixpoint pair_texts (elems : list (V * V)) : list (list byte) :=
  match elems with
  | [] => []
  | (key, val) :: rest =>
    show key :: COLON :: show val :: match rest with [] => [] | _ => SEP :: pair_texts rest end
  end.

Lemma pair_texts_join : forall elems,
  concat (pair_texts elems) = join SEP (map (fun kv => show (fst kv) ++ COLON ++ show (snd kv)) elems).
Proof.
  induction elems as [|[key val] rest IH]; [reflexivity|].
  cbn [pair_texts map join concat fst snd]. destruct rest as [|e2 rest'].
  - cbn [concat map]. rewrite app_nil_r. reflexivity.
  - cbn [map]. cbn [map] in IH. rewrite <- IH. cbn [concat]. rewrite <- ?app_assoc. reflexivity.
Qed.

Definition kv_items : list item := [ShowDollar; Lit COLON; ShowDollar].

Lemma kv_wf : wf_items kv_items = true /\ unparse kv_items = KV.
Proof. split; reflexivity. Qed.

Lemma show_pairs_spec : forall elems st,
  exists st', show_pairs V render show (ODone st) elems = ODone st'
    /\ p_sink st' = write_all (p_sink st) (p_pos st) (pair_texts elems)
    /\ p_pos st' = p_pos st + length (concat (pair_texts elems)).
Proof.
  induction elems as [|[key val] rest IH]; intros st.
  - exists st. cbn [show_pairs pair_texts write_all concat length]. repeat split. lia.
  - cbn [show_pairs then_print].
    destruct (print_from_done V render show kv_items [key; val] (mkP (p_sink st) (p_pos st) 0 (p_calls st))
                [show key; COLON; show val] (proj1 kv_wf) eq_refl eq_refl) as [st1 [E1 [A1 B1]]].
    rewrite (proj2 kv_wf) in E1. rewrite E1.
    cbn [p_sink p_pos concat] in A1, B1. rewrite app_nil_r in B1.
    destruct rest as [|e2 rest'].
    + cbn [show_pairs pair_texts]. exists st1. cbn [concat]. rewrite app_nil_r.
      repeat split; assumption.
    + cbn [then_print].
      destruct (print_from_done V render show [Lit SEP] [] (mkP (p_sink st1) (p_pos st1) 0 (p_calls st1)) [SEP] sep_wf eq_refl eq_refl)
        as [st2 [E2 [A2 B2]]].
      change (unparse [Lit SEP]) with SEP in E2. rewrite E2.
      cbn [p_sink p_pos concat] in A2, B2. rewrite app_nil_r in B2.
      destruct (IH st2) as [st3 [E3 [A3 B3]]].
      exists st3. split; [exact E3|].
      set (tl := pair_texts (e2 :: rest')) in *.
      change (pair_texts ((key, val) :: e2 :: rest')) with (show key :: COLON :: show val :: SEP :: tl).
      rewrite A3, B3, A2, B2, A1, B1. cbn [write_all concat].
      rewrite !app_length. split; [|lia].
      rewrite !Nat.add_assoc. reflexivity.
Qed.

Theorem show_map_spec : forall oi ci self elems k pos tops tcl,
  wf_items oi = true -> wf_items ci = true ->
  texts oi [self] = Some tops -> texts ci [] = Some tcl ->
  exists st, show_map V render show (unparse oi) (unparse ci) self elems k pos = ODone st
    /\ p_sink st = write_all k pos (tops ++ pair_texts elems ++ tcl)
    /\ p_pos st = pos + length (concat tops
                                ++ join SEP (map (fun kv => show (fst kv) ++ COLON ++ show (snd kv)) elems)
                                ++ concat tcl).
Proof.
  intros oi ci self elems k pos tops tcl Ho Hc Hto Htc. unfold show_map.
  destruct (print_to_done V render show oi [self] k pos tops Ho Hto) as [st0 [E0 [A0 [B0 _]]]].
  rewrite E0.
  destruct (show_pairs_spec elems st0) as [st1 [E1 [A1 B1]]]. rewrite E1.
  cbn [then_print].
  destruct (print_from_done V render show ci [] (mkP (p_sink st1) (p_pos st1) 0 (p_calls st1)) tcl Hc eq_refl Htc) as [st2 [E2 [A2 B2]]].
  rewrite E2. exists st2. split; [reflexivity|].
  cbn [p_sink p_pos] in A2, B2.
  rewrite !write_all_app. rewrite A2, B2, A1, B1, A0, B0.
  rewrite <- pair_texts_join. rewrite !app_length.
  split; [reflexivity|lia].
Qed.

End MapShowProofs.

(* Table_Show's opener "<'Table' At 0x%p {" and closer "}>" *)
Definition table_open : list item :=
  [Lit [60; 39; 84; 97; 98; 108; 101; 39; 32; 65; 116; 32; 48; 120]; Conv [] [] [] [] 112; Lit [32; 123]].
Definition table_close : list item := [Lit [125; 62]].

Lemma ex_table_bundle :
  wf_items table_open = true /\ wf_items table_close = true
  /\ texts nat ex_render ex_show table_open [9] <> None /\ texts nat ex_render ex_show table_close [] <> None
  /\ exists st, show_map nat ex_render ex_show (unparse table_open) (unparse table_close) 9 [(1, 2); (3, 4)] (SFile []) 0 = ODone st
       /\ p_sink st = SFile ([60; 39; 84; 97; 98; 108; 101; 39; 32; 65; 116; 32; 48; 120; 9; 9; 32; 123] ++ [1; 58; 2; 44; 32; 3; 58; 4] ++ [125; 62]).
Proof. repeat split; try discriminate. eexists. split; vm_compute; reflexivity. Qed.

(* ------------------------------------------------------------------------------------------ *)
(* the format strings the built-in Show functions use (re-extracted from Array.c, List.c, Tuple.c,
   Table.c, Tree.c, Num.c) are texts of well-formed item lists, so the theorems above apply to them *)
Definition list_open : list item :=
  [Lit [60; 39; 76; 105; 115; 116; 39; 32; 65; 116; 32; 48; 120]; Conv [] [] [] [] 112; Lit [32; 91]].
Definition tuple_open : list item := [Lit [116; 117; 112; 108; 101; 40]].
Definition tuple_close : list item := [Lit [41]].
Definition tree_open : list item :=
  [Lit [60; 39; 84; 114; 101; 101; 39; 32; 65; 116; 32; 48; 120]; Conv [] [] [] [] 112; Lit [32; 123]].
Definition int_show_items : list item := [Conv [] [] [] [108] 105].      (* %li *)
Definition float_show_items : list item := [Conv [] [] [] [] 102].       (* %f *)

Definition show_format_ok (items : list item) (text : list byte) : Prop :=
  wf_items items = true /\ unparse items = text.

Lemma builtin_show_formats :
  (show_format_ok array_open array_show_open /\ show_format_ok array_close array_show_close /\ array_show_shape_ok = true)
  /\ (show_format_ok list_open list_show_open /\ show_format_ok array_close list_show_close /\ list_show_shape_ok = true)
  /\ (show_format_ok tuple_open tuple_show_open /\ show_format_ok tuple_close tuple_show_close /\ tuple_show_shape_ok = true)
  /\ (show_format_ok table_open table_show_open /\ show_format_ok table_close table_show_close /\ table_show_shape_ok = true)
  /\ (show_format_ok tree_open tree_show_open /\ show_format_ok table_close tree_show_close /\ tree_show_shape_ok = true)
  /\ (show_format_ok int_show_items int_show_fmt /\ conv_kind 105 = KInt)
  /\ (show_format_ok float_show_items float_show_fmt /\ conv_kind 102 = KFloat).
Proof. unfold show_format_ok. repeat split. Qed.
