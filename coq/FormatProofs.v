(* FormatProofs.v — proofs about the print-formatting model Format.v (property C14). *)
From Coq Require Import List Arith Bool Lia.
From CelloV Require Import Generated Format.
Import ListNotations.

(* ------------------------------------------------------------------------------------------ *)
(* finite side conditions on the character sets re-extracted from the C source *)

(* every conversion character named by the property is recognised by the scanner's strchr set *)
Lemma std_convs_recognised : forallb (fun c => memb c print_convs) std_convs = true.
Proof. vm_compute. reflexivity. Qed.

(* characters that may stand between '%' and the conversion character *)
Definition mid_chars : list byte := flag_chars ++ digit_chars ++ [46] ++ concat length_mods.

(* none of them ends a specification, none is '%' *)
Lemma mid_chars_pass :
  forallb (fun m => negb (strchr_hit print_convs m) && negb (m =? PCT)) mid_chars = true.
Proof. vm_compute. reflexivity. Qed.

Lemma std_convs_stop :
  forallb (fun c => strchr_hit print_convs c && negb (c =? 0) && negb (c =? PCT)) (DOLLAR :: std_convs) = true.
Proof. vm_compute. reflexivity. Qed.

Lemma pct_passes : strchr_hit print_convs PCT = false.
Proof. vm_compute. reflexivity. Qed.

Lemma pct_skip_is_2 : print_pct_skip = 2.
Proof. reflexivity. Qed.

Lemma buf_extra_is_1 : print_buf_extra = 1.
Proof. reflexivity. Qed.

(* String_Format_To reserves room for the text and its NUL; File_Format_To returns vfprintf's count;
   print_to_with has the statement shape the model encodes *)
Lemma source_shape : string_fmt_room = 1 /\ file_fmt_returns_count = true /\ print_shape_ok = true.
Proof. repeat split; reflexivity. Qed.

(* ------------------------------------------------------------------------------------------ *)
(* small list facts *)

Lemma memb_In : forall c l, memb c l = true <-> In c l.
Proof.
  intros c l. unfold memb. rewrite existsb_exists. split.
  - intros [x [Hin He]]. apply Nat.eqb_eq in He. subst. exact Hin.
  - intros H. exists c. split; [exact H | apply Nat.eqb_refl].
Qed.

Lemma all_in_Forall : forall l set, all_in l set = true -> Forall (fun c => In c set) l.
Proof.
  intros l set H. unfold all_in in H. rewrite forallb_forall in H.
  apply Forall_forall. intros x Hx. apply memb_In. apply H. exact Hx.
Qed.

Lemma list_eqb_eq : forall a b, list_eqb a b = true -> a = b.
Proof.
  induction a as [|x a IH]; intros [|y b] H; unfold list_eqb in H; simpl in H; try discriminate; try reflexivity.
  apply andb_prop in H. destruct H as [Hl Hf].
  apply andb_prop in Hf. destruct Hf as [Hxy Hf].
  apply Nat.eqb_eq in Hxy. subst. f_equal. apply IH. unfold list_eqb. rewrite Hl, Hf. reflexivity.
Qed.

Lemma cstr_id : forall l, Forall (fun c => c <> 0) l -> forall r, cstr (l ++ 0 :: r) = l.
Proof.
  induction l as [|c l IH]; intros H r; simpl.
  - reflexivity.
  - inversion H; subst. destruct (Nat.eqb_spec c 0); [contradiction|]. f_equal. apply IH. assumption.
Qed.

(* ------------------------------------------------------------------------------------------ *)
(* reading the format text *)

Lemma rd_shift : forall pre suf k, rd (pre ++ suf) (length pre + k) = rd suf k.
Proof.
  intros pre suf k. unfold rd. rewrite app_length.
  destruct (Nat.ltb_spec k (length suf)).
  - destruct (Nat.ltb_spec (length pre + k) (length pre + length suf)); [|lia].
    rewrite app_nth2_plus. reflexivity.
  - destruct (Nat.ltb_spec (length pre + k) (length pre + length suf)); [lia|].
    destruct (Nat.eqb_spec k (length suf)).
    + subst. rewrite Nat.eqb_refl. reflexivity.
    + destruct (Nat.eqb_spec (length pre + k) (length pre + length suf)); [lia|reflexivity].
Qed.

Lemma rd_at : forall pre suf, rd (pre ++ suf) (length pre) = rd suf 0.
Proof. intros. rewrite <- (Nat.add_0_r (length pre)) at 1. apply rd_shift. Qed.

Lemma rd_cons0 : forall c r, rd (c :: r) 0 = Some c.
Proof. reflexivity. Qed.

Lemma rd_nil0 : rd [] 0 = Some 0.
Proof. reflexivity. Qed.

Lemma rd_some_le : forall fmt i c, rd fmt i = Some c -> i <= length fmt.
Proof.
  intros fmt i c. unfold rd.
  destruct (Nat.ltb_spec i (length fmt)); [lia|].
  destruct (Nat.eqb_spec i (length fmt)); [lia|discriminate].
Qed.

(* ------------------------------------------------------------------------------------------ *)
(* the two inner loops *)

Definition stops_lit (rest : list byte) : Prop :=
  match rest with [] => True | c :: _ => c = 0 \/ c = PCT end.

Lemma skip_lit_run : forall s pre rest fuel,
  Forall (fun c => c <> 0 /\ c <> PCT) s -> stops_lit rest -> length s < fuel ->
  skip_lit (pre ++ s ++ rest) (length pre) fuel = Ok (length pre + length s).
Proof.
  induction s as [|c s IH]; intros pre rest fuel Hs Hr Hf.
  - destruct fuel as [|f]; [simpl in Hf; lia|]. simpl. rewrite rd_at.
    destruct rest as [|r0 rest].
    + rewrite rd_nil0. simpl. f_equal. lia.
    + rewrite rd_cons0. simpl in Hr.
      assert (E : ((r0 =? 0) || (r0 =? PCT)) = true).
      { destruct Hr as [-> | ->]; reflexivity. }
      rewrite E. f_equal. simpl. lia.
  - destruct fuel as [|f]; [simpl in Hf; lia|].
    inversion Hs as [|? ? [Hc0 Hcp] Hs']; subst.
    cbn [skip_lit]. rewrite rd_at. cbn [app]. rewrite rd_cons0.
    destruct (Nat.eqb_spec c 0); [contradiction|].
    destruct (Nat.eqb_spec c PCT); [contradiction|].
    cbn [orb].
    replace (pre ++ c :: s ++ rest) with ((pre ++ [c]) ++ s ++ rest) by (rewrite <- app_assoc; reflexivity).
    replace (S (length pre)) with (length (pre ++ [c])) by (rewrite app_length; simpl; lia).
    rewrite IH; [|assumption|assumption|simpl in Hf; lia].
    f_equal. rewrite app_length. simpl. lia.
Qed.

Lemma skip_spec_run : forall convs mid pre c rest fuel,
  Forall (fun m => strchr_hit convs m = false) mid -> strchr_hit convs c = true -> length mid < fuel ->
  skip_spec convs (pre ++ mid ++ c :: rest) (length pre) fuel = Ok (length pre + length mid).
Proof.
  induction mid as [|m mid IH]; intros pre c rest fuel Hm Hc Hf.
  - destruct fuel as [|f]; [simpl in Hf; lia|]. simpl. rewrite rd_at, rd_cons0, Hc. f_equal. lia.
  - destruct fuel as [|f]; [simpl in Hf; lia|].
    inversion Hm as [|? ? Hm0 Hm']; subst.
    cbn [skip_spec]. rewrite rd_at. cbn [app]. rewrite rd_cons0, Hm0.
    replace (pre ++ m :: mid ++ c :: rest) with ((pre ++ [m]) ++ mid ++ c :: rest) by (rewrite <- app_assoc; reflexivity).
    replace (S (length pre)) with (length (pre ++ [m])) by (rewrite app_length; simpl; lia).
    rewrite IH; [|assumption|assumption|simpl in Hf; lia].
    f_equal. rewrite app_length. simpl. lia.
Qed.

(* results of the inner loops are readable indices not before the start; enough fuel never runs out *)
Lemma skip_lit_ok : forall fmt fuel i j, skip_lit fmt i fuel = Ok j -> i <= j /\ j <= length fmt.
Proof.
  intros fmt. induction fuel as [|f IH]; intros i j H; [discriminate|].
  simpl in H. destruct (rd fmt i) as [c|] eqn:E; [|discriminate].
  destruct ((c =? 0) || (c =? PCT)).
  - inversion H; subst. split; [lia|]. eapply rd_some_le; eauto.
  - apply IH in H. lia.
Qed.

Lemma skip_spec_ok : forall convs fmt fuel i j, skip_spec convs fmt i fuel = Ok j -> i <= j /\ j <= length fmt.
Proof.
  intros convs fmt. induction fuel as [|f IH]; intros i j H; [discriminate|].
  simpl in H. destruct (rd fmt i) as [c|] eqn:E; [|discriminate].
  destruct (strchr_hit convs c).
  - inversion H; subst. split; [lia|]. eapply rd_some_le; eauto.
  - apply IH in H. lia.
Qed.

Lemma rd_beyond : forall fmt i, length fmt < i -> rd fmt i = None.
Proof.
  intros fmt i H. unfold rd.
  destruct (Nat.ltb_spec i (length fmt)); [lia|].
  destruct (Nat.eqb_spec i (length fmt)); [lia|reflexivity].
Qed.

Lemma skip_lit_fuel : forall fmt fuel i,
  length fmt + 2 <= fuel + i -> i <= length fmt + 1 -> skip_lit fmt i fuel <> Fuel.
Proof.
  intros fmt. induction fuel as [|f IH]; intros i H Hi.
  - lia.
  - simpl. destruct (rd fmt i) as [c|] eqn:E; [|discriminate].
    apply rd_some_le in E.
    destruct ((c =? 0) || (c =? PCT)); [discriminate|]. apply IH; lia.
Qed.

Lemma skip_spec_fuel : forall convs fmt fuel i,
  length fmt + 2 <= fuel + i -> i <= length fmt + 1 -> skip_spec convs fmt i fuel <> Fuel.
Proof.
  intros convs fmt. induction fuel as [|f IH]; intros i H Hi.
  - lia.
  - simpl. destruct (rd fmt i) as [c|] eqn:E; [|discriminate].
    apply rd_some_le in E.
    destruct (strchr_hit convs c); [discriminate|]. apply IH; lia.
Qed.

(* ------------------------------------------------------------------------------------------ *)
(* the copy into the piece buffer *)

Lemma cstr_nozero : forall l, Forall (fun c => c <> 0) l -> cstr l = l.
Proof.
  induction l as [|c l IH]; intros Hl; simpl; [reflexivity|].
  inversion Hl; subst. destruct (Nat.eqb_spec c 0); [contradiction|]. f_equal. auto.
Qed.

Lemma buf_put_mid : forall pre x rest,
  Forall (fun c => c <> 0) x ->
  buf_put (pre ++ x ++ rest) (length pre) (length x) = Some x.
Proof.
  intros pre x rest Hx. unfold buf_put, bufsize. rewrite buf_extra_is_1.
  rewrite !app_length.
  destruct (Nat.leb_spec (length pre + length x) (length pre + (length x + length rest) + 1)) as [_|Hbad]; [|lia].
  destruct (Nat.ltb_spec (length x) (length pre + (length x + length rest) + 1)) as [_|Hbad]; [|lia].
  cbn [andb]. f_equal.
  rewrite <- !app_assoc. rewrite skipn_app, skipn_all, Nat.sub_diag. cbn [skipn app].
  rewrite firstn_app, firstn_all, Nat.sub_diag. cbn [firstn].
  rewrite app_nil_r. apply cstr_nozero. exact Hx.
Qed.

(* ------------------------------------------------------------------------------------------ *)
(* one iteration of the scanner on the text of one item, wherever it stands *)

Lemma scan_fuel_gt : forall fmt n, n <= length fmt -> n < scan_fuel fmt.
Proof. intros. unfold scan_fuel. lia. Qed.

Lemma next_token_end : forall pre, next_token (pre ++ []) (length pre) = Ok (TEnd, length pre).
Proof. intros. unfold next_token. rewrite rd_at, rd_nil0. reflexivity. Qed.

Lemma next_token_lit : forall pre s rest,
  s <> [] -> Forall (fun c => c <> 0 /\ c <> PCT) s -> stops_lit rest ->
  next_token (pre ++ s ++ rest) (length pre) = Ok (TLit s, length pre + length s).
Proof.
  intros pre s rest Hne Hs Hr. unfold next_token.
  rewrite rd_at. destruct s as [|c s']; [contradiction|].
  cbn [app]. rewrite rd_cons0.
  inversion Hs as [|? ? [Hc0 Hcp] Hs']; subst.
  destruct (Nat.eqb_spec c 0); [contradiction|].
  change (pre ++ c :: s' ++ rest) with (pre ++ (c :: s') ++ rest).
  rewrite skip_lit_run; [|assumption|assumption|].
  2:{ apply scan_fuel_gt. rewrite !app_length. lia. }
  destruct (Nat.eqb_spec (length pre + length (c :: s')) (length pre)) as [E|_]; [simpl in E; lia|].
  cbn [negb].
  replace (length pre + length (c :: s') - length pre) with (length (c :: s')) by lia.
  rewrite buf_put_mid; [reflexivity|].
  apply Forall_impl with (2 := Hs). intros a [Ha _]. exact Ha.
Qed.

Lemma skip_lit_at_pct : forall pre rest,
  skip_lit (pre ++ PCT :: rest) (length pre) (scan_fuel (pre ++ PCT :: rest)) = Ok (length pre).
Proof.
  intros pre rest.
  pose proof (skip_lit_run [] pre (PCT :: rest) (scan_fuel (pre ++ PCT :: rest))) as H.
  cbn [app length] in H. rewrite Nat.add_0_r in H. apply H.
  - constructor.
  - right. reflexivity.
  - unfold scan_fuel. lia.
Qed.

Lemma next_token_pct : forall pre rest,
  next_token (pre ++ [PCT; PCT] ++ rest) (length pre) = Ok (TPct, length pre + 2).
Proof.
  intros pre rest. unfold next_token. cbn [app].
  rewrite rd_at, rd_cons0. change (PCT =? 0) with false. cbv iota.
  rewrite skip_lit_at_pct. rewrite Nat.eqb_refl. cbn [negb]. cbv zeta.
  rewrite Nat.eqb_refl.
  rewrite rd_shift. change (rd (PCT :: PCT :: rest) 1) with (Some PCT).
  rewrite pct_skip_is_2. reflexivity.
Qed.

Definition passes (m : byte) : Prop := strchr_hit print_convs m = false /\ m <> PCT.

Lemma passes_nonzero : forall m, passes m -> m <> 0.
Proof. intros m [H _] E. subst. discriminate H. Qed.

Lemma next_token_spec : forall pre mid c rest,
  Forall passes mid -> strchr_hit print_convs c = true -> c <> 0 -> c <> PCT ->
  next_token (pre ++ (PCT :: mid ++ [c]) ++ rest) (length pre)
  = Ok (TSpec (PCT :: mid ++ [c]) c, length pre + length (PCT :: mid ++ [c])).
Proof.
  intros pre mid c rest Hm Hc Hc0 Hcp. unfold next_token.
  set (fmt := pre ++ (PCT :: mid ++ [c]) ++ rest).
  assert (Efmt : fmt = pre ++ PCT :: (mid ++ [c]) ++ rest) by reflexivity.
  rewrite Efmt at 1. rewrite rd_at, rd_cons0. change (PCT =? 0) with false. cbv iota.
  rewrite Efmt at 1 2. rewrite skip_lit_at_pct. rewrite Nat.eqb_refl. cbn [negb]. cbv zeta.
  rewrite Nat.eqb_refl.
  rewrite Efmt at 1. rewrite rd_shift.
  assert (E1 : exists c1, rd (PCT :: (mid ++ [c]) ++ rest) 1 = Some c1 /\ c1 <> PCT).
  { destruct mid as [|m mid'].
    - exists c. split; [reflexivity|assumption].
    - exists m. split; [reflexivity|]. inversion Hm as [|? ? [_ Hmp] _]. exact Hmp. }
  destruct E1 as [c1 [E1 Hc1]]. rewrite E1.
  destruct (Nat.eqb_spec c1 PCT); [contradiction|].
  assert (Efmt2 : fmt = pre ++ (PCT :: mid) ++ c :: rest).
  { unfold fmt. cbn [app]. rewrite <- !app_assoc. reflexivity. }
  rewrite Efmt2 at 1.
  rewrite skip_spec_run.
  2:{ constructor; [apply pct_passes|]. apply Forall_impl with (2 := Hm). intros a [Ha _]. exact Ha. }
  2:{ exact Hc. }
  2:{ apply scan_fuel_gt. rewrite Efmt2. rewrite !app_length. simpl. lia. }
  destruct (Nat.eqb_spec (length pre + length (PCT :: mid)) (length pre)) as [E|_]; [simpl in E; lia|].
  cbn [negb].
  replace (length pre + length (PCT :: mid) - length pre + 1) with (length (PCT :: mid ++ [c])).
  2:{ simpl. rewrite app_length. simpl. lia. }
  unfold fmt at 1. rewrite buf_put_mid.
  2:{ constructor; [discriminate|]. apply Forall_app. split.
      - apply Forall_impl with (2 := Hm). apply passes_nonzero.
      - constructor; [assumption|constructor]. }
  assert (Efmt3 : fmt = (pre ++ PCT :: mid) ++ c :: rest).
  { rewrite Efmt2. rewrite <- app_assoc. reflexivity. }
  replace (length pre + length (PCT :: mid)) with (length (pre ++ PCT :: mid)) by (rewrite app_length; reflexivity).
  rewrite Efmt3 at 1. rewrite rd_at, rd_cons0.
  f_equal. f_equal. rewrite !app_length. simpl. rewrite app_length. simpl. lia.
Qed.
