(* Properties_C05.v — property C05: containers own their elements, each is finalised exactly once.
   Only statements closed by `exact`, each followed by Print Assumptions.
   `run ops` is the world reached by ANY history `ops` of container operations (coq/Ownership.v);
   `held` = tokens of the elements currently contained, `dead` = tokens destructed so far,
   `next` = number of tokens issued (constructions). *)
From Coq Require Import List Arith NArith ZArith Permutation Sorted.
From CelloV Require Import Generated RobinHood TableModel TableProofs SeqModels SeqProofs SortProofs SeqTheorems Ownership OwnershipProofs.
Import ListNotations.

(* every element ever constructed is, at every moment of every history, EITHER contained in exactly
   one container position OR destructed exactly once — as one permutation equation *)
Theorem ownership_ledger : forall ops,
  Permutation (held (conts (run ops)) ++ map fst (dead (run ops))) (seq 0 (next (run ops))).
Proof. exact run_inv. Qed.
Print Assumptions ownership_ledger.

Theorem ownership_exactly_once : forall ops,
  let w := run ops in
  NoDup (held (conts w)) /\
  NoDup (map fst (dead w)) /\
  (forall t, In t (held (conts w)) -> ~ In t (map fst (dead w))) /\
  (forall t, In t (map fst (dead w)) -> t < next w) /\
  (forall t, t < next w -> In t (held (conts w)) \/ In t (map fst (dead w))) /\
  length (held (conts w)) + length (dead w) = next w.
Proof. exact OwnershipProofs.ownership_exactly_once. Qed.
Print Assumptions ownership_exactly_once.

(* signed indices (get/set/pop_at/push_at take an int64 and normalise a negative one against the current length, as
   the C code does): every history with signed indices is a history of plain operations of the same length, so every
   statement of this file about [run ops] holds of [srun ss] as well — in particular the ledger *)
Theorem signed_index_histories_are_plain_histories : forall ss, exists ops, srun ss = run ops /\ length ops = length ss.
Proof. exact srun_is_run. Qed.
Print Assumptions signed_index_histories_are_plain_histories.

Theorem ownership_ledger_with_signed_indices : forall ss,
  Permutation (held (conts (srun ss)) ++ map fst (dead (srun ss))) (seq 0 (next (srun ss))).
Proof. exact (srun_transfer (fun w => Permutation (held (conts w) ++ map fst (dead w)) (seq 0 (next w))) run_inv). Qed.
Print Assumptions ownership_ledger_with_signed_indices.

Theorem signed_index_normalisation_is_the_C_one : forall n i,
  ((i < 0)%Z -> (0 <= Z.of_nat n + i)%Z -> Z.of_nat (norm_index n i) = (Z.of_nat n + i)%Z) /\
  ((i < 0)%Z -> (Z.of_nat n + i < 0)%Z -> norm_index n i = S n) /\
  ((0 <= i <= Z.of_nat (S n))%Z -> Z.of_nat (norm_index n i) = i) /\
  ((Z.of_nat (S n) < i)%Z -> norm_index n i = S n).
Proof. exact (fun n i => conj (norm_index_neg n i) (conj (fun a b => norm_index_refused n i b a) (conj (norm_index_pos n i) (norm_index_far n i)))). Qed.
Print Assumptions signed_index_normalisation_is_the_C_one.

Example signed_index_nonvacuous :
  map cval (match conts (srun [SOp (ONewSeq KArray [10; 11; 12; 13]%Z); SPopAt 0 (-2); SPushAt 0 (-1) 7; SPopAt 0 (-9); SSet 0 (-4) 5]) with
            | [Some (CSeq _ l)] => l | _ => [] end) = [5; 11; 13; 7]%Z.
Proof. vm_compute. reflexivity. Qed.

(* number of live elements = sum of the container lengths (keys and values alike; zero-filled
   List elements, which carry no token until first assigned, are counted apart) *)
Theorem live_equals_lengths : forall ops,
  let w := run ops in
  next w - length (dead w) = length (held (conts w)) /\
  length (held (conts w)) + total_zeros (conts w) = total_len (conts w).
Proof. exact OwnershipProofs.live_equals_lengths. Qed.
Print Assumptions live_equals_lengths.

(* an operation changes only the container it is applied to: the source of an assign / concat /
   copy and every other container keep exactly their elements (mutating or deleting one side of a
   copy never changes the other) *)
Theorem operations_are_framed : forall w o j,
  j < length (conts w) -> target o <> Some j -> nth_error (conts (step w o)) j = nth_error (conts w) j.
Proof. exact step_frame. Qed.
Print Assumptions operations_are_framed.

(* copies are deep: every element of a fresh copy is a new element *)
Theorem copy_is_deep : forall ops d,
  let w := run ops in let w' := step w (OCopy d) in
  forall t, In t (held (conts w)) -> In t (held (conts w')) /\
  (forall x, nth_error (conts w') (length (conts w)) = Some (Some x) -> ~ In t (cont_toks x)).
Proof. exact OwnershipProofs.copy_is_deep. Qed.
Print Assumptions copy_is_deep.

(* sort swaps neither duplicate nor drop an element *)
Theorem sort_moves_cells : forall l, Permutation (s_sort l) l.
Proof. exact s_sort_perm. Qed.
Print Assumptions sort_moves_cells.

(* ---- internal moves neither duplicate nor drop an element: statements about the SLOT-LEVEL models of C02/C04
   (the ones compared with the library slot by slot), with an ARBITRARY value/element type — in particular
   one carrying ownership tokens *)

(* Table: after any history (growth and shrink rehashing, robin-hood displacement, backward shift, copy)
   the entries found in the slot array are exactly, as a multiset, the bindings of the abstract map:
   no key or value was duplicated or lost by the moves; this holds for every hash function *)
Theorem table_moves_neither_duplicate_nor_drop : forall (K V : Type) (keq : K -> K -> bool) (hash : K -> N),
  (forall a b, keq a b = true <-> a = b) ->
  forall (ops : list (TableModel.op K V)),
  let t := T_run K V keq hash ops in
  let m := TableModel.spec_run K V keq ops [] in
  TableModel.t_len K V t = length m /\
  NoDup (map fst (TableModel.t_iter K V t)) /\
  Permutation (TableModel.t_iter K V t) m /\
  (forall k, In k (map fst (TableModel.t_iter K V t)) <-> TableModel.a_get K V keq m k <> None).
Proof. exact TableProofs.T_len_iter. Qed.
Print Assumptions table_moves_neither_duplicate_nor_drop.

(* Array: the quicksort as coded (swaps) returns a permutation of the elements it was given *)
Theorem array_sort_swaps_permute : forall (E : Type) (leq : E -> E -> bool),
  (forall x y, leq x y = true \/ leq y x = true) ->
  (forall x y z, leq x y = true -> leq y z = true -> leq x z = true) ->
  forall xs : list E,
  exists ys, qsort (lt_of E leq) xs = SeqModels.Ok ys /\ Permutation xs ys /\
             StronglySorted (fun x y => leq x y = true) ys /\
             Sorted (fun x y => leq x y = true) ys.
Proof. exact SeqTheorems.sort_perm_sorted. Qed.
Print Assumptions array_sort_swaps_permute.

(* Array / List: in every invariant state (capacity changes by realloc included) the stored elements are
   exactly the abstract sequence *)
Theorem array_cells_are_the_sequence : forall (E : Type) (a : array E),
  a_inv E a -> nitems E a = length (a_abs E a) /\ a_iter E a = SeqModels.Ok (a_abs E a).
Proof. exact SeqProofs.a_observe. Qed.
Print Assumptions array_cells_are_the_sequence.

Theorem list_nodes_are_the_sequence : forall (E : Type) (l : llist E),
  l_inv E l -> lnitems E l = length (l_abs E l) /\ l_iter E l = SeqModels.Ok (l_abs E l).
Proof. exact SeqProofs.l_observe. Qed.
Print Assumptions list_nodes_are_the_sequence.

(* non-vacuity: a history with two kinds of containers, a replacement in a Table, an in-place
   update in a Tree, a cross-kind assign, a deep copy, a zero-filled List element and deletions *)
Example ownership_nonvacuous :
  let ops := [ONewSeq KArray [1;2;3]%Z; ONewSeq KList [5]%Z; ONewMap KTable [(1,2);(3,4)]%Z;
              OMSet 2 1%Z 9%Z; ONewMap KTree [(1,2)]%Z; OMSet 3 1%Z 7%Z; OAssign 1 0; OCopy 2;
              OResize 1 5; OPopAt 0 1; ODel 2; OSort 0; ONewBox 4%Z; ODel 5] in
  let w := run ops in
  next w = 20 /\ length (dead w) = 9 /\ length (held (conts w)) = 11 /\
  total_len (conts w) = 13 /\ total_zeros (conts w) = 2.
Proof. vm_compute. repeat split. Qed.
