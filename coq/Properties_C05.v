(* Properties_C05.v — property C05: containers own their elements, each is finalised exactly once.
   Only statements closed by `exact`, each followed by Print Assumptions.
   `run ops` is the world reached by ANY history `ops` of container operations (coq/Ownership.v);
   `held` = tokens of the elements currently contained, `dead` = tokens destructed so far,
   `next` = number of tokens issued (constructions). *)
From Coq Require Import List Arith ZArith Permutation.
From CelloV Require Import Ownership OwnershipProofs.
Import ListNotations.

(* every element ever constructed is, at every moment of every history, EITHER contained in exactly
   one container position OR destructed exactly once — as one permutation equation *)
Theorem ownership_ledger : forall ops,
  Permutation (held (conts (run ops)) ++ map fst (dead (run ops))) (seq 0 (next (run ops))).
Proof. exact run_inv. Qed.
Print Assumptions ownership_ledger.

Theorem ownership_exactly_once : forall ops,
  let w := run ops in
  NoDup (held (conts w)) /\
  NoDup (map fst (dead w)) /\
  (forall t, In t (held (conts w)) -> ~ In t (map fst (dead w))) /\
  (forall t, In t (map fst (dead w)) -> t < next w) /\
  (forall t, t < next w -> In t (held (conts w)) \/ In t (map fst (dead w))) /\
  length (held (conts w)) + length (dead w) = next w.
Proof. exact OwnershipProofs.ownership_exactly_once. Qed.
Print Assumptions ownership_exactly_once.

(* number of live elements = sum of the container lengths (keys and values alike; zero-filled
   List elements, which carry no token until first assigned, are counted apart) *)
Theorem live_equals_lengths : forall ops,
  let w := run ops in
  next w - length (dead w) = length (held (conts w)) /\
  length (held (conts w)) + total_zeros (conts w) = total_len (conts w).
Proof. exact OwnershipProofs.live_equals_lengths. Qed.
Print Assumptions live_equals_lengths.

(* an operation changes only the container it is applied to: the source of an assign / concat /
   copy and every other container keep exactly their elements (mutating or deleting one side of a
   copy never changes the other) *)
Theorem operations_are_framed : forall w o j,
  j < length (conts w) -> target o <> Some j -> nth_error (conts (step w o)) j = nth_error (conts w) j.
Proof. exact step_frame. Qed.
Print Assumptions operations_are_framed.

(* copies are deep: every element of a fresh copy is a new element *)
Theorem copy_is_deep : forall ops d,
  let w := run ops in let w' := step w (OCopy d) in
  forall t, In t (held (conts w)) -> In t (held (conts w')) /\
  (forall x, nth_error (conts w') (length (conts w)) = Some (Some x) -> ~ In t (cont_toks x)).
Proof. exact OwnershipProofs.copy_is_deep. Qed.
Print Assumptions copy_is_deep.

(* sort swaps neither duplicate nor drop an element *)
Theorem sort_moves_cells : forall l, Permutation (s_sort l) l.
Proof. exact s_sort_perm. Qed.
Print Assumptions sort_moves_cells.

(* non-vacuity: a history with two kinds of containers, a replacement in a Table, an in-place
   update in a Tree, a cross-kind assign, a deep copy, a zero-filled List element and deletions *)
Example ownership_nonvacuous :
  let ops := [ONewSeq KArray [1;2;3]%Z; ONewSeq KList [5]%Z; ONewMap KTable [(1,2);(3,4)]%Z;
              OMSet 2 1%Z 9%Z; ONewMap KTree [(1,2)]%Z; OMSet 3 1%Z 7%Z; OAssign 1 0; OCopy 2;
              OResize 1 5; OPopAt 0 1; ODel 2; OSort 0; ONewBox 4%Z; ODel 5] in
  let w := run ops in
  next w = 20 /\ length (dead w) = 9 /\ length (held (conts w)) = 11 /\
  total_len (conts w) = 13 /\ total_zeros (conts w) = 2.
Proof. vm_compute. repeat split. Qed.
