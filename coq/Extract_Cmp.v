(* Extraction of the cmp models and of the reference order for the C09 correspondence driver.
   ExtrOcamlBasic only; numbers stay the extracted inductive types; Flocq's binary64
   operations are extracted as they are (no realisation by machine floats). *)
From Coq Require Import List ZArith NArith Extraction ExtrOcamlBasic.
From CelloV Require Import Generated Values.

Definition cx_int_cmp_trunc := int_cmp_trunc.
Definition cx_float_cmp := float_cmp.

Extraction Language OCaml.
Extraction "../ocaml/gen/Cmp.ml" value_cmp v_eq v_neq v_gt v_lt v_ge v_le has_sort value_ord
  float_of_bits tree_of_sets spec_tree_of_sets assoc_get eq_get spec_get cx_int_cmp_trunc cx_float_cmp z_of_cmp operand_cmp operand_value preds_of.
