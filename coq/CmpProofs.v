(* CmpProofs.v — proofs about the cmp models of Values.v (property C09). *)
From Coq Require Import List ZArith NArith Bool Lia.
From CelloV Require Import Generated Values.
Import ListNotations.
Local Open Scope Z_scope.
