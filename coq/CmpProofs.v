(* CmpProofs.v — proofs about the cmp models of Values.v (property C09).
   Contents: order laws "at an element" and their lifting through the lexicographic walk of the
   container comparisons (lex_lift = lex_lift_total_order) and through (key, value) pairs;
   Float_Cmp (sign of the rounded difference) against the IEEE comparison and the extended-real
   order, with Flocq; the induction over the value universe; the statements of Properties_C09.v.
   Assumptions: only those of the classical real numbers of Coq (through Flocq), as printed by Print Assumptions. *)
From Coq Require Import List ZArith NArith Bool Lia Reals Lra.
From Flocq Require Import Core IEEE754.BinarySingleNaN IEEE754.Bits Plus_error.
From CelloV Require Import Generated Values.
Import ListNotations.
Local Open Scope Z_scope.

(* ------------------------------------------------------------------ order laws "at" an element *)
Section OrderAt.
  Context {A : Type}.
  Variable D : A -> Prop.                 (* the domain the laws quantify over *)
  Variable eqv : A -> A -> Prop.          (* "equal values" *)
  Variable c : A -> A -> comparison.

  Record ok_at (x : A) : Prop := {
    ok_refl : c x x = Eq;
    ok_anti : forall y, D y -> c y x = CompOpp (c x y);
    ok_trans : forall y z, D y -> D z -> c x y = Lt -> c y z <> Gt -> c x z = Lt;
    ok_eq : forall y z, D y -> D z -> c x y = Eq -> c x z = c y z;
    ok_eqv : forall y, D y -> (c x y = Eq <-> eqv x y)
  }.
End OrderAt.

(* transfer along a representation relation *)
Section Transfer.
  Context {A B : Type}.
  Variables (DA : A -> Prop) (eqvA : A -> A -> Prop) (cA : A -> A -> comparison).
  Variables (DB : B -> Prop) (eqvB : B -> B -> Prop) (cB : B -> B -> comparison).
  Variable rep : A -> B -> Prop.
  Hypothesis rep_total : forall y, DA y -> exists y', rep y y' /\ DB y'.
  Hypothesis rep_c : forall y y' z z', rep y y' -> rep z z' -> cA y z = cB y' z'.
  Hypothesis rep_eqv : forall y y' z z', rep y y' -> rep z z' -> (eqvA y z <-> eqvB y' z').

  Lemma ok_at_transfer : forall x x', rep x x' -> ok_at DB eqvB cB x' -> ok_at DA eqvA cA x.
  Proof.
    intros x x' Rx [R An T E Q]. split.
    - rewrite (rep_c _ _ _ _ Rx Rx). exact R.
    - intros y Dy. destruct (rep_total y Dy) as (y' & Ry & Dy').
      rewrite (rep_c _ _ _ _ Ry Rx), (rep_c _ _ _ _ Rx Ry). apply An; assumption.
    - intros y z Dy Dz. destruct (rep_total y Dy) as (y' & Ry & Dy'). destruct (rep_total z Dz) as (z' & Rz & Dz').
      rewrite (rep_c _ _ _ _ Rx Ry), (rep_c _ _ _ _ Ry Rz), (rep_c _ _ _ _ Rx Rz). apply T; assumption.
    - intros y z Dy Dz. destruct (rep_total y Dy) as (y' & Ry & Dy'). destruct (rep_total z Dz) as (z' & Rz & Dz').
      rewrite (rep_c _ _ _ _ Rx Ry), (rep_c _ _ _ _ Ry Rz), (rep_c _ _ _ _ Rx Rz). apply E; assumption.
    - intros y Dy. destruct (rep_total y Dy) as (y' & Ry & Dy').
      rewrite (rep_c _ _ _ _ Rx Ry), (rep_eqv _ _ _ _ Rx Ry). apply Q; assumption.
  Qed.
End Transfer.

(* ------------------------------------------------------------------ lexicographic lifting *)
Section LexLift.
  Context {A : Type}.
  Variables (D : A -> Prop) (eqv : A -> A -> Prop) (c : A -> A -> comparison).

  Lemma lex_refl : forall xs, Forall (ok_at D eqv c) xs -> lex_compare c xs xs = Eq.
  Proof.
    induction xs as [|x xs IH]; intros H; simpl; [reflexivity|].
    inversion H as [|? ? Hx Hxs]; subst. rewrite (ok_refl _ _ _ _ Hx). apply IH, Hxs.
  Qed.

  Lemma lex_anti : forall xs, Forall (ok_at D eqv c) xs ->
    forall ys, Forall D ys -> lex_compare c ys xs = CompOpp (lex_compare c xs ys).
  Proof.
    induction xs as [|x xs IH]; intros H ys Dys; destruct ys as [|y ys]; simpl; try reflexivity.
    inversion H as [|? ? Hx Hxs]; subst. inversion Dys as [|? ? Dy Dys']; subst.
    rewrite (ok_anti _ _ _ _ Hx y Dy). destruct (c x y); simpl; try reflexivity.
    apply IH; assumption.
  Qed.

  Lemma lex_trans : forall xs, Forall (ok_at D eqv c) xs ->
    forall ys zs, Forall D ys -> Forall D zs ->
    lex_compare c xs ys = Lt -> lex_compare c ys zs <> Gt -> lex_compare c xs zs = Lt.
  Proof.
    induction xs as [|x xs IH]; intros H ys zs Dys Dzs; destruct ys as [|y ys]; destruct zs as [|z zs]; simpl;
      try discriminate; try reflexivity; try congruence.
    inversion H as [|? ? Hx Hxs]; subst. inversion Dys as [|? ? Dy Dys']; subst. inversion Dzs as [|? ? Dz Dzs']; subst.
    intros H1 H2.
    destruct (c x y) eqn:Cxy; try discriminate.
    - rewrite (ok_eq _ _ _ _ Hx y z Dy Dz Cxy).
      destruct (c y z) eqn:Cyz; try reflexivity; try congruence.
      apply (IH Hxs ys zs); assumption.
    - assert (c y z <> Gt) by (destruct (c y z); congruence).
      rewrite (ok_trans _ _ _ _ Hx y z Dy Dz Cxy H0). reflexivity.
  Qed.

  Lemma lex_eq : forall xs, Forall (ok_at D eqv c) xs ->
    forall ys zs, Forall D ys -> Forall D zs ->
    lex_compare c xs ys = Eq -> lex_compare c xs zs = lex_compare c ys zs.
  Proof.
    induction xs as [|x xs IH]; intros H ys zs Dys Dzs; destruct ys as [|y ys]; simpl; try discriminate; try reflexivity.
    inversion H as [|? ? Hx Hxs]; subst. inversion Dys as [|? ? Dy Dys']; subst.
    intros H1. destruct (c x y) eqn:Cxy; try discriminate.
    destruct zs as [|z zs]; simpl; [reflexivity|].
    inversion Dzs as [|? ? Dz Dzs']; subst.
    rewrite (ok_eq _ _ _ _ Hx y z Dy Dz Cxy).
    destruct (c y z); try reflexivity. apply IH; assumption.
  Qed.

  Lemma lex_eqv : forall xs, Forall (ok_at D eqv c) xs ->
    forall ys, Forall D ys -> (lex_compare c xs ys = Eq <-> all2 eqv xs ys).
  Proof.
    induction xs as [|x xs IH]; intros H ys Dys; destruct ys as [|y ys]; simpl; try (split; [discriminate|tauto]); try tauto.
    inversion H as [|? ? Hx Hxs]; subst. inversion Dys as [|? ? Dy Dys']; subst.
    rewrite <- (ok_eqv _ _ _ _ Hx y Dy), <- (IH Hxs ys Dys').
    destruct (c x y); split; try tauto; try discriminate; intros [? ?]; discriminate.
  Qed.

  (* lex_lift_total_order: the parallel walk with the length tie-break inherits every order law *)
  Theorem lex_lift : forall xs, Forall (ok_at D eqv c) xs ->
    ok_at (Forall D) (all2 eqv) (lex_compare c) xs.
  Proof.
    intros xs H. split.
    - apply lex_refl, H.
    - apply lex_anti, H.
    - apply lex_trans, H.
    - apply lex_eq, H.
    - apply lex_eqv, H.
  Qed.
End LexLift.

(* lexicographic product (key, then value) *)
Section PairLift.
  Context {K V : Type}.
  Variables (DK : K -> Prop) (ek : K -> K -> Prop) (ck : K -> K -> comparison).
  Variables (DV : V -> Prop) (ev : V -> V -> Prop) (cv : V -> V -> comparison).
  Definition pair_dom (p : K * V) : Prop := DK (fst p) /\ DV (snd p).

  Theorem pair_lift : forall k v, ok_at DK ek ck k -> ok_at DV ev cv v ->
    ok_at pair_dom (pair_rel ek ev) (pair_ord ck cv) (k, v).
  Proof.
    intros k v Hk Hv. split.
    - simpl. rewrite (ok_refl _ _ _ _ Hk). apply (ok_refl _ _ _ _ Hv).
    - intros [k' v'] [Dk Dv]. simpl in *.
      rewrite (ok_anti _ _ _ _ Hk k' Dk). destruct (ck k k'); simpl; try reflexivity.
      apply (ok_anti _ _ _ _ Hv v' Dv).
    - intros [k1 v1] [k2 v2] [Dk1 Dv1] [Dk2 Dv2]. simpl in *. intros H1 H2.
      destruct (ck k k1) eqn:C1; try discriminate.
      + rewrite (ok_eq _ _ _ _ Hk k1 k2 Dk1 Dk2 C1).
        destruct (ck k1 k2) eqn:C2; try reflexivity; try congruence.
        apply (ok_trans _ _ _ _ Hv v1 v2); assumption.
      + assert (ck k1 k2 <> Gt) by (destruct (ck k1 k2); congruence).
        rewrite (ok_trans _ _ _ _ Hk k1 k2 Dk1 Dk2 C1 H). reflexivity.
    - intros [k1 v1] [k2 v2] [Dk1 Dv1] [Dk2 Dv2]. simpl in *. intros H1.
      destruct (ck k k1) eqn:C1; try discriminate.
      rewrite (ok_eq _ _ _ _ Hk k1 k2 Dk1 Dk2 C1).
      destruct (ck k1 k2); try reflexivity. apply (ok_eq _ _ _ _ Hv); assumption.
    - intros [k' v'] [Dk Dv]. simpl in *.
      rewrite <- (ok_eqv _ _ _ _ Hk k' Dk), <- (ok_eqv _ _ _ _ Hv v' Dv).
      destruct (ck k k'); split; try tauto; try discriminate; intros [? ?]; discriminate.
  Qed.
End PairLift.

(* ================================================================== Float_Cmp *)
Section FloatCmp.
Local Open Scope R_scope.
Local Instance prec53_gt_0 : FLX.Prec_gt_0 53 := eq_refl _.
Local Instance prec53_lt_emax : Prec_lt_emax 53 1024 := eq_refl _.
Local Instance fexp64_valid : Valid_exp (SpecFloat.fexp 53 1024) := fexp_correct 53 1024 prec53_gt_0.
Local Instance fexp64_monotone : Monotone_exp (SpecFloat.fexp 53 1024) := fexp_monotone 53 1024.

(* extended-real key of a non-NaN binary64: infinities sit just outside the finite range *)
Definition fkey (x : bfloat) : R :=
  match x with
  | B754_infinity false => bpow radix2 1024
  | B754_infinity true => - bpow radix2 1024
  | _ => B2R x
  end.

Lemma fkey_finite : forall x : bfloat, is_finite x = true -> fkey x = B2R x.
Proof. intros [s|s| |s m e H]; simpl; try discriminate; reflexivity. Qed.

Lemma fkey_bound : forall x : bfloat, is_finite x = true -> - bpow radix2 1024 < fkey x < bpow radix2 1024.
Proof.
  intros x Hx. rewrite (fkey_finite x Hx).
  pose proof (abs_B2R_lt_emax 53 1024 x) as H. apply Rabs_lt_inv in H. exact H.
Qed.

Lemma float_ord_fkey : forall x y : bfloat, is_nan x = false -> is_nan y = false ->
  Bcompare x y = Some (Rcompare (fkey x) (fkey y)).
Proof.
  intros x y Hx Hy.
  destruct (is_finite x) eqn:Fx; destruct (is_finite y) eqn:Fy.
  - rewrite (fkey_finite x Fx), (fkey_finite y Fy). apply Bcompare_correct; assumption.
  - pose proof (fkey_bound x Fx) as Bx.
    destruct y as [s|[|]| |s m e H]; try discriminate; cbn [fkey].
    + replace (Bcompare x (B754_infinity true)) with (Some Gt) by (destruct x as [s|[|]| |[|] m e H]; try discriminate; reflexivity).
      f_equal. symmetry. apply Rcompare_Gt. lra.
    + replace (Bcompare x (B754_infinity false)) with (Some Lt) by (destruct x as [s|[|]| |[|] m e H]; try discriminate; reflexivity).
      f_equal. symmetry. apply Rcompare_Lt. lra.
  - pose proof (fkey_bound y Fy) as By.
    destruct x as [s|[|]| |s m e H]; try discriminate; cbn [fkey].
    + replace (Bcompare (B754_infinity true) y) with (Some Lt) by (destruct y as [s|[|]| |[|] m e H]; try discriminate; reflexivity).
      f_equal. symmetry. apply Rcompare_Lt. lra.
    + replace (Bcompare (B754_infinity false) y) with (Some Gt) by (destruct y as [s|[|]| |[|] m e H]; try discriminate; reflexivity).
      f_equal. symmetry. apply Rcompare_Gt. lra.
  - assert (P : 0 < bpow radix2 1024) by apply bpow_gt_0.
    destruct x as [s|[|]| |s m e H]; try discriminate; destruct y as [s'|[|]| |s' m' e' H']; try discriminate;
      unfold Bcompare; cbn [fkey B2SF SpecFloat.SFcompare].
    + f_equal. symmetry. apply Rcompare_Eq. reflexivity.
    + f_equal. symmetry. apply Rcompare_Lt. lra.
    + f_equal. symmetry. apply Rcompare_Gt. lra.
    + f_equal. symmetry. apply Rcompare_Eq. reflexivity.
Qed.

Lemma Bsign_B2R : forall x : bfloat, is_finite x = true ->
  if Bsign x then B2R x <= 0 else 0 <= B2R x.
Proof.
  intros [s|s| |s m e H]; simpl; try discriminate; intros _.
  - destruct s; lra.
  - destruct s; simpl.
    + apply F2R_le_0. simpl. lia.
    + apply F2R_ge_0. simpl. lia.
Qed.

Lemma round_minus_sign : forall x y : bfloat, is_finite x = true -> is_finite y = true ->
  Rcompare (round radix2 (SpecFloat.fexp 53 1024) (round_mode mode_NE) (B2R x - B2R y)) 0 = Rcompare (B2R x) (B2R y).
Proof.
  intros x y Fx Fy.
  set (rx := B2R x). set (ry := B2R y).
  assert (Gx : generic_format radix2 (SpecFloat.fexp 53 1024) rx) by apply generic_format_B2R.
  assert (Gy : generic_format radix2 (SpecFloat.fexp 53 1024) (- ry)) by (apply generic_format_opp, generic_format_B2R).
  assert (R0 : round radix2 (SpecFloat.fexp 53 1024) (round_mode mode_NE) 0 = 0) by (apply round_0; typeclasses eauto).
  destruct (Rcompare_spec rx ry) as [H|H|H].
  - apply Rcompare_Lt.
    assert (L : round radix2 (SpecFloat.fexp 53 1024) (round_mode mode_NE) (rx - ry) <= round radix2 (SpecFloat.fexp 53 1024) (round_mode mode_NE) 0).
    { apply round_le; try typeclasses eauto. lra. }
    rewrite R0 in L.
    assert (N : round radix2 (SpecFloat.fexp 53 1024) (round_mode mode_NE) (rx + - ry) <> 0).
    { apply round_plus_neq_0; try typeclasses eauto; try assumption. lra. }
    unfold Rminus in *. destruct L as [L|L]; [exact L | exfalso; apply N; exact L].
  - apply Rcompare_Eq. replace (rx - ry) with 0 by lra. exact R0.
  - apply Rcompare_Gt.
    assert (L : round radix2 (SpecFloat.fexp 53 1024) (round_mode mode_NE) 0 <= round radix2 (SpecFloat.fexp 53 1024) (round_mode mode_NE) (rx - ry)).
    { apply round_le; try typeclasses eauto. lra. }
    rewrite R0 in L.
    assert (N : round radix2 (SpecFloat.fexp 53 1024) (round_mode mode_NE) (rx + - ry) <> 0).
    { apply round_plus_neq_0; try typeclasses eauto; try assumption. lra. }
    unfold Rminus in *. destruct L as [L|L]; [exact L | exfalso; apply N; symmetry; exact L].
Qed.

Lemma float_cmp_finite : forall x y : bfloat, is_finite x = true -> is_finite y = true ->
  float_cmp_sub x y = z_of_ocmp (Bcompare x y).
Proof.
  intros x y Fx Fy.
  unfold float_cmp_sub, float_sub.
  pose proof (Bminus_correct 53 1024 (eq_refl _) (eq_refl _) mode_NE x y Fx Fy) as C.
  rewrite (Bcompare_correct 53 1024 x y Fx Fy).
  destruct (Rlt_bool_spec (Rabs (round radix2 (SpecFloat.fexp 53 1024) (round_mode mode_NE) (B2R x - B2R y))) (bpow radix2 1024)) as [Hlt|Hge].
  - destruct C as (Cv & Cf & _).
    rewrite (Bcompare_correct 53 1024 _ fzero Cf (eq_refl _)).
    rewrite Cv. simpl (B2R fzero). rewrite (round_minus_sign x y Fx Fy). reflexivity.
  - destruct C as (Co & Cs).
    assert (D : @Bminus 53 1024 (eq_refl _) (eq_refl _) mode_NE x y = B754_infinity (Bsign x)).
    { apply B2SF_inj. rewrite Co. unfold binary_overflow. simpl. reflexivity. }
    rewrite D.
    assert (NZ : B2R x <> B2R y).
    { intro E. replace (B2R x - B2R y) with 0 in Hge by lra.
      rewrite round_0 in Hge by typeclasses eauto. rewrite Rabs_R0 in Hge.
      pose proof (bpow_gt_0 radix2 1024). lra. }
    pose proof (Bsign_B2R x Fx) as Sx. pose proof (Bsign_B2R y Fy) as Sy.
    rewrite Cs in Sx. 
    destruct (Bsign y) eqn:By; simpl in Sx, Sy; rewrite Cs; simpl.
    + rewrite Rcompare_Gt by lra. reflexivity.
    + rewrite Rcompare_Lt by lra. reflexivity.
Qed.

(* the sign of the rounded difference is the IEEE comparison (non-NaN operands) *)
Lemma float_cmp_sub_ocmp : forall x y : bfloat, is_nan x = false -> is_nan y = false ->
  float_cmp_sub x y = z_of_ocmp (Bcompare x y).
Proof.
  intros x y Nx Ny.
  destruct (is_finite x) eqn:Fx; destruct (is_finite y) eqn:Fy.
  - apply float_cmp_finite; assumption.
  - destruct y as [s|[|]| |s m e H]; try discriminate;
    destruct x as [sx|sx| |[|] mx ex Hx]; try discriminate; reflexivity.
  - destruct x as [s|[|]| |s m e H]; try discriminate;
    destruct y as [sy|sy| |[|] my ey Hy]; try discriminate; reflexivity.
  - destruct x as [s|[|]| |s m e H]; try discriminate;
    destruct y as [sy|[|]| |sy my ey Hy]; try discriminate; reflexivity.
Qed.

Theorem float_cmp_sub_correct : forall x y : bfloat, is_nan x = false -> is_nan y = false ->
  float_cmp_sub x y = z_of_cmp (float_ord x y).
Proof.
  intros x y Nx Ny. rewrite (float_cmp_sub_ocmp x y Nx Ny). unfold float_ord.
  rewrite (float_ord_fkey x y Nx Ny). reflexivity.
Qed.
End FloatCmp.

(* ================================================================== translated expressions: order abstraction *)
(* An expression over two operands x y of an ordered scalar type, which only COMPARES them (and, when
   the algebra allows it, tests the sign of their difference), depends on x and y only through the
   ordering c of x against y.  `aeval` evaluates an expression on that abstraction; `aeval_sound` shows
   that the concrete evaluation agrees.  So a translated function is verified for ALL operands by three
   computations (c = Lt, Eq, Gt), whatever equivalent form the C text has. *)
Inductive aval := AOp0 | AOp1 | AD01 | AD10 | AC (z : Z).

Definition strict (o : cop) : bool := match o with OpLt | OpGt => true | _ => false end.

Section Abstract.
  Variable diff_ok : bool.          (* may the sign of x - y be read as the order of x and y (strict tests only) *)
  Variable c : comparison.          (* the order of operand 0 against operand 1 *)

  Definition acmp2 (o : cop) (a b : aval) : option aval :=
    match a, b with
    | AOp0, AOp0 | AOp1, AOp1 => Some (AC (b2z (cop_test o (Some Eq))))
    | AOp0, AOp1 => Some (AC (b2z (cop_test o (Some c))))
    | AOp1, AOp0 => Some (AC (b2z (cop_test o (Some (CompOpp c)))))
    | AD01, AC 0 => if strict o then Some (AC (b2z (cop_test o (Some c)))) else None
    | AD10, AC 0 => if strict o then Some (AC (b2z (cop_test o (Some (CompOpp c))))) else None
    | AC 0, AD01 => if strict o then Some (AC (b2z (cop_test o (Some (CompOpp c))))) else None
    | AC 0, AD10 => if strict o then Some (AC (b2z (cop_test o (Some c)))) else None
    | AC x, AC y => Some (AC (b2z (cop_test o (Some (x ?= y)))))
    | _, _ => None
    end.

  Fixpoint aeval (env : list aval) (e : cexp) : option aval :=
    match e with
    | CVar n => nth_error env n
    | CInt z => Some (AC z)
    | CSub a b =>
        match aeval env a, aeval env b with
        | Some AOp0, Some AOp1 => if diff_ok then Some AD01 else None
        | Some AOp1, Some AOp0 => if diff_ok then Some AD10 else None
        | Some (AC x), Some (AC y) => Some (AC (wrap32 (x - y)))
        | _, _ => None
        end
    | CCmp o a b =>
        match aeval env a, aeval env b with
        | Some u, Some v => acmp2 o u v
        | _, _ => None
        end
    | CCond k a b =>
        match aeval env k with
        | Some (AC z) => if z =? 0 then aeval env b else aeval env a
        | _ => None
        end
    | CNot a => match aeval env a with Some (AC z) => Some (AC (b2z (z =? 0))) | _ => None end
    | CAnd a b =>
        match aeval env a, aeval env b with
        | Some (AC x), Some (AC y) => Some (AC (b2z (negb (x =? 0) && negb (y =? 0))))
        | _, _ => None
        end
    | COr a b =>
        match aeval env a, aeval env b with
        | Some (AC x), Some (AC y) => Some (AC (b2z (negb (x =? 0) || negb (y =? 0))))
        | _, _ => None
        end
    | CCast32 a => match aeval env a with Some (AC z) => Some (AC (wrap32 z)) | _ => None end
    end.

  Fixpoint abind (env : list aval) (locals : list cexp) : option (list aval) :=
    match locals with
    | [] => Some env
    | l :: r => match aeval env l with Some v => abind (env ++ [v]) r | None => None end
    end.
  Definition arun (p : cprog) : option Z :=
    match abind [AOp0; AOp1] (fst p) with
    | Some env => match aeval env (snd p) with Some (AC z) => Some z | _ => None end
    | None => None
    end.

  (* ---- soundness against the concrete evaluation in an algebra *)
  Variable A : calg.
  Variables x y : cT A.
  Hypothesis H01 : c_cmp A x y = Some c.
  Hypothesis H10 : c_cmp A y x = Some (CompOpp c).
  Hypothesis H00 : c_cmp A x x = Some Eq.
  Hypothesis H11 : c_cmp A y y = Some Eq.
  Hypothesis HD : diff_ok = true -> forall o, strict o = true ->
    cop_test o (c_cmp A (c_sub A x y) (c_zero A)) = cop_test o (Some c) /\
    cop_test o (c_cmp A (c_sub A y x) (c_zero A)) = cop_test o (Some (CompOpp c)) /\
    cop_test o (c_cmp A (c_zero A) (c_sub A x y)) = cop_test o (Some (CompOpp c)) /\
    cop_test o (c_cmp A (c_zero A) (c_sub A y x)) = cop_test o (Some c).

  Definition rel (cv : cval A) (av : aval) : Prop :=
    match av, cv with
    | AOp0, VOp t => t = x
    | AOp1, VOp t => t = y
    | AD01, VOp t => t = c_sub A x y /\ diff_ok = true
    | AD10, VOp t => t = c_sub A y x /\ diff_ok = true
    | AC z, VC z' => z' = z
    | _, _ => False
    end.

  Lemma rel_AC : forall cv z, rel cv (AC z) -> cv = VC z.
  Proof. intros [t|z'] z H; simpl in H; [contradiction | subst; reflexivity]. Qed.

  Lemma acmp2_sound : forall o u v r cu cv, rel cu u -> rel cv v -> acmp2 o u v = Some r ->
    exists cr, ceval A [cu; cv] (CCmp o (CVar 0) (CVar 1)) = Some cr /\ rel cr r.
  Proof.
    intros o u v r cu cv Ru Rv H. simpl.
    destruct u as [| | | |zu]; destruct v as [| | | |zv]; simpl in H; try discriminate;
      destruct cu as [tu|zu']; simpl in Ru; try contradiction;
      destruct cv as [tv|zv']; simpl in Rv; try contradiction;
      repeat match goal with
             | K : _ /\ _ |- _ => destruct K
             | K : match ?z with Z0 => _ | Zpos _ => _ | Zneg _ => _ end = Some _ |- _ => destruct z; try discriminate
             | K : (if strict ?o then _ else _) = Some _ |- _ => destruct (strict o) eqn:?; try discriminate
             end; subst; try discriminate; injection H as <-;
      try rewrite H00; try rewrite H01; try rewrite H10; try rewrite H11;
      try match goal with
          | Dk : diff_ok = true, S : strict ?o = true |- _ =>
              destruct (HD Dk o S) as (E1 & E2 & E3 & E4); rewrite ?E1, ?E2, ?E3, ?E4
          end;
      eexists; split; reflexivity.
  Qed.

  Lemma aeval_sound : forall e env aenv, Forall2 rel env aenv ->
    forall av, aeval aenv e = Some av -> exists cv, ceval A env e = Some cv /\ rel cv av.
  Proof.
    induction e; intros env aenv F av H; simpl in H.
    - (* CVar *)
      revert n H. induction F as [|cv0 av0 env' aenv' R0 F' IHF]; intros [|n] H; simpl in *; try discriminate.
      + injection H as <-. eauto.
      + apply IHF. exact H.
    - injection H as <-. simpl. eexists; split; reflexivity.
    - (* CSub *)
      destruct (aeval aenv e1) as [u|] eqn:E1; try discriminate.
      destruct (aeval aenv e2) as [v|] eqn:E2; [|destruct u; discriminate].
      destruct (IHe1 env aenv F u E1) as (cu & C1 & R1). destruct (IHe2 env aenv F v E2) as (cv & C2 & R2).
      simpl. rewrite C1, C2.
      destruct u as [| | | |zu]; destruct v as [| | | |zv]; try discriminate;
        destruct cu as [tu|zu']; simpl in R1; try contradiction;
        destruct cv as [tv|zv']; simpl in R2; try contradiction; subst;
        try (destruct diff_ok eqn:Dk; try discriminate); injection H as <-;
        eexists; split; try reflexivity; simpl; auto.
    - (* CCmp *)
      destruct (aeval aenv e1) as [u|] eqn:E1; try discriminate.
      destruct (aeval aenv e2) as [v|] eqn:E2; try discriminate.
      destruct (IHe1 env aenv F u E1) as (cu & C1 & R1). destruct (IHe2 env aenv F v E2) as (cv & C2 & R2).
      destruct (acmp2_sound o u v av cu cv R1 R2 H) as (cr & Cr & Rr).
      exists cr. split; [|exact Rr]. simpl in Cr |- *. rewrite C1, C2. exact Cr.
    - (* CCond *)
      destruct (aeval aenv e1) as [u|] eqn:E1; try discriminate.
      destruct u as [| | | |z]; try discriminate.
      destruct (IHe1 env aenv F _ E1) as (cu & C1 & R1). apply rel_AC in R1. subst cu.
      simpl. rewrite C1. destruct (z =? 0); [apply (IHe3 env aenv F av H) | apply (IHe2 env aenv F av H)].
    - (* CNot *)
      destruct (aeval aenv e) as [u|] eqn:E1; try discriminate. destruct u as [| | | |z]; try discriminate.
      destruct (IHe env aenv F _ E1) as (cu & C1 & R1). apply rel_AC in R1. subst cu.
      injection H as <-. simpl. rewrite C1. eexists; split; reflexivity.
    - (* CAnd *)
      destruct (aeval aenv e1) as [u|] eqn:E1; try discriminate. destruct u as [| | | |zu]; try discriminate.
      destruct (aeval aenv e2) as [v|] eqn:E2; try discriminate. destruct v as [| | | |zv]; try discriminate.
      destruct (IHe1 env aenv F _ E1) as (cu & C1 & R1). apply rel_AC in R1. subst cu.
      destruct (IHe2 env aenv F _ E2) as (cv & C2 & R2). apply rel_AC in R2. subst cv.
      injection H as <-. simpl. rewrite C1, C2. eexists; split; reflexivity.
    - (* COr *)
      destruct (aeval aenv e1) as [u|] eqn:E1; try discriminate. destruct u as [| | | |zu]; try discriminate.
      destruct (aeval aenv e2) as [v|] eqn:E2; try discriminate. destruct v as [| | | |zv]; try discriminate.
      destruct (IHe1 env aenv F _ E1) as (cu & C1 & R1). apply rel_AC in R1. subst cu.
      destruct (IHe2 env aenv F _ E2) as (cv & C2 & R2). apply rel_AC in R2. subst cv.
      injection H as <-. simpl. rewrite C1, C2. eexists; split; reflexivity.
    - (* CCast32 *)
      destruct (aeval aenv e) as [u|] eqn:E1; try discriminate. destruct u as [| | | |z]; try discriminate.
      destruct (IHe env aenv F _ E1) as (cu & C1 & R1). apply rel_AC in R1. subst cu.
      injection H as <-. simpl. rewrite C1. eexists; split; reflexivity.
  Qed.

  Lemma abind_sound : forall locals env aenv aenv', Forall2 rel env aenv -> abind aenv locals = Some aenv' ->
    exists env', cbind A env locals = Some env' /\ Forall2 rel env' aenv'.
  Proof.
    induction locals as [|l r IH]; intros env aenv aenv' F H; simpl in *.
    - injection H as <-. eauto.
    - destruct (aeval aenv l) as [v|] eqn:E; try discriminate.
      destruct (aeval_sound l env aenv F v E) as (cv & C & R). rewrite C.
      apply (IH (env ++ [cv]) (aenv ++ [v]) aenv'); [|exact H].
      apply Forall2_app; [exact F|]. constructor; [exact R|constructor].
  Qed.

  Theorem arun_sound : forall p z, arun p = Some z -> crun A p x y = Some z.
  Proof.
    intros [locals body] z H. unfold arun, crun in *. simpl in *.
    destruct (abind [AOp0; AOp1] locals) as [aenv|] eqn:E; try discriminate.
    assert (F0 : Forall2 rel [VOp x; VOp y] [AOp0; AOp1]) by (repeat constructor).
    destruct (abind_sound locals _ _ aenv F0 E) as (env & C & F). rewrite C.
    destruct (aeval aenv body) as [v|] eqn:E2; try discriminate. destruct v as [| | | |z']; try discriminate.
    injection H as <-. destruct (aeval_sound body env aenv F _ E2) as (cv & C2 & R2).
    apply rel_AC in R2. subst cv. rewrite C2. reflexivity.
  Qed.
End Abstract.

Lemma all2_eq : forall {A} (xs ys : list A), all2 eq xs ys <-> xs = ys.
Proof.
  induction xs as [|x xs IH]; destruct ys as [|y ys]; simpl; try (split; [tauto|discriminate]); try tauto.
  rewrite IH. split; [intros [-> ->]; reflexivity | intros E; inversion E; auto].
Qed.

Lemma Z_ok : forall x : Z, ok_at (fun _ => True) eq Z.compare x.
Proof.
  intros x. split.
  - apply Z.compare_refl.
  - intros y _. apply Z.compare_antisym.
  - intros y z _ _ H1 H2. rewrite Z.compare_lt_iff in H1. apply Z.compare_lt_iff.
    assert (y <= z) by (apply Z.compare_le_iff; exact H2). lia.
  - intros y z _ _ H1. apply Z.compare_eq in H1. subst. reflexivity.
  - intros y _. apply Z.compare_eq_iff.
Qed.

Lemma N_ok : forall x : N, ok_at (fun _ => True) eq N.compare x.
Proof.
  intros x. split.
  - apply N.compare_refl.
  - intros y _. apply N.compare_antisym.
  - intros y z _ _ H1 H2. rewrite N.compare_lt_iff in H1. apply N.compare_lt_iff.
    assert (y <= z)%N by (apply N.compare_le_iff; exact H2). lia.
  - intros y z _ _ H1. apply N.compare_eq in H1. subst. reflexivity.
  - intros y _. apply N.compare_eq_iff.
Qed.

Lemma bytes_ok : forall x : bytes, ok_at (fun _ => True) eq bytes_ord x.
Proof.
  intros x.
  apply (ok_at_transfer (fun _ => True) eq bytes_ord (Forall (fun _ : N => True)) (all2 eq) (lex_compare N.compare) eq) with (x' := x).
  - intros y _. exists y. split; [reflexivity|]. apply Forall_forall. trivial.
  - intros y y' z z' -> ->. reflexivity.
  - intros y y' z z' -> ->. symmetry. apply all2_eq.
  - reflexivity.
  - apply lex_lift. apply Forall_forall. intros n _. apply N_ok.
Qed.

(* ------------------------------------------------------------------ Float *)
Lemma float_eqv_iff : forall x y : bfloat, is_nan x = false -> is_nan y = false ->
  (Bcompare x y = Some Eq <-> float_eqv x y).
Proof.
  intros x y Nx Ny.
  destruct x as [s|s| |s m e H]; try discriminate; destruct y as [s'|s'| |s' m' e' H']; try discriminate;
    unfold Bcompare, float_eqv; cbn [B2SF SpecFloat.SFcompare].
  - tauto.
  - destruct s'; split; intros X; discriminate.
  - destruct s'; split; intros X; discriminate.
  - destruct s; split; intros X; discriminate.
  - destruct s, s'; split; intros X; try discriminate; try reflexivity.
  - destruct s; split; intros X; discriminate.
  - destruct s; split; intros X; discriminate.
  - destruct s'; split; intros X; discriminate.
  - split.
    + intros X. apply B2SF_inj. simpl.
      destruct s, s'; try discriminate; destruct (Z.compare_spec e e') as [E|E|E]; try discriminate; subst e'.
      * assert (Pos.compare m m' = Eq) by (unfold Pos.compare; destruct (Pos.compare_cont Eq m m'); simpl in X; congruence).
        apply Pos.compare_eq in H0. subst. reflexivity.
      * assert (Pos.compare m m' = Eq) by (unfold Pos.compare; congruence).
        apply Pos.compare_eq in H0. subst. reflexivity.
    + intros X. inversion X; subst. rewrite Z.compare_refl. 
      assert (Pos.compare_cont Eq m' m' = Eq) by apply Pos.compare_cont_refl.
      rewrite H0. destruct s'; reflexivity.
Qed.

Lemma float_ok : forall x : bfloat, is_nan x = false ->
  ok_at (fun f : bfloat => is_nan f = false) float_eqv float_ord x.
Proof.
  intros x Nx.
  assert (K : forall a b : bfloat, is_nan a = false -> is_nan b = false -> float_ord a b = Rcompare (fkey a) (fkey b)).
  { intros a b Na Nb. unfold float_ord. rewrite (float_ord_fkey a b Na Nb). reflexivity. }
  split.
  - rewrite K by assumption. apply Rcompare_Eq. reflexivity.
  - intros y Ny. rewrite !K by assumption. apply Rcompare_sym.
  - intros y z Ny Nz. rewrite !K by assumption. intros H1 H2.
    apply Rcompare_Lt_inv in H1. apply Rcompare_Lt.
    destruct (Rcompare_spec (fkey y) (fkey z)); try congruence; lra.
  - intros y z Ny Nz. rewrite !K by assumption. intros H1.
    apply Rcompare_Eq_inv in H1. rewrite H1. reflexivity.
  - intros y Ny. rewrite <- (float_eqv_iff x y Nx Ny). unfold float_ord.
    rewrite (float_ord_fkey x y Nx Ny). split; congruence.
Qed.

Section ValueInd.
  Variable P : value -> Prop.
  Hypothesis HInt : forall z, P (VInt z).
  Hypothesis HFloat : forall f, P (VFloat f).
  Hypothesis HStr : forall s, P (VStr s).
  Hypothesis HType : forall s, P (VType s).
  Hypothesis HStruct : forall t b, P (VStruct t b).
  Hypothesis HSeq : forall k xs, Forall P xs -> P (VSeq k xs).
  Hypothesis HTree : forall kvs, Forall (fun kv : value * value => P (fst kv) /\ P (snd kv)) kvs -> P (VTree kvs).
  Fixpoint value_ind' (v : value) : P v :=
    match v with
    | VInt z => HInt z
    | VFloat f => HFloat f
    | VStr s => HStr s
    | VType s => HType s
    | VStruct t b => HStruct t b
    | VSeq k xs =>
        HSeq k xs ((fix go (l : list value) : Forall P l :=
                      match l with
                      | [] => Forall_nil _
                      | x :: r => Forall_cons x (value_ind' x) (go r)
                      end) xs)
    | VTree kvs =>
        HTree kvs ((fix go (l : list (value * value)) : Forall (fun kv : value * value => P (fst kv) /\ P (snd kv)) l :=
                      match l with
                      | [] => Forall_nil _
                      | (k, v) :: r => Forall_cons (k, v) (conj (value_ind' k) (value_ind' v)) (go r)
                      end) kvs)
    end.
End ValueInd.

Definition dom (s : sort) (v : value) : Prop := has_sort s v = true.

Lemma dom_seq : forall e k xs, dom (SSeq e) (VSeq k xs) -> Forall (dom e) xs.
Proof. unfold dom; simpl. intros e k xs H. apply Forall_forall. apply forallb_forall. exact H. Qed.

Lemma dom_tree : forall ks vs kvs, dom (STree ks vs) (VTree kvs) -> Forall (pair_dom (dom ks) (dom vs)) kvs.
Proof.
  unfold dom; simpl. intros ks vs kvs H. apply Forall_forall. intros [k v] I.
  rewrite forallb_forall in H. specialize (H _ I). simpl in H. apply andb_true_iff in H. exact H.
Qed.

Theorem value_ok : forall a s, dom s a -> ok_at (dom s) value_eqv value_ord a.
Proof.
  induction a using value_ind'; intros srt Ds.
  - destruct srt as [| | | |tid n|e|ks vs]; try discriminate.
    apply (ok_at_transfer _ _ _ (fun _ => True) eq Z.compare (fun v x => v = VInt x)) with (x' := z).
    + intros y Dy. destruct y; try discriminate. eauto.
    + intros; subst; reflexivity.
    + intros; subst; simpl; tauto.
    + reflexivity.
    + apply Z_ok.
  - destruct srt as [| | | |tid n|e|ks vs]; try discriminate.
    apply (ok_at_transfer _ _ _ (fun x : bfloat => is_nan x = false) float_eqv float_ord (fun v x => v = VFloat x)) with (x' := f).
    + intros y Dy. destruct y; try discriminate. unfold dom in Dy; simpl in Dy. apply negb_true_iff in Dy. eauto.
    + intros; subst; reflexivity.
    + intros; subst; simpl; tauto.
    + reflexivity.
    + apply float_ok. unfold dom in Ds; simpl in Ds. apply negb_true_iff in Ds. exact Ds.
  - destruct srt as [| | | |tid n|e|ks vs]; try discriminate.
    apply (ok_at_transfer _ _ _ (fun _ => True) eq bytes_ord (fun v x => v = VStr x)) with (x' := s).
    + intros y Dy. destruct y; try discriminate. eauto.
    + intros; subst; reflexivity.
    + intros; subst; simpl; tauto.
    + reflexivity.
    + apply bytes_ok.
  - destruct srt as [| | | |tid n|e|ks vs]; try discriminate.
    apply (ok_at_transfer _ _ _ (fun _ => True) eq bytes_ord (fun v x => v = VType x)) with (x' := s).
    + intros y Dy. destruct y; try discriminate. eauto.
    + intros; subst; reflexivity.
    + intros; subst; simpl; tauto.
    + reflexivity.
    + apply bytes_ok.
  - destruct srt as [| | | |tid n|e|ks vs]; try discriminate.
    assert (E : t = tid).
    { unfold dom in Ds; simpl in Ds. apply andb_true_iff in Ds. destruct Ds as [Ds _]. apply andb_true_iff in Ds.
      destruct Ds as [Ds _]. apply N.eqb_eq in Ds. exact Ds. }
    subst t.
    apply (ok_at_transfer _ _ _ (fun _ => True) eq bytes_ord (fun v x => v = VStruct tid x)) with (x' := b).
    + intros y Dy. destruct y; try discriminate. unfold dom in Dy; simpl in Dy.
      apply andb_true_iff in Dy. destruct Dy as [Dy _]. apply andb_true_iff in Dy.
      destruct Dy as [Dy _]. apply N.eqb_eq in Dy. subst. eauto.
    + intros; subst; reflexivity.
    + intros; subst; simpl; tauto.
    + reflexivity.
    + apply bytes_ok.
  - destruct srt as [| | | |tid n|e|ks vs]; try discriminate.
    apply (ok_at_transfer _ _ _ (Forall (dom e)) (all2 value_eqv) (lex_compare value_ord) (fun v l => exists k', v = VSeq k' l)) with (x' := xs).
    + intros y Dy. destruct y; try discriminate. exists xs0. split; [eauto|]. apply (dom_seq _ _ _ Dy).
    + intros y y' z z' [ky ->] [kz ->]. reflexivity.
    + intros y y' z z' [ky ->] [kz ->]. simpl. tauto.
    + eauto.
    + apply lex_lift. pose proof (dom_seq _ _ _ Ds) as Dx.
      rewrite Forall_forall in *. intros x I. apply H; auto.
  - destruct srt as [| | | |tid n|e|ks vs]; try discriminate.
    apply (ok_at_transfer _ _ _ (Forall (pair_dom (dom ks) (dom vs))) (all2 (pair_rel value_eqv value_eqv))
             (lex_compare (pair_ord value_ord value_ord)) (fun v l => v = VTree l)) with (x' := kvs).
    + intros y Dy. destruct y; try discriminate. exists kvs0. split; [eauto|]. apply (dom_tree _ _ _ Dy).
    + intros; subst; reflexivity.
    + intros; subst; simpl; tauto.
    + reflexivity.
    + apply lex_lift. pose proof (dom_tree _ _ _ Ds) as Dx.
      rewrite Forall_forall in *. intros [k v] I. destruct (H _ I) as [Hk Hv]. destruct (Dx _ I) as [Dk Dv].
      apply pair_lift; [apply Hk | apply Hv]; assumption.
Qed.

(* ---- Int_Cmp: the translated body, verified on the three orderings, is Z order on all of Z *)
Lemma int_run_by_order : forall p a b z, arun false (a ?= b) p = Some z -> crun int_alg p a b = Some z.
Proof.
  intros p a b z H. apply (arun_sound false (a ?= b) int_alg a b); simpl; auto.
  - rewrite Z.compare_antisym. reflexivity.
  - rewrite Z.compare_refl. reflexivity.
  - rewrite Z.compare_refl. reflexivity.
  - discriminate.
Qed.

Definition code_is_compare (diff_ok : bool) (code : option cprog) : Prop :=
  exists p, code = Some p /\ arun diff_ok Lt p = Some (-1) /\ arun diff_ok Eq p = Some 0 /\ arun diff_ok Gt p = Some 1.

(* computed on the code translated from the working tree's src/Num.c (Generated.int_cmp_code) *)
Lemma int_cmp_code_verified : code_is_compare false int_cmp_code.
Proof. eexists. split; [reflexivity|]. vm_compute. repeat split. Qed.

Lemma int_cmp_correct : forall a b, int_cmp a b = z_of_cmp (a ?= b).
Proof.
  intros a b. destruct int_cmp_code_verified as (p & E & HL & HE & HG).
  unfold int_cmp. rewrite E.
  destruct (a ?= b) eqn:C; [rewrite (int_run_by_order p a b 0) | rewrite (int_run_by_order p a b (-1)) | rewrite (int_run_by_order p a b 1)];
    try reflexivity; rewrite C; assumption.
Qed.

(* ---- Float_Cmp: same, with the sign of the rounded difference allowed (float_cmp_sub_ocmp) *)
Lemma float_run_by_order : forall p (x y : bfloat) z, is_nan x = false -> is_nan y = false ->
  arun true (float_ord x y) p = Some z -> crun float_alg p x y = Some z.
Proof.
  intros p x y z Nx Ny H.
  assert (B : forall u v : bfloat, is_nan u = false -> is_nan v = false -> Bcompare u v = Some (float_ord u v)).
  { intros u v Nu Nv. unfold float_ord. destruct u as [s|s| |s m e Hb]; try discriminate; destruct v as [s'|s'| |s' m' e' Hb']; try discriminate; reflexivity. }
  assert (SW : forall u v : bfloat, is_nan u = false -> is_nan v = false -> float_ord v u = CompOpp (float_ord u v)).
  { intros u v Nu Nv. apply (ok_anti _ _ _ _ (float_ok u Nu) v Nv). }
  assert (DS : forall u v : bfloat, is_nan u = false -> is_nan v = false -> forall o, strict o = true ->
            cop_test o (Bcompare (float_sub u v) fzero) = cop_test o (Some (float_ord u v)) /\
            cop_test o (Bcompare fzero (float_sub u v)) = cop_test o (Some (CompOpp (float_ord u v)))).
  { intros u v Nu Nv o So. pose proof (float_cmp_sub_ocmp u v Nu Nv) as G. unfold float_cmp_sub in G.
    rewrite (B u v Nu Nv) in G. rewrite (@Bcompare_swap 53 1024 (float_sub u v) fzero).
    destruct (Bcompare (float_sub u v) fzero) as [[]|]; destruct (float_ord u v); destruct o; simpl in *; try discriminate; split; reflexivity. }
  apply (arun_sound true (float_ord x y) float_alg x y); simpl.
  - apply B; assumption.
  - rewrite (B y x Ny Nx), (SW x y Nx Ny). reflexivity.
  - rewrite (B x x Nx Nx). rewrite (ok_refl _ _ _ _ (float_ok x Nx)). reflexivity.
  - rewrite (B y y Ny Ny). rewrite (ok_refl _ _ _ _ (float_ok y Ny)). reflexivity.
  - intros _ o So. destruct (DS x y Nx Ny o So) as [D1 D2]. destruct (DS y x Ny Nx o So) as [D3 D4].
    rewrite (SW x y Nx Ny) in D3, D4. rewrite CompOpp_involutive in D4. repeat split; assumption.
  - exact H.
Qed.

Lemma float_cmp_code_verified : code_is_compare true float_cmp_code.
Proof. eexists. split; [reflexivity|]. vm_compute. repeat split. Qed.

Theorem float_cmp_correct : forall x y : bfloat, is_nan x = false -> is_nan y = false ->
  float_cmp x y = z_of_cmp (float_ord x y).
Proof.
  intros x y Nx Ny. destruct float_cmp_code_verified as (p & E & HL & HE & HG).
  unfold float_cmp. rewrite E.
  destruct (float_ord x y) eqn:C;
    [rewrite (float_run_by_order p x y 0 Nx Ny) | rewrite (float_run_by_order p x y (-1) Nx Ny) | rewrite (float_run_by_order p x y 1 Nx Ny)];
    try reflexivity; rewrite C; assumption.
Qed.

(* ---- the predicates of Cmp.c: translated bodies over r = cmp(self, obj) and 0 *)
Definition pred_abs (i : nat) (c : comparison) : bool :=
  match i with
  | 0%nat => match c with Eq => true | _ => false end
  | 1%nat => match c with Eq => false | _ => true end
  | 2%nat => match c with Lt => true | _ => false end
  | 3%nat => match c with Gt => true | _ => false end
  | 4%nat => match c with Gt => false | _ => true end
  | _ => match c with Lt => false | _ => true end
  end.

Lemma pred_default_abs : forall i r, pred_default i r = pred_abs i (r ?= 0).
Proof.
  intros i r. destruct i as [|[|[|[|[|i]]]]]; simpl;
    destruct (Z.compare_spec r 0) as [E|L|G]; subst; try reflexivity;
    repeat match goal with
           | |- context [?a =? ?b] => destruct (Z.eqb_spec a b); try lia
           | |- context [?a <? ?b] => destruct (Z.ltb_spec a b); try lia
           end; reflexivity.
Qed.

Lemma pred_codes_verified : exists l, pred_codes = Some l /\
  forall c, map (aeval false c [AOp0; AOp1]) l = map (fun i => Some (AC (b2z (pred_abs i c)))) [0; 1; 2; 3; 4; 5]%nat.
Proof. eexists. split; [reflexivity|]. intros []; vm_compute; reflexivity. Qed.

(* each predicate, whatever its C form, is the documented test of the value cmp returned *)
Lemma pred_val_spec : forall i r, (i < 6)%nat -> pred_val i r = pred_default i r.
Proof.
  intros i r Hi. destruct pred_codes_verified as (l & E & HV).
  unfold pred_val, pred_run. rewrite E.
  specialize (HV (r ?= 0)).
  assert (L : length l = 6%nat) by (apply (f_equal (@length _)) in HV; rewrite !map_length in HV; exact HV).
  destruct (nth_error l i) as [e|] eqn:N; [|apply nth_error_None in N; lia].
  assert (AE : aeval false (r ?= 0) [AOp0; AOp1] e = Some (AC (b2z (pred_abs i (r ?= 0))))).
  { apply (f_equal (fun m => nth_error m i)) in HV.
    rewrite (map_nth_error _ _ _ N) in HV.
    assert (N2 : nth_error [0; 1; 2; 3; 4; 5]%nat i = Some i) by (do 6 (destruct i as [|i]; [reflexivity|]); lia).
    rewrite (map_nth_error _ _ _ N2) in HV. injection HV as HV. exact HV. }
  assert (F0 : Forall2 (rel false int_alg r 0) [@VOp int_alg r; @VOp int_alg 0] [AOp0; AOp1]) by (repeat constructor).
  assert (H10 : c_cmp int_alg 0 r = Some (CompOpp (r ?= 0))) by (change (Some (0 ?= r) = Some (CompOpp (r ?= 0))); rewrite (Z.compare_antisym r 0); reflexivity).
  assert (H00 : c_cmp int_alg r r = Some Eq) by (change (Some (r ?= r) = Some Eq); rewrite Z.compare_refl; reflexivity).
  assert (HD : false = true -> forall o, strict o = true ->
    cop_test o (c_cmp int_alg (c_sub int_alg r 0) (c_zero int_alg)) = cop_test o (Some (r ?= 0)) /\
    cop_test o (c_cmp int_alg (c_sub int_alg 0 r) (c_zero int_alg)) = cop_test o (Some (CompOpp (r ?= 0))) /\
    cop_test o (c_cmp int_alg (c_zero int_alg) (c_sub int_alg r 0)) = cop_test o (Some (CompOpp (r ?= 0))) /\
    cop_test o (c_cmp int_alg (c_zero int_alg) (c_sub int_alg 0 r)) = cop_test o (Some (r ?= 0))) by discriminate.
  destruct (aeval_sound false (r ?= 0) int_alg r 0 eq_refl H10 H00 eq_refl HD e _ _ F0 _ AE) as (cv & C & R).
  apply rel_AC in R. subst cv. rewrite C. rewrite pred_default_abs.
  destruct (pred_abs i (r ?= 0)); reflexivity.
Qed.


(* ------------------------------------------------------------------ the model computes the reference order *)
Lemma int_cmp_3way_correct : forall a b, int_cmp_3way a b = z_of_cmp (a ?= b).
Proof.
  intros a b. unfold int_cmp_3way.
  destruct (Z.compare_spec a b) as [E|L|G]; simpl.
  - subst. rewrite Z.ltb_irrefl. reflexivity.
  - apply Z.ltb_lt in L. rewrite L. reflexivity.
  - assert (a <? b = false) by (apply Z.ltb_ge; lia). rewrite H.
    apply Z.ltb_lt in G. rewrite G. reflexivity.
Qed.

Lemma z_of_cmp_tests : forall c, (z_of_cmp c <? 0) = (match c with Lt => true | _ => false end) /\
                                 (0 <? z_of_cmp c) = (match c with Gt => true | _ => false end).
Proof. destruct c; split; reflexivity. Qed.

Lemma seq_cmp_lex : forall {A B} (ecmp : A -> B -> option Z) (ord : A -> B -> comparison) xs ys,
  (forall x y, In x xs -> In y ys -> ecmp x y = Some (z_of_cmp (ord x y))) ->
  seq_cmp ecmp xs ys = Some (z_of_cmp (lex_compare ord xs ys)).
Proof.
  induction xs as [|x xs IH]; destruct ys as [|y ys]; intros H; simpl; try reflexivity.
  rewrite (H x y) by (left; reflexivity).
  destruct (ord x y); simpl; try reflexivity.
  apply IH. intros; apply H; right; assumption.
Qed.

Lemma tree_cmp_lex : forall {K V K' V'} (kcmp : K -> K' -> option Z) (vcmp : V -> V' -> option Z)
    (kord : K -> K' -> comparison) (vord : V -> V' -> comparison) xs ys,
  (forall x y, In x xs -> In y ys -> kcmp (fst x) (fst y) = Some (z_of_cmp (kord (fst x) (fst y)))) ->
  (forall x y, In x xs -> In y ys -> vcmp (snd x) (snd y) = Some (z_of_cmp (vord (snd x) (snd y)))) ->
  tree_cmp kcmp vcmp xs ys = Some (z_of_cmp (lex_compare (pair_ord kord vord) xs ys)).
Proof.
  induction xs as [|[k v] xs IH]; destruct ys as [|[k' v'] ys]; intros Hk Hv; simpl; try reflexivity.
  pose proof (Hk (k, v) (k', v') (or_introl eq_refl) (or_introl eq_refl)) as Ek. simpl in Ek. rewrite Ek.
  destruct (kord k k'); simpl; try reflexivity.
  pose proof (Hv (k, v) (k', v') (or_introl eq_refl) (or_introl eq_refl)) as Ev. simpl in Ev. rewrite Ev.
  destruct (vord v v'); simpl; try reflexivity.
  apply IH; intros; [apply Hk | apply Hv]; right; assumption.
Qed.

Theorem value_cmp_is_order : forall a s b, dom s a -> dom s b ->
  value_cmp a b = Some (z_of_cmp (value_ord a b)).
Proof.
  induction a using value_ind'; intros s0 b' Da Db; destruct s0; try discriminate; destruct b'; try discriminate; simpl.
  - rewrite int_cmp_correct. reflexivity.
  - unfold dom in Da, Db; simpl in Da, Db. apply negb_true_iff in Da, Db.
    rewrite (float_cmp_correct f f0 Da Db). reflexivity.
  - reflexivity.
  - reflexivity.
  - unfold dom in Da, Db; simpl in Da, Db.
    apply andb_true_iff in Da. destruct Da as [Da Da3]. apply andb_true_iff in Da. destruct Da as [Da1 Da2].
    apply andb_true_iff in Db. destruct Db as [Db Db3]. apply andb_true_iff in Db. destruct Db as [Db1 Db2].
    apply N.eqb_eq in Da1, Db1. apply Nat.eqb_eq in Da2, Db2. subst.
    rewrite N.eqb_refl, Db2, Nat.eqb_refl, Da3. reflexivity.
  - apply seq_cmp_lex. intros x y Ix Iy.
    pose proof (dom_seq _ _ _ Da) as Dx. pose proof (dom_seq _ _ _ Db) as Dy.
    rewrite Forall_forall in *. apply (H x Ix s0); auto.
  - apply tree_cmp_lex; intros x y Ix Iy;
    pose proof (dom_tree _ _ _ Da) as Dx; pose proof (dom_tree _ _ _ Db) as Dy;
    rewrite Forall_forall in *; destruct (H x Ix) as [Hk Hv]; destruct (Dx x Ix) as [Dk Dv]; destruct (Dy y Iy) as [Dk' Dv'].
    + apply (Hk s0_1); assumption.
    + apply (Hv s0_2); assumption.
Qed.

(* ================================================================== statements of the property *)
Lemma z_of_cmp_opp : forall c, z_of_cmp (CompOpp c) = - z_of_cmp c.
Proof. destruct c; reflexivity. Qed.

(* the reference order satisfies every order law on each sort (explicit form of value_ok) *)
Theorem reference_order_laws : forall s a, dom s a ->
  value_ord a a = Eq /\
  (forall b, dom s b -> value_ord b a = CompOpp (value_ord a b)) /\
  (forall b c, dom s b -> dom s c -> value_ord a b = Lt -> value_ord b c <> Gt -> value_ord a c = Lt) /\
  (forall b c, dom s b -> dom s c -> value_ord a b = Eq -> value_ord a c = value_ord b c) /\
  (forall b, dom s b -> (value_ord a b = Eq <-> value_eqv a b)).
Proof.
  intros s a Da. destruct (value_ok a s Da) as [R An T E Q]. repeat split; auto; apply Q; auto.
Qed.

Theorem cmp_refl : forall s a, dom s a -> value_cmp a a = Some 0.
Proof.
  intros s a Da. rewrite (value_cmp_is_order a s a Da Da).
  rewrite (ok_refl _ _ _ _ (value_ok a s Da)). reflexivity.
Qed.

Theorem cmp_antisym : forall s a b, dom s a -> dom s b ->
  exists c, value_cmp a b = Some c /\ value_cmp b a = Some (- c).
Proof.
  intros s a b Da Db. exists (z_of_cmp (value_ord a b)). split.
  - apply (value_cmp_is_order a s b Da Db).
  - rewrite (value_cmp_is_order b s a Db Da).
    rewrite (ok_anti _ _ _ _ (value_ok a s Da) b Db). rewrite z_of_cmp_opp. reflexivity.
Qed.

Theorem cmp_trans : forall s a b c x y, dom s a -> dom s b -> dom s c ->
  value_cmp a b = Some x -> value_cmp b c = Some y -> x <= 0 -> y <= 0 ->
  exists z, value_cmp a c = Some z /\ z <= 0 /\ (x < 0 \/ y < 0 -> z < 0) /\ (x = 0 -> y = 0 -> z = 0).
Proof.
  intros s a b c x y Da Db Dc Hx Hy Lx Ly.
  rewrite (value_cmp_is_order a s b Da Db) in Hx. rewrite (value_cmp_is_order b s c Db Dc) in Hy.
  injection Hx as <-. injection Hy as <-.
  exists (z_of_cmp (value_ord a c)). split; [apply (value_cmp_is_order a s c Da Dc)|].
  pose proof (value_ok a s Da) as Oa.
  destruct (value_ord a b) eqn:Cab; simpl in Lx; try lia.
  - rewrite (ok_eq _ _ _ _ Oa b c Db Dc Cab).
    destruct (value_ord b c); simpl in *; repeat split; try lia.
  - assert (NG : value_ord b c <> Gt) by (destruct (value_ord b c); simpl in Ly; try lia; discriminate).
    rewrite (ok_trans _ _ _ _ Oa b c Db Dc Cab NG). simpl. repeat split; lia.
Qed.

Theorem cmp_zero_iff_equal : forall s a b, dom s a -> dom s b ->
  (value_cmp a b = Some 0 <-> value_eqv a b).
Proof.
  intros s a b Da Db. rewrite (value_cmp_is_order a s b Da Db).
  rewrite <- (ok_eqv _ _ _ _ (value_ok a s Da) b Db).
  destruct (value_ord a b); simpl; split; intros H; try discriminate; try reflexivity.
Qed.

(* eq neq lt gt le ge are exactly the predicates of the order *)
Theorem cmp_predicates : forall s a b, dom s a -> dom s b ->
  v_eq a b  = Some (match value_ord a b with Eq => true | _ => false end) /\
  v_neq a b = Some (match value_ord a b with Eq => false | _ => true end) /\
  v_lt a b  = Some (match value_ord a b with Lt => true | _ => false end) /\
  v_gt a b  = Some (match value_ord a b with Gt => true | _ => false end) /\
  v_le a b  = Some (match value_ord a b with Gt => false | _ => true end) /\
  v_ge a b  = Some (match value_ord a b with Lt => false | _ => true end).
Proof.
  intros s a b Da Db. unfold v_le, v_ge, v_neq, v_eq, v_lt, v_gt.
  rewrite (value_cmp_is_order a s b Da Db). simpl. rewrite !pred_val_spec by lia.
  destruct (value_ord a b); simpl; repeat split; reflexivity.
Qed.

(* and as coded they are tests of whatever cmp returns *)
Theorem cmp_predicates_as_coded : forall a b c, value_cmp a b = Some c ->
  v_eq a b = Some (c =? 0) /\ v_neq a b = Some (negb (c =? 0)) /\ v_lt a b = Some (c <? 0) /\
  v_gt a b = Some (0 <? c) /\ v_le a b = Some (negb (0 <? c)) /\ v_ge a b = Some (negb (c <? 0)).
Proof.
  intros a b c H. unfold v_le, v_ge, v_neq, v_eq, v_lt, v_gt. rewrite H. simpl.
  rewrite !pred_val_spec by lia. simpl. repeat split; reflexivity.
Qed.

(* ------------------------------------------------------------------ what the reference order is *)
(* Int: numeric order; String, Type, plain struct: lexicographic order of the unsigned bytes *)
Theorem reference_order_scalars :
  (forall x y, value_ord (VInt x) (VInt y) = (x ?= y)) /\
  (forall x y, value_ord (VStr x) (VStr y) = lex_compare N.compare x y) /\
  (forall x y, value_ord (VType x) (VType y) = lex_compare N.compare x y) /\
  (forall t t' x y, value_ord (VStruct t x) (VStruct t' y) = lex_compare N.compare x y) /\
  (forall k k' xs ys, value_ord (VSeq k xs) (VSeq k' ys) = lex_compare value_ord xs ys) /\
  (forall xs ys, value_ord (VTree xs) (VTree ys) = lex_compare (pair_ord value_ord value_ord) xs ys).
Proof. repeat split. Qed.

(* Float: the order of the extended reals (fkey = real value, infinities outside the finite range) *)
Theorem float_order_is_numeric : forall x y : bfloat, is_nan x = false -> is_nan y = false ->
  float_ord x y = Rcompare (fkey x) (fkey y) /\
  float_cmp x y = z_of_cmp (Rcompare (fkey x) (fkey y)) /\
  (is_finite x = true -> fkey x = B2R x).
Proof.
  intros x y Nx Ny.
  assert (K : float_ord x y = Rcompare (fkey x) (fkey y)).
  { unfold float_ord. rewrite (float_ord_fkey x y Nx Ny). reflexivity. }
  split; [exact K|]. split.
  - rewrite (float_cmp_correct x y Nx Ny), K. reflexivity.
  - apply fkey_finite.
Qed.

(* what "lexicographic, shorter prefix first" means, for any element comparison *)
Theorem lex_compare_Lt_spec : forall {A B} (c : A -> B -> comparison) xs ys,
  lex_compare c xs ys = Lt <->
  exists p q xs' ys', xs = p ++ xs' /\ ys = q ++ ys' /\ all2 (fun x y => c x y = Eq) p q /\
    ((xs' = [] /\ ys' <> []) \/ (exists x y xr yr, xs' = x :: xr /\ ys' = y :: yr /\ c x y = Lt)).
Proof.
  intros A B c. induction xs as [|x xs IH]; intros ys.
  - destruct ys as [|y ys]; simpl; split.
    + discriminate.
    + intros (p & q & xs' & ys' & E1 & E2 & A2 & H).
      symmetry in E1. apply app_eq_nil in E1. destruct E1 as [-> ->].
      destruct q; simpl in A2; [|contradiction]. simpl in E2. subst ys'.
      destruct H as [[_ H]|(x & y & xr & yr & H & _)]; [congruence|discriminate].
    + intros _. exists [], [], [], (y :: ys). simpl. repeat split; auto. left. split; [reflexivity|discriminate].
    + reflexivity.
  - destruct ys as [|y ys]; simpl.
    + split; [discriminate|].
      intros (p & q & xs' & ys' & E1 & E2 & A2 & H).
      symmetry in E2. apply app_eq_nil in E2. destruct E2 as [-> ->].
      destruct p; simpl in A2; [|contradiction]. simpl in E1. subst xs'.
      destruct H as [[H _]|(x0 & y0 & xr & yr & _ & H & _)]; discriminate.
    + destruct (c x y) eqn:Cxy.
      * rewrite IH. split.
        -- intros (p & q & xs' & ys' & E1 & E2 & A2 & H).
           exists (x :: p), (y :: q), xs', ys'. simpl. subst. repeat split; auto.
        -- intros (p & q & xs' & ys' & E1 & E2 & A2 & H).
           destruct p as [|x0 p]; destruct q as [|y0 q]; simpl in *; try contradiction.
           ++ subst xs' ys'. destruct H as [[H _]|(x1 & y1 & xr & yr & H1 & H2 & H3)]; [discriminate|].
              inversion H1; inversion H2; subst. congruence.
           ++ inversion E1; inversion E2; subst. destruct A2 as [_ A2].
              exists p, q, xs', ys'. repeat split; auto.
      * split; [intros _|reflexivity].
        exists [], [], (x :: xs), (y :: ys). simpl. repeat split; auto.
        right. exists x, y, xs, ys. auto.
      * split; [discriminate|].
        intros (p & q & xs' & ys' & E1 & E2 & A2 & H).
        destruct p as [|x0 p]; destruct q as [|y0 q]; simpl in *; try contradiction.
        -- subst xs' ys'. destruct H as [[H _]|(x1 & y1 & xr & yr & H1 & H2 & H3)]; [discriminate|].
           inversion H1; inversion H2; subst. congruence.
        -- inversion E1; inversion E2; subst. destruct A2 as [A2 _]. congruence.
Qed.

(* ------------------------------------------------------------------ the pinned Int_Cmp is refuted *)
Theorem int_cmp_trunc_refuted :
  (exists a b, in_int64 a /\ in_int64 b /\ a <> b /\ int_cmp_trunc a b = 0) /\
  (exists a b, in_int64 a /\ in_int64 b /\ a > b /\ int_cmp_trunc a b < 0) /\
  (exists a b, in_int64 a /\ in_int64 b /\ a > b /\ int_cmp_trunc a b < 0 /\ b < 0).
Proof.
  split; [|split].
  - exists 4294967296, 0. unfold in_int64. repeat split; try lia; try discriminate; reflexivity.
  - exists 2147483648, 0. unfold in_int64. repeat split; try lia; reflexivity.
  - exists 9223372036854775807, (-9223372036854775808). unfold in_int64. repeat split; try lia; reflexivity.
Qed.

(* ------------------------------------------------------------------ the C text still has the modelled shapes *)
(* tools/genx_cmp.py emits each of these only when the corresponding source pattern is found:
   Float_Cmp `double c = a - b; return c > 0 ? 1 : c < 0 ? -1 : 0;`, the common loop of
   Array_Cmp / List_Cmp / Tuple_Cmp, the loop of Tree_Cmp (key, then value), the six predicate
   definitions and the instance-else-memcmp rule of Cmp.c.  A changed shape leaves the definition
   out of Generated.v and this file no longer compiles (= broken obligation). *)
(* cmp(): the outcome table computed from the C text (16 assignments of: instance present, cmp member
   present, same type, size non-zero) is the documented dispatch: the instance when it has a cmp, else
   memcmp over size(type_of(self)) for two objects of one type of non-zero size, else TypeError *)
Definition cmp_dispatch_spec (hc hm t s : bool) : nat :=
  if hc && hm then 0%nat else if t && s then 1%nat else 2%nat.
Definition cmp_dispatch_ok (tbl : option (list (bool * bool * bool * bool * nat))) : bool :=
  match tbl with
  | Some l => (length l =? 16)%nat &&
              forallb (fun r => match r with (hc, hm, t, s, o) => (o =? cmp_dispatch_spec hc hm t s)%nat end) l &&
              forallb (fun q => existsb (fun r => match r, q with (hc, hm, t, s, _), (hc', hm', t', s') =>
                                   Bool.eqb hc hc' && Bool.eqb hm hm' && Bool.eqb t t' && Bool.eqb s s' end) l)
                      (list_prod (list_prod (list_prod [false; true] [false; true]) [false; true]) [false; true])
  | None => false
  end.

Theorem source_shapes :
  code_is_compare false int_cmp_code /\ code_is_compare true float_cmp_code /\
  (exists l, pred_codes = Some l /\
     forall c, map (aeval false c [AOp0; AOp1]) l = map (fun i => Some (AC (b2z (pred_abs i c)))) [0; 1; 2; 3; 4; 5]%nat) /\
  seq_cmp_shape_ok = true /\ tree_cmp_shape_ok = true /\ cmp_dispatch_ok cmp_dispatch_table = true.
Proof.
  split; [exact int_cmp_code_verified|]. split; [exact float_cmp_code_verified|]. split; [exact pred_codes_verified|].
  repeat split.
Qed.
(* end of source_shapes *)

(* ================================================================== a Tree keyed through cmp finds its keys *)
Section TreeLookup.
  Variable s : sort.
  Notation D := (dom s).

  Lemma ord_anti : forall a b, D a -> D b -> value_ord b a = CompOpp (value_ord a b).
  Proof. intros a b Da Db. apply (ok_anti _ _ _ _ (value_ok a s Da) b Db). Qed.

  Lemma ord_eq_l : forall a b c, D a -> D b -> D c -> value_ord a b = Eq -> value_ord a c = value_ord b c.
  Proof. intros a b c Da Db Dc. apply (ok_eq _ _ _ _ (value_ok a s Da) b c Db Dc). Qed.

  Lemma ord_eq_r : forall a b c, D a -> D b -> D c -> value_ord a b = Eq -> value_ord c a = value_ord c b.
  Proof.
    intros a b c Da Db Dc E. rewrite (ord_anti a c Da Dc), (ord_anti b c Db Dc).
    rewrite (ord_eq_l a b c Da Db Dc E). reflexivity.
  Qed.

  Lemma ord_gt_trans : forall a b c, D a -> D b -> D c -> value_ord a b = Gt -> value_ord b c = Gt -> value_ord a c = Gt.
  Proof.
    intros a b c Da Db Dc H1 H2.
    assert (L1 : value_ord c b = Lt) by (rewrite (ord_anti b c Db Dc), H2; reflexivity).
    assert (L2 : value_ord b a = Lt) by (rewrite (ord_anti a b Da Db), H1; reflexivity).
    assert (L3 : value_ord c a = Lt).
    { apply (ok_trans _ _ _ _ (value_ok c s Dc) b a Db Da L1). rewrite L2. discriminate. }
    rewrite (ord_anti c a Dc Da), L3. reflexivity.
  Qed.

  (* first binding whose key is order-equal *)
  Fixpoint ord_find (t : list (value * value)) (k : value) : option value :=
    match t with
    | [] => None
    | (k', v') :: r => match value_ord k k' with Eq => Some v' | _ => ord_find r k end
    end.

  Definition keys_in (t : list (value * value)) : Prop := Forall (fun kv => D (fst kv)) t.
  Definition below (k : value) (t : list (value * value)) : Prop := Forall (fun kv => value_ord k (fst kv) = Gt) t.
  Fixpoint desc (t : list (value * value)) : Prop :=
    match t with
    | [] => True
    | (k, _) :: r => below k r /\ desc r
    end.

  Lemma below_find : forall t k, below k t -> ord_find t k = None.
  Proof.
    induction t as [|[k' v'] r IH]; intros k B; simpl; [reflexivity|].
    inversion B as [|? ? B1 B2]; subst. simpl in B1. rewrite B1. apply IH, B2.
  Qed.

  Lemma below_trans : forall t k k', D k -> D k' -> keys_in t -> value_ord k k' = Gt -> below k' t -> below k t.
  Proof.
    induction t as [|[k2 v2] r IH]; intros k k' Dk Dk' K G B; constructor;
      inversion B as [|? ? B1 B2]; inversion K as [|? ? K1 K2]; subst; simpl in *.
    - apply (ord_gt_trans k k' k2); assumption.
    - apply (IH k k'); assumption.
  Qed.

  Lemma assoc_get_find : forall t k, keys_in t -> desc t -> D k -> assoc_get t k = Some (ord_find t k).
  Proof.
    induction t as [|[k' v'] r IH]; intros k K S Dk; simpl; [reflexivity|].
    inversion K as [|? ? K1 K2]; subst; simpl in K1. destruct S as [B S].
    rewrite (value_cmp_is_order k s k' Dk K1).
    destruct (value_ord k k') eqn:C; simpl.
    - reflexivity.
    - apply IH; assumption.
    - rewrite (below_find r k); [reflexivity|]. apply (below_trans r k k'); assumption.
  Qed.

  Lemma assoc_set_spec : forall t k v, keys_in t -> desc t -> D k ->
    exists t', assoc_set t k v = Some t' /\ keys_in t' /\ desc t' /\
      (forall k0, D k0 -> below k0 t -> value_ord k0 k = Gt -> below k0 t') /\
      (forall k2, D k2 -> ord_find t' k2 = match value_ord k2 k with Eq => Some v | _ => ord_find t k2 end).
  Proof.
    induction t as [|[k' v'] r IH]; intros k v K S Dk; simpl.
    - exists [(k, v)]. split; [reflexivity|]. split; [|split; [|split]].
      + constructor; [exact Dk|constructor].
      + simpl. split; [constructor|exact I].
      + intros k0 _ _ G. constructor; [exact G|constructor].
      + intros k2 _. simpl. destruct (value_ord k2 k); reflexivity.
    - inversion K as [|? ? K1 K2]; subst; simpl in K1. destruct S as [B S].
      rewrite (value_cmp_is_order k s k' Dk K1).
      destruct (value_ord k k') eqn:C; simpl.
      + exists ((k', v) :: r). split; [reflexivity|]. split; [|split; [|split]].
        * constructor; [exact K1|exact K2].
        * simpl. split; assumption.
        * intros k0 D0 B0 G. inversion B0; subst. constructor; assumption.
        * intros k2 D2. simpl. rewrite (ord_eq_r k k' k2 Dk K1 D2 C). destruct (value_ord k2 k'); reflexivity.
      + destruct (IH k v K2 S Dk) as (r' & E & K' & S' & BB & F). rewrite E.
        exists ((k', v') :: r'). split; [reflexivity|]. split; [|split; [|split]].
        * constructor; [exact K1|exact K'].
        * simpl. split; [|exact S']. apply BB; auto. rewrite (ord_anti k k' Dk K1), C. reflexivity.
        * intros k0 D0 B0 G. inversion B0; subst. constructor; [assumption|]. apply BB; assumption.
        * intros k2 D2. simpl. rewrite (F k2 D2).
          destruct (value_ord k2 k') eqn:C2; try reflexivity.
          destruct (value_ord k2 k) eqn:C3; try reflexivity.
          exfalso.
          assert (value_ord k k' = Eq).
          { rewrite <- (ord_eq_l k2 k k' D2 Dk K1 C3). exact C2. }
          congruence.
      + exists ((k, v) :: (k', v') :: r). split; [reflexivity|]. split; [|split; [|split]].
        * constructor; [exact Dk|exact K].
        * simpl. split; [|split; assumption]. constructor; [exact C|]. apply (below_trans r k k'); assumption.
        * intros k0 D0 B0 G. constructor; assumption.
        * intros k2 D2. reflexivity.
  Qed.

  Lemma tree_of_sets_spec : forall ins t, keys_in ins -> keys_in t -> desc t ->
    exists t', tree_of_sets t ins = Some t' /\ keys_in t' /\ desc t' /\
      (forall k, D k -> ord_find t' k = match spec_get ins k with Some v => Some v | None => ord_find t k end).
  Proof.
    induction ins as [|[k v] r IH]; intros t KI K S; simpl.
    - exists t. repeat split; auto.
    - inversion KI as [|? ? KI1 KI2]; subst; simpl in KI1.
      destruct (assoc_set_spec t k v K S KI1) as (t1 & E & K1 & S1 & _ & F1). rewrite E.
      destruct (IH t1 KI2 K1 S1) as (t2 & E2 & K2 & S2 & F2).
      exists t2. repeat split; auto.
      intros k2 D2. rewrite (F2 k2 D2). destruct (spec_get r k2); [reflexivity|].
      rewrite (F1 k2 D2). destruct (value_ord k2 k); reflexivity.
  Qed.

  (* every key set into a Tree keyed through the modelled cmp is found again, with the value of the
     last set under an order-equal key; absent keys are reported absent *)
  Theorem tree_finds_keys : forall ins, keys_in ins ->
    exists t, tree_of_sets [] ins = Some t /\
      forall k, D k -> assoc_get t k = Some (spec_get ins k).
  Proof.
    intros ins KI.
    destruct (tree_of_sets_spec ins [] KI (Forall_nil _) I) as (t & E & K & S & F).
    exists t. split; [exact E|]. intros k Dk.
    rewrite (assoc_get_find t k K S Dk), (F k Dk). simpl. destruct (spec_get ins k); reflexivity.
  Qed.

  (* a Table finds a key through eq(stored key, key): same answer (probing/hashing: C02, C10) *)
  Theorem eq_get_spec : forall ins k, keys_in ins -> D k -> eq_get ins k = Some (spec_get ins k).
  Proof.
    induction ins as [|[k' v'] r IH]; intros k KI Dk; simpl; [reflexivity|].
    inversion KI as [|? ? K1 K2]; subst; simpl in K1.
    rewrite (IH k K2 Dk). destruct (spec_get r k); [reflexivity|].
    unfold v_eq. rewrite (value_cmp_is_order k' s k K1 Dk). simpl.
    rewrite (ord_anti k k' Dk K1). destruct (value_ord k k'); reflexivity.
  Qed.
End TreeLookup.

Theorem keyed_lookups : forall s ins, Forall (fun kv : value * value => dom s (fst kv)) ins ->
  (exists t, tree_of_sets [] ins = Some t /\ forall k, dom s k -> assoc_get t k = Some (spec_get ins k)) /\
  (forall k, dom s k -> eq_get ins k = Some (spec_get ins k)).
Proof.
  intros s ins KI. split.
  - apply (tree_finds_keys s ins KI).
  - intros k Dk. apply (eq_get_spec s ins k KI Dk).
Qed.

(* ================================================================== Tuples holding the same pointer in several slots *)
Lemma walk_cmp_lists : forall xs ys fuel, (length xs < fuel)%nat ->
  walk_cmp fuel (SList xs) (SList ys) = out_of_option (seq_cmp value_cmp xs ys).
Proof.
  induction xs as [|x xs IH]; intros ys fuel Hf; destruct fuel as [|f]; try (simpl in Hf; lia);
    destruct ys as [|y ys]; simpl; try reflexivity.
  destruct (value_cmp x y) as [c|]; simpl; [|reflexivity].
  destruct (c <? 0); [reflexivity|]. destruct (0 <? c); [reflexivity|].
  apply IH. simpl in Hf. lia.
Qed.

(* with the index walk of the working tree, cmp(Tuple, sequence) is a function of the VALUES in the
   slots alone, whatever pointers are repeated *)
Theorem tuple_cmp_values_only : forall (items : pitems) k ys,
  operand_cmp (OTup items) (OVal (VSeq k ys)) =
  out_of_option (value_cmp (VSeq KTuple (map snd items)) (VSeq k ys)).
Proof.
  intros items k ys. unfold operand_cmp, self_side, obj_side.
  change tuple_cmp_self_by_index with true. cbv iota.
  simpl value_cmp. apply walk_cmp_lists.
  unfold walk_fuel. simpl. rewrite map_length. nia.
Qed.

Lemma first_slot_next_nodup : forall (p : pitems) x v s,
  NoDup (map fst (p ++ (x, v) :: s)) -> first_slot_next x (p ++ (x, v) :: s) = hd_error s.
Proof.
  induction p as [|[q w] p IH]; intros x v s ND; simpl.
  - rewrite N.eqb_refl. reflexivity.
  - simpl in ND. inversion ND as [|? ? Hq ND']; subst.
    destruct (q =? x)%N eqn:E.
    + apply N.eqb_eq in E. subst q. exfalso. apply Hq. rewrite map_app. apply in_or_app. right. left. reflexivity.
    + apply IH. exact ND'.
Qed.

Lemma iter_walk_alias_free : forall items, NoDup (map fst items) ->
  forall fuel s0 p s, items = p ++ s ->
  walk_cmp fuel s0 (SIter items (hd_error s)) = walk_cmp fuel s0 (SList (map snd s)).
Proof.
  intros items ND. induction fuel as [|f IH]; intros s0 p s E; [reflexivity|].
  destruct s as [|[x v] s']; simpl.
  - reflexivity.
  - destruct (side_head s0) as [a|]; [|reflexivity].
    destruct (value_cmp a v) as [c|]; [|reflexivity].
    destruct (c <? 0); [reflexivity|]. destruct (0 <? c); [reflexivity|].
    rewrite E at 2. rewrite (first_slot_next_nodup p x v s') by (rewrite <- E; exact ND).
    apply (IH (side_next s0) (p ++ [(x, v)]) s'). rewrite <- app_assoc. exact E.
Qed.

(* a Tuple whose slots hold pairwise different pointers behaves, as right operand too, exactly like
   the sequence of its values (so the statements about `value` cover it) *)
Theorem alias_free_tuple_is_its_values : forall items, NoDup (map fst items) ->
  forall fuel s0, walk_cmp fuel s0 (SIter items (hd_error items)) = walk_cmp fuel s0 (SList (map snd items)).
Proof. intros items ND fuel s0. apply (iter_walk_alias_free items ND fuel s0 [] items). reflexivity. Qed.

(* the seeded variant (self walked with Tuple_Iter_Next) is wrong on tuple(one, one, two) *)
Theorem tuple_cmp_iter_walk_refuted :
  let one := VInt 1 in let two := VInt 2 in
  let t : pitems := [(1%N, one); (1%N, one); (2%N, two)] in
  walk_cmp 30 (SIter t (hd_error t)) (SList [one; one; two]) = WRes (-1) /\
  walk_cmp 30 (SList (map snd t)) (SList [one; one; two]) = WRes 0.
Proof. vm_compute. split; reflexivity. Qed.

(* finding F3 as it shows in cmp on the unchanged tree: a Tuple with a repeated pointer as RIGHT
   operand (or compared with itself) is walked with Tuple_Iter_Next *)
Theorem aliased_right_operand_refuted :
  let one := VInt 1 in let two := VInt 2 in
  let t : pitems := [(1%N, one); (1%N, one); (2%N, two)] in
  walk_cmp 30 (SList [one; one; two]) (SIter t (hd_error t)) = WRes 1 /\
  walk_cmp 30 (SList (map snd t)) (SIter t (hd_error t)) = WRes 1.
Proof. vm_compute. split; reflexivity. Qed.
