(* IterSource.v — the variant of the iteration model selected by the C source of the working tree:
   the flags re-read by tools/genx_iter.py (coq/Generated.v) packed into a [rules] record.
   MODEL ONLY.  Properties_C11.v proves [source_rules = repaired] and [source_shapes_ok = true]. *)
From Coq Require Import Bool.
From CelloV Require Import Generated IterModel.

Definition source_rules : rules :=
  mkRules iter_array_prev_incl iter_tuple_last_guard iter_range_len_guard iter_range_last_aligned
          iter_range_get_checked iter_slice_arg_signed iter_slice_bounded iter_zip_last_aligned
          iter_table_next_strict.

(* the small cursor functions modelled as written still have the text the model was written from *)
Definition source_shapes_ok : bool :=
  iter_shape_Array_Iter_Next && iter_shape_Table_Iter_Prev &&
  iter_shape_Range_Iter_Init && iter_shape_Range_Iter_Next && iter_shape_Range_Iter_Prev &&
  iter_shape_Filter_Iter_Init && iter_shape_Filter_Iter_Last && iter_shape_Filter_Iter_Next && iter_shape_Filter_Iter_Prev &&
  iter_shape_Map_Iter_Next && iter_shape_Map_Iter_Prev &&
  iter_shape_Zip_Iter_Next && iter_shape_Zip_Iter_Prev && iter_shape_Zip_Len &&
  iter_shape_Tree_Iter_Init && iter_shape_Tree_Iter_Next && iter_shape_Tree_Iter_Last && iter_shape_Tree_Iter_Prev.

(* Tree: larger keys go left, so the in-order walk is descending *)
Definition source_tree_desc : bool := iter_tree_desc.
