(* Properties_C20.v — property C20: File streams round-trip data and refuse use when closed.
   Only statements closed by `exact`, each followed by Print Assumptions.  The model is
   coq/FileModel.v (File.c over an explicit stdio model); `file_close_tests_closed` and
   `file_close_clears_always` are re-extracted from src/File.c on every run (Generated.v): the
   theorems are about File_Close AS FOUND IN THE SOURCE, and stop type-checking if it regresses.
   All statements hold for every byte type B, every zero byte, every classification of bytes
   and every set of creatable paths / of paths whose fclose fails. *)
From CelloV Require Import Generated FileModel FileProofs FileRoundTrip FileText FileExamples FileTie.
From Coq Require Import List ZArith.
Import ListNotations.

(* 0. src/File.c still has the shape the model encodes (facts re-extracted from the source text) *)
Theorem file_c_has_the_modelled_shape :
  file_close_tests_closed = true /\ file_close_clears_always = true /\
  file_ops_guarded = true /\ file_del_open_shape = true /\ file_format_direct = true.
Proof. exact FileTie.file_c_shape. Qed.
Print Assumptions file_c_has_the_modelled_shape.

(* 1. an operation on a File that is not open raises IOError, changes nothing (the world, which
      includes the ledger of stdio calls, is returned unchanged: no handle is touched) *)
Theorem closed_file_raises_ioerror :
  forall (B : Type) (zero : B) (is_ws is_digit is_sign : B -> bool) (creatable close_fails : nat -> bool)
         (w : world B) (o : op B) (i : nat),
  w_objs B w i = FObj None -> uses B o i ->
  step B zero is_ws is_digit is_sign creatable close_fails file_close_tests_closed file_close_clears_always w o
  = (w, ORaise B FIOError).
Proof. exact FileProofs.closed_op_raises. Qed.
Print Assumptions closed_file_raises_ioerror.

Example closed_file_raises_ioerror_nonvacuous :
  w_objs nat (w_init nat xfs0 xobjs0) 2 = FObj None /\ uses nat (ORead nat 2 5) 2 /\ uses nat (OClose nat 2) 2.
Proof. exact FileExamples.closed_file_exists. Qed.

(* 2. for ALL histories of new/open/close/reopen/with/del/read/write/seek/tell/eof/flush/print/scan
      from a state without open streams: nothing undefined reaches stdio (no fclose(NULL), no use of
      a closed FILE pointer), every stream comes from one fopen and is closed at most once, a stream is
      still open iff exactly one File holds it; and no operation crashes *)
Theorem ledger_all_histories :
  forall (B : Type) (zero : B) (is_ws is_digit is_sign : B -> bool) (creatable close_fails : nat -> bool)
         (fs : fsys B) (objs : nat -> fobj) (ops : list (op B)),
  (forall i h, objs i <> FObj (Some h)) ->
  ledger_ok B (fst (run B zero is_ws is_digit is_sign creatable close_fails file_close_tests_closed file_close_clears_always (w_init B fs objs) ops)) /\
  Forall (not_crash B) (snd (run B zero is_ws is_digit is_sign creatable close_fails file_close_tests_closed file_close_clears_always (w_init B fs objs) ops)).
Proof. exact FileProofs.ledger_all_histories. Qed.
Print Assumptions ledger_all_histories.

Example ledger_all_histories_nonvacuous :
  let r := xrun true true [ONewOpen nat 0 0 MW; OOpen nat 0 1 MWp; OWith nat 0; OOpen nat 2 0 MR; OExit nat;
                           ONewOpen nat 1 3 MW; OClose nat 2; ODel nat 0] in
  w_trace nat (fst r) = [EvClose 2; EvClose 1; EvOpen 2; EvOpen 1; EvClose 0; EvOpen 0] /\
  snd r = [OkUnit nat; OkUnit nat; OkUnit nat; OkUnit nat; OkUnit nat; ORaise nat FIOError; OkUnit nat; OkUnit nat].
Proof. exact FileExamples.ledger_example. Qed.

(* 3. sclose, del and leaving a with block close exactly once: whenever a history ends with no File
      open, every stream that was ever opened has been closed exactly once *)
Theorem all_closed_exactly_once :
  forall (B : Type) (zero : B) (is_ws is_digit is_sign : B -> bool) (creatable close_fails : nat -> bool)
         (fs : fsys B) (objs : nat -> fobj) (ops : list (op B)),
  (forall i h, objs i <> FObj (Some h)) ->
  let w := fst (run B zero is_ws is_digit is_sign creatable close_fails file_close_tests_closed file_close_clears_always (w_init B fs objs) ops) in
  (forall i h, w_objs B w i <> FObj (Some h)) ->
  forall h, h < w_nfiles B w ->
    count_open h (w_trace B w) = 1 /\ count_close h (w_trace B w) = 1.
Proof. exact FileProofs.all_closed_exactly_once. Qed.
Print Assumptions all_closed_exactly_once.

(* 3b. the invariant `inv` used as hypothesis below holds in every world reachable by any history *)
Theorem reachable_worlds_satisfy_inv :
  forall (B : Type) (zero : B) (is_ws is_digit is_sign : B -> bool) (creatable close_fails : nat -> bool)
         (fs : fsys B) (objs : nat -> fobj) (ops : list (op B)),
  (forall i h, objs i <> FObj (Some h)) ->
  inv B (fst (run B zero is_ws is_digit is_sign creatable close_fails file_close_tests_closed file_close_clears_always (w_init B fs objs) ops)).
Proof. exact FileProofs.reachable_inv. Qed.
Print Assumptions reachable_worlds_satisfy_inv.

(* 4. the model of File.c (handles, NULL tests, ledger) refines the handle-free specification for
      ALL histories: same outcomes, same Files, same file system *)
Theorem model_refines_spec :
  forall (B : Type) (zero : B) (is_ws is_digit is_sign : B -> bool) (creatable close_fails : nat -> bool)
         (ops : list (op B)) (w : world B) (a : sworld B),
  inv B w -> sw_equiv B a (abs B w) ->
  snd (spec_run B zero is_ws is_digit is_sign creatable close_fails a ops) =
  snd (run B zero is_ws is_digit is_sign creatable close_fails file_close_tests_closed file_close_clears_always w ops) /\
  sw_equiv B (fst (spec_run B zero is_ws is_digit is_sign creatable close_fails a ops))
             (abs B (fst (run B zero is_ws is_digit is_sign creatable close_fails file_close_tests_closed file_close_clears_always w ops))).
Proof. exact FileProofs.run_refines. Qed.
Print Assumptions model_refines_spec.

Example model_refines_spec_nonvacuous :
  forall (B : Type) (fs : fsys B) (objs : nat -> fobj),
  (forall i h, objs i <> FObj (Some h)) -> inv B (w_init B fs objs) /\ sw_equiv B (abs B (w_init B fs objs)) (abs B (w_init B fs objs)).
Proof. exact (fun B fs objs H => conj (FileProofs.inv_init B fs objs H) (FileProofs.equiv_refl B (w_init B fs objs))). Qed.

(* 4b. frame: an operation aimed at one File (for `}` the File of the innermost with block) leaves the
       stream of every other File as it was (state, position, EOF flag), in every reachable world *)
Theorem other_files_untouched :
  forall (B : Type) (zero : B) (is_ws is_digit is_sign : B -> bool) (creatable close_fails : nat -> bool)
         (w : world B) (o : op B) (j : nat),
  inv B w -> target B (w_stack B w) o <> Some j ->
  abs_obj B (fst (step B zero is_ws is_digit is_sign creatable close_fails file_close_tests_closed file_close_clears_always w o))
          (w_objs B (fst (step B zero is_ws is_digit is_sign creatable close_fails file_close_tests_closed file_close_clears_always w o)) j)
  = abs_obj B w (w_objs B w j).
Proof. exact FileProofs.step_frame. Qed.
Print Assumptions other_files_untouched.

Example other_files_untouched_nonvacuous :
  let w := fst (xrun true true [OOpen nat 2 0 MWp; OWrite nat 2 [1; 2]]) in
  target nat (w_stack nat w) (ONewOpen nat 0 1 MW) <> Some 2 /\
  abs_obj nat w (w_objs nat w 2) = SOpen (mkS 0 2 false MWp) /\
  let w' := fst (run nat 0 xws xdigit xsign xcreat xfull true true w [ONewOpen nat 0 1 MW; OWrite nat 0 [5]; ODel nat 0]) in
  abs_obj nat w' (w_objs nat w' 2) = SOpen (mkS 0 2 false MWp).
Proof. exact FileExamples.frame_example. Qed.

(* 5. bytes written with swrite in ANY chunking ds are read back identical with sread in ANY chunking
      ns (sum of sizes = bytes written; empty chunks allowed) after sclose + sopen, after ANY prefix
      history that leaves the File closed; stell is the number of bytes written / read; seof is
      false until a read runs into the end and true afterwards *)
Theorem write_read_roundtrip_reopen :
  forall (B : Type) (zero : B) (is_ws is_digit is_sign : B -> bool) (creatable close_fails : nat -> bool)
         (fs : fsys B) (objs : nat -> fobj) (pre : list (op B)) (i p : nat) (mw mr : mode)
         (ds : list (list B)) (ns : list nat),
  (forall j h, objs j <> FObj (Some h)) ->
  let w := fst (run B zero is_ws is_digit is_sign creatable close_fails file_close_tests_closed file_close_clears_always (w_init B fs objs) pre) in
  w_objs B w i = FObj None -> creatable p = true -> close_fails p = false ->
  trunc_mode mw -> from_start_mode mr -> list_sum ns = length (concat ds) ->
  snd (run B zero is_ws is_digit is_sign creatable close_fails file_close_tests_closed file_close_clears_always w
         (reopen_history B i p mw mr ds ns)) = reopen_outcome B ds ns /\
  concat (pieces B ns (concat ds)) = concat ds.
Proof. exact FileRoundTrip.roundtrip_reopen. Qed.
Print Assumptions write_read_roundtrip_reopen.

Example write_read_roundtrip_reopen_nonvacuous :
  let pre := [ONewOpen nat 0 1 MW; OWrite nat 0 [9; 9]; OClose nat 0] in
  let w := fst (xrun true true pre) in
  w_objs nat w 0 = FObj None /\
  snd (run nat 0 xws xdigit xsign xcreat xfull true true w
         (reopen_history nat 0 1 MWp MR [[1; 0]; []; [0; 2; 3]] [1; 0; 3; 1]))
  = [OkUnit nat; OkWrite nat 1; OkWrite nat 0; OkWrite nat 1; OkNum nat 5; OkUnit nat; OkUnit nat;
     OkRead nat 1 [1]; OkRead nat 0 []; OkRead nat 1 [0; 0; 2]; OkRead nat 1 [3];
     OkNum nat 5; OkBool nat false; OkRead nat 0 []; OkBool nat true].
Proof. exact FileExamples.roundtrip_example. Qed.

(* 6. the same after seeking back (SEEK_SET 0, SEEK_CUR -len, SEEK_END -len) on a "w+" stream *)
Theorem write_read_roundtrip_seek :
  forall (B : Type) (zero : B) (is_ws is_digit is_sign : B -> bool) (creatable close_fails : nat -> bool)
         (fs : fsys B) (objs : nat -> fobj) (pre : list (op B)) (i p : nat) (off : Z) (o : origin)
         (ds : list (list B)) (ns : list nat),
  (forall j h, objs j <> FObj (Some h)) ->
  let w := fst (run B zero is_ws is_digit is_sign creatable close_fails file_close_tests_closed file_close_clears_always (w_init B fs objs) pre) in
  w_objs B w i = FObj None -> creatable p = true ->
  back_to_start (length (concat ds)) off o -> list_sum ns = length (concat ds) ->
  snd (run B zero is_ws is_digit is_sign creatable close_fails file_close_tests_closed file_close_clears_always w
         (seek_history B i p off o ds ns)) = seek_outcome B ds ns /\
  concat (pieces B ns (concat ds)) = concat ds.
Proof. exact FileRoundTrip.roundtrip_seek. Qed.
Print Assumptions write_read_roundtrip_seek.

Example write_read_roundtrip_seek_nonvacuous :
  let w := fst (xrun true true []) in
  back_to_start 3 (-3)%Z SeekEnd /\
  snd (run nat 0 xws xdigit xsign xcreat xfull true true w
         (seek_history nat 3 2 (-3)%Z SeekEnd [[5]; [6; 7]] [2; 1]))
  = [OkUnit nat; OkWrite nat 1; OkWrite nat 1; OkNum nat 3; OkUnit nat;
     OkRead nat 1 [5; 6]; OkRead nat 1 [7];
     OkNum nat 3; OkBool nat false; OkRead nat 0 []; OkBool nat true].
Proof. exact FileExamples.seek_example. Qed.

(* 6a. all seek origins and all offsets inside the file: after ANY history that leaves File i open on a
       readable stream, sseek to a target t (from the start, the current position or the end), then stell
       = t, seof = false, sread of n bytes that lie inside the file returns exactly content[t, t+n), stell = t+n *)
Theorem seek_tell_read_anywhere :
  forall (B : Type) (zero : B) (is_ws is_digit is_sign : B -> bool) (creatable close_fails : nat -> bool)
         (fs : fsys B) (objs : nat -> fobj) (pre : list (op B)) (i h : nat) (off : Z) (o : origin) (n t : nat),
  (forall j h', objs j <> FObj (Some h')) ->
  let w := fst (run B zero is_ws is_digit is_sign creatable close_fails file_close_tests_closed file_close_clears_always (w_init B fs objs) pre) in
  w_objs B w i = FObj (Some h) ->
  let s := f_st (w_files B w h) in
  let c := content B (w_fs B w) (s_path s) in
  m_read (s_mode s) = true ->
  seek_target (length c) (s_pos s) off o = Some (Z.of_nat t) -> 0 < n -> t + n <= length c ->
  snd (run B zero is_ws is_digit is_sign creatable close_fails file_close_tests_closed file_close_clears_always w
         [OSeek B i off o; OTell B i; OEof B i; ORead B i n; OTell B i]) =
    [OkUnit B; OkNum B t; OkBool B false; OkRead B 1 (firstn n (skipn t c)); OkNum B (t + n)].
Proof. exact FileRoundTrip.seek_tell_read_anywhere. Qed.
Print Assumptions seek_tell_read_anywhere.

Example seek_tell_read_anywhere_nonvacuous :
  let w := fst (xrun true true [ONewOpen nat 1 2 MWp; OWrite nat 1 [10; 11; 12; 13; 14; 15]; OSeek nat 1 1%Z SeekSet]) in
  w_objs nat w 1 = FObj (Some 0) /\
  m_read (s_mode (f_st (w_files nat w 0))) = true /\
  seek_target 6 (s_pos (f_st (w_files nat w 0))) (-4)%Z SeekEnd = Some (Z.of_nat 2) /\
  snd (run nat 0 xws xdigit xsign xcreat xfull true true w
         [OSeek nat 1 (-4)%Z SeekEnd; OTell nat 1; OEof nat 1; ORead nat 1 3; OTell nat 1])
  = [OkUnit nat; OkNum nat 2; OkBool nat false; OkRead nat 1 [12; 13; 14]; OkNum nat 5].
Proof. exact FileExamples.seek_anywhere_example. Qed.

(* 6b. text: records "[sign]digits SP word NL" written by print_to(f,0,"%ld %s\n",k,w) are scanned back
       identical by scan_from(f,0,"%ld %s\n",...) after sclose + sopen, after ANY prefix history that
       leaves the File closed; seof is true after the last record and one more scan_from raises
       FormatError.  For every classification of bytes with white space, digits, signs disjoint. *)
Theorem print_scan_roundtrip_reopen :
  forall (B : Type) (zero : B) (is_ws is_digit is_sign : B -> bool) (creatable close_fails : nat -> bool) (sp nl : B),
  (forall b, is_ws b = true -> is_digit b = false) ->
  (forall b, is_digit b = true -> is_sign b = false) ->
  (forall b, is_sign b = true -> is_ws b = false) ->
  is_ws sp = true -> is_ws nl = true ->
  forall (fs : fsys B) (objs : nat -> fobj) (pre : list (op B)) (i p : nat) (mw mr : mode) (rs : list (trec B)),
  (forall j h, objs j <> FObj (Some h)) ->
  let w := fst (run B zero is_ws is_digit is_sign creatable close_fails file_close_tests_closed file_close_clears_always (w_init B fs objs) pre) in
  w_objs B w i = FObj None -> creatable p = true -> close_fails p = false ->
  trunc_mode mw -> from_start_mode mr -> Forall (well_formed B is_ws is_digit is_sign) rs ->
  snd (run B zero is_ws is_digit is_sign creatable close_fails file_close_tests_closed file_close_clears_always w
         (text_history B sp nl i p mw mr rs)) = text_outcome B sp nl rs.
Proof. exact FileText.text_roundtrip. Qed.
Print Assumptions print_scan_roundtrip_reopen.

Example print_scan_roundtrip_reopen_nonvacuous :
  (forall b, xws b = true -> xdigit b = false) /\ (forall b, xdigit b = true -> xsign b = false) /\
  (forall b, xsign b = true -> xws b = false) /\
  well_formed nat xws xdigit xsign xrec1 /\ well_formed nat xws xdigit xsign xrec2 /\
  snd (xrun true true (text_history nat 32 10 2 1 MW MR [xrec1; xrec2]))
  = [OkUnit nat; OkUnit nat; OkUnit nat; OkUnit nat; OkUnit nat;
     OkScan nat [45; 55] [119; 111]; OkScan nat [49; 50] [104; 101; 108; 108; 111];
     OkBool nat true; ORaise nat FFormatError].
Proof. exact (conj FileExamples.x_ws_not_digit (conj FileExamples.x_digit_not_sign (conj FileExamples.x_sign_not_ws FileExamples.text_example))). Qed.

(* 6c. the Format sink of File has NO length bound: whatever pieces of formatted text print_to / format_to
       hand to File_Format_To (any number, any lengths - also longer than any buffer), the file holds
       exactly their concatenation: after sclose + sopen, sread in ANY chunking returns it, stell = its length *)
Theorem print_read_roundtrip_any_length :
  forall (B : Type) (zero : B) (is_ws is_digit is_sign : B -> bool) (creatable close_fails : nat -> bool)
         (fs : fsys B) (objs : nat -> fobj) (pre : list (op B)) (i p : nat) (mw mr : mode)
         (ts : list (list B)) (ns : list nat),
  (forall j h, objs j <> FObj (Some h)) ->
  let w := fst (run B zero is_ws is_digit is_sign creatable close_fails file_close_tests_closed file_close_clears_always (w_init B fs objs) pre) in
  w_objs B w i = FObj None -> creatable p = true -> close_fails p = false ->
  trunc_mode mw -> from_start_mode mr -> list_sum ns = length (concat ts) ->
  snd (run B zero is_ws is_digit is_sign creatable close_fails file_close_tests_closed file_close_clears_always w
         (print_history B i p mw mr ts ns)) = print_outcome B ts ns /\
  concat (pieces B ns (concat ts)) = concat ts.
Proof. exact FileText.print_read_roundtrip. Qed.
Print Assumptions print_read_roundtrip_any_length.

Example print_read_roundtrip_any_length_nonvacuous :
  let w := fst (xrun true true [ONew nat 0]) in
  let ts := [repeat 7 300; []; [60; 62; 10]] in
  w_objs nat w 0 = FObj None /\ list_sum [256; 0; 47] = length (concat ts) /\
  snd (run nat 0 xws xdigit xsign xcreat xfull true true w (print_history nat 0 1 MW MR ts [256; 0; 47]))
  = [OkUnit nat; OkUnit nat; OkUnit nat; OkUnit nat; OkNum nat 303; OkUnit nat; OkUnit nat;
     OkRead nat 1 (repeat 7 256); OkRead nat 0 []; OkRead nat 1 (repeat 7 44 ++ [60; 62; 10]);
     OkNum nat 303; OkBool nat false; OkRead nat 0 []; OkBool nat true].
Proof. exact FileExamples.print_read_example. Qed.

(* 7. the File_Close of the pinned tree is refuted on the same model (kept next to the positive
      theorems): without the closed test sclose twice calls fclose(NULL) (D19); keeping the handle
      when fclose fails makes del close the stream a second time (D22) *)
Theorem file_close_without_closed_test_refuted :
  exists ops, In (OCrash nat) (snd (xrun false true ops)) /\
              In EvCloseNull (w_trace nat (fst (xrun false true ops))).
Proof. exact FileExamples.d19_refuted. Qed.
Print Assumptions file_close_without_closed_test_refuted.

Theorem file_close_keeping_handle_on_error_refuted :
  exists ops, In (OCrash nat) (snd (xrun true false ops)) /\
              In (EvStale 0) (w_trace nat (fst (xrun true false ops))).
Proof. exact FileExamples.d22_refuted. Qed.
Print Assumptions file_close_keeping_handle_on_error_refuted.
