(* Properties_C20.v — property C20: File streams round-trip data and refuse use when closed.
   Only statements closed by `exact`, each followed by Print Assumptions. *)
From CelloV Require Import Generated FileModel FileProofs.

Theorem closed_file_raises_ioerror :
  forall (B : Type) (zero : B) (is_ws is_digit is_sign : B -> bool) (creatable close_fails : nat -> bool)
         (w : world B) (o : op B) (i : nat),
  w_objs B w i = FObj None -> uses B o i ->
  step B zero is_ws is_digit is_sign creatable close_fails file_close_tests_closed file_close_clears_always w o
  = (w, ORaise B FIOError).
Proof. exact FileProofs.closed_op_raises. Qed.
Print Assumptions closed_file_raises_ioerror.
