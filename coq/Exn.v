(* Exn.v — executable model for property C07 (try / catch / throw follow block structure).
   NO proofs in this file (they live in ExnProofs.v).

   Modelled C text:  src/Exception.c  (exception_try, exception_try_end, exception_try_fail,
   exception_throw, exception_catch, Exception_Buffer, Exception_Error, struct Exception)
   and the macros of include/Cello.h

     #define try { jmp_buf __env; exception_try(&__env); if (!setjmp(__env))
     #define catch_in(X, ...) else { exception_try_fail(); } exception_try_end(); } \
       for (var X = exception_catch(tuple(__VA_ARGS__)); X isnt NULL; X = NULL)
     #define throw(E, F, ...) exception_throw(E, F, tuple(__VA_ARGS__))

   so that   try { B } catch (e in F1, ..) { H }   is

     { jmp_buf __env; exception_try(&__env);
       if (!setjmp(__env)) { B } else { exception_try_fail(); }
       exception_try_end(); }
     for (var e = exception_catch(tuple(F1, ..)); e isnt NULL; e = NULL) { H }

   Two semantics of the same program trees:
     * [mrun]    the machine: the per-thread record {obj, msg, depth, active, buffers} of
                 struct Exception, the C functions above one Gallina function each, and the macro
                 expansion spelled out; longjmp = an outcome [MJump t] that travels outwards until
                 the try frame that owns buffer [t] takes it (its setjmp returns 1);
     * [ref_run] the reference: big-step structured exception semantics (a try handles iff its
                 body raised, nobody inside handled it, and the filter matches).

   The parameter [clr] of the machine is the repair of defect D3: the pinned code never cleared
   [active] when exception_catch handed the exception to a handler ([clr = false]); the repaired
   code executes `e->active = false;` before both `return e->obj;` ([clr = true]).  The value used
   by the theorems and by the extracted driver is Generated.clear_active_on_catch, re-read from
   the working tree's src/Exception.c on every check. *)
From Coq Require Import List Arith Bool.
Import ListNotations.

(* An exception object is any Cello object: one of the library's static exception Type objects
   (TypeError, ValueError, ...), another Type object of the same name, a heap Int or String used as
   an exception value, a copy of a caught object ...  The model names an object by a number [o], its
   IDENTITY (the pointer).  exception_catch compares filter entries with the thrown object by
   `eq` (cmp = 0: Type objects by name, Int/String by value), not by identity; [kind_of o] is the
   eq-class of object o, so distinct objects 10*k, 10*k+1, .. are `eq` to each other.  The machine's
   [obj] field and the handler variable hold the identity.
   The message is the text exception_throw formats into e->msg; the model keeps it as a number: the
   harness throws with the format "m%i" and that number, and message 0 is the EMPTY format
   `throw(X, "")` (e->msg becomes the empty string, as in a fresh record). *)
Definition kind_of (o : nat) : nat := Nat.div o 10.

(* how a handler (or a function) can be left early *)
Inductive exit_kind : Type :=
| XBreak        (* break;    in a catch handler: leaves the handler's for loop, the increment is skipped *)
| XCont         (* continue; in a catch handler: goes to the increment (X = NULL), the loop then ends   *)
| XReturn.      (* return;   from the enclosing function (a PCall body, a Show method, the program)     *)

Inductive prog : Type :=
| PSkip                                         (* ;                                          *)
| PTick (n : nat)                               (* an observable statement                     *)
| PSeq (p q : prog)                             (* p; q                                        *)
| PThrow (o m : nat) (fmt : prog)               (* throw(X_o, "m%i", m)  /  throw(X_o, "") for m = 0, when fmt = PSkip;
                                                   in general throw(X_o, "%$m%i", a, m) / throw(X_o, "%$", a) where
                                                   showing the message argument a runs the program fmt (a Show
                                                   method may contain complete try/catch blocks, and may throw) *)
| PTry (body : prog) (filters : list nat) (handler : prog)
                                                (* try { body } catch (e in filters) { handler } *)
| PExit (k : exit_kind)                         (* break; / continue; / return;  — see [exits_ok] for where
                                                   they may stand (never so as to leave a try BODY: that
                                                   is the documented misuse)                           *)
| PCall (p : prog).                             (* f(); where the body of f is p — dynamic nesting.
                                                   In the model a call is inlining, so lexical and
                                                   dynamic nesting coincide; the two C harnesses
                                                   realise them differently (recursion / generated
                                                   source with one C function per PCall).        *)

(* Observations.  [d] is len(current(Exception)) = e->depth at that moment. *)
Inductive event : Type :=
| ETick (n d : nat)                             (* statement n executed                        *)
| EHandler (o m d : nat).                       (* handler entered; bound object (identity) o; e->msg = m *)

(* ------------------------------------------------------------------ the machine state *)

(* struct Exception { var obj; var msg; size_t depth; bool active; jmp_buf* buffers[MAX]; }
   buffers[0 .. depth-1] is kept as a stack (head = buffers[depth-1]); entries at and above
   [depth] are never read by the C code (exception_try writes buffers[depth-1] after depth++,
   Exception_Buffer reads buffers[depth-1]), so the stack is the whole observable content and
   [depth] is its length.  A jump buffer is named by 1 + the depth at which its try frame was
   entered (= its position on the C stack among the live try frames; 0 is the NULL pointer). *)
Record mstate : Type := MS {
  obj : option nat;       (* NULL before the first throw *)
  msg : nat;
  bufs : list nat;
  active : bool }.

Definition depth (st : mstate) : nat := length (bufs st).

Definition st_init : mstate := MS None 0 [] false.          (* Exception_New *)

Inductive mout : Type :=
| MNormal
| MJump (target : nat)            (* longjmp( *buffers[depth-1], 1) in flight                     *)
| MDied (o : option nat) (m : nat)(* Exception_Error: "Uncaught <obj>" + msg on stderr, exit(EXIT_FAILURE) *)
| MAbort                          (* "Exception Buffer Overflow/Underflow" + abort()             *)
| MWild                           (* undefined behaviour (eq on a NULL exception object)          *)
| MExit (k : exit_kind).          (* break / continue / return on its way to the loop / function it leaves *)

(* a function body ended by `return` has ended; a handler left by break/continue has ended its block *)
Definition fn_end (r : mout) : mout := match r with MExit XReturn => MNormal | _ => r end.
Definition handler_end (r : mout) : mout :=
  match r with MExit XBreak | MExit XCont => MNormal | _ => r end.

Section Machine.
Variable max_depth : nat.         (* EXCEPTION_MAX_DEPTH *)
Variable clr : bool.              (* clear_active_on_catch, see the header *)
Variable oaf : bool.              (* throw_records_obj_after_format: exception_throw formats the message
                                     (which may run try blocks and throws of its own, through the Show
                                     methods of the arguments) BEFORE it stores e->obj = obj.  The pinned
                                     code stored the object first: a throw handled while the message was
                                     being formatted replaced it (third repaired defect). *)
Variable tko : bool.              (* try_keeps_obj: exception_try does not assign e->obj *)

(* void exception_try(jmp_buf* env): None = overflow abort *)
Definition exception_try (id : nat) (st : mstate) : option mstate :=
  if depth st =? max_depth then None
  else Some (MS (if tko then obj st else None) (msg st) (id :: bufs st) false).

(* void exception_try_fail(void) *)
Definition exception_try_fail (st : mstate) : mstate :=
  MS (obj st) (msg st) (bufs st) true.

(* void exception_try_end(void): None = underflow abort *)
Definition exception_try_end (st : mstate) : option mstate :=
  match bufs st with
  | [] => None
  | _ :: b => Some (MS (obj st) (msg st) b (active st))
  end.

(* the common tail of exception_throw and exception_catch:
   if (e->depth >= 1) longjmp( *Exception_Buffer(e), 1); else Exception_Error(e); *)
Definition jump_or_die (st : mstate) : mout :=
  match bufs st with
  | t :: _ => MJump t
  | [] => MDied (obj st) (msg st)
  end.

(* print_to_with(e->msg, 0, fmt, args): the message is written over the old one from position 0 —
   but an EMPTY format writes nothing at all (the loop of print_to_with ends at once), so the
   record keeps the message of the previous throw.  Observed on the real library; the property
   does not speak about messages, the model follows the code. *)
Definition set_msg (m old : nat) : nat := if m =? 0 then old else m.

(* var exception_throw(var obj, const char* fmt, var args): spelled out in the PThrow case of [mrun],
   because formatting the message can run program code *)

(* "If no Arguments catch all", otherwise eq(get(args, $I(i)), e->obj) for some i < len(args).
   (The pinned code walked the filter with foreach; see tuple_next / foreach_matches below for
   why that is the same on duplicate-free filters only.) *)
Definition matches (filters : list nat) (o : nat) : bool :=
  match filters with
  | [] => true
  | _ => existsb (fun f => kind_of f =? kind_of o) filters      (* eq(filter_i, e->obj) *)
  end.

Inductive catch_result : Type :=
| CNull                           (* returned NULL: the for loop does not run the handler *)
| CBind (k : nat)                 (* returned e->obj: handler runs with X = that object    *)
| COut (r : mout).                (* did not return: longjmp outwards / Exception_Error    *)

Definition clear_active (st : mstate) : mstate :=
  if clr then MS (obj st) (msg st) (bufs st) false else st.

(* var exception_catch(var args) *)
Definition exception_catch (filters : list nat) (st : mstate) : mstate * catch_result :=
  if negb (active st) then (st, CNull)
  else match obj st with
       | Some k =>
           if matches filters k then (clear_active st, CBind k)
           else (st, COut (jump_or_die st))
       | None =>                  (* active without any throw: unreachable from st_init *)
           match filters with
           | [] => (clear_active st, CNull)       (* return e->obj, which is NULL *)
           | _ => (st, COut MWild)                (* eq(arg, NULL) *)
           end
       end.

(* exception_throw around the formatting of the message: the state the Show methods of the arguments
   run on, and the state after `print_to_with(e->msg, ..)` returned and the object is in place
   (ExnTie.v proves that the translated C function is exactly this pair) *)
Definition throw_pre (o : nat) (st : mstate) : mstate :=
  if oaf then st else MS (Some o) (msg st) (bufs st) (active st).
Definition throw_post (o m : nat) (s1 : mstate) : mstate :=
  MS (if oaf then Some o else obj s1) (set_msg m (msg s1)) (bufs s1) (active s1).

(* Execution of a program tree by the macro expansion. *)
Fixpoint mrun (p : prog) (st : mstate) : list event * mout * mstate :=
  match p with
  | PSkip => ([], MNormal, st)
  | PTick n => ([ETick n (depth st)], MNormal, st)
  | PSeq p q =>
      let '(t1, r1, s1) := mrun p st in
      match r1 with
      | MNormal => let '(t2, r2, s2) := mrun q s1 in (t1 ++ t2, r2, s2)
      | _ => (t1, r1, s1)
      end
  | PThrow o m f =>
      (* exception_throw: [e->obj = obj;] print_to_with(e->msg, 0, fmt, args); [e->obj = obj;] jump or die.
         Formatting shows the arguments first (the harness puts the %$ argument in front, so the own
         message then overwrites from position 0 whatever a nested throw left: set_msg). *)
      let '(t1, r1, s1) := mrun f (throw_pre o st) in
      match fn_end r1 with
      | MNormal =>
          let s2 := throw_post o m s1 in
          (t1, jump_or_die s2, s2)
      | r => (t1, r, s1)               (* an exception escaped from the Show method: this throw never happens *)
      end
  | PExit k => ([], MExit k, st)
  | PCall p => let '(t, r, s) := mrun p st in (t, fn_end r, s)
  | PTry b fs h =>
      let id := S (depth st) in                          (* jmp_buf __env;  (its address: never NULL = 0) *)
      match exception_try id st with                     (* exception_try(&__env); *)
      | None => ([], MAbort, st)
      | Some s0 =>
          let '(t1, r1, s1) := mrun b s0 in              (* if (!setjmp(__env)) { B } *)
          let landed : option mstate :=
            match r1 with
            | MNormal => Some s1
            | MJump t => if t =? id then Some (exception_try_fail s1)   (* else { exception_try_fail(); } *)
                         else None                       (* a jump to some other frame passes through *)
            | _ => None
            end in
          match landed with
          | None => (t1, r1, s1)
          | Some s2 =>
              match exception_try_end s2 with            (* exception_try_end(); } *)
              | None => (t1, MAbort, s2)
              | Some s3 =>
                  match exception_catch fs s3 with       (* for (var X = exception_catch(tuple(..)); *)
                  | (s4, CNull) => (t1, MNormal, s4)     (*      X isnt NULL; *)
                  | (s4, CBind k) =>
                      let '(t2, r2, s5) := mrun h s4 in  (*      X = NULL) { H } *)
                      (t1 ++ EHandler k (msg s4) (depth s4) :: t2, handler_end r2, s5)
                  | (s4, COut r) => (t1, r, s4)
                  end
              end
          end
      end
  end.

End Machine.

(* ------------------------------------------------------------------ the reference *)

Inductive rres : Type := RNormal | RRaised (k m : nat) | RExit (k : exit_kind).
Definition rfn_end (r : rres) : rres := match r with RExit XReturn => RNormal | _ => r end.
Definition rhandler_end (r : rres) : rres :=
  match r with RExit XBreak | RExit XCont => RNormal | _ => r end.

(* Structured semantics; [d] = number of try bodies around the current point; [c] = the message the
   thread's record holds when the construct starts.  The third component of the result is the
   message held when it ends (for [RRaised k m] that is m).  The message register is the only state:
   it is needed because a throw with the empty format keeps the previous message. *)
Fixpoint ref_run (d : nat) (c : nat) (p : prog) : list event * rres * nat :=
  match p with
  | PSkip => ([], RNormal, c)
  | PTick n => ([ETick n d], RNormal, c)
  | PSeq p q =>
      let '(t1, r1, c1) := ref_run d c p in
      match r1 with
      | RNormal => let '(t2, r2, c2) := ref_run d c1 q in (t1 ++ t2, r2, c2)
      | _ => (t1, r1, c1)
      end
  | PThrow o m f =>
      let '(t1, r1, c1) := ref_run d c f in                 (* the message arguments are shown first *)
      match rfn_end r1 with
      | RNormal => (t1, RRaised o (set_msg m c1), set_msg m c1)
      | r => (t1, r, c1)
      end
  | PExit k => ([], RExit k, c)
  | PCall p => let '(t, r, c') := ref_run d c p in (t, rfn_end r, c')
  | PTry b fs h =>
      let '(t1, r1, c1) := ref_run (S d) c b in
      match r1 with
      | RNormal => (t1, RNormal, c1)
      | RRaised k m =>
          if matches fs k
          then let '(t2, r2, c2) := ref_run d c1 h in (t1 ++ EHandler k m d :: t2, rhandler_end r2, c2)
          else (t1, RRaised k m, c1)
      | RExit k => (t1, r1, c1)           (* left a try body: excluded by [exits_ok] (misuse) *)
      end
  end.

(* Where break / continue / return may stand.  [ret]: no try body of the current function is open here
   (a `return` would skip its exception_try_end: the misuse the documentation warns of); [brk]: we are
   in a catch handler with no try body in between (break/continue then belong to the handler's for
   loop).  A call, and a Show method, start a function of their own. *)
Fixpoint exits_ok (ret brk : bool) (p : prog) : bool :=
  match p with
  | PSkip | PTick _ => true
  | PExit XReturn => ret
  | PExit _ => brk
  | PSeq p q => exits_ok ret brk p && exits_ok ret brk q
  | PThrow _ _ f => exits_ok true false f
  | PCall p => exits_ok true false p
  | PTry b _ h => exits_ok false false b && exits_ok ret true h
  end.

(* number of try bodies nested inside each other (lexically or through calls) *)
Fixpoint nesting (p : prog) : nat :=
  match p with
  | PSkip | PTick _ | PExit _ => 0
  | PThrow _ _ f => nesting f
  | PSeq p q => Nat.max (nesting p) (nesting q)
  | PCall p => nesting p
  | PTry b _ h => Nat.max (S (nesting b)) (nesting h)
  end.

Fixpoint size (p : prog) : nat :=
  match p with
  | PSkip | PTick _ | PExit _ => 1
  | PThrow _ _ f => S (size f)
  | PSeq p q => S (size p + size q)
  | PCall p => S (size p)
  | PTry b _ h => S (size b + size h)
  end.

(* [nest n p] = n try blocks (catch-all, empty handler) around p — used for the bound examples *)
Fixpoint nest (n : nat) (p : prog) : prog :=
  match n with
  | 0 => p
  | S n' => PTry (nest n' p) [] PSkip
  end.

(* The pinned exception_catch walked the filter with `foreach (arg in args)`.  Iteration over a
   Tuple keeps the current ELEMENT as cursor (Tuple_Iter_Init = items[0]; Tuple_Iter_Next(curr) =
   the element after the FIRST position holding curr; Terminal at the end), so a filter naming an
   object twice is walked forever once the first occurrence did not match.  [None] = fuel exhausted.
   (ExnProofs: equals [existsb] on duplicate-free filters, diverges on [0;0] — second repair.) *)
Fixpoint tuple_next (items : list nat) (cur : nat) : option nat :=
  match items with
  | [] => None
  | x :: r => if x =? cur then hd_error r else tuple_next r cur
  end.

Fixpoint foreach_matches (fuel : nat) (items : list nat) (cur : option nat) (k : nat) : option bool :=
  match fuel with
  | 0 => None
  | S f =>
      match cur with
      | None => Some false                          (* Terminal: loop left, no match *)
      | Some c => if kind_of c =? kind_of k then Some true     (* eq(arg, e->obj) *)
                  else foreach_matches f items (tuple_next items c) k
      end
  end.

(* The same structured semantics as a relation, one rule per way a construct can end
   (ExnProofs.eval_iff_ref_run: it is the graph of [ref_run]).  The three rules for PTry are the
   property's sentence "a handler runs if and only if an exception raised in its own try body was
   not already handled by an inner block and matches its filter". *)
Definition accepts (fs : list nat) (o : nat) : Prop :=      (* empty filter, or some entry is eq to o *)
  fs = [] \/ exists f, In f fs /\ kind_of f = kind_of o.
Definition rejects (fs : list nat) (o : nat) : Prop :=
  fs <> [] /\ forall f, In f fs -> kind_of f <> kind_of o.

Inductive eval : nat -> nat -> prog -> list event -> rres -> nat -> Prop :=
| EvSkip : forall d c, eval d c PSkip [] RNormal c
| EvTick : forall d c n, eval d c (PTick n) [ETick n d] RNormal c
| EvSeqNormal : forall d c p q t1 c1 t2 r c2,
    eval d c p t1 RNormal c1 -> eval d c1 q t2 r c2 -> eval d c (PSeq p q) (t1 ++ t2) r c2
| EvSeqStop : forall d c p q t1 r c1,           (* raised, or left by break/continue/return *)
    eval d c p t1 r c1 -> r <> RNormal -> eval d c (PSeq p q) t1 r c1
| EvThrow : forall d c o m f t1 r1 c1,          (* the arguments are shown, then o is raised *)
    eval d c f t1 r1 c1 -> rfn_end r1 = RNormal ->
    eval d c (PThrow o m f) t1 (RRaised o (set_msg m c1)) (set_msg m c1)
| EvThrowEscaped : forall d c o m f t1 r1 c1,   (* showing an argument raised: that exception goes on instead *)
    eval d c f t1 r1 c1 -> rfn_end r1 <> RNormal ->
    eval d c (PThrow o m f) t1 (rfn_end r1) c1
| EvExit : forall d c k, eval d c (PExit k) [] (RExit k) c
| EvCall : forall d c p t r c', eval d c p t r c' -> eval d c (PCall p) t (rfn_end r) c'
| EvTryNormal : forall d c b fs h t c1,        (* nothing reaches this block: the handler stays out *)
    eval (S d) c b t RNormal c1 -> eval d c (PTry b fs h) t RNormal c1
| EvTryHandled : forall d c b fs h t1 k m c1 t2 r c2, (* the body let k escape and the filter accepts it *)
    eval (S d) c b t1 (RRaised k m) c1 -> accepts fs k ->
    eval d c1 h t2 r c2 -> eval d c (PTry b fs h) (t1 ++ EHandler k m d :: t2) (rhandler_end r) c2
| EvTryPassed : forall d c b fs h t1 k m c1,   (* the filter does not accept k: outwards, untouched *)
    eval (S d) c b t1 (RRaised k m) c1 -> rejects fs k ->
    eval d c (PTry b fs h) t1 (RRaised k m) c1
| EvTryLeft : forall d c b fs h t1 k c1,       (* misuse: the body was left by break/continue/return *)
    eval (S d) c b t1 (RExit k) c1 -> eval d c (PTry b fs h) t1 (RExit k) c1.

(* [chain levels p]: p wrapped in try blocks, innermost first: levels = [(fs1,h1); (fs2,h2); ..]
   gives  try { try { p } catch (fs1) { h1 } } catch (fs2) { h2 } ... *)
Fixpoint chain (levels : list (list nat * prog)) (p : prog) : prog :=
  match levels with
  | [] => p
  | (fs, h) :: rest => chain rest (PTry p fs h)
  end.

(* the shapes of the three macros the machine encodes, as normalised token strings
   (tools/genx_exn.py emits the shapes found in include/Cello.h into Generated.v) *)
Require Import String.
Local Open Scope string_scope.
Definition expected_macro_try : string :=
  "{ jmp_buf __env ; exception_try ( & __env ) ; if ( ! setjmp ( __env ) )".
Definition expected_macro_catch_in : string :=
  "( X , ... ) else { exception_try_fail ( ) ; } exception_try_end ( ) ; } for ( var X = exception_catch ( tuple ( __VA_ARGS__ ) ) ; X isnt NULL ; X = NULL )".
Definition expected_macro_throw : string :=
  "( E , F , ... ) exception_throw ( E , F , tuple ( __VA_ARGS__ ) )".
Definition expected_macro_catch : string :=
  "( ... ) catch_xp ( catch_in , ( __VA_ARGS__ ) )".

(* the bodies of the C functions modelled above, as normalised token strings (the two
   `e->active = false;` in front of `return e->obj;` are not part of the shape: they are the
   parameter clear_active_on_catch) *)
Definition expected_src_try : string :=
  "{ struct Exception * e = current ( Exception ) ; if ( e -> depth is EXCEPTION_MAX_DEPTH ) { fprintf ( stderr , ""Cello Fatal Error: Exception Buffer Overflow!\n"" ) ; abort ( ) ; } e -> depth ++ ; e -> active = false ; e -> buffers [ e -> depth - 1 ] = env ; }".
Definition expected_src_try_end : string :=
  "{ struct Exception * e = current ( Exception ) ; if ( e -> depth == 0 ) { fprintf ( stderr , ""Cello Fatal Error: Exception Buffer Underflow!\n"" ) ; abort ( ) ; } e -> depth -- ; }".
Definition expected_src_try_fail : string :=
  "{ struct Exception * e = current ( Exception ) ; e -> active = true ; }".
Definition expected_src_throw : string :=
  "{ struct Exception * e = current ( Exception ) ; print_to_with ( e -> msg , 0 , fmt , args ) ; if ( Exception_Len ( e ) >= 1 ) { longjmp ( * Exception_Buffer ( e ) , 1 ) ; } else { Exception_Error ( e ) ; } return NULL ; }".
Definition expected_src_catch : string :=
  "{ struct Exception * e = current ( Exception ) ; if ( not e -> active ) { return NULL ; } if ( len ( args ) is 0 ) { return e -> obj ; } size_t nargs = len ( args ) ; for ( size_t i = 0 ; i < nargs ; i ++ ) { if ( eq ( get ( args , $ I ( i ) ) , e -> obj ) ) { return e -> obj ; } } if ( e -> depth >= 1 ) { longjmp ( * Exception_Buffer ( e ) , 1 ) ; } else { Exception_Error ( e ) ; } return NULL ; }".
Definition expected_src_buffer : string :=
  "{ if ( e -> depth == 0 ) { fprintf ( stderr , ""Cello Fatal Error: Exception Buffer Out of Bounds!\n"" ) ; abort ( ) ; } return e -> buffers [ e -> depth - 1 ] ; }".
Definition expected_src_len : string :=
  "{ struct Exception * e = self ; return e -> depth ; }".
Definition expected_src_error : string :=
  "{ print_to ( $ ( File , stderr ) , 0 , ""\n"" ) ; print_to ( $ ( File , stderr ) , 0 , ""!!\t\n"" ) ; print_to ( $ ( File , stderr ) , 0 , ""!!\tUncaught %$\n"" , e -> obj ) ; print_to ( $ ( File , stderr ) , 0 , ""!!\t\n"" ) ; print_to ( $ ( File , stderr ) , 0 , ""!!\t\t %s\n"" , e -> msg ) ; print_to ( $ ( File , stderr ) , 0 , ""!!\t\n"" ) ; Exception_Backtrace ( ) ; exit ( EXIT_FAILURE ) ; }".
Definition expected_src_signal : string :=
  "{ switch ( sig ) { case SIGABRT : throw ( ProgramAbortedError , ""Program Aborted"" ) ; case SIGFPE : throw ( DivisionByZeroError , ""Division by Zero"" ) ; case SIGILL : throw ( IllegalInstructionError , ""Illegal Instruction"" ) ; case SIGINT : throw ( ProgramInterruptedError , ""Program Interrupted"" ) ; case SIGSEGV : throw ( SegmentationError , ""Segmentation fault"" ) ; case SIGTERM : throw ( ProgramTerminationError , ""Program Terminated"" ) ; } }".
