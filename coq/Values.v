(* Values.v — executable models of Cello's `cmp` on the built-in value types and on the
   sequence/tree containers (property C09).  NO proofs in this file (see CmpProofs.v).

   C sources modelled (working tree of the repository):
     src/Num.c     Int_Cmp, Float_Cmp
     src/String.c  String_Cmp            (strcmp)
     src/Type.c    Type_Cmp              (strcmp of the type names)
     src/Cmp.c     cmp (dispatch + default memcmp), eq neq gt lt ge le
     src/Array.c   Array_Cmp   src/List.c List_Cmp   src/Tuple.c Tuple_Cmp   src/Tree.c Tree_Cmp

   Conventions: an `int` result of a comparison is a Z.  `None` = the call raises (wrong
   class / type): the property says nothing there, the correspondence still compares it.
   Int_Cmp, Float_Cmp and the container comparisons return exactly -1/0/1 in the C text and
   in the model; strcmp/memcmp only fix the sign, the model returns the sign. *)
From Coq Require Import List ZArith NArith Bool.
From Flocq Require Import IEEE754.BinarySingleNaN IEEE754.Bits.
From Flocq Require IEEE754.Binary.
From CelloV Require Import Generated.
Import ListNotations.
Local Open Scope Z_scope.

(* ------------------------------------------------------------------ Int *)
Definition wrap64 (z : Z) : Z := (z + 9223372036854775808) mod 18446744073709551616 - 9223372036854775808.
Definition wrap32 (z : Z) : Z := (z + 2147483648) mod 4294967296 - 2147483648.
Definition in_int64 (z : Z) : Prop := -9223372036854775808 <= z <= 9223372036854775807.

(* pinned code:  return (int)(a - b);   (int64 subtraction, then truncation to int) *)
Definition int_cmp_trunc (a b : Z) : Z := wrap32 (wrap64 (a - b)).
(* repaired code (808a1b4):  return a < b ? -1 : a > b ? 1 : 0; *)
Definition int_cmp_3way (a b : Z) : Z := if a <? b then -1 else if b <? a then 1 else 0.
(* ------------------------------------------------------------------ translated C expressions *)
(* Int_Cmp, Float_Cmp and the six predicates of Cmp.c are not pattern-matched: tools/cx_translate.py
   TRANSLATES their bodies (conditionals, comparisons, subtraction, (int) casts, if-return chains,
   locals) into the expression language `cexp` of Generated.v; this is its semantics.  Operands are
   scalars of one C type (int64_t or double), given by an algebra; C `int` values are Z. *)
Record calg := {
  cT : Type;
  c_cmp : cT -> cT -> option comparison;     (* None = unordered (NaN): every test but != is false *)
  c_sub : cT -> cT -> cT;
  c_zero : cT;                               (* the int literal 0 converted to the operand type *)
  c_cast32 : cT -> option Z                  (* (int) of an operand; None = not modelled *)
}.

Inductive cval (A : calg) := VOp (t : cT A) | VC (z : Z).
Arguments VOp {A} t.
Arguments VC {A} z.

Definition cop_test (o : cop) (r : option comparison) : bool :=
  match r with
  | Some Lt => match o with OpLt | OpLe | OpNe => true | _ => false end
  | Some Eq => match o with OpLe | OpEq | OpGe => true | _ => false end
  | Some Gt => match o with OpGt | OpGe | OpNe => true | _ => false end
  | None => match o with OpNe => true | _ => false end
  end.
Definition b2z (b : bool) : Z := if b then 1 else 0.

Fixpoint ceval (A : calg) (env : list (cval A)) (e : cexp) : option (cval A) :=
  match e with
  | CVar n => nth_error env n
  | CInt z => Some (VC z)
  | CSub a b =>
      match ceval A env a, ceval A env b with
      | Some (VOp x), Some (VOp y) => Some (VOp (c_sub A x y))
      | Some (VC x), Some (VC y) => Some (VC (wrap32 (x - y)))
      | _, _ => None
      end
  | CCmp o a b =>
      match ceval A env a, ceval A env b with
      | Some (VOp x), Some (VOp y) => Some (VC (b2z (cop_test o (c_cmp A x y))))
      | Some (VOp x), Some (VC 0) => Some (VC (b2z (cop_test o (c_cmp A x (c_zero A)))))
      | Some (VC 0), Some (VOp y) => Some (VC (b2z (cop_test o (c_cmp A (c_zero A) y))))
      | Some (VC x), Some (VC y) => Some (VC (b2z (cop_test o (Some (x ?= y)))))
      | _, _ => None
      end
  | CCond c a b =>
      match ceval A env c with
      | Some (VC z) => if z =? 0 then ceval A env b else ceval A env a
      | _ => None
      end
  | CNot a => match ceval A env a with Some (VC z) => Some (VC (b2z (z =? 0))) | _ => None end
  | CAnd a b =>
      match ceval A env a, ceval A env b with
      | Some (VC x), Some (VC y) => Some (VC (b2z (negb (x =? 0) && negb (y =? 0))))
      | _, _ => None
      end
  | COr a b =>
      match ceval A env a, ceval A env b with
      | Some (VC x), Some (VC y) => Some (VC (b2z (negb (x =? 0) || negb (y =? 0))))
      | _, _ => None
      end
  | CCast32 a =>
      match ceval A env a with
      | Some (VC z) => Some (VC (wrap32 z))
      | Some (VOp x) => option_map (@VC A) (c_cast32 A x)
      | None => None
      end
  end.

(* locals are evaluated in order and appended to the environment; the function returns a C int *)
Fixpoint cbind (A : calg) (env : list (cval A)) (locals : list cexp) : option (list (cval A)) :=
  match locals with
  | [] => Some env
  | l :: r => match ceval A env l with Some v => cbind A (env ++ [v]) r | None => None end
  end.
Definition crun (A : calg) (p : cprog) (x y : cT A) : option Z :=
  match cbind A [VOp x; VOp y] (fst p) with
  | Some env => match ceval A env (snd p) with Some (VC z) => Some z | _ => None end
  | None => None
  end.

Definition int_alg : calg :=
  {| cT := Z; c_cmp := fun x y => Some (x ?= y); c_sub := fun x y => wrap64 (x - y); c_zero := 0;
     c_cast32 := fun x => Some (wrap32 x) |}.

(* Int_Cmp: what the translated body of the working tree computes (None = outside the fragment: the
   repaired three-way compare is assumed so that the model keeps running; the proof then breaks) *)
Definition int_cmp (a b : Z) : Z :=
  match int_cmp_code with
  | Some p => match crun int_alg p a b with Some z => z | None => int_cmp_3way a b end
  | None => int_cmp_3way a b
  end.

(* ------------------------------------------------------------------ Float *)
(* binary64 with a single NaN (NaNs are outside the property) *)
Definition bfloat := binary_float 53 1024.
Definition float_of_bits (z : Z) : bfloat := Binary.B2BSN 53 1024 (b64_of_bits z).
Definition fzero : bfloat := B754_zero false.
Definition float_sub (a b : bfloat) : bfloat := @Bminus 53 1024 (eq_refl _) (eq_refl _) mode_NE a b.
Definition z_of_ocmp (o : option comparison) : Z :=
  match o with Some Gt => 1 | Some Lt => -1 | _ => 0 end.
(* double c = a - b;  return c > 0 ? 1 : c < 0 ? -1 : 0;
   (c > 0 and c < 0 are false when c is NaN: inf - inf) *)
Definition float_cmp_sub (a b : bfloat) : Z := z_of_ocmp (Bcompare (float_sub a b) fzero).
Definition float_alg : calg :=
  {| cT := bfloat; c_cmp := fun x y => Bcompare x y; c_sub := float_sub; c_zero := fzero;
     c_cast32 := fun _ => None |}.
(* Float_Cmp: the translated body of the working tree *)
Definition float_cmp (a b : bfloat) : Z :=
  match float_cmp_code with
  | Some p => match crun float_alg p a b with Some z => z | None => float_cmp_sub a b end
  | None => float_cmp_sub a b
  end.
(* reference order on non-NaN floats: the IEEE-754 comparison itself *)
Definition float_ord (a b : bfloat) : comparison :=
  match Bcompare a b with Some c => c | None => Eq end.
(* "equal values": identical, or both a zero (of either sign) *)
Definition float_eqv (a b : bfloat) : Prop :=
  match a, b with
  | B754_zero _, B754_zero _ => True
  | _, _ => a = b
  end.

(* ------------------------------------------------------------------ byte strings *)
(* strcmp / memcmp: first differing unsigned byte decides; a proper prefix is smaller
   (strcmp: the terminating 0 is smaller than every byte; memcmp is only used at equal sizes) *)
Definition z_of_cmp (c : comparison) : Z := match c with Lt => -1 | Eq => 0 | Gt => 1 end.

Section Lex.
  Context {A B : Type}.
  Variable ecmp : A -> B -> comparison.
  Fixpoint lex_compare (xs : list A) (ys : list B) : comparison :=
    match xs, ys with
    | [], [] => Eq
    | [], _ :: _ => Lt
    | _ :: _, [] => Gt
    | x :: xs', y :: ys' =>
        match ecmp x y with
        | Eq => lex_compare xs' ys'
        | c => c
        end
    end.
End Lex.

(* lexicographic product, used for the (key, value) bindings of a Tree *)
Definition pair_ord {K V K' V' : Type} (ck : K -> K' -> comparison) (cv : V -> V' -> comparison)
    (p : K * V) (q : K' * V') : comparison :=
  let '(k, v) := p in let '(k', v') := q in
  match ck k k' with
  | Eq => cv v v'
  | c => c
  end.

Definition bytes := list N.
Definition bytes_ord (a b : bytes) : comparison := lex_compare N.compare a b.
Definition str_cmp (a b : bytes) : Z := z_of_cmp (bytes_ord a b).       (* sign of strcmp *)
Definition mem_cmp (a b : bytes) : Z := z_of_cmp (bytes_ord a b).       (* sign of memcmp, equal sizes *)

(* ------------------------------------------------------------------ containers *)
(* Array_Cmp / List_Cmp / Tuple_Cmp: walk both operands in iteration order;
     both exhausted -> 0;  self exhausted -> -1;  obj exhausted -> 1;
     c = cmp(item0,item1);  c < 0 -> -1;  c > 0 -> 1;  else advance both.
   The loop is structural on the element lists (termination of iteration itself is C11). *)
Section Seq.
  Context {A B : Type}.
  Variable ecmp : A -> B -> option Z.
  Fixpoint seq_cmp (xs : list A) (ys : list B) : option Z :=
    match xs, ys with
    | [], [] => Some 0
    | [], _ :: _ => Some (-1)
    | _ :: _, [] => Some 1
    | x :: xs', y :: ys' =>
        match ecmp x y with
        | None => None
        | Some c => if c <? 0 then Some (-1) else if 0 <? c then Some 1 else seq_cmp xs' ys'
        end
    end.
End Seq.

(* Tree_Cmp: same walk over the keys in iteration order; key first, then the value stored
   under it *)
Section TreeCmp.
  Context {K V K' V' : Type}.
  Variable kcmp : K -> K' -> option Z.
  Variable vcmp : V -> V' -> option Z.
  Fixpoint tree_cmp (xs : list (K * V)) (ys : list (K' * V')) : option Z :=
    match xs, ys with
    | [], [] => Some 0
    | [], _ :: _ => Some (-1)
    | _ :: _, [] => Some 1
    | (k, v) :: xs', (k', v') :: ys' =>
        match kcmp k k' with
        | None => None
        | Some c =>
            if c <? 0 then Some (-1) else if 0 <? c then Some 1 else
            match vcmp v v' with
            | None => None
            | Some c => if c <? 0 then Some (-1) else if 0 <? c then Some 1 else tree_cmp xs' ys'
            end
        end
    end.
End TreeCmp.

(* ------------------------------------------------------------------ the value universe *)
Inductive skind := KArray | KList | KTuple.

Inductive value :=
| VInt (z : Z)                          (* Int: int64_t *)
| VFloat (f : bfloat)                   (* Float: double *)
| VStr (s : bytes)                      (* String: bytes 1..255 *)
| VType (name : bytes)                  (* a Type object, by its name *)
| VStruct (tid : N) (b : bytes)         (* object of a plain struct type `tid` without Cmp instance *)
| VSeq (k : skind) (xs : list value)    (* Array / List / Tuple: elements in iteration order *)
| VTree (kvs : list (value * value)).   (* Tree: bindings in iteration order *)

(* cmp(self, obj): dispatch on the type of `self` (Cmp.c) *)
Fixpoint value_cmp (a b : value) {struct a} : option Z :=
  match a with
  | VInt x => match b with VInt y => Some (int_cmp x y) | _ => None end        (* c_int(obj) *)
  | VFloat x => match b with VFloat y => Some (float_cmp x y) | _ => None end  (* c_float(obj) *)
  | VStr x => match b with
              | VStr y | VType y => Some (str_cmp x y)                         (* c_str(obj): String and Type *)
              | _ => None end
  | VType x => match b with VType y => Some (str_cmp x y) | _ => None end      (* cast(obj, Type) *)
  | VStruct t x => match b with
                   | VStruct t' y =>                                           (* same type and size != 0 *)
                       if (t =? t')%N && (length x =? length y)%nat && negb (length x =? 0)%nat
                       then Some (mem_cmp x y) else None
                   | _ => None end
  | VSeq _ xs => match b with
                 | VSeq _ ys => seq_cmp value_cmp xs ys
                 | _ => None end          (* Tree as right operand: not modelled; others: iter_init raises *)
  | VTree xs => match b with
                | VTree ys => tree_cmp value_cmp value_cmp xs ys
                | _ => None end
  end.

(* the predicates of Cmp.c: each body is translated (calls of another predicate inlined one level) into
   an expression over r = cmp(self, obj) (slot 0) and the literal 0 (slot 1); order eq neq lt gt le ge *)
Definition pred_run (i : nat) (c : Z) : option bool :=
  match pred_codes with
  | Some l =>
      match nth_error l i with
      | Some e => match ceval int_alg [@VOp int_alg c; @VOp int_alg 0] e with Some (VC z) => Some (negb (z =? 0)) | _ => None end
      | None => None
      end
  | None => None
  end.
(* the documented definitions (used only where a body is outside the translated fragment) *)
Definition pred_default (i : nat) (c : Z) : bool :=
  match i with
  | 0%nat => c =? 0 | 1%nat => negb (c =? 0) | 2%nat => c <? 0 | 3%nat => 0 <? c
  | 4%nat => negb (0 <? c) | _ => negb (c <? 0)
  end.
Definition pred_val (i : nat) (c : Z) : bool :=
  match pred_run i c with Some b => b | None => pred_default i c end.
Definition v_eq  (a b : value) : option bool := option_map (pred_val 0) (value_cmp a b).
Definition v_neq (a b : value) : option bool := option_map (pred_val 1) (value_cmp a b).
Definition v_lt  (a b : value) : option bool := option_map (pred_val 2) (value_cmp a b).
Definition v_gt  (a b : value) : option bool := option_map (pred_val 3) (value_cmp a b).
Definition v_le  (a b : value) : option bool := option_map (pred_val 4) (value_cmp a b).
Definition v_ge  (a b : value) : option bool := option_map (pred_val 5) (value_cmp a b).
(* eq neq lt gt le ge of an operand pair, from the value cmp returns *)
Definition preds_of (c : Z) : list bool := map (fun i => pred_val i c) [0; 1; 2; 3; 4; 5]%nat.

(* ------------------------------------------------------------------ specification *)
(* sorts = the domains on which the property speaks; sequences of one sort compare with each
   other whatever their container kind *)
Inductive sort :=
| SInt | SFloat | SStr | SType
| SStruct (tid : N) (size : nat)
| SSeq (elem : sort)
| STree (key val : sort).

Fixpoint has_sort (s : sort) (v : value) {struct v} : bool :=
  match v with
  | VInt _ => match s with SInt => true | _ => false end
  | VFloat f => match s with SFloat => negb (is_nan f) | _ => false end
  | VStr _ => match s with SStr => true | _ => false end
  | VType _ => match s with SType => true | _ => false end
  | VStruct t b => match s with
                   | SStruct t' n => (t =? t')%N && (length b =? n)%nat && negb (n =? 0)%nat
                   | _ => false end
  | VSeq _ xs => match s with
                 | SSeq e => forallb (has_sort e) xs
                 | _ => false end
  | VTree kvs => match s with
                 | STree ks vs => forallb (fun kv => let '(k, v) := kv in has_sort ks k && has_sort vs v) kvs
                 | _ => false end
  end.

(* the reference order: numeric / byte-wise lexicographic / name order; induced lexicographic
   order on element lists (shorter prefix first), key then value for trees *)
Fixpoint value_ord (a b : value) {struct a} : comparison :=
  match a, b with
  | VInt x, VInt y => Z.compare x y
  | VFloat x, VFloat y => float_ord x y
  | VStr x, VStr y => bytes_ord x y
  | VType x, VType y => bytes_ord x y
  | VStruct _ x, VStruct _ y => bytes_ord x y
  | VSeq _ xs, VSeq _ ys => lex_compare value_ord xs ys
  | VTree xs, VTree ys =>
      lex_compare (pair_ord value_ord value_ord) xs ys
  | _, _ => Eq
  end.

(* "equal values" *)
Section All2.
  Context {A B : Type}.
  Variable R : A -> B -> Prop.
  Fixpoint all2 (xs : list A) (ys : list B) : Prop :=
    match xs, ys with
    | [], [] => True
    | x :: xs', y :: ys' => R x y /\ all2 xs' ys'
    | _, _ => False
    end.
End All2.

Definition pair_rel {K V K' V' : Type} (rk : K -> K' -> Prop) (rv : V -> V' -> Prop)
    (p : K * V) (q : K' * V') : Prop :=
  let '(k, v) := p in let '(k', v') := q in rk k k' /\ rv v v'.

Fixpoint value_eqv (a b : value) {struct a} : Prop :=
  match a, b with
  | VInt x, VInt y => x = y
  | VFloat x, VFloat y => float_eqv x y
  | VStr x, VStr y => x = y
  | VType x, VType y => x = y
  | VStruct t x, VStruct t' y => t = t' /\ x = y
  | VSeq _ xs, VSeq _ ys => all2 value_eqv xs ys
  | VTree xs, VTree ys =>
      all2 (pair_rel value_eqv value_eqv) xs ys
  | _, _ => False
  end.

(* ------------------------------------------------------------------ Tree as seen by the drivers *)
(* iteration order of a Tree built by successive `set`: DESCENDING keys (Tree_Set / Tree_Get go
   left when cmp(node key, key) < 0, and iteration starts at the leftmost node); a later `set`
   on an equal key replaces the value (the tree keeps the first key object).  Insertion into a
   sorted association list with the modelled key comparison; None = a key comparison raised. *)
Fixpoint assoc_set (kvs : list (value * value)) (k v : value) : option (list (value * value)) :=
  match kvs with
  | [] => Some [(k, v)]
  | (k', v') :: r =>
      match value_cmp k k' with
      | None => None
      | Some c =>
          if c =? 0 then Some ((k', v) :: r)
          else if 0 <? c then Some ((k, v) :: kvs)
          else match assoc_set r k v with Some r' => Some ((k', v') :: r') | None => None end
      end
  end.

Fixpoint tree_of_sets (acc : list (value * value)) (ins : list (value * value)) : option (list (value * value)) :=
  match ins with
  | [] => Some acc
  | (k, v) :: r => match assoc_set acc k v with Some acc' => tree_of_sets acc' r | None => None end
  end.

(* the same from the reference order alone (used on the specification side of the drivers) *)
Fixpoint spec_assoc_set (kvs : list (value * value)) (k v : value) : list (value * value) :=
  match kvs with
  | [] => [(k, v)]
  | (k', v') :: r =>
      match value_ord k k' with
      | Eq => (k', v) :: r
      | Gt => (k, v) :: kvs
      | Lt => (k', v') :: spec_assoc_set r k v
      end
  end.
Definition spec_tree_of_sets (ins : list (value * value)) : list (value * value) :=
  fold_left (fun acc kv => spec_assoc_set acc (fst kv) (snd kv)) ins [].

(* lookup in a Tree (Tree_Get walks the search tree with cmp(key, node key)): on the sorted
   bindings this is a search for a key comparing 0 *)
Fixpoint assoc_get (kvs : list (value * value)) (k : value) : option (option value) :=
  match kvs with
  | [] => Some None
  | (k', v') :: r =>
      match value_cmp k k' with
      | None => None
      | Some c => if c =? 0 then Some (Some v') else if 0 <? c then Some None else assoc_get r k
      end
  end.

(* lookup in a Table as far as cmp is concerned (probing and hashing are C02/C10): Table_Get /
   Table_Mem test eq(stored key, key); a `set` on an eq key replaces the value, so the result
   is the value of the last `set` whose key is eq *)
Fixpoint eq_get (ins : list (value * value)) (k : value) : option (option value) :=
  match ins with
  | [] => Some None
  | (k', v') :: r =>
      match eq_get r k with
      | None => None
      | Some (Some v) => Some (Some v)
      | Some None =>
          match v_eq k' k with
          | None => None
          | Some true => Some (Some v')
          | Some false => Some None
          end
      end
  end.

(* specification of the same, from the reference order alone: the value of the last binding
   whose key is order-equal *)
Fixpoint spec_get (ins : list (value * value)) (k : value) : option value :=
  match ins with
  | [] => None
  | (k', v') :: r =>
      match spec_get r k with
      | Some v => Some v
      | None => match value_ord k k' with Eq => Some v' | _ => None end
      end
  end.

(* ------------------------------------------------------------------ Tuples with their item pointers (aliasing) *)
(* A Tuple stores object POINTERS; the same pointer may sit in several slots (tuple(one, one, two);
   push(t, x) twice).  An operand of cmp is either a plain value or a Tuple given slot by slot as
   (pointer id, value of the object).  Two ways of walking a Tuple exist in the C code:
     by index              Tuple_Cmp on `self`:  i++; item0 = t->items[i];
     by Tuple_Iter_Next    iter_next(obj, item1) when the Tuple is `obj`: the cursor is the element
                           pointer, the position is found as the FIRST slot holding it (finding F3). *)
Definition pitems := list (N * value).
Inductive operand := OVal (v : value) | OTup (items : pitems).
Definition operand_value (o : operand) : value :=
  match o with OVal v => v | OTup items => VSeq KTuple (map snd items) end.

Inductive side :=
| SList (l : list value)                             (* index walk / own iteration of Array, List *)
| SIter (items : pitems) (cur : option (N * value)). (* Tuple_Iter_Init / Tuple_Iter_Next *)

Definition side_head (s : side) : option value :=
  match s with SList l => hd_error l | SIter _ cur => option_map snd cur end.

(* Tuple_Iter_Next: while (items[i] isnt Terminal) { if (items[i] is curr) return items[i+1]; i++; } *)
Fixpoint first_slot_next (p : N) (items : pitems) : option (N * value) :=
  match items with
  | [] => None
  | (q, _) :: r => if (q =? p)%N then hd_error r else first_slot_next p r
  end.

Definition side_next (s : side) : side :=
  match s with
  | SList l => SList (tl l)
  | SIter items cur => SIter items (match cur with None => None | Some (p, _) => first_slot_next p items end)
  end.

Inductive walk_out := WRes (c : Z) | WRaise | WFuel.   (* WFuel: the loop did not end within the fuel *)

(* the common loop of Array_Cmp / List_Cmp / Tuple_Cmp over two walks *)
Fixpoint walk_cmp (fuel : nat) (s0 s1 : side) : walk_out :=
  match fuel with
  | O => WFuel
  | S f =>
      match side_head s0, side_head s1 with
      | None, None => WRes 0
      | None, Some _ => WRes (-1)
      | Some _, None => WRes 1
      | Some x, Some y =>
          match value_cmp x y with
          | None => WRaise
          | Some c => if c <? 0 then WRes (-1) else if 0 <? c then WRes 1 else walk_cmp f (side_next s0) (side_next s1)
          end
      end
  end.

Definition out_of_option (o : option Z) : walk_out := match o with Some c => WRes c | None => WRaise end.

(* how X_Cmp walks `self`; which walk Tuple_Cmp uses is re-read from src/Tuple.c *)
Definition self_side (o : operand) : option side :=
  match o with
  | OVal (VSeq _ xs) => Some (SList xs)
  | OTup items => Some (if tuple_cmp_self_by_index then SList (map snd items) else SIter items (hd_error items))
  | _ => None
  end.
(* iter_init / iter_next on `obj` *)
Definition obj_side (o : operand) : option side :=
  match o with
  | OVal (VSeq _ xs) => Some (SList xs)
  | OTup items => Some (SIter items (hd_error items))
  | _ => None
  end.
Definition operand_len (o : operand) : nat :=
  match o with OVal (VSeq _ xs) => length xs | OTup items => length items | _ => O end.
(* two walks over at most n0+1 and n1+1 cursor states: a longer run has revisited a joint state *)
Definition walk_fuel (a b : operand) : nat := (operand_len a + 2) * (operand_len b + 2) + 1.

Definition operand_cmp (a b : operand) : walk_out :=
  match a, b with
  | OVal x, OVal y => out_of_option (value_cmp x y)
  | _, _ =>
      match self_side a, obj_side b with
      | Some s0, Some s1 => walk_cmp (walk_fuel a b) s0 s1
      | _, _ => WRaise                      (* c_int / iter_init on the wrong class raise; Tree: not modelled *)
      end
  end.
