(* Properties_C15.v — property C15: show/look and print_to/scan_from round-trip values.
   Only statements closed by `exact`, each followed by Print Assumptions. *)
From CelloV Require Import Generated RoundTrip RoundTripProofs.
