(* Properties_C15.v — property C15: text written by show / print_to is read back by look / scan_from
   into an equal value, consuming exactly the characters written, from a String and from a File.
   Only statements closed by `exact`, each followed by Print Assumptions.
   rt_cfg = the data re-extracted from the C text (escape tables, `continue`, "%lf", sign rule). *)
From CelloV Require Import Generated RoundTrip RoundTripProofs RoundTripInst.

(* the C text still has the shape the model encodes, and its escape tables are inverse to each other *)
Theorem c15_source_shape : config_ok rt_cfg.
Proof. exact RoundTripInst.rt_cfg_ok. Qed.
Print Assumptions c15_source_shape.

(* String: look (show s ++ anything) = s for every NUL-free byte string, consuming exactly show's text *)
Theorem c15_string_roundtrip : forall s rest, nul_free s ->
  look_string rt_look_continue rt_look_escapes (show_string rt_show_escapes s ++ rest)%list
  = LDone s (length (show_string rt_show_escapes s)).
Proof. exact RoundTripInst.rt_string_roundtrip. Qed.
Print Assumptions c15_string_roundtrip.

(* Int: "%li" text of every int64 is read back by "%li" into the same value, consuming exactly that
   text, whatever follows that does not continue the number *)
Theorem c15_int_roundtrip : forall z rest, int64 z -> stops_int rest ->
  look_value rt_cfg TInt (show_value rt_cfg (VInt z) ++ rest)%list = Some (VInt z, length (show_value rt_cfg (VInt z))).
Proof. exact RoundTripInst.rt_int_roundtrip. Qed.
Print Assumptions c15_int_roundtrip.

(* sequences of Strings and Ints with separators, at any start position, String sink and source *)
Theorem c15_show_seq_string : forall its pre rest, show_seq_ok rt_cfg its rest ->
  scan_str rt_cfg (fst (print_to_string rt_cfg pre (length pre) its) ++ rest)%list (length pre) (List.map sitem_of its) nil
  = SOk (values_of its) (snd (print_to_string rt_cfg pre (length pre) its)).
Proof. exact RoundTripInst.rt_show_seq_string. Qed.
Print Assumptions c15_show_seq_string.

(* the same through a File *)
Theorem c15_show_seq_file : forall its old rest, show_seq_ok rt_cfg its rest -> lits_plain its ->
  scan_file rt_cfg (List.skipn (length old) (fst (print_to_file rt_cfg old (length old) its) ++ rest)%list) (length old)
    (List.map sitem_of its) nil
  = SOk (values_of its) (snd (print_to_file rt_cfg old (length old) its)).
Proof. exact RoundTripInst.rt_show_seq_file. Qed.
Print Assumptions c15_show_seq_file.

(* D7 (repaired in the repository): without the `continue` the escape letter is appended as well *)
Theorem c15_look_without_continue_refuted :
  exists s, nul_free s /\
    look_string false rt_look_escapes (show_string rt_show_escapes s) <> LDone s (length (show_string rt_show_escapes s)).
Proof. exact RoundTripInst.rt_look_without_continue_refuted. Qed.
Print Assumptions c15_look_without_continue_refuted.

(* non-vacuity *)
Example c15_ex_nul_free : nul_free ex_string.
Proof. exact RoundTripInst.ex_nul_free. Qed.
Example c15_ex_show_seq_ok : show_seq_ok rt_cfg ex_items ex_rest.
Proof. exact RoundTripInst.ex_show_seq_ok. Qed.
