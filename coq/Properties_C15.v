(* Properties_C15.v — property C15: text written by show / print_to is read back by look / scan_from
   into an equal value, consuming exactly the characters written, from a String and from a File.
   Only statements closed by `exact`, each followed by Print Assumptions.
   rt_cfg = the data re-extracted from the C text (escape tables, `continue`, "%lf", sign rule). *)
From CelloV Require Import Generated RoundTrip RoundTripProofs RoundTripFloat RoundTripInst.

(* the C text still has the shape the model encodes, and its escape tables are inverse to each other *)
Theorem c15_source_shape : config_ok rt_cfg.
Proof. exact RoundTripInst.rt_cfg_ok. Qed.
Print Assumptions c15_source_shape.

(* String: look (show s ++ anything) = s for every NUL-free byte string, consuming exactly show's text *)
Theorem c15_string_roundtrip : forall s rest, nul_free s ->
  look_string rt_look_continue rt_look_escapes (show_string rt_show_escapes s ++ rest)%list
  = LDone s (length (show_string rt_show_escapes s)).
Proof. exact RoundTripInst.rt_string_roundtrip. Qed.
Print Assumptions c15_string_roundtrip.

(* the same for EVERY admissible writer table (distinct letters = injective, no NUL escaped, quote and
   backslash escaped), read back with the inverse table: the escape table is data, not part of the proof *)
Theorem c15_string_roundtrip_any_table : forall se, show_table_ok se ->
  forall s rest, nul_free s ->
  look_string true (invert_table se) (show_string se s ++ rest)%list = LDone s (length (show_string se s)).
Proof. exact RoundTripProofs.string_roundtrip_any_table. Qed.
Print Assumptions c15_string_roundtrip_any_table.

(* the table found in String_Show is admissible *)
Theorem c15_show_table_admissible : show_table_ok rt_show_escapes.
Proof. exact RoundTripInst.rt_show_table_ok. Qed.
Print Assumptions c15_show_table_admissible.

(* Int: "%li" text of every int64 is read back by "%li" into the same value, consuming exactly that
   text, whatever follows that does not continue the number *)
Theorem c15_int_roundtrip : forall z rest, int64 z -> stops_int rest ->
  look_value rt_cfg TInt (show_value rt_cfg (VInt z) ++ rest)%list = Some (VInt z, length (show_value rt_cfg (VInt z))).
Proof. exact RoundTripInst.rt_int_roundtrip. Qed.
Print Assumptions c15_int_roundtrip.

(* Int through a numeric specification (int_directive_ok lists the two classes), for EVERY length modifier:
   the modifier enters through the width of the C type it names (spec_half: hh char 2^7, h short 2^15,
   none int 2^31 — these three narrow the int64 argument — and l ll j z t q: 2^63, no narrowing);
   in_range sp z / urange sp z = the named type holds z.
   - %[+][ ][0][width][mod]d / i, read back by %[mod']d, or by %[mod']i when no zero padding was requested,
     whenever both named types hold z; for the narrow ones this needs the sign restoration of scan_from_with
     (c15_int_restore: present for none, h and hh);
   - %[0][width][mod]u / x / X / o read back by a directive of the same base and width class: for a 64-bit
     modifier for EVERY int64 (two's complement), for a narrow one for 0 <= z < 2^bits;
   the value comes back equal and exactly the characters written are consumed *)
Theorem c15_int_spec_roundtrip : forall sp ssp z rest, int_directive_ok rt_cfg sp ssp z rest ->
  scan_num rt_cfg ssp (print_num sp (VInt z) ++ rest)%list = Some (VInt z, length (print_num sp (VInt z))).
Proof. exact RoundTripInst.rt_int_spec_roundtrip. Qed.
Print Assumptions c15_int_spec_roundtrip.

(* scan_from_with gives a d / i result its sign back for every narrow directive (none, h, hh) *)
Theorem c15_int_restore : forall sp, int_restore rt_cfg sp = true.
Proof. exact RoundTripInst.rt_int_restore. Qed.
Print Assumptions c15_int_restore.

(* repaired (e7aab6f): %hhd / %hd results were zero-extended: -1 came back as 255 *)
Theorem c15_scan_hh_zero_extends_refuted :
  scan_num cfg_no_narrow spec_hhd (print_num spec_hhd (VInt (-1))) = Some (VInt 255, 2) /\
  scan_num rt_cfg spec_hhd (print_num spec_hhd (VInt (-1))) = Some (VInt (-1), 2).
Proof. exact RoundTripInst.rt_scan_hh_zero_extends_refuted. Qed.
Print Assumptions c15_scan_hh_zero_extends_refuted.

(* sequences of Strings and Ints with separators, at any start position, String sink and source.
   lits_ok: every run of literal text (the pieces between "%%"s) that ends in white space is followed
   by something that does not start with white space — scanf's white-space directive would eat it *)
Theorem c15_show_seq_string : forall its pre rest, show_seq_ok rt_cfg its rest -> lits_ok rt_cfg its rest ->
  scan_str rt_cfg (fst (print_to_string rt_cfg pre (length pre) its) ++ rest)%list (length pre) (List.map sitem_of its) nil
  = SOk (values_of its) (snd (print_to_string rt_cfg pre (length pre) its)).
Proof. exact RoundTripInst.rt_show_seq_string. Qed.
Print Assumptions c15_show_seq_string.

(* a readable sufficient condition for lits_ok: each literal as a whole either does not end in white
   space or is followed by text that does not start with white space *)
Theorem c15_lits_simple : forall its rest, lits_simple rt_cfg its rest -> lits_ok rt_cfg its rest.
Proof. exact (RoundTripProofs.lits_simple_ok rt_cfg). Qed.
Print Assumptions c15_lits_simple.

(* the same through a File *)
Theorem c15_show_seq_file : forall its old rest, show_seq_ok rt_cfg its rest -> lits_ok rt_cfg its rest ->
  scan_file rt_cfg (List.skipn (length old) (fst (print_to_file rt_cfg old (length old) its) ++ rest)%list) (length old)
    (List.map sitem_of its) nil
  = SOk (values_of its) (snd (print_to_file rt_cfg old (length old) its)).
Proof. exact RoundTripInst.rt_show_seq_file. Qed.
Print Assumptions c15_show_seq_file.

(* D7 (repaired in the repository): without the `continue` the escape letter is appended as well *)
Theorem c15_look_without_continue_refuted :
  exists s, nul_free s /\
    look_string false rt_look_escapes (show_string rt_show_escapes s) <> LDone s (length (show_string rt_show_escapes s)).
Proof. exact RoundTripInst.rt_look_without_continue_refuted. Qed.
Print Assumptions c15_look_without_continue_refuted.

(* Float, core arithmetic (full statement): for every double x = mx 2^ex and every printed precision p,
   the nearest-even binary64 (m, e) of the decimal that "%.pf" prints for x satisfies
   |m 2^e - mx 2^ex| <= 10^-p   (both sides multiplied by 10^p 2^1074 to stay in Z) *)
Theorem c15_float_value_roundtrip : forall (pd : nat) (mx : N) (ex : Z),
  (Z.of_N mx < 2 ^ 53)%Z -> (-1074 <= ex)%Z ->
  let r := round_bin 53 (-1074) (scaled_round pd mx ex) (pow10 pd) in
  (-1074 <= snd r)%Z /\
  (Z.abs (sval (-1074) (pow10 pd) (fst r) (snd r) - sval (-1074) (pow10 pd) mx ex) <= 2 ^ 1074)%Z.
Proof. exact RoundTripFloat.float_value_roundtrip. Qed.
Print Assumptions c15_float_value_roundtrip.

(* Float through show / look: the text show writes for a finite double b is read back by look,
   consuming exactly that text, into a bit pattern b' that decodes to a finite double of the same
   sign within 10^-6 of the original (float_close 6 b b') *)
Theorem c15_float_show_look : forall b rest, finite b -> stops_float rest ->
  exists b', look_value rt_cfg TFloat (show_value rt_cfg (VFloat b) ++ rest)%list
             = Some (VFloat b', length (show_value rt_cfg (VFloat b)))
             /\ float_close 6 b b'.
Proof. exact RoundTripInst.rt_float_show_look. Qed.
Print Assumptions c15_float_show_look.

(* sequences of Ints, Floats and Strings written with %$, a signed decimal or unsigned directive, or "%[+][ ][0][width][.p]f" read by "%lf"
   (wf_seq lists the side conditions item by item), separated by literal
   text, at any start position, String sink and source; value_close = Ints and Strings equal, Floats
   within the printed precision *)
Theorem c15_seq_roundtrip_string : forall its sits pre rest, wf_seq rt_cfg its sits rest -> lits_ok rt_cfg its rest ->
  exists vs',
    scan_str rt_cfg (fst (print_to_string rt_cfg pre (length pre) its) ++ rest)%list (length pre) sits nil
    = SOk vs' (snd (print_to_string rt_cfg pre (length pre) its))
    /\ List.Forall2 value_close (values_of its) vs'.
Proof. exact RoundTripInst.rt_seq_string. Qed.
Print Assumptions c15_seq_roundtrip_string.

(* the same through a File *)
Theorem c15_seq_roundtrip_file : forall its sits old rest, wf_seq rt_cfg its sits rest -> lits_ok rt_cfg its rest ->
  exists vs',
    scan_file rt_cfg (List.skipn (length old) (fst (print_to_file rt_cfg old (length old) its) ++ rest)%list)
      (length old) sits nil
    = SOk vs' (snd (print_to_file rt_cfg old (length old) its))
    /\ List.Forall2 value_close (values_of its) vs'.
Proof. exact RoundTripInst.rt_seq_file. Qed.
Print Assumptions c15_seq_roundtrip_file.

(* D8 (repaired): through "%f" the scanner stores a float; 123456789.123456 comes back as 123456792.0 *)
Theorem c15_float_look_single_refuted :
  exists b b', decode_double b <> None /\
    scan_num (Build_config nil nil true false true true true true) (spec_f false) (print_num (spec_f false) (VFloat b))
    = Some (VFloat b', 16) /\ b = 4728057454355442549%N /\ b' = 4728057454548484096%N.
Proof. exact RoundTripFloat.float_look_single_refuted. Qed.
Print Assumptions c15_float_look_single_refuted.

(* F6 (repaired): %d without `l` zero-extended negatives *)
Theorem c15_scan_d_zero_extends_refuted :
  exists z, (- two31 <= z < two31)%Z /\
    scan_num cfg_no_signext spec_d (print_num spec_d (VInt z)) <> Some (VInt z, length (print_num spec_d (VInt z))).
Proof. exact RoundTripInst.rt_scan_d_zero_extends_refuted. Qed.
Print Assumptions c15_scan_d_zero_extends_refuted.

(* D22 (repaired): scan_from added the LENGTH of a literal piece to the position; on a File the piece " "
   had consumed the padding of the following "%5li" as well, so the position returned was 7 for 10
   characters (String: 10); with the measured advance both give 10 *)
Theorem c15_literal_length_refuted :
  let its := (PShow (VStr (97 :: 98 :: nil)) :: PLit (32 :: nil) :: PNum spec_5li (VInt 42) :: nil)%N%Z%list in
  let sits := (SLook TStr :: SLit (32 :: nil) :: SNum spec_li :: nil)%N%list in
  length (print_items cfg_old_literals its) = 10 /\
  scan_str cfg_old_literals (print_items cfg_old_literals its) 0 sits nil = SOk (VStr (97 :: 98 :: nil) :: VInt 42 :: nil)%N%Z%list 10 /\
  scan_file cfg_old_literals (print_items cfg_old_literals its) 0 sits nil = SOk (VStr (97 :: 98 :: nil) :: VInt 42 :: nil)%N%Z%list 7 /\
  scan_file rt_cfg (print_items rt_cfg its) 0 sits nil = SOk (VStr (97 :: 98 :: nil) :: VInt 42 :: nil)%N%Z%list 10.
Proof. exact RoundTripInst.rt_literal_length_refuted. Qed.
Print Assumptions c15_literal_length_refuted.

(* D23 (repaired): "%%" advanced the position by 2 for one character: "5%7" written with "%li%%%li"
   could not be read back with the same format (FormatError) *)
Theorem c15_percent_two_refuted :
  let its := (PShow (VInt 5) :: PLit (37 :: nil) :: PShow (VInt 7) :: nil)%N%Z%list in
  let sits := (SLook TInt :: SLit (37 :: nil) :: SLook TInt :: nil)%N%list in
  print_items cfg_old_literals its = (53 :: 37 :: 55 :: nil)%N%list /\
  scan_str cfg_old_literals (print_items cfg_old_literals its) 0 sits nil = SRaise (VInt 5 :: nil)%Z%list /\
  scan_str rt_cfg (print_items rt_cfg its) 0 sits nil = SOk (VInt 5 :: VInt 7 :: nil)%Z%list 3.
Proof. exact RoundTripInst.rt_percent_two_refuted. Qed.
Print Assumptions c15_percent_two_refuted.

(* non-vacuity *)
Example c15_ex_nul_free : nul_free ex_string.
Proof. exact RoundTripInst.ex_nul_free. Qed.
Example c15_ex_show_seq_ok : show_seq_ok rt_cfg ex_items ex_rest.
Proof. exact RoundTripInst.ex_show_seq_ok. Qed.
Example c15_ex_wf_seq : wf_seq rt_cfg ex_items_f ex_sitems_f ex_rest.
Proof. exact RoundTripInst.ex_wf_seq. Qed.
Example c15_ex_finite : finite 4728057454355442549%N.
Proof. exact RoundTripInst.ex_finite. Qed.
Example c15_ex_lits_ok : lits_ok rt_cfg ex_items ex_rest.
Proof. exact RoundTripInst.ex_lits_ok. Qed.
Example c15_ex_int_directive_d : int_directive_ok rt_cfg spec_p08d spec_d (-2147483648) ex_rest.
Proof. exact RoundTripInst.ex_int_directive_d. Qed.
Example c15_ex_int_directive_lX : int_directive_ok rt_cfg spec_lX spec_lx (-5) ex_rest.
Proof. exact RoundTripInst.ex_int_directive_lX. Qed.
Example c15_ex_lits_ok_pct : lits_ok rt_cfg ex_items_pct ex_rest /\ show_seq_ok rt_cfg ex_items_pct ex_rest.
Proof. exact RoundTripInst.ex_lits_ok_pct. Qed.
Example c15_ex_int_directive_hhd : int_directive_ok rt_cfg spec_hhd spec_hhd (-128) ex_rest.
Proof. exact RoundTripInst.ex_int_directive_hhd. Qed.
Example c15_ex_int_directive_hx : int_directive_ok rt_cfg spec_hx spec_hx 65535 ex_rest.
Proof. exact RoundTripInst.ex_int_directive_hx. Qed.
