(* SeqTupleProofs.v — Tuple (pointer array with Terminal sentinel, length by scanning, iteration
   by pointer identity) refines the abstract sequence, provided the stored pointers are pairwise
   distinct; with a repeated pointer iteration never ends (finding F3).  Property C04. *)
From Coq Require Import List Arith Bool ZArith Lia Permutation Sorted.
From CelloV Require Import SeqModels SeqProofs.
Import ListNotations.

Section TupleRefines.
  Variable E : Type.
  Variable eqb ltb same : E -> E -> bool.
  Variable zero : E.
  Hypothesis same_refl : forall x, same x x = true.
  Hypothesis eqb_sym : forall x y, eqb x y = eqb y x.
  (* discharged by SortProofs.qsort_correct for an asymmetric, transitive ltb *)
  Hypothesis qsort_ok : forall xs : list E,
    exists ys, qsort ltb xs = Ok ys /\ Permutation xs ys /\ sorted_by_ltb E ltb ys.

  Notation t_step := (t_step E eqb ltb same).
  Notation spec_step := (spec_step E eqb ltb zero).
  Notation spec_ok := (spec_ok E eqb ltb zero).
  Notation in_range := (in_range E eqb).
  Notation TObjE := (@TObj E).
  Notation TTermE := (@TTerm E).
  Notation TJunkE := (@TJunk E).
  Notation distinct := (distinct E same).
  Notation new_to := (new_to E same).
  Notation items vs := (map TObjE vs ++ [TTermE]).

  (* ---------------------------------------------------------------- distinct *)
  Lemma distinct_app a b :
    distinct (a ++ b) <->
    distinct a /\ distinct b /\ (forall x y, In x a -> In y b -> same x y = false /\ same y x = false).
  Proof.
    induction a as [|z a IH]; simpl.
    - split; [intros H; split; [exact I|]; split; [exact H|]; intros x0 y0 [] | intros (_ & H & _); exact H].
    - rewrite IH. split.
      + intros (Hz & Ha & Hb & Hab).
        split; [split; [|exact Ha]|split; [exact Hb|]].
        * intros y0 Hy. apply Hz. apply in_or_app. auto.
        * intros x0 y0 [<-|Hx] Hy; [apply Hz; apply in_or_app; auto | apply Hab; auto].
      + intros ((Hz & Ha) & Hb & Hab).
        split; [|split; [exact Ha|split; [exact Hb|]]].
        * intros y0 Hy. apply in_app_or in Hy as [Hy|Hy]; [apply Hz; auto | apply Hab; simpl; auto].
        * intros x0 y0 Hx Hy. apply Hab; simpl; auto.
  Qed.

  Lemma distinct_perm a b : Permutation a b -> distinct a -> distinct b.
  Proof.
    induction 1 as [|x a b Hp IH|x y a|a b c H1 IH1 H2 IH2]; simpl; auto.
    - intros [Hx Ha]. split; [|auto]. intros y Hy. apply Hx. eapply Permutation_in; [symmetry|]; eauto.
    - intros (Hy & Hx & Ha).
      split; [|split; [|exact Ha]].
      + intros z [<-|Hz]; [destruct (Hy x (or_introl eq_refl)); auto | apply Hx; auto].
      + intros z Hz. apply Hy. right. exact Hz.
  Qed.

  Lemma distinct_insert a b v : distinct (a ++ b) -> new_to (a ++ b) v -> distinct (a ++ v :: b).
  Proof.
    intros Hd Hn. apply distinct_app in Hd as (Ha & Hb & Hab). apply distinct_app.
    split; [exact Ha|]. split.
    - simpl. split; [|exact Hb]. intros y Hy. destruct (Hn y) as [H1 H2]; [apply in_or_app; auto|]. auto.
    - intros x y Hx [<-|Hy]; [apply Hn; apply in_or_app; auto | apply Hab; auto].
  Qed.

  Lemma distinct_delete a x b : distinct (a ++ x :: b) -> distinct (a ++ b).
  Proof.
    intros Hd. apply distinct_app in Hd as (Ha & [_ Hb] & Hab). apply distinct_app.
    split; [exact Ha|]. split; [exact Hb|]. intros x0 y0 Hx Hy. apply Hab; simpl; auto.
  Qed.

  Lemma distinct_replace a x b v : distinct (a ++ x :: b) -> new_to (a ++ x :: b) v -> distinct (a ++ v :: b).
  Proof.
    intros Hd Hn. apply distinct_insert; [eapply distinct_delete; eauto|].
    intros y Hy. apply Hn. apply in_app_or in Hy as [Hy|Hy]; apply in_or_app; simpl; auto.
  Qed.

  Lemma distinct_firstn m vs : distinct vs -> distinct (firstn m vs).
  Proof.
    intros Hd. rewrite <- (firstn_skipn m vs) in Hd. apply distinct_app in Hd. tauto.
  Qed.

  (* ---------------------------------------------------------------- the items array *)
  Lemma t_len_items (vs : list E) rest i :
    t_len_from E (map TObjE vs ++ TTermE :: rest) i = Some (i + length vs).
  Proof.
    revert i. induction vs as [|v vs IH]; intros i; simpl; [f_equal; lia|].
    rewrite IH. f_equal. lia.
  Qed.

  Lemma t_objs_items (vs : list E) rest : t_objs E (map TObjE vs ++ rest) (length vs) = Some vs.
  Proof. induction vs as [|v vs IH]; simpl; [reflexivity | rewrite IH; reflexivity]. Qed.

  Lemma t_abs_items vs h : t_abs E (mkTu E (items vs) h) = vs.
  Proof.
    unfold t_abs, t_len. cbn [titems]. rewrite t_len_items. simpl plus. rewrite t_objs_items. reflexivity.
  Qed.

  Lemma t_inv_items vs : distinct vs -> t_inv E same (mkTu E (items vs) true).
  Proof. intros Hd. split; [reflexivity|]. exists vs. auto. Qed.

  Lemma t_find_items (vs : list E) rest i v :
    t_find E eqb (map TObjE vs ++ TTermE :: rest) i v = Some (find_first E eqb vs i v).
  Proof.
    revert i. induction vs as [|x vs IH]; intros i; simpl; [reflexivity|].
    rewrite (eqb_sym v x). destruct (eqb x v); [reflexivity | apply IH].
  Qed.

  (* ---------------------------------------------------------------- iteration by pointer identity *)
  Definition head_of (b : list E) : titem E :=
    match b with [] => TTermE | x :: _ => TObjE x end.

  Lemma t_next_items a x b :
    distinct (a ++ x :: b) ->
    t_next E same (items (a ++ x :: b)) x = Some (head_of b).
  Proof.
    intros Hd. induction a as [|z a IH]; simpl.
    - rewrite same_refl. destruct b; reflexivity.
    - simpl in Hd. destruct Hd as [Hz Hd].
      destruct (Hz x) as [H1 _]; [apply in_or_app; simpl; auto|]. rewrite H1. apply IH. exact Hd.
  Qed.

  Lemma t_iter_loop_items vs : distinct vs -> forall b a acc fuel,
    vs = a ++ b -> rev acc = a -> length b < fuel ->
    t_iter_loop E same fuel (items vs) (head_of b) acc = Ok vs.
  Proof.
    intros Hd. induction b as [|x b IH]; intros a acc fuel Hvs Hacc Hf.
    - destruct fuel; [simpl in Hf; lia|]. simpl. rewrite Hacc, Hvs, app_nil_r. reflexivity.
    - destruct fuel; [simpl in Hf; lia|]. cbn [t_iter_loop head_of].
      rewrite Hvs at 1. rewrite t_next_items by (rewrite <- Hvs; exact Hd).
      apply (IH (a ++ [x])).
      + rewrite Hvs, <- app_assoc. reflexivity.
      + simpl. rewrite Hacc. reflexivity.
      + simpl in Hf. lia.
  Qed.

  Lemma head_items vs : exists r, items vs = head_of vs :: r.
  Proof. destruct vs; simpl; eauto. Qed.

  Theorem t_iter_items vs h : distinct vs -> t_iter E same (mkTu E (items vs) h) = Ok vs.
  Proof.
    intros Hd. unfold t_iter, t_iter_fuel. cbn [titems].
    destruct (head_items vs) as [r Hr].
    destruct (map TObjE vs ++ [TTermE]) as [|c r'] eqn:Hi; [discriminate|]. injection Hr as -> ->.
    rewrite <- Hi.
    apply (t_iter_loop_items vs Hd vs [] []); auto.
    rewrite app_length, map_length. simpl. lia.
  Qed.

  Lemma t_mem_loop_items vs v : distinct vs -> forall b a fuel,
    vs = a ++ b -> length b < fuel ->
    t_mem_loop E eqb same fuel (items vs) (head_of b) v = Ok (existsb (fun x => eqb x v) b).
  Proof.
    intros Hd. induction b as [|x b IH]; intros a fuel Hvs Hf.
    - destruct fuel; [simpl in Hf; lia|]. reflexivity.
    - destruct fuel; [simpl in Hf; lia|]. cbn [t_mem_loop head_of existsb].
      destruct (eqb x v); [reflexivity|]. simpl orb.
      rewrite Hvs at 1. rewrite t_next_items by (rewrite <- Hvs; exact Hd).
      apply (IH (a ++ [x])).
      + rewrite Hvs, <- app_assoc. reflexivity.
      + simpl in Hf. lia.
  Qed.


  (* ---------------------------------------------------------------- realloc of the items array *)
  Lemma realloc_items_up vs m :
    length vs + 1 <= m ->
    realloc TJunkE (items vs) m = map TObjE vs ++ TTermE :: repeat TJunkE (m - length vs - 1).
  Proof.
    intros H. rewrite realloc_app_ge by (rewrite map_length; lia). f_equal. rewrite map_length.
    unfold realloc. destruct (m - length vs) as [|k] eqn:Hk; [lia|]. simpl.
    replace (k - 0) with k by lia. replace (m - length vs - 1) with k by lia.
    rewrite firstn_nil. reflexivity.
  Qed.

  Lemma realloc_items_down vs : realloc TJunkE (items vs) (length vs) = map TObjE vs.
  Proof.
    rewrite realloc_le by (rewrite app_length, map_length; simpl; lia).
    rewrite <- (map_length TObjE vs). rewrite firstn_app, Nat.sub_diag, firstn_all. simpl. apply app_nil_r.
  Qed.

  Lemma skipn_last_one (A : Type) (l : list A) m : length l = S m -> exists z, skipn m l = [z].
  Proof.
    revert l. induction m as [|m IH]; intros l H.
    - destruct l as [|z [|]]; simpl in H; try lia. exists z. reflexivity.
    - destruct l as [|z l]; simpl in H; [lia|]. simpl. apply IH. lia.
  Qed.

  Lemma write_all_0 (A : Type) (ws rest : list A) :
    length ws <= length rest -> write_all rest 0 ws = Some (ws ++ skipn (length ws) rest).
  Proof. exact (write_all_app A [] ws rest). Qed.

  Lemma norm_nat n p : norm n (Z.of_nat p) = Z.of_nat p.
  Proof. unfold norm. destruct (Z.ltb_spec (Z.of_nat p) 0); lia. Qed.

  (* Tuple_Pop_At at an in-range position of a heap tuple *)
  Lemma t_pop_pos_items vs p :
    p < length vs -> distinct vs ->
    t_pop_pos E (mkTu E (items vs) true) (length vs) p = (mkTu E (items (remove_at E p vs)) true, OUnit E) /\
    distinct (remove_at E p vs).
  Proof.
    intros Hp Hd. unfold t_pop_pos. cbn [theap titems negb].
    assert (Hsplit : vs = firstn p vs ++ skipn p vs) by (symmetry; apply firstn_skipn).
    destruct (skipn p vs) as [|x B] eqn:HB.
    { exfalso. assert (length (skipn p vs) = length vs - p) by apply skipn_length. rewrite HB in H. simpl in H. lia. }
    set (A := firstn p vs) in *.
    assert (HA : length A = p) by (unfold A; rewrite firstn_length; lia).
    assert (Hlen : length vs = p + S (length B)) by (rewrite Hsplit, app_length; simpl; lia).
    assert (Hrm : remove_at E p vs = A ++ B).
    { unfold remove_at. fold A. f_equal. apply (skipn_S_tail _ _ _ _ _ HB). }
    assert (Hits : items vs = map TObjE A ++ TObjE x :: (map TObjE B ++ [TTermE]) ++ []).
    { rewrite Hsplit at 1. rewrite map_app. simpl map. rewrite app_nil_r, <- app_assoc. reflexivity. }
    destruct (memmove_delete _ (map TObjE A) (map TObjE B ++ [TTermE]) (TObjE x) []) as (y & Hm).
    rewrite app_length, !map_length, HA in Hm. simpl length in Hm.
    rewrite Hits. replace (length vs - p) with (length B + 1) by lia. rewrite Hm.
    assert (Hre : realloc TJunkE (map TObjE A ++ (map TObjE B ++ [TTermE]) ++ [y]) (length vs) = items (A ++ B)).
    { rewrite realloc_le by (rewrite !app_length, !map_length; simpl; lia).
      rewrite app_assoc. rewrite firstn_app.
      replace (length vs) with (length (map TObjE A ++ map TObjE B ++ [TTermE]))
        by (rewrite !app_length, !map_length; simpl; lia).
      rewrite firstn_all, Nat.sub_diag. simpl. rewrite app_nil_r, map_app, <- app_assoc. reflexivity. }
    rewrite Hre, Hrm. split; [reflexivity|].
    rewrite Hsplit in Hd. eapply distinct_delete; eauto.
  Qed.

  Theorem t_step_refines (t : tuple E) (o : sop E) :
    t_inv E same t -> in_range KTuple (t_abs E t) o = true -> t_fresh E same (t_abs E t) o ->
    t_inv E same (fst (t_step t o)) /\
    spec_ok KTuple (t_abs E t) o (t_abs E (fst (t_step t o))) (snd (t_step t o)).
  Proof.
    intros (Hh & vs & Hits & Hd) Hin Hfr.
    destruct t as [its h]. cbn [titems theap] in *. subst its h.
    rewrite t_abs_items in *.
    destruct (t_step (mkTu E (items vs) true) o) as [t2 r] eqn:Hstep. cbn [fst snd].
    unfold SeqModels.t_step, t_len in Hstep. cbn [titems theap negb] in Hstep.
    rewrite t_len_items in Hstep. simpl plus in Hstep.
    assert (Hpush : forall v t2 r, new_to vs v ->
      match write_all (realloc TJunkE (items vs) (length vs + 2)) (length vs) [TObjE v; TTermE] with
      | Some its' => (mkTu E its' true, OUnit E)
      | None => (mkTu E (items vs) true, OCrash E)
      end = (t2, r) ->
      t_inv E same t2 /\ t_abs E t2 = vs ++ [v] /\ r = OUnit E).
    { intros v t3 r3 Hnew Hs.
      rewrite realloc_items_up in Hs by lia.
      replace (length vs + 2 - length vs - 1) with 1 in Hs by lia. simpl repeat in Hs.
      pose proof (write_all_app _ (map TObjE vs) [TObjE v; TTermE] [TTermE; TJunkE]) as Hw.
      rewrite map_length in Hw. rewrite Hw in Hs by (simpl; lia). injection Hs as <- <-.
      match goal with |- context [mkTu E ?its true] => replace its with (items (vs ++ [v]))
        by (simpl; rewrite map_app, <- app_assoc; reflexivity) end.
      split; [|split; [apply t_abs_items | reflexivity]].
      apply t_inv_items. rewrite <- (app_nil_r (vs ++ [v])), <- app_assoc. simpl.
      apply distinct_insert; rewrite app_nil_r; auto. }
    destruct o; try (simpl in Hin; discriminate);
      unfold spec_ok; try rewrite Hin; try (unfold SeqModels.spec_step; rewrite Hin; simpl negb; cbv iota);
      simpl in Hin; cbn [t_fresh] in Hfr.
    - (* push *) destruct (Hpush _ _ _ Hfr Hstep) as (H1 & H2 & H3). rewrite H2, H3. auto.
    - (* pop *)
      destruct (Nat.eqb_spec (length vs) 0) as [H0|H0]; [discriminate|].
      rewrite realloc_items_down in Hstep.
      destruct vs as [|x vs] using rev_ind; [simpl in H0; lia|]. clear IHvs.
      rewrite removelast_last.
      rewrite map_app in Hstep. simpl map in Hstep.
      replace (length (vs ++ [x]) - 1) with (length (map TObjE vs)) in Hstep
        by (rewrite app_length, map_length; simpl; lia).
      rewrite set_at_app_l in Hstep. injection Hstep as <- <-.
      split; [|rewrite t_abs_items; reflexivity].
      apply t_inv_items. apply distinct_app in Hd. tauto.
    - (* push_at *)
      unfold push_at_pos in *.
      destruct (inb (length vs) (norm (length vs) k)) eqn:Hi; [|discriminate].
      rewrite oob_inb, Hi in Hstep. simpl negb in Hstep. cbv iota in Hstep.
      apply inb_pos in Hi as [Hlt _]. set (p := Z.to_nat (norm (length vs) k)) in *.
      rewrite realloc_items_up in Hstep by lia.
      replace (length vs + 2 - length vs - 1) with 1 in Hstep by lia. simpl repeat in Hstep.
      assert (Hsplit : vs = firstn p vs ++ skipn p vs) by (symmetry; apply firstn_skipn).
      set (A := firstn p vs) in *. set (B := skipn p vs) in *.
      assert (HA : length A = p) by (unfold A; rewrite firstn_length; lia).
      assert (HB : length B = length vs - p) by (unfold B; apply skipn_length).
      assert (Hcells : map TObjE vs ++ [TTermE; TJunkE] = map TObjE A ++ (map TObjE B ++ [TTermE]) ++ TJunkE :: [])
        by (rewrite Hsplit at 1; rewrite map_app, <- !app_assoc; reflexivity).
      rewrite Hcells in Hstep.
      destruct (memmove_insert _ (map TObjE A) (map TObjE B ++ [TTermE]) TJunkE [] (TObjE v)) as (l1 & Hm & Hs).
      rewrite app_length, !map_length in Hm. rewrite HA in Hm. simpl length in Hm.
      rewrite map_length, HA in Hs.
      replace (length vs - p + 1) with (length B + 1) in Hstep by lia.
      rewrite Hm, Hs in Hstep. injection Hstep as <- <-.
      assert (Hi : map TObjE A ++ TObjE v :: (map TObjE B ++ [TTermE]) ++ [] = items (insert_at E p v vs)).
      { unfold insert_at. fold A B. rewrite app_nil_r, map_app. simpl map. rewrite <- app_assoc. reflexivity. }
      rewrite Hi. split; [|rewrite t_abs_items; reflexivity].
      apply t_inv_items. unfold insert_at. fold A B. apply distinct_insert; rewrite <- Hsplit; auto.
    - (* pop_at *)
      unfold t_pop_at in Hstep. rewrite oob_inb, Hin in Hstep. simpl negb in Hstep. cbv iota in Hstep.
      apply inb_pos in Hin as [Hlt _].
      destruct (t_pop_pos_items vs _ Hlt Hd) as [H1 H2]. rewrite H1 in Hstep. injection Hstep as <- <-.
      split; [apply t_inv_items; exact H2 | rewrite t_abs_items; reflexivity].
    - (* set *)
      rewrite oob_inb, Hin in Hstep. simpl negb in Hstep. cbv iota in Hstep.
      apply inb_pos in Hin as [Hlt _]. set (p := Z.to_nat (norm (length vs) k)) in *.
      assert (Hsplit : vs = firstn p vs ++ skipn p vs) by (symmetry; apply firstn_skipn).
      destruct (skipn p vs) as [|x B] eqn:HB.
      { exfalso. assert (length (skipn p vs) = length vs - p) by apply skipn_length. rewrite HB in H. simpl in H. lia. }
      set (A := firstn p vs) in *.
      assert (HA : length A = p) by (unfold A; rewrite firstn_length; lia).
      assert (Hcells : items vs = map TObjE A ++ TObjE x :: map TObjE B ++ [TTermE])
        by (rewrite Hsplit at 1; rewrite map_app; simpl map; rewrite <- app_assoc; reflexivity).
      rewrite Hcells in Hstep.
      pose proof (set_at_app_l _ (map TObjE A) (map TObjE B ++ [TTermE]) (TObjE v) (TObjE x)) as Hset.
      rewrite map_length, HA in Hset. rewrite Hset in Hstep. injection Hstep as <- <-.
      assert (Hrp : replace_at E p v vs = A ++ v :: B).
      { unfold replace_at. fold A. do 2 f_equal. apply (skipn_S_tail _ _ _ _ _ HB). }
      assert (Hi : map TObjE A ++ TObjE v :: map TObjE B ++ [TTermE] = items (A ++ v :: B))
        by (rewrite map_app; simpl map; rewrite <- app_assoc; reflexivity).
      rewrite Hi, Hrp. split; [|rewrite t_abs_items; reflexivity].
      apply t_inv_items. apply (distinct_replace A x B v); rewrite <- Hsplit; auto.
    - (* get *)
      rewrite oob_inb, Hin in Hstep. simpl negb in Hstep. cbv iota in Hstep.
      apply inb_pos in Hin as [Hlt _]. set (p := Z.to_nat (norm (length vs) k)) in *.
      destruct (nth_error vs p) as [x|] eqn:Hx; [|apply nth_error_None in Hx; lia].
      assert (Hn : nth_error (items vs) p = Some (TObjE x)).
      { rewrite nth_error_app1 by (rewrite map_length; lia). apply map_nth_error. exact Hx. }
      rewrite Hn in Hstep. injection Hstep as <- <-.
      split; [apply t_inv_items; exact Hd | rewrite t_abs_items; reflexivity].
    - (* mem *)
      destruct (head_items vs) as [rr Hr].
      destruct (map TObjE vs ++ [TTermE]) as [|c r'] eqn:Hi; [discriminate|]. injection Hr as -> ->.
      rewrite <- Hi in Hstep.
      rewrite (t_mem_loop_items vs v Hd vs []) in Hstep; auto;
        [|rewrite app_length, map_length; simpl; lia].
      injection Hstep as <- <-.
      split; [apply t_inv_items; exact Hd | rewrite t_abs_items; reflexivity].
    - (* rem *)
      rewrite t_find_items in Hstep.
      pose proof (find_first_spec E eqb vs 0 v) as Hf.
      destruct (find_first E eqb vs 0 v) as [p|]; [|congruence].
      destruct Hf as (_ & H2 & H3 & _). rewrite Nat.sub_0_r in *.
      unfold t_pop_at in Hstep. rewrite norm_nat in Hstep. unfold oob in Hstep.
      destruct (Z.ltb_spec (Z.of_nat p) 0); [lia|].
      destruct (Z.geb_spec (Z.of_nat p) (Z.of_nat (length vs))); [lia|].
      simpl orb in Hstep. cbv iota in Hstep. rewrite Nat2Z.id in Hstep.
      destruct (t_pop_pos_items vs _ H2 Hd) as [H4 H5]. rewrite H4 in Hstep. injection Hstep as <- <-.
      rewrite H3. split; [apply t_inv_items; exact H5 | rewrite t_abs_items; reflexivity].
    - (* concat *)
      destruct Hfr as [Hdw Hnw].
      rewrite realloc_items_up in Hstep by lia.
      replace (length vs + 1 + length vs0 - length vs - 1) with (length vs0) in Hstep by lia.
      pose proof (write_all_app _ (map TObjE vs) (map TObjE vs0) (TTermE :: repeat TJunkE (length vs0))) as Hw.
      rewrite !map_length in Hw. rewrite Hw in Hstep by (simpl; rewrite repeat_length; lia).
      destruct (skipn_last_one _ (TTermE :: repeat TJunkE (length vs0)) (length vs0)) as [z Hz];
        [simpl; rewrite repeat_length; reflexivity|].
      rewrite Hz in Hstep. rewrite app_assoc in Hstep.
      replace (length vs + length vs0) with (length (map TObjE vs ++ map TObjE vs0)) in Hstep
        by (rewrite app_length, !map_length; reflexivity).
      rewrite set_at_app_l in Hstep. injection Hstep as <- <-.
      rewrite <- map_app. split; [|rewrite t_abs_items; reflexivity].
      apply t_inv_items. apply distinct_app. split; [exact Hd|]. split; [exact Hdw|].
      intros x y Hx Hy. apply (Hnw y Hy x Hx).
    - (* append *) destruct (Hpush _ _ _ Hfr Hstep) as (H1 & H2 & H3). rewrite H2, H3. auto.
    - (* resize *)
      destruct (Nat.ltb_spec n (length vs)) as [Hlt|Hge]; [|discriminate].
      rewrite realloc_le in Hstep by (rewrite app_length, map_length; simpl; lia).
      assert (Hsplit : vs = firstn n vs ++ skipn n vs) by (symmetry; apply firstn_skipn).
      destruct (skipn n vs) as [|x B] eqn:HB.
      { exfalso. assert (length (skipn n vs) = length vs - n) by apply skipn_length. rewrite HB in H. simpl in H. lia. }
      set (A := firstn n vs) in *.
      assert (HA : length A = n) by (unfold A; rewrite firstn_length; lia).
      assert (Hf : firstn (n + 1) (items vs) = map TObjE A ++ [TObjE x]).
      { rewrite Hsplit at 1. rewrite map_app. simpl map. rewrite <- app_assoc.
        rewrite firstn_app, map_length, HA. replace (n + 1 - n) with 1 by lia.
        rewrite firstn_all2 by (rewrite map_length; lia). reflexivity. }
      rewrite Hf in Hstep.
      pose proof (set_at_app_l _ (map TObjE A) [] TTermE (TObjE x)) as Hset.
      rewrite map_length, HA in Hset. rewrite Hset in Hstep. injection Hstep as <- <-.
      split; [|rewrite t_abs_items; reflexivity].
      apply t_inv_items. apply distinct_firstn. exact Hd.
    - (* sort *)
      rewrite t_objs_items in Hstep.
      destruct (qsort_ok vs) as (ys & Hq & Hp & Hs). rewrite Hq in Hstep. injection Hstep as <- <-.
      assert (Hsk : skipn (length vs) (items vs) = [TTermE]).
      { rewrite <- (map_length TObjE vs). rewrite skipn_app, Nat.sub_diag, skipn_all. reflexivity. }
      rewrite Hsk. split; [apply t_inv_items; eapply distinct_perm; eauto|].
      rewrite t_abs_items. auto.
    - (* assign *)
      rewrite write_all_0 in Hstep by (rewrite realloc_length, app_length, map_length; simpl; lia).
      rewrite skipn_all2 in Hstep by (rewrite realloc_length, app_length, map_length; simpl; lia).
      rewrite app_nil_r in Hstep. injection Hstep as <- <-.
      split; [apply t_inv_items; exact Hfr | rewrite t_abs_items; reflexivity].
    - (* copy *)
      rewrite t_objs_items in Hstep. injection Hstep as <- <-. unfold t_new.
      split; [apply t_inv_items; exact Hd | rewrite t_abs_items; reflexivity].
  Qed.

  Theorem t_observe (t : tuple E) :
    t_inv E same t ->
    t_len E t = Some (length (t_abs E t)) /\ t_iter E same t = Ok (t_abs E t).
  Proof.
    intros (Hh & vs & Hits & Hd). destruct t as [its h]. cbn [titems theap] in *. subst its h.
    rewrite t_abs_items. split; [|apply t_iter_items; exact Hd].
    unfold t_len. cbn [titems]. rewrite t_len_items. reflexivity.
  Qed.

  (* finding F3: with the same pointer twice the cursor never gets past the second occurrence *)
  Theorem t_iter_repeated_pointer_diverges (p : E) :
    forall fuel, t_iter_fuel E same fuel (mkTu E [TObjE p; TObjE p; TTermE] true) = Fuel.
  Proof.
    intros fuel. unfold t_iter_fuel. cbn [titems]. generalize (@nil E).
    induction fuel as [|fu IH]; intros acc; [reflexivity|].
    cbn [t_iter_loop t_next]. rewrite same_refl. apply IH.
  Qed.
End TupleRefines.
