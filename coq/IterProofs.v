(* IterProofs.v — proofs about the iteration model (C11): IterModel.v with the rules [repaired].

   Central notion: [wb f u cvs] — the iterable [u] is WELL-BEHAVED with cursor chain [cvs]
   (a list of (cursor, item) pairs): iter_init hands out the first cursor, iter_last the last,
   iter_next / iter_prev move along the chain and hand out Terminal exactly past its ends, and the
   item under each cursor is the recorded one.  Every walk theorem follows from [wb] alone
   ([walk_fwd], [walk_bwd]); every container and every view is shown to be [wb] (views: given that
   their underlying iterables are), so the results compose to any nesting depth. *)
From Coq Require Import List ZArith Bool Arith Lia.
From CelloV Require Import Generated IterModel IterSource.
Import ListNotations.
Local Open Scope Z_scope.

(* the C source of the working tree contains the repaired text of every defect (re-read on every run) *)
Lemma source_rules_repaired : source_rules = repaired.
Proof. reflexivity. Qed.

Lemma source_shapes : source_shapes_ok = true.
Proof. reflexivity. Qed.

Notation R := repaired.

(* ------------------------------------------------------------------ chains *)
Definition cur_at (cvs : list (cur * val)) (i : nat) : option cur := option_map fst (nth_error cvs i).
Definition cur_before (cvs : list (cur * val)) (i : nat) : option cur :=
  match i with O => None | S j => cur_at cvs j end.

Record wb (f : nat) (u : iterable) (cvs : list (cur * val)) : Prop := mkWb {
  wb_init : it_start R f Fwd u = OVal (cur_at cvs 0);
  wb_last : it_start R f Bwd u = OVal (cur_before cvs (length cvs));
  wb_val  : forall i c v, nth_error cvs i = Some (c, v) -> cur_val u c = OVal v;
  wb_next : forall i c v, nth_error cvs i = Some (c, v) -> it_step R f Fwd u c = OVal (cur_at cvs (S i));
  wb_prev : forall i c v, nth_error cvs i = Some (c, v) -> it_step R f Bwd u c = OVal (cur_before cvs i)
}.

Lemma cur_at_some cvs i c : cur_at cvs i = Some c -> exists v, nth_error cvs i = Some (c, v).
Proof.
  unfold cur_at. destruct (nth_error cvs i) as [[c' v]|] eqn:E; simpl; intros H; inversion H; subst; eauto.
Qed.

Lemma cur_at_none cvs i : cur_at cvs i = None <-> (length cvs <= i)%nat.
Proof.
  unfold cur_at. split.
  - destruct (nth_error cvs i) eqn:E; simpl; [discriminate|]. intros _. now apply nth_error_None.
  - intros H. apply nth_error_None in H. now rewrite H.
Qed.

(* ------------------------------------------------------------------ foreach over a well-behaved iterable *)
Lemma walk_loop_fwd f u cvs (H : wb f u cvs) :
  forall k i acc cut, (i + k = length cvs)%nat -> (k < cut)%nat ->
    walk_loop R f Fwd u cut (cur_at cvs i) acc = (rev acc ++ map snd (skipn i cvs), WDone).
Proof.
  induction k; intros i acc cut Hi Hc.
  - assert (cur_at cvs i = None) as -> by (apply cur_at_none; lia).
    rewrite skipn_all2 by lia. simpl. destruct cut; now rewrite app_nil_r.
  - destruct (nth_error cvs i) as [[c v]|] eqn:E.
    2:{ apply nth_error_None in E. lia. }
    unfold cur_at at 1. rewrite E. destruct cut as [|cut]; [lia|]. cbn [option_map fst walk_loop].
    rewrite (wb_val _ _ _ H _ _ _ E), (wb_next _ _ _ H _ _ _ E).
    rewrite IHk by lia. simpl.
    rewrite <- app_assoc. simpl.
    assert (skipn i cvs = (c, v) :: skipn (S i) cvs) as ->; [|reflexivity].
    clear - E. revert i E. induction cvs; intros [|i] E; simpl in *; try discriminate.
    + now inversion E.
    + now apply IHcvs.
Qed.

Theorem walk_fwd f u cvs cut : wb f u cvs -> (length cvs < cut)%nat ->
  walk R f Fwd cut u = (map snd cvs, WDone).
Proof.
  intros H Hc. unfold walk. rewrite (wb_init _ _ _ H).
  now rewrite (walk_loop_fwd _ _ _ H (length cvs) 0%nat [] cut) by lia.
Qed.

Lemma walk_loop_bwd f u cvs (H : wb f u cvs) :
  forall i acc cut, (i <= length cvs)%nat -> (i < cut)%nat ->
    walk_loop R f Bwd u cut (cur_before cvs i) acc = (rev acc ++ rev (map snd (firstn i cvs)), WDone).
Proof.
  induction i; intros acc cut Hi Hc.
  - simpl. destruct cut; now rewrite app_nil_r.
  - destruct (nth_error cvs i) as [[c v]|] eqn:E.
    2:{ apply nth_error_None in E. lia. }
    cbn [cur_before]. unfold cur_at. rewrite E. destruct cut as [|cut]; [lia|]. cbn [option_map fst walk_loop].
    rewrite (wb_val _ _ _ H _ _ _ E), (wb_prev _ _ _ H _ _ _ E).
    rewrite IHi by lia.
    assert (firstn (S i) cvs = firstn i cvs ++ [(c, v)]) as ->.
    { clear - E. revert i E. induction cvs; intros [|i] E; simpl in *; try discriminate.
      - now inversion E.
      - f_equal. now apply IHcvs. }
    rewrite map_app, rev_app_distr. cbn [rev map snd app]. now rewrite <- app_assoc.
Qed.

Theorem walk_bwd f u cvs cut : wb f u cvs -> (length cvs < cut)%nat ->
  walk R f Bwd cut u = (rev (map snd cvs), WDone).
Proof.
  intros H Hc. unfold walk. rewrite (wb_last _ _ _ H).
  rewrite (walk_loop_bwd _ _ _ H (length cvs) [] cut) by lia.
  now rewrite firstn_all.
Qed.

(* ------------------------------------------------------------------ index-cursor containers *)
Fixpoint chain_from (k : nat) (xs : list val) : list (cur * val) :=
  match xs with [] => [] | v :: r => (CPos (Z.of_nat k), v) :: chain_from (S k) r end.

Lemma chain_from_nth xs : forall k i,
  nth_error (chain_from k xs) i = option_map (fun v => (CPos (Z.of_nat (k + i)), v)) (nth_error xs i).
Proof.
  induction xs; intros k [|i]; simpl; auto.
  - now rewrite Nat.add_0_r.
  - rewrite IHxs. now replace (S k + i)%nat with (k + S i)%nat by lia.
Qed.

Lemma chain_from_length xs : forall k, length (chain_from k xs) = length xs.
Proof. induction xs; simpl; auto. Qed.

Lemma chain_from_snd xs : forall k, map snd (chain_from k xs) = xs.
Proof. induction xs; simpl; intros; f_equal; auto. Qed.

Lemma cur_at_chain xs i :
  cur_at (chain_from 0 xs) i = if (i <? length xs)%nat then Some (CPos (Z.of_nat i)) else None.
Proof.
  unfold cur_at. rewrite chain_from_nth. simpl.
  destruct (Nat.ltb_spec i (length xs)) as [H|H].
  - destruct (nth_error xs i) eqn:E; simpl; auto. apply nth_error_None in E. lia.
  - apply nth_error_None in H. now rewrite H.
Qed.

Lemma znth_nat {A} (l : list A) (i : nat) : znth l (Z.of_nat i) = nth_error l i.
Proof.
  unfold znth, zlen. destruct (nth_error l i) eqn:E.
  - assert (i < length l)%nat by (apply nth_error_Some; congruence).
    replace (0 <=? Z.of_nat i) with true by (symmetry; apply Z.leb_le; lia).
    replace (Z.of_nat i <? Z.of_nat (length l)) with true by (symmetry; apply Z.ltb_lt; lia).
    simpl. now rewrite Nat2Z.id.
  - apply nth_error_None in E.
    replace (Z.of_nat i <? Z.of_nat (length l)) with false by (symmetry; apply Z.ltb_ge; lia).
    now rewrite andb_false_r.
Qed.

Ltac zb := repeat match goal with
  | |- context [?a =? ?b] => destruct (Z.eqb_spec a b)
  | |- context [?a <=? ?b] => destruct (Z.leb_spec a b)
  | |- context [?a <? ?b] => destruct (Z.ltb_spec a b)
  | |- context [(?a <? ?b)%nat] => destruct (Nat.ltb_spec a b)
  end.

(* Array (with the repaired Array_Iter_Prev) and List *)
Lemma wb_index_gen f u xs
  (Hstart : forall d, it_start R f d u = OVal (arr_start d (zlen xs)))
  (Hval : forall i, cur_val u (CPos i) = oget (znth xs i))
  (Hfwd : forall i : nat, (i < length xs)%nat -> it_step R f Fwd u (CPos (Z.of_nat i)) =
            OVal (if (S i <? length xs)%nat then Some (CPos (Z.of_nat (S i))) else None))
  (Hbwd : forall i : nat, (i < length xs)%nat -> it_step R f Bwd u (CPos (Z.of_nat i)) =
            OVal (match i with O => None | S j => Some (CPos (Z.of_nat j)) end)) :
  wb f u (chain_from 0 xs).
Proof.
  constructor.
  - rewrite Hstart, cur_at_chain. unfold arr_start, zlen. destruct xs; simpl; auto.
  - rewrite Hstart, chain_from_length. unfold arr_start, zlen. destruct xs as [|x xs]; [reflexivity|].
    cbn [cur_before length]. rewrite cur_at_chain. cbn [length].
    replace (length xs <? S (length xs))%nat with true by (symmetry; apply Nat.ltb_lt; lia).
    replace (Z.of_nat (S (length xs)) =? 0) with false by (symmetry; apply Z.eqb_neq; lia).
    do 3 f_equal. lia.
  - intros i c v E. rewrite chain_from_nth in E. simpl in E.
    destruct (nth_error xs i) eqn:E2; inversion E; subst. now rewrite Hval, znth_nat, E2.
  - intros i c v E. rewrite chain_from_nth in E. simpl in E.
    destruct (nth_error xs i) eqn:E2; inversion E; subst.
    assert (i < length xs)%nat by (apply nth_error_Some; congruence).
    now rewrite Hfwd, cur_at_chain.
  - intros i c v E. rewrite chain_from_nth in E. simpl in E.
    destruct (nth_error xs i) eqn:E2; inversion E; subst.
    assert (i < length xs)%nat by (apply nth_error_Some; congruence).
    rewrite Hbwd by auto. destruct i; [reflexivity|].
    cbn [cur_before]. rewrite cur_at_chain.
    now replace (i <? length xs)%nat with true by (symmetry; apply Nat.ltb_lt; lia).
Qed.

Lemma wb_array f xs : wb f (IArray xs) (chain_from 0 xs).
Proof.
  apply wb_index_gen; try reflexivity; intros i Hi; cbn [it_step]; unfold arr_step, zlen; cbn [array_prev_incl repaired].
  - f_equal. zb; try lia; try reflexivity; do 2 f_equal; lia.
  - f_equal. destruct i; zb; try lia; try reflexivity; do 2 f_equal; lia.
Qed.

Lemma wb_list f xs : wb f (IList xs) (chain_from 0 xs).
Proof.
  apply wb_index_gen; try reflexivity; intros i Hi; cbn [it_step]; unfold list_step, zlen.
  - f_equal. zb; try lia; try reflexivity; do 2 f_equal; lia.
  - f_equal. destruct i; zb; try lia; try reflexivity; do 2 f_equal; lia.
Qed.

(* pre-repair Array_Iter_Prev (curr < Array_Item(a,0)): the backward walk reads before the array *)
Definition pre_D9 : rules := mkRules false true true true true true true true true.
Lemma array_prev_refuted :
  exists xs, snd (walk pre_D9 10 Bwd 10 (IArray xs)) = WCrash.
Proof. exists [VInt 1]. vm_compute. reflexivity. Qed.

(* ------------------------------------------------------------------ Map over a well-behaved iterable *)
Definition map_chain (g : val -> val) (cvs : list (cur * val)) : list (cur * val) :=
  map (fun cv => (CMap (fst cv) (g (snd cv)), g (snd cv))) cvs.

Lemma map_chain_snd g cvs : map snd (map_chain g cvs) = map g (map snd cvs).
Proof. unfold map_chain. rewrite !map_map. reflexivity. Qed.

Lemma map_chain_nth g cvs i :
  nth_error (map_chain g cvs) i =
  option_map (fun cv => (CMap (fst cv) (g (snd cv)), g (snd cv))) (nth_error cvs i).
Proof. unfold map_chain. apply nth_error_map. Qed.

Lemma map_wrap_at f u cvs g i : wb f u cvs ->
  map_wrap g (cur_val u) (cur_at cvs i) = OVal (cur_at (map_chain g cvs) i).
Proof.
  intros H. unfold cur_at. rewrite map_chain_nth.
  destruct (nth_error cvs i) as [[c v]|] eqn:E; simpl; auto.
  now rewrite (wb_val _ _ _ H _ _ _ E).
Qed.

Lemma map_wrap_before f u cvs g i : wb f u cvs ->
  map_wrap g (cur_val u) (cur_before cvs i) = OVal (cur_before (map_chain g cvs) i).
Proof. intros H. destruct i; simpl; auto. now apply (map_wrap_at f). Qed.

Theorem wb_map f u cvs g : wb f u cvs -> wb f (IMap g u) (map_chain g cvs).
Proof.
  intros H. constructor.
  - cbn [it_start]. rewrite (wb_init _ _ _ H). cbn [bind]. now apply (map_wrap_at f).
  - cbn [it_start]. rewrite (wb_last _ _ _ H). cbn [bind].
    unfold map_chain at 2. rewrite map_length. now apply (map_wrap_before f).
  - intros i c v E. rewrite map_chain_nth in E.
    destruct (nth_error cvs i) as [[c0 v0]|]; inversion E; subst. reflexivity.
  - intros i c v E. rewrite map_chain_nth in E.
    destruct (nth_error cvs i) as [[c0 v0]|] eqn:E0; inversion E; subst.
    cbn [it_step fst snd]. rewrite (wb_next _ _ _ H _ _ _ E0). cbn [bind]. now apply (map_wrap_at f).
  - intros i c v E. rewrite map_chain_nth in E.
    destruct (nth_error cvs i) as [[c0 v0]|] eqn:E0; inversion E; subst.
    cbn [it_step fst snd]. rewrite (wb_prev _ _ _ H _ _ _ E0). cbn [bind]. now apply (map_wrap_before f).
Qed.

(* ------------------------------------------------------------------ Filter over a well-behaved iterable *)
Definition is_some {A} (o : option A) : bool := match o with Some _ => true | None => false end.
(* accepted = the predicate answers with ANY non-NULL object; the chain keeps the element's own cursor and item *)
Definition acc_of (p : val -> option val) (cv : cur * val) : bool := is_some (p (snd cv)).

Lemma skipn_cons_nth {A} (l : list A) : forall i x, nth_error l i = Some x -> skipn i l = x :: skipn (S i) l.
Proof.
  induction l; intros [|i] x E; simpl in *; try discriminate.
  - now inversion E.
  - now apply IHl.
Qed.

Lemma firstn_snoc_nth {A} (l : list A) : forall i x, nth_error l i = Some x -> firstn (S i) l = firstn i l ++ [x].
Proof.
  induction l; intros [|i] x E; simpl in *; try discriminate.
  - now inversion E.
  - f_equal. now apply IHl.
Qed.

Lemma cur_at_skipn cvs k i : cur_at (skipn k cvs) i = cur_at cvs (k + i).
Proof.
  unfold cur_at. f_equal. revert cvs. induction k; intros cvs; simpl; auto.
  destruct cvs; simpl; auto. now destruct i.
Qed.

Lemma cur_at_firstn cvs k i : (i < k)%nat -> cur_at (firstn k cvs) i = cur_at cvs i.
Proof.
  unfold cur_at. intros H. f_equal. revert cvs i H. induction k; intros cvs i H; [lia|].
  destruct cvs; simpl; auto. destruct i; simpl; auto. apply IHk. lia.
Qed.

Lemma cur_before_firstn cvs k : (k <= length cvs)%nat ->
  cur_before (firstn k cvs) (length (firstn k cvs)) = cur_before cvs k.
Proof.
  intros H. rewrite firstn_length_le by auto. destruct k; [reflexivity|]. cbn [cur_before]. apply cur_at_firstn. lia.
Qed.

Lemma filter_loop_fwd f u cvs p (H : wb f u cvs) :
  forall m i k, (length cvs <= i + m)%nat -> (m <= k)%nat ->
    filter_loop (it_step R f Fwd u) (cur_val u) p k (cur_at cvs i) =
    OVal (cur_at (filter (acc_of p) (skipn i cvs)) 0).
Proof.
  induction m; intros i k Hi Hk.
  - assert (cur_at cvs i = None) as -> by (apply cur_at_none; lia).
    rewrite skipn_all2 by lia. destruct k; reflexivity.
  - destruct (nth_error cvs i) as [[c v]|] eqn:E.
    2:{ apply nth_error_None in E. assert (cur_at cvs i = None) as -> by (apply cur_at_none; lia).
        rewrite skipn_all2 by lia. destruct k; reflexivity. }
    unfold cur_at at 1. rewrite E. rewrite (skipn_cons_nth _ _ _ E).
    destruct k as [|k]; [lia|].
    cbn [option_map fst filter_loop filter]. rewrite (wb_val _ _ _ H _ _ _ E). cbn [bind].
    unfold acc_of at 1. cbn [snd]. destruct (p v); cbn [is_some]; [reflexivity|].
    rewrite (wb_next _ _ _ H _ _ _ E). cbn [bind]. apply IHm; lia.
Qed.

Lemma filter_loop_bwd f u cvs p (H : wb f u cvs) :
  forall i k, (i <= length cvs)%nat -> (i <= k)%nat ->
    filter_loop (it_step R f Bwd u) (cur_val u) p k (cur_before cvs i) =
    OVal (let l := filter (acc_of p) (firstn i cvs) in cur_before l (length l)).
Proof.
  induction i; intros k Hi Hk.
  - destruct k; reflexivity.
  - destruct (nth_error cvs i) as [[c v]|] eqn:E.
    2:{ apply nth_error_None in E. lia. }
    cbn [cur_before]. unfold cur_at at 1. rewrite E. rewrite (firstn_snoc_nth _ _ _ E).
    destruct k as [|k]; [lia|].
    cbn [option_map fst filter_loop]. rewrite (wb_val _ _ _ H _ _ _ E). cbn [bind].
    rewrite filter_app. cbn [filter]. change (acc_of p (c, v)) with (is_some (p v)). destruct (p v); cbn [is_some].
    + cbv zeta. rewrite app_length. cbn [length]. rewrite Nat.add_1_r. cbn [cur_before].
      unfold cur_at. rewrite nth_error_app2 by lia. now rewrite Nat.sub_diag.
    + rewrite (wb_prev _ _ _ H _ _ _ E). cbn [bind]. rewrite app_nil_r. apply IHi; lia.
Qed.

Lemma filter_nth_split {A} (P : A -> bool) (l : list A) : forall j x,
  nth_error (filter P l) j = Some x ->
  exists i, nth_error l i = Some x /\ P x = true /\
            filter P (firstn i l) = firstn j (filter P l) /\
            filter P (skipn (S i) l) = skipn (S j) (filter P l).
Proof.
  induction l as [|a l IH]; intros j x E; simpl in *.
  - destruct j; discriminate.
  - destruct (P a) eqn:Pa.
    + destruct j as [|j]; simpl in E.
      * inversion E; subst. exists 0%nat. simpl. rewrite Pa. auto.
      * destruct (IH _ _ E) as (i & E1 & Px & F1 & F2). exists (S i). simpl. rewrite Pa.
        repeat split; auto. now f_equal.
    + destruct (IH _ _ E) as (i & E1 & Px & F1 & F2). exists (S i). simpl. rewrite Pa. auto.
Qed.

Theorem wb_filter f u cvs p : wb f u cvs -> (length cvs <= f)%nat ->
  wb f (IFilter p u) (filter (acc_of p) cvs).
Proof.
  intros H Hf. constructor.
  - cbn [it_start]. rewrite (wb_init _ _ _ H). cbn [bind].
    now rewrite (filter_loop_fwd f u cvs p H (length cvs) 0%nat f) by lia.
  - cbn [it_start]. rewrite (wb_last _ _ _ H). cbn [bind].
    rewrite (filter_loop_bwd f u cvs p H (length cvs) f) by lia. now rewrite firstn_all.
  - intros j c v E. destruct (filter_nth_split _ _ _ _ E) as (i & E1 & _). cbn [cur_val].
    apply (wb_val _ _ _ H _ _ _ E1).
  - intros j c v E. destruct (filter_nth_split _ _ _ _ E) as (i & E1 & _ & _ & F2).
    cbn [it_step]. rewrite (wb_next _ _ _ H _ _ _ E1). cbn [bind].
    rewrite (filter_loop_fwd f u cvs p H (length cvs) (S i) f) by lia.
    rewrite F2, cur_at_skipn. now rewrite Nat.add_0_r.
  - intros j c v E. destruct (filter_nth_split _ _ _ _ E) as (i & E1 & _ & F1 & _).
    cbn [it_step]. rewrite (wb_prev _ _ _ H _ _ _ E1). cbn [bind].
    assert (i < length cvs)%nat by (apply nth_error_Some; congruence).
    rewrite (filter_loop_bwd f u cvs p H i f) by lia. cbv zeta. rewrite F1.
    assert (j < length (filter (acc_of p) cvs))%nat by (apply nth_error_Some; congruence).
    now rewrite cur_before_firstn by lia.
Qed.

(* what the predicate answers with is irrelevant beyond NULL / non-NULL: two predicates accepting the same
   items give the same chain - the SAME cursors and items of the underlying iterable (identity), in order *)
Lemma filter_answer_irrelevant f u cvs p q : wb f u cvs -> (length cvs <= f)%nat ->
  (forall v, is_some (p v) = is_some (q v)) ->
  filter (acc_of p) cvs = filter (acc_of q) cvs /\
  wb f (IFilter p u) (filter (acc_of q) cvs) /\
  (forall i c v, nth_error (filter (acc_of p) cvs) i = Some (c, v) -> In (c, v) cvs).
Proof.
  intros H Hf Hpq.
  assert (E : filter (acc_of p) cvs = filter (acc_of q) cvs) by (apply filter_ext; intros [c v]; apply Hpq).
  split; [exact E|]. split; [rewrite <- E; now apply wb_filter|].
  intros i c v Hn. apply nth_error_In in Hn. now apply filter_In in Hn.
Qed.

Lemma filter_chain_snd p cvs : map snd (filter (acc_of p) cvs) = filter (fun v => is_some (p v)) (map snd cvs).
Proof.
  induction cvs as [|[c v] l IH]; simpl; auto. unfold acc_of at 1. simpl.
  destruct (p v); simpl; now rewrite IH.
Qed.

(* ------------------------------------------------------------------ Range: arithmetic *)
Definition box : Z := 4611686018427387904.   (* 2^62 *)
Definition in_box (r : rng) : Prop :=
  - box < r_start r < box /\ - box < r_stop r < box /\ - box < r_step r < box /\ r_step r <> 0.

Lemma wrap64_id x : - two63 <= x < two63 -> wrap64 x = x.
Proof. intros H. unfold wrap64. rewrite Z.mod_small; unfold two63 in *; lia. Qed.

(* the number of items and the i-th item of range(start, stop, step), as the definition says *)
Definition range_count (r : rng) : Z :=
  if r_stop r <=? r_start r then 0 else (r_stop r - 1 - r_start r) / Z.abs (r_step r) + 1.
Definition range_val (r : rng) (i : Z) : Z :=
  (if 0 <? r_step r then r_start r else r_stop r - 1) + r_step r * i.
Definition range_elems (r : rng) : list Z :=
  map (fun i => range_val r (Z.of_nat i)) (seq 0 (Z.to_nat (range_count r))).

Lemma div_le_iff D a i : 0 < a -> (a * i <= D <-> i <= D / a).
Proof.
  intros Ha. split; intros H.
  - apply Z.div_le_lower_bound; auto.
  - pose proof (Z.mul_div_le D a Ha). nia.
Qed.

Lemma range_count_nonneg r : 0 <= range_count r.
Proof.
  unfold range_count. destruct (Z.leb_spec (r_stop r) (r_start r)); [lia|].
  destruct (Z.eq_dec (r_step r) 0) as [E|E].
  - rewrite E. simpl. rewrite Zdiv_0_r. lia.
  - assert (0 <= (r_stop r - 1 - r_start r) / Z.abs (r_step r)) by (apply Z.div_pos; lia). lia.
Qed.

Lemma range_count_bound r : in_box r -> range_count r < two63 /\
  (0 < range_count r -> Z.abs (r_step r) * (range_count r - 1) <= r_stop r - 1 - r_start r).
Proof.
  intros (Hs & Ht & Hp & Hn). unfold range_count, box, two63 in *.
  destruct (Z.leb_spec (r_stop r) (r_start r)); [lia|].
  assert (Ha : 0 < Z.abs (r_step r)) by lia.
  pose proof (Z.mul_div_le (r_stop r - 1 - r_start r) _ Ha).
  assert ((r_stop r - 1 - r_start r) / Z.abs (r_step r) <= r_stop r - 1 - r_start r).
  { apply Z.div_le_upper_bound; auto. nia. }
  split; [lia|]. intros _. replace ((r_stop r - 1 - r_start r) / Z.abs (r_step r) + 1 - 1) with
    ((r_stop r - 1 - r_start r) / Z.abs (r_step r)) by lia. lia.
Qed.

(* i < count  <->  the i-th value is still inside [start, stop) *)
Lemma range_in_iff r i : in_box r -> 0 <= i ->
  (i < range_count r <->
   if 0 <? r_step r then range_val r i < r_stop r else r_start r <= range_val r i).
Proof.
  intros (Hs & Ht & Hp & Hn) Hi. unfold range_count, range_val.
  destruct (Z.leb_spec (r_stop r) (r_start r)) as [Hle|Hlt].
  - destruct (Z.ltb_spec 0 (r_step r)); split; intros; try lia; nia.
  - assert (Ha : 0 < Z.abs (r_step r)) by lia.
    pose proof (div_le_iff (r_stop r - 1 - r_start r) _ i Ha) as Hd.
    destruct (Z.ltb_spec 0 (r_step r)).
    + rewrite Z.abs_eq in * by lia. split; intros; [assert (r_step r * i <= r_stop r - 1 - r_start r) by (apply Hd; lia) | assert (i <= (r_stop r - 1 - r_start r) / r_step r) by (apply Hd; lia)]; lia.
    + rewrite Z.abs_neq in * by lia. split; intros; [assert (- r_step r * i <= r_stop r - 1 - r_start r) by (apply Hd; lia) | assert (i <= (r_stop r - 1 - r_start r) / - r_step r) by (apply Hd; lia)]; lia.
Qed.

Lemma range_val_bounds r i : in_box r -> 0 <= i < range_count r ->
  r_start r <= range_val r i < r_stop r.
Proof.
  intros Hb Hi. pose proof (proj1 (range_in_iff r i Hb (proj1 Hi)) (proj2 Hi)) as H.
  destruct Hb as (Hs & Ht & Hp & Hn). unfold range_val in *.
  destruct (Z.ltb_spec 0 (r_step r)); nia.
Qed.

Lemma range_len_ok r : in_box r -> range_len R r = range_count r.
Proof.
  intros Hb. pose proof (range_count_bound r Hb) as [Hc _]. pose proof (range_count_nonneg r) as Hc0.
  destruct Hb as (Hs & Ht & Hp & Hn).
  unfold range_len, range_count in *. cbn [range_len_guard repaired andb].
  destruct (Z.eqb_spec (r_step r) 0); [contradiction|].
  destruct (Z.leb_spec (r_stop r) (r_start r)); [reflexivity|].
  unfold box, two63 in *.
  rewrite (wrap64_id (r_stop r - 1)) by (unfold two63; lia).
  rewrite (wrap64_id (r_stop r - 1 - r_start r)) by (unfold two63; lia).
  destruct (Z.ltb_spec 0 (r_step r)).
  - rewrite Z.abs_eq in * by lia. rewrite Z.quot_div_nonneg by lia. apply wrap64_id. unfold two63. lia.
  - rewrite Z.abs_neq in * by lia. rewrite (wrap64_id (- r_step r)) by (unfold two63; lia).
    rewrite Z.quot_div_nonneg by lia. apply wrap64_id. unfold two63. lia.
Qed.

Lemma range_init_ok r : in_box r ->
  range_init r = if 0 <? range_count r then Some (range_val r 0) else None.
Proof.
  intros Hb. pose proof (range_in_iff r 0 Hb (Z.le_refl 0)) as Hi.
  destruct Hb as (Hs & Ht & Hp & Hn). unfold range_init, range_val in *. unfold box in *.
  rewrite (wrap64_id (r_stop r - 1)) by (unfold two63; lia).
  destruct (Z.eqb_spec (r_step r) 0); [contradiction|]. rewrite !Z.mul_0_r, !Z.add_0_r in *.
  destruct (Z.ltb_spec 0 (r_step r)); cbn [andb].
  - replace (r_step r <? 0) with false by (symmetry; apply Z.ltb_ge; lia). cbn [andb].
    destruct (Z.leb_spec (r_stop r) (r_start r)); destruct (Z.ltb_spec 0 (range_count r)); auto; lia.
  - replace (r_step r <? 0) with true by (symmetry; apply Z.ltb_lt; lia). cbn [andb].
    destruct (Z.ltb_spec (r_stop r - 1) (r_start r)); destruct (Z.ltb_spec 0 (range_count r)); auto; lia.
Qed.

Lemma range_next_ok r i : in_box r -> 0 <= i < range_count r ->
  range_next r (range_val r i) = if i + 1 <? range_count r then Some (range_val r (i + 1)) else None.
Proof.
  intros Hb Hi. pose proof (range_val_bounds r i Hb Hi) as Hv.
  assert (Hi1 : 0 <= i + 1) by lia. pose proof (range_in_iff r (i + 1) Hb Hi1) as Hn1.
  destruct Hb as (Hs & Ht & Hp & Hn). unfold range_next. unfold box in *.
  assert (range_val r i + r_step r = range_val r (i + 1)) as Hstep by (unfold range_val; lia).
  rewrite (wrap64_id (range_val r i + r_step r)) by (unfold two63; lia). rewrite Hstep.
  destruct (Z.eqb_spec (r_step r) 0); [contradiction|].
  destruct (Z.ltb_spec 0 (r_step r)); cbn [andb].
  - replace (r_step r <? 0) with false by (symmetry; apply Z.ltb_ge; lia). cbn [andb].
    destruct (Z.leb_spec (r_stop r) (range_val r (i + 1))); destruct (Z.ltb_spec (i + 1) (range_count r)); auto; lia.
  - replace (r_step r <? 0) with true by (symmetry; apply Z.ltb_lt; lia). cbn [andb].
    destruct (Z.ltb_spec (range_val r (i + 1)) (r_start r)); destruct (Z.ltb_spec (i + 1) (range_count r)); auto; lia.
Qed.

Lemma range_prev_ok r i : in_box r -> 0 <= i < range_count r ->
  range_prev r (range_val r i) = if 0 <? i then Some (range_val r (i - 1)) else None.
Proof.
  intros Hb Hi. pose proof (range_val_bounds r i Hb Hi) as Hv.
  assert (H0 : 0 <= 0 < range_count r) by lia. pose proof (range_val_bounds r 0 Hb H0) as Hv0.
  destruct (Z.ltb_spec 0 i) as [Hpos|Hz].
  - assert (Hi1 : 0 <= i - 1 < range_count r) by lia. pose proof (range_val_bounds r (i - 1) Hb Hi1) as Hv1.
    destruct Hb as (Hs & Ht & Hp & Hn). unfold range_prev. unfold box in *.
    assert (range_val r i - r_step r = range_val r (i - 1)) as Hstep by (unfold range_val; lia).
    rewrite (wrap64_id (range_val r i - r_step r)) by (unfold two63; lia). rewrite Hstep.
    destruct (Z.eqb_spec (r_step r) 0); [contradiction|].
    replace (range_val r (i - 1) <? r_start r) with false by (symmetry; apply Z.ltb_ge; lia).
    replace (r_stop r <=? range_val r (i - 1)) with false by (symmetry; apply Z.leb_gt; lia).
    now rewrite !andb_false_r.
  - assert (i = 0) by lia. subst i.
    destruct Hb as (Hs & Ht & Hp & Hn). unfold range_prev. unfold box in *.
    rewrite (wrap64_id (range_val r 0 - r_step r)) by (unfold two63; lia).
    destruct (Z.eqb_spec (r_step r) 0); [contradiction|].
    unfold range_val in *. rewrite Z.mul_0_r, Z.add_0_r in *.
    destruct (Z.ltb_spec 0 (r_step r)); cbn [andb].
    + replace (r_start r - r_step r <? r_start r) with true by (symmetry; apply Z.ltb_lt; lia). reflexivity.
    + replace (r_step r <? 0) with true by (symmetry; apply Z.ltb_lt; lia). cbn [andb].
      replace (r_stop r <=? r_stop r - 1 - r_step r) with true by (symmetry; apply Z.leb_le; lia). reflexivity.
Qed.

Lemma range_last_ok r : in_box r ->
  range_last R r = if 0 <? range_count r then Some (range_val r (range_count r - 1)) else None.
Proof.
  intros Hb. unfold range_last. cbn [range_last_aligned repaired]. rewrite (range_len_ok r Hb).
  pose proof (range_count_nonneg r) as Hc0. pose proof (range_count_bound r Hb) as [Hc Hm].
  destruct (Z.eqb_spec (range_count r) 0) as [E|E].
  - rewrite E. reflexivity.
  - replace (0 <? range_count r) with true by (symmetry; apply Z.ltb_lt; lia).
    assert (Hl : 0 <= range_count r - 1 < range_count r) by lia.
    pose proof (range_val_bounds r _ Hb Hl) as Hv. specialize (Hm ltac:(lia)).
    destruct Hb as (Hs & Ht & Hp & Hn). unfold box in *.
    rewrite (wrap64_id (range_count r - 1)) by (unfold two63 in *; lia).
    rewrite (wrap64_id (r_stop r - 1)) by (unfold two63; lia).
    assert (- two63 <= r_step r * (range_count r - 1) < two63).
    { unfold two63. destruct (Z.ltb_spec 0 (r_step r)); [rewrite Z.abs_eq in Hm by lia | rewrite Z.abs_neq in Hm by lia]; nia. }
    rewrite (wrap64_id (r_step r * (range_count r - 1))) by auto.
    unfold range_val in *.
    destruct (Z.ltb_spec 0 (r_step r)).
    + f_equal. apply wrap64_id. unfold two63. lia.
    + replace (r_step r <? 0) with true by (symmetry; apply Z.ltb_lt; lia).
      f_equal. apply wrap64_id. unfold two63. lia.
Qed.

(* ------------------------------------------------------------------ Range_Iter_Last as TRANSLATED from the C source
   tools/genx_iter.py translates the two expressions Range_Iter_Last assigns to i->val (whatever their form) into
   Generated.iter_range_last_pos / _neg, every int64 operation under wrap64.  On the box they are the model's
   first + step*(len-1): so the model follows the source for this leaf by proof, not by text matching. *)
Lemma rem_by_q D a q : 0 < a -> a * q <= D < a * q + a -> 0 <= q -> Z.rem D a = D - a * q.
Proof. intros Ha H Hq. symmetry. apply (Z.rem_unique D a q); nia. Qed.
Lemma quot_by_q D a q : 0 < a -> a * q <= D < a * q + a -> 0 <= q -> Z.quot D a = q.
Proof. intros Ha H Hq. symmetry. apply (Z.quot_unique D a q (D - a * q)); nia. Qed.

Lemma range_count_split r : in_box r -> 0 < range_count r ->
  exists q, range_count r = q + 1 /\ 0 <= q /\ r_start r < r_stop r /\
            Z.abs (r_step r) * q <= r_stop r - 1 - r_start r < Z.abs (r_step r) * q + Z.abs (r_step r).
Proof.
  intros (Hs & Ht & Hp & Hn) Hc. unfold range_count in *.
  destruct (Z.leb_spec (r_stop r) (r_start r)); [lia|].
  exists ((r_stop r - 1 - r_start r) / Z.abs (r_step r)).
  assert (Ha : 0 < Z.abs (r_step r)) by lia.
  pose proof (Z.mul_div_le (r_stop r - 1 - r_start r) _ Ha).
  pose proof (Z.mul_succ_div_gt (r_stop r - 1 - r_start r) _ Ha).
  assert (0 <= (r_stop r - 1 - r_start r) / Z.abs (r_step r)) by (apply Z.div_pos; lia).
  repeat split; try lia.
Qed.

(* innermost wrap64 first: its argument is in range, by arithmetic over the hypotheses *)
Ltac unwrap64 q :=
  repeat match goal with
  | |- context [wrap64 ?t] =>
    lazymatch t with context [wrap64 _] => fail | _ => idtac end;
    rewrite (wrap64_id t) by
      (unfold two63;
       repeat match goal with
              | |- context [Z.rem ?D ?a] => rewrite (rem_by_q D a q) by lia
              | |- context [Z.quot ?D ?a] => rewrite (quot_by_q D a q) by lia
              end;
       first [lia | nia | (Z.quot_rem_to_equations; nia)])
  end.
Ltac close_arith q :=
  repeat match goal with
         | |- context [Z.rem ?D ?a] => rewrite (rem_by_q D a q) by lia
         | |- context [Z.quot ?D ?a] => rewrite (quot_by_q D a q) by lia
         end;
  first [reflexivity | lia | nia | (Z.quot_rem_to_equations; nia)].

Lemma source_range_last_ok r : in_box r -> 0 < range_count r ->
  (0 < r_step r -> iter_range_last_pos wrap64 (r_start r) (r_stop r) (r_step r) (range_count r) = range_val r (range_count r - 1)) /\
  (r_step r < 0 -> iter_range_last_neg wrap64 (r_start r) (r_stop r) (r_step r) (range_count r) = range_val r (range_count r - 1)).
Proof.
  intros Hb Hc. destruct (range_count_split r Hb Hc) as (q & Hq & Hq0 & Hlt & Hq1 & Hq2).
  destruct Hb as (Hs & Ht & Hp & Hn). unfold box in *. rewrite Hq. clear Hc Hq.
  split; intros Hsg; unfold iter_range_last_pos, iter_range_last_neg, range_val.
  - replace (0 <? r_step r) with true by (symmetry; apply Z.ltb_lt; lia). rewrite Z.abs_eq in * by lia.
    unwrap64 q. close_arith q.
  - replace (0 <? r_step r) with false by (symmetry; apply Z.ltb_ge; lia). rewrite Z.abs_neq in * by lia.
    unwrap64 q. close_arith q.
Qed.

(* ------------------------------------------------------------------ Range is well-behaved *)
Definition range_chain (r : rng) : list (cur * val) :=
  map (fun v => (CInt v, VInt v)) (range_elems r).

Lemma range_elems_length r : length (range_elems r) = Z.to_nat (range_count r).
Proof. unfold range_elems. now rewrite map_length, seq_length. Qed.

Lemma seq_nth_error n : forall s i, (i < n)%nat -> nth_error (seq s n) i = Some (s + i)%nat.
Proof.
  induction n; intros s i H; [lia|]. destruct i; simpl.
  - now rewrite Nat.add_0_r.
  - rewrite IHn by lia. f_equal. lia.
Qed.

Lemma range_elems_nth r i : (i < Z.to_nat (range_count r))%nat ->
  nth_error (range_elems r) i = Some (range_val r (Z.of_nat i)).
Proof.
  intros H. unfold range_elems. rewrite nth_error_map, seq_nth_error by auto. reflexivity.
Qed.

Lemma range_chain_at r i :
  cur_at (range_chain r) i =
  if (i <? Z.to_nat (range_count r))%nat then Some (CInt (range_val r (Z.of_nat i))) else None.
Proof.
  unfold cur_at, range_chain. rewrite nth_error_map.
  destruct (Nat.ltb_spec i (Z.to_nat (range_count r))) as [H|H].
  - now rewrite range_elems_nth.
  - assert (nth_error (range_elems r) i = None) as -> by (apply nth_error_None; now rewrite range_elems_length).
    reflexivity.
Qed.

Lemma range_chain_nth r i c v : nth_error (range_chain r) i = Some (c, v) ->
  (i < Z.to_nat (range_count r))%nat /\ c = CInt (range_val r (Z.of_nat i)) /\ v = VInt (range_val r (Z.of_nat i)).
Proof.
  intros E. assert (i < length (range_chain r))%nat by (apply nth_error_Some; congruence).
  unfold range_chain in *. rewrite map_length, range_elems_length in H. split; auto.
  rewrite nth_error_map, range_elems_nth in E by auto. simpl in E. inversion E. auto.
Qed.

Theorem wb_range f r : in_box r -> wb f (IRange r) (range_chain r).
Proof.
  intros Hb. pose proof (range_count_nonneg r) as Hc0. constructor.
  - cbn [it_start ostart]. rewrite range_init_ok, range_chain_at by auto.
    destruct (Z.ltb_spec 0 (range_count r)); destruct (Nat.ltb_spec 0 (Z.to_nat (range_count r))); try lia; reflexivity.
  - cbn [it_start ostart]. rewrite range_last_ok by auto.
    unfold range_chain at 2. rewrite map_length, range_elems_length.
    destruct (Z.ltb_spec 0 (range_count r)).
    + destruct (Z.to_nat (range_count r)) as [|n] eqn:En; [lia|]. cbn [cur_before]. rewrite range_chain_at, En.
      replace (n <? S n)%nat with true by (symmetry; apply Nat.ltb_lt; lia).
      cbn [option_map]. do 4 f_equal. lia.
    + replace (Z.to_nat (range_count r)) with 0%nat by lia. reflexivity.
  - intros i c v E. apply range_chain_nth in E as (_ & -> & ->). reflexivity.
  - intros i c v E. apply range_chain_nth in E as (Hi & -> & _).
    cbn [it_step ostep]. rewrite range_next_ok by (auto; lia). rewrite range_chain_at.
    destruct (Z.ltb_spec (Z.of_nat i + 1) (range_count r)); destruct (Nat.ltb_spec (S i) (Z.to_nat (range_count r))); try lia; auto.
    cbn [option_map]. do 4 f_equal. lia.
  - intros i c v E. apply range_chain_nth in E as (Hi & -> & _).
    cbn [it_step ostep]. rewrite range_prev_ok by (auto; lia).
    destruct i as [|i]; [reflexivity|]. cbn [cur_before]. rewrite range_chain_at.
    replace (0 <? Z.of_nat (S i)) with true by (symmetry; apply Z.ltb_lt; lia).
    replace (i <? Z.to_nat (range_count r))%nat with true by (symmetry; apply Nat.ltb_lt; lia).
    cbn [option_map]. do 4 f_equal. lia.
Qed.

Lemma range_chain_snd r : map snd (range_chain r) = map VInt (range_elems r).
Proof. unfold range_chain. now rewrite map_map. Qed.

(* Range_Get: get(i) is the i-th item, for 0 <= i < len and for the negative indices -len .. -1;
   everything else raises IndexOutOfBoundsError *)
Lemma range_at_ok r i : in_box r -> 0 <= i < range_count r -> range_at r i = range_val r i.
Proof.
  intros Hb Hi. pose proof (range_val_bounds r i Hb Hi) as Hv.
  pose proof (range_count_bound r Hb) as [Hc Hm]. specialize (Hm ltac:(lia)).
  destruct Hb as (Hs & Ht & Hp & Hn). unfold box in *. unfold range_at, range_val in *.
  rewrite (wrap64_id (r_stop r - 1)) by (unfold two63; lia).
  assert (- two63 <= r_step r * i < two63).
  { unfold two63. destruct (Z.ltb_spec 0 (r_step r)); [rewrite Z.abs_eq in Hm by lia | rewrite Z.abs_neq in Hm by lia]; nia. }
  rewrite (wrap64_id (r_step r * i)) by auto.
  destruct (Z.ltb_spec 0 (r_step r)); apply wrap64_id; unfold two63; lia.
Qed.

Lemma range_get_ok r key : in_box r -> - two63 <= key < two63 ->
  range_get R r key =
  let i := if key <? 0 then range_count r + key else key in
  if (0 <=? i) && (i <? range_count r) then OVal (range_val r i) else ORaise EIndex.
Proof.
  intros Hb Hk. unfold range_get. cbn [range_get_checked repaired]. rewrite (range_len_ok r Hb).
  pose proof (range_count_nonneg r) as Hc0. pose proof (range_count_bound r Hb) as [Hc _].
  assert ((if key <? 0 then wrap64 (range_count r + key) else key) =
          (if key <? 0 then range_count r + key else key)) as ->.
  { destruct (Z.ltb_spec key 0); auto. apply wrap64_id. lia. }
  cbv zeta. destruct Hb as (Hs & Ht & Hp & Hn). destruct (Z.eqb_spec (r_step r) 0); [contradiction|].
  set (i := if key <? 0 then range_count r + key else key).
  destruct (Z.leb_spec 0 i); destruct (Z.ltb_spec i (range_count r)); cbn [andb]; auto.
  rewrite range_at_ok; auto. unfold in_box. auto.
Qed.

(* ------------------------------------------------------------------ k steps along a chain *)
Lemma step_n_fwd f u cvs (H : wb f u cvs) : forall k i, (i + k <= length cvs)%nat ->
  step_n (it_step R f Fwd u) k (cur_at cvs i) = OVal (cur_at cvs (i + k)).
Proof.
  induction k; intros i Hi; cbn [step_n].
  - now rewrite Nat.add_0_r.
  - destruct (nth_error cvs i) as [[c v]|] eqn:E.
    2:{ apply nth_error_None in E. lia. }
    unfold cur_at at 1. rewrite E. cbn [option_map fst].
    rewrite (wb_next _ _ _ H _ _ _ E). cbn [bind]. rewrite IHk by lia. do 2 f_equal. lia.
Qed.

Lemma step_n_bwd f u cvs (H : wb f u cvs) : forall k i, (k <= i)%nat -> (i <= length cvs)%nat ->
  step_n (it_step R f Bwd u) k (cur_before cvs i) = OVal (cur_before cvs (i - k)).
Proof.
  induction k; intros i Hk Hi; cbn [step_n].
  - now rewrite Nat.sub_0_r.
  - destruct i as [|i]; [lia|]. cbn [cur_before].
    destruct (nth_error cvs i) as [[c v]|] eqn:E.
    2:{ apply nth_error_None in E. lia. }
    unfold cur_at at 1. rewrite E. cbn [option_map fst].
    rewrite (wb_prev _ _ _ H _ _ _ E). cbn [bind]. rewrite IHk by lia. reflexivity.
Qed.

(* Slice_Iter_Next / Slice_Iter_Prev move the underlying cursor |step| times towards the next selected
   position; if that position exists in the chain, every intermediate step stays inside the chain *)
Lemma slice_move_ok f u cvs (H : wb f u cvs) d s a b c v :
  nth_error cvs a = Some (c, v) -> (b < length cvs)%nat -> s <> 0 ->
  Z.of_nat b = Z.of_nat a + (match d with Fwd => s | Bwd => - s end) ->
  (if 0 <? s then step_n (it_step R f d u) (Z.to_nat s) (Some c)
   else if s <? 0 then step_n (it_step R f (flip d) u) (Z.to_nat (- s)) (Some c)
   else OVal (Some c)) = OVal (cur_at cvs b).
Proof.
  intros E Hb Hs Hab.
  assert (Ha : (a < length cvs)%nat) by (apply nth_error_Some; congruence).
  assert (Hc : Some c = cur_at cvs a) by (unfold cur_at; now rewrite E).
  assert (Hc' : Some c = cur_before cvs (S a)) by exact Hc.
  destruct (Z.ltb_spec 0 s); [|destruct (Z.ltb_spec s 0); [|lia]]; destruct d; cbn [flip].
  - rewrite Hc, (step_n_fwd _ _ _ H) by lia. do 2 f_equal. lia.
  - rewrite Hc', (step_n_bwd _ _ _ H) by lia. replace (S a - Z.to_nat s)%nat with (S b) by lia. reflexivity.
  - rewrite Hc', (step_n_bwd _ _ _ H) by lia. replace (S a - Z.to_nat (- s))%nat with (S b) by lia. reflexivity.
  - rewrite Hc, (step_n_fwd _ _ _ H) by lia. do 2 f_equal. lia.
Qed.

(* ------------------------------------------------------------------ Slice over a well-behaved iterable *)
(* what slice_stack guarantees about the Slice's own range (Slice_Arg clamps start and stop to [0, n]) *)
Definition slice_ok (r : rng) (n : Z) : Prop :=
  in_box r /\ 0 <= r_start r <= n /\ 0 <= r_stop r <= n.

Definition slice_chain (r : rng) (cvs : list (cur * val)) : list (cur * val) :=
  map (fun p => match nth_error cvs (Z.to_nat p) with
                | Some (c, v) => (CSlice c p, v)
                | None => (CPos 0, VInt 0)
                end) (range_elems r).

Lemma slice_pos_ok r (cvs : list (cur * val)) i : slice_ok r (zlen cvs) -> (i < Z.to_nat (range_count r))%nat ->
  0 <= range_val r (Z.of_nat i) /\ (Z.to_nat (range_val r (Z.of_nat i)) < length cvs)%nat.
Proof.
  intros (Hb & Hs & Ht) Hi.
  assert (0 <= Z.of_nat i < range_count r) as Hi' by lia.
  pose proof (range_val_bounds r _ Hb Hi'). unfold zlen in *. lia.
Qed.

Lemma slice_chain_at r cvs i : slice_ok r (zlen cvs) ->
  cur_at (slice_chain r cvs) i =
  if (i <? Z.to_nat (range_count r))%nat
  then option_map (fun c => CSlice c (range_val r (Z.of_nat i))) (cur_at cvs (Z.to_nat (range_val r (Z.of_nat i))))
  else None.
Proof.
  intros Hok. unfold cur_at, slice_chain. rewrite nth_error_map.
  destruct (Nat.ltb_spec i (Z.to_nat (range_count r))) as [Hi|Hi].
  - rewrite range_elems_nth by auto. cbn [option_map].
    destruct (slice_pos_ok r cvs i Hok Hi) as [_ Hp].
    destruct (nth_error cvs (Z.to_nat (range_val r (Z.of_nat i)))) as [[c v]|] eqn:E; [reflexivity|].
    apply nth_error_None in E. lia.
  - assert (nth_error (range_elems r) i = None) as -> by (apply nth_error_None; now rewrite range_elems_length).
    reflexivity.
Qed.

Lemma slice_chain_nth r cvs i c' v' : slice_ok r (zlen cvs) ->
  nth_error (slice_chain r cvs) i = Some (c', v') ->
  (i < Z.to_nat (range_count r))%nat /\
  exists c, nth_error cvs (Z.to_nat (range_val r (Z.of_nat i))) = Some (c, v') /\
            c' = CSlice c (range_val r (Z.of_nat i)).
Proof.
  intros Hok E.
  assert (Hi : (i < Z.to_nat (range_count r))%nat).
  { assert (i < length (slice_chain r cvs))%nat by (apply nth_error_Some; congruence).
    unfold slice_chain in *. now rewrite map_length, range_elems_length in H. }
  split; auto. unfold slice_chain in E. rewrite nth_error_map, range_elems_nth in E by auto.
  cbn [option_map] in E. destruct (slice_pos_ok r cvs i Hok Hi) as [_ Hp].
  destruct (nth_error cvs (Z.to_nat (range_val r (Z.of_nat i)))) as [[c v]|] eqn:E2.
  - inversion E; subst. eauto.
  - apply nth_error_None in E2. lia.
Qed.

Lemma slice_chain_length r cvs : length (slice_chain r cvs) = Z.to_nat (range_count r).
Proof. unfold slice_chain. now rewrite map_length, range_elems_length. Qed.

Theorem wb_slice f u cvs r : wb f u cvs -> it_len R u = OVal (zlen cvs) -> slice_ok r (zlen cvs) ->
  wb f (ISlice u r) (slice_chain r cvs).
Proof.
  intros H Hlen Hok. pose proof Hok as (Hb & Hs & Ht).
  pose proof (range_count_nonneg r) as Hc0.
  assert (Hn : r_step r <> 0) by (destruct Hb as (_ & _ & _ & ?); auto).
  constructor.
  - (* Slice_Iter_Init *)
    cbn [it_start slice_bounded repaired ostart]. rewrite range_init_ok by auto.
    rewrite slice_chain_at by auto.
    destruct (Z.ltb_spec 0 (range_count r)) as [Hc|Hc].
    2:{ replace (0 <? Z.to_nat (range_count r))%nat with false by (symmetry; apply Nat.ltb_ge; lia). reflexivity. }
    replace (0 <? Z.to_nat (range_count r))%nat with true by (symmetry; apply Nat.ltb_lt; lia).
    destruct (slice_pos_ok r cvs 0 Hok ltac:(lia)) as [Hp0 Hp1].
    assert (0 <= 0 < range_count r) as H0 by lia. pose proof (range_val_bounds r 0 Hb H0) as Hv.
    change (Z.of_nat 0) with 0 in *.
    destruct (Z.ltb_spec 0 (r_step r)) as [Hpos|Hneg].
    + rewrite (wb_init _ _ _ H). cbn [bind]. rewrite (step_n_fwd _ _ _ H) by (unfold zlen in *; lia).
      cbn [bind]. assert (range_val r 0 = r_start r) as -> by (unfold range_val; replace (0 <? r_step r) with true by (symmetry; apply Z.ltb_lt; lia); lia).
      reflexivity.
    + replace (r_step r <? 0) with true by (symmetry; apply Z.ltb_lt; lia).
      rewrite (wb_last _ _ _ H), Hlen. cbn [bind].
      assert (range_val r 0 = r_stop r - 1) as Hv0 by (unfold range_val; replace (0 <? r_step r) with false by (symmetry; apply Z.ltb_ge; lia); lia).
      rewrite (step_n_bwd _ _ _ H) by (unfold zlen in *; lia). cbn [bind]. rewrite Hv0.
      replace (length cvs - Z.to_nat (zlen cvs - r_stop r))%nat with (S (Z.to_nat (r_stop r - 1))) by (unfold zlen in *; lia).
      reflexivity.
  - (* Slice_Iter_Last *)
    cbn [it_start slice_bounded repaired ostart]. rewrite range_last_ok by auto.
    rewrite slice_chain_length.
    destruct (Z.ltb_spec 0 (range_count r)) as [Hc|Hc].
    2:{ replace (Z.to_nat (range_count r)) with 0%nat by lia. reflexivity. }
    destruct (Z.to_nat (range_count r)) as [|m] eqn:Em; [lia|]. cbn [cur_before].
    rewrite slice_chain_at, Em by auto.
    replace (m <? S m)%nat with true by (symmetry; apply Nat.ltb_lt; lia).
    replace (range_count r - 1) with (Z.of_nat m) by lia.
    destruct (slice_pos_ok r cvs m Hok ltac:(lia)) as [Hp0 Hp1].
    assert (0 <= Z.of_nat m < range_count r) as Hm by lia. pose proof (range_val_bounds r _ Hb Hm) as Hv.
    destruct (Z.ltb_spec 0 (r_step r)) as [Hpos|Hneg].
    + rewrite (wb_last _ _ _ H), Hlen. cbn [bind].
      rewrite (step_n_bwd _ _ _ H) by (unfold zlen in *; lia). cbn [bind].
      replace (length cvs - Z.to_nat (zlen cvs - 1 - range_val r (Z.of_nat m)))%nat
        with (S (Z.to_nat (range_val r (Z.of_nat m)))) by (unfold zlen in *; lia).
      reflexivity.
    + replace (r_step r <? 0) with true by (symmetry; apply Z.ltb_lt; lia).
      rewrite (wb_init _ _ _ H). cbn [bind]. rewrite (step_n_fwd _ _ _ H) by (unfold zlen in *; lia).
      reflexivity.
  - intros i c' v' E. destruct (slice_chain_nth _ _ _ _ _ Hok E) as (Hi & c & E2 & ->).
    cbn [cur_val]. apply (wb_val _ _ _ H _ _ _ E2).
  - (* Slice_Iter_Next *)
    intros i c' v' E. destruct (slice_chain_nth _ _ _ _ _ Hok E) as (Hi & c & E2 & ->).
    cbn [it_step slice_bounded repaired ostep]. rewrite range_next_ok by (auto; lia).
    rewrite slice_chain_at by auto.
    destruct (Z.ltb_spec (Z.of_nat i + 1) (range_count r)) as [Hn1|Hn1].
    2:{ replace (S i <? Z.to_nat (range_count r))%nat with false by (symmetry; apply Nat.ltb_ge; lia). reflexivity. }
    replace (S i <? Z.to_nat (range_count r))%nat with true by (symmetry; apply Nat.ltb_lt; lia).
    destruct (slice_pos_ok r cvs (S i) Hok ltac:(lia)) as [Hq0 Hq1].
    destruct (slice_pos_ok r cvs i Hok ltac:(lia)) as [Hp0 Hp1].
    replace (Z.of_nat i + 1) with (Z.of_nat (S i)) by lia.
    rewrite (slice_move_ok f u cvs H Fwd (r_step r) _ (Z.to_nat (range_val r (Z.of_nat (S i)))) c v' E2); auto.
    unfold range_val in *. lia.
  - (* Slice_Iter_Prev *)
    intros i c' v' E. destruct (slice_chain_nth _ _ _ _ _ Hok E) as (Hi & c & E2 & ->).
    cbn [it_step slice_bounded repaired ostep]. rewrite range_prev_ok by (auto; lia).
    destruct i as [|i]; [reflexivity|].
    replace (0 <? Z.of_nat (S i)) with true by (symmetry; apply Z.ltb_lt; lia).
    cbn [cur_before]. rewrite slice_chain_at by auto.
    replace (i <? Z.to_nat (range_count r))%nat with true by (symmetry; apply Nat.ltb_lt; lia).
    destruct (slice_pos_ok r cvs (S i) Hok ltac:(lia)) as [Hq0 Hq1].
    destruct (slice_pos_ok r cvs i Hok ltac:(lia)) as [Hp0 Hp1].
    replace (Z.of_nat (S i) - 1) with (Z.of_nat i) by lia.
    rewrite (slice_move_ok f u cvs H Bwd (r_step r) _ (Z.to_nat (range_val r (Z.of_nat i))) c v' E2); auto.
    unfold range_val in *. lia.
Qed.

(* ------------------------------------------------------------------ Zip over well-behaved iterables *)
Fixpoint mapM {A B} (g : A -> option B) (l : list A) : option (list B) :=
  match l with
  | [] => Some []
  | a :: r => match g a with None => None | Some b => option_map (cons b) (mapM g r) end
  end.

Definition zrow (css : list (list (cur * val))) (j : nat) := mapM (fun l => nth_error l j) css.
Definition zrow_before (css : list (list (cur * val))) (j : nat) :=
  mapM (fun l => match j with O => None | S k => nth_error l k end) css.

Fixpoint minlen {A} (css : list (list A)) : nat :=
  match css with
  | [] => 0
  | l :: r => match r with [] => length l | _ => Nat.min (length l) (minlen r) end
  end.

Definition zip_item (row : list (cur * val)) : cur * val := (CZip (map fst row), VTup (map snd row)).
Definition zip_chain (css : list (list (cur * val))) : list (cur * val) :=
  map (fun j => match zrow css j with Some row => zip_item row | None => (CPos 0, VInt 0) end)
      (seq 0 (minlen css)).

Lemma lt_minlen {A} (css : list (list A)) j : css <> [] -> ((j < minlen css)%nat <-> Forall (fun l => (j < length l)%nat) css).
Proof.
  induction css as [|l r IH]; [congruence|]. intros _. destruct r as [|l2 r].
  - simpl. split; [intros; constructor; auto | intros H; now inversion H].
  - assert (l2 :: r <> []) as Hne by congruence. specialize (IH Hne).
    change (minlen (l :: l2 :: r)) with (Nat.min (length l) (minlen (l2 :: r))). split.
    + intros H. constructor; [lia|]. apply IH. lia.
    + intros H. inversion H; subst. apply IH in H3. lia.
Qed.

Lemma mapM_some_iff {A B} (g : A -> option B) l :
  (exists row, mapM g l = Some row) <-> Forall (fun a => g a <> None) l.
Proof.
  induction l as [|a r IH]; simpl.
  - split; eauto.
  - destruct (g a) eqn:E.
    + split.
      * intros [row Hr]. constructor; [congruence|]. apply IH. destruct (mapM g r); [eauto|discriminate].
      * intros H. inversion H; subst. apply IH in H3 as [row ->]. simpl. eauto.
    + split; [intros [? ?]; discriminate | intros H; inversion H; congruence].
Qed.

Lemma zrow_some css j : css <> [] -> (j < minlen css)%nat -> exists row, zrow css j = Some row.
Proof.
  intros Hne Hj. apply mapM_some_iff. apply (lt_minlen css j Hne) in Hj.
  eapply Forall_impl; [|exact Hj]. intros l Hl. now apply nth_error_Some.
Qed.

Lemma zrow_none css j : css <> [] -> (minlen css <= j)%nat -> zrow css j = None.
Proof.
  intros Hne Hj. destruct (zrow css j) as [row|] eqn:E; auto. exfalso.
  assert (Forall (fun l => nth_error l j <> None) css) by (apply mapM_some_iff; eauto).
  assert (j < minlen css)%nat; [|lia]. apply lt_minlen; auto.
  eapply Forall_impl; [|exact H]. intros l' Hl. now apply nth_error_Some.
Qed.

Lemma zip_chain_nth css j : css <> [] ->
  nth_error (zip_chain css) j = option_map zip_item (zrow css j).
Proof.
  intros Hne. unfold zip_chain. rewrite nth_error_map.
  destruct (Nat.lt_ge_cases j (minlen css)) as [H|H].
  - rewrite seq_nth_error by auto. cbn [option_map Nat.add].
    destruct (zrow_some css j Hne H) as [row ->]. reflexivity.
  - rewrite zrow_none by auto.
    assert (nth_error (seq 0 (minlen css)) j = None) as -> by (apply nth_error_None; now rewrite seq_length).
    reflexivity.
Qed.

Lemma zip_chain_length css : length (zip_chain css) = minlen css.
Proof. unfold zip_chain. now rewrite map_length, seq_length. Qed.

Lemma zip_chain_at css j : css <> [] ->
  cur_at (zip_chain css) j = option_map (fun row => CZip (map fst row)) (zrow css j).
Proof.
  intros Hne. unfold cur_at. rewrite zip_chain_nth by auto. now destruct (zrow css j).
Qed.

Lemma Forall2_impl {A B} (P Q : A -> B -> Prop) l1 l2 :
  (forall a b, P a b -> Q a b) -> Forall2 P l1 l2 -> Forall2 Q l1 l2.
Proof. intros H. induction 1; constructor; auto. Qed.

(* the loops of Zip_Iter_Next/Prev, Zip_Iter_Init/Last and of the values Tuple, over arbitrary targets *)
Lemma zip_steps_gen stepf (src tgt : list (cur * val) -> option (cur * val)) us css :
  Forall2 (fun u l => forall cv, src l = Some cv -> stepf u (fst cv) = OVal (option_map fst (tgt l))) us css ->
  forall row acc, mapM src css = Some row ->
    zip_steps stepf us (map fst row) acc =
    OVal (option_map (fun row' => CZip (rev acc ++ map fst row')) (mapM tgt css)).
Proof.
  induction 1 as [|u l us css Hu Hrest IH]; intros row acc Hrow.
  - simpl in Hrow. inversion Hrow. simpl. now rewrite app_nil_r.
  - simpl in Hrow. destruct (src l) as [cv|] eqn:Es; [|discriminate].
    destruct (mapM src css) as [row'|] eqn:Er; [|discriminate]. inversion Hrow; subst.
    cbn [map zip_steps]. rewrite (Hu cv eq_refl). cbn [bind mapM].
    destruct (tgt l) as [[c2 v2]|]; cbn [option_map fst]; [|reflexivity].
    rewrite (IH row' (c2 :: acc) eq_refl). destruct (mapM tgt css); cbn [option_map]; [|reflexivity].
    cbn [rev map fst]. now rewrite <- app_assoc.
Qed.

Lemma zip_starts_gen startf (tgt : list (cur * val) -> option (cur * val)) us css :
  Forall2 (fun u l => startf u = OVal (option_map fst (tgt l))) us css ->
  forall acc, zip_starts startf us acc =
    OVal (option_map (fun row' => CZip (rev acc ++ map fst row')) (mapM tgt css)).
Proof.
  induction 1 as [|u l us css Hu Hrest IH]; intros acc.
  - simpl. now rewrite app_nil_r.
  - cbn [zip_starts]. rewrite Hu. cbn [bind mapM].
    destruct (tgt l) as [[c2 v2]|]; cbn [option_map fst]; [|reflexivity].
    rewrite (IH (c2 :: acc)). destruct (mapM tgt css); cbn [option_map]; [|reflexivity].
    cbn [rev map fst]. now rewrite <- app_assoc.
Qed.

Lemma zip_vals_gen valf (src : list (cur * val) -> option (cur * val)) us css :
  Forall2 (fun u l => forall cv, src l = Some cv -> valf u (fst cv) = OVal (snd cv)) us css ->
  forall row, mapM src css = Some row -> zip_vals valf us (map fst row) = OVal (map snd row).
Proof.
  induction 1 as [|u l us css Hu Hrest IH]; intros row Hrow.
  - simpl in Hrow. inversion Hrow. reflexivity.
  - simpl in Hrow. destruct (src l) as [cv|] eqn:Es; [|discriminate].
    destruct (mapM src css) as [row'|] eqn:Er; [|discriminate]. inversion Hrow; subst.
    cbn [map zip_vals]. rewrite (Hu cv eq_refl). cbn [bind]. now rewrite (IH row' eq_refl).
Qed.

(* Zip_Item_Len of an input answers the length of its chain *)
Definition item_len_of (f : nat) (u : iterable) : outcome Z :=
  if implements_len u then it_len R u
  else do c0 <- it_start R f Fwd u; count_loop (it_step R f Fwd u) f c0 0.

Lemma count_loop_ok f u cvs (H : wb f u cvs) : forall m i k n, (length cvs <= i + m)%nat -> (m <= k)%nat ->
  count_loop (it_step R f Fwd u) k (cur_at cvs i) n = OVal (n + Z.of_nat (length cvs - i)).
Proof.
  induction m; intros i k n Hi Hk.
  - assert (cur_at cvs i = None) as -> by (apply cur_at_none; lia).
    replace (length cvs - i)%nat with 0%nat by lia. destruct k; cbn [count_loop]; f_equal; lia.
  - destruct (nth_error cvs i) as [[c v]|] eqn:E.
    2:{ apply nth_error_None in E. assert (cur_at cvs i = None) as -> by (apply cur_at_none; lia).
        replace (length cvs - i)%nat with 0%nat by lia. destruct k; cbn [count_loop]; f_equal; lia. }
    assert (i < length cvs)%nat by (apply nth_error_Some; congruence).
    unfold cur_at at 1. rewrite E. destruct k as [|k]; [lia|]. cbn [option_map fst count_loop].
    rewrite (wb_next _ _ _ H _ _ _ E). cbn [bind]. rewrite IHm by lia. f_equal. lia.
Qed.

Lemma item_len_ok f u cvs : wb f u cvs -> (length cvs <= f)%nat ->
  (implements_len u = true -> it_len R u = OVal (zlen cvs)) -> item_len_of f u = OVal (zlen cvs).
Proof.
  intros H Hf Hl. unfold item_len_of. destruct (implements_len u); [auto|].
  rewrite (wb_init _ _ _ H). cbn [bind]. rewrite (count_loop_ok f u cvs H (length cvs) 0%nat f 0) by lia.
  unfold zlen. f_equal. lia.
Qed.

Lemma zip_minlen_ok f us (css : list (list (cur * val))) : Forall2 (fun u l => item_len_of f u = OVal (zlen l)) us css ->
  forall m, zip_minlen (item_len_of f) us m =
    OVal (match css, m with
          | [], None => 0 | [], Some x => x
          | _ :: _, None => Z.of_nat (minlen css)
          | _ :: _, Some x => Z.min x (Z.of_nat (minlen css))
          end).
Proof.
  induction 1 as [|u l us css Hu Hrest IH]; intros m.
  - destruct m; reflexivity.
  - cbn [zip_minlen]. rewrite Hu. cbn [bind]. rewrite IH. f_equal.
    unfold zlen. destruct css as [|l2 css]; destruct m as [x|]; cbn [minlen]; zb; try lia;
      try (change (minlen (l :: l2 :: css)) with (Nat.min (length l) (minlen (l2 :: css)))); lia.
Qed.

Theorem wb_zip f us css : us <> [] ->
  Forall2 (wb f) us css -> Forall2 (fun u l => item_len_of f u = OVal (zlen l)) us css ->
  wb f (IZip us) (zip_chain css).
Proof.
  intros Hne Hwb Hlen.
  assert (Hcne : css <> []) by (destruct Hwb; congruence).
  assert (Hstep : forall d, it_step R f d (IZip us) = fun c => match c with CZip cs => zip_steps (it_step R f d) us cs [] | _ => OCrash end).
  { intros d. destruct us; [congruence|]. reflexivity. }
  constructor.
  - (* Zip_Iter_Init *)
    destruct us as [|u0 us']; [congruence|]. cbn [it_start].
    rewrite (zip_starts_gen (it_start R f Fwd) (fun l => nth_error l 0) (u0 :: us') css).
    + cbn [rev app]. now rewrite zip_chain_at.
    + eapply Forall2_impl; [|exact Hwb]. intros u l H. apply (wb_init _ _ _ H).
  - (* Zip_Iter_Last *)
    destruct us as [|u0 us']; [congruence|]. cbn [it_start zip_last_aligned repaired].
    fold (item_len_of f). rewrite (zip_minlen_ok f _ css Hlen None). cbn [bind].
    destruct css as [|l0 css']; [congruence|].
    rewrite (zip_starts_gen _ (fun l => match minlen (l0 :: css') with O => None | S k => nth_error l k end) (u0 :: us') (l0 :: css')).
    + cbn [rev app]. rewrite zip_chain_length.
      destruct (minlen (l0 :: css')) as [|k] eqn:Em; cbn [cur_before].
      * reflexivity.
      * rewrite zip_chain_at by auto. reflexivity.
    + clear Hstep Hne Hcne.
      assert (Hall : Forall (fun l => (minlen (l0 :: css') <= length l)%nat) (l0 :: css')).
      { apply Forall_forall. intros l Hin. destruct (minlen (l0 :: css')) as [|k] eqn:Em; [lia|].
        assert (k < minlen (l0 :: css'))%nat as Hk by lia. apply lt_minlen in Hk; [|congruence].
        rewrite Forall_forall in Hk. specialize (Hk l Hin). lia. }
      revert Hall. generalize (minlen (l0 :: css')) as m. intros m Hall.
      revert Hlen Hall. induction Hwb as [|u l us css Hu Hrest IH]; intros Hlen Hall; constructor.
      * inversion Hlen; subst. inversion Hall; subst. unfold item_len_of in H2. rewrite H2. cbn [bind].
        rewrite (wb_last _ _ _ Hu). cbn [bind].
        rewrite (step_n_bwd _ _ _ Hu) by (unfold zlen; lia).
        replace (length l - Z.to_nat (zlen l - Z.of_nat m))%nat with m by (unfold zlen; lia).
        destruct m; reflexivity.
      * inversion Hlen; subst. inversion Hall; subst. now apply IH.
  - intros j c v E. rewrite zip_chain_nth in E by auto.
    destruct (zrow css j) as [row|] eqn:Er; inversion E; subst. cbn [cur_val].
    rewrite (zip_vals_gen cur_val (fun l => nth_error l j) us css) with (row := row); auto.
    eapply Forall2_impl; [|exact Hwb]. intros u l H cv Hcv. destruct cv. apply (wb_val _ _ _ H _ _ _ Hcv).
  - (* Zip_Iter_Next *)
    intros j c v E. rewrite zip_chain_nth in E by auto.
    destruct (zrow css j) as [row|] eqn:Er; inversion E; subst. rewrite Hstep.
    rewrite (zip_steps_gen _ (fun l => nth_error l j) (fun l => nth_error l (S j)) us css) with (row := row); auto.
    + cbn [rev app]. now rewrite zip_chain_at.
    + eapply Forall2_impl; [|exact Hwb]. intros u l H cv Hcv. destruct cv. apply (wb_next _ _ _ H _ _ _ Hcv).
  - (* Zip_Iter_Prev *)
    intros j c v E. rewrite zip_chain_nth in E by auto.
    destruct (zrow css j) as [row|] eqn:Er; inversion E; subst. rewrite Hstep.
    rewrite (zip_steps_gen _ (fun l => nth_error l j) (fun l => match j with O => None | S k => nth_error l k end) us css) with (row := row); auto.
    + cbn [rev app]. destruct j as [|k]; cbn [cur_before].
      * destruct css; [congruence|]. reflexivity.
      * now rewrite zip_chain_at.
    + eapply Forall2_impl; [|exact Hwb]. intros u l H cv Hcv. destruct cv.
      cbn [fst]. rewrite (wb_prev _ _ _ H _ _ _ Hcv). destruct j; reflexivity.
Qed.

Lemma wb_zip_nil f : wb f (IZip []) [].
Proof. constructor; try reflexivity; intros [|i] c v E; discriminate. Qed.

(* ------------------------------------------------------------------ len and get agree with the chain *)
Definition dv : val := VInt 0.
Definition lg (u : iterable) (vs : list val) : Prop :=
  it_len R u = OVal (zlen vs) /\
  forall i, (i < length vs)%nat -> it_get R u (Z.of_nat i) = OVal (nth i vs dv).

Lemma seq_get_nat xs i : (i < length xs)%nat -> seq_get xs (Z.of_nat i) = OVal (nth i xs dv).
Proof.
  intros H. unfold seq_get. replace (Z.of_nat i <? 0) with false by (symmetry; apply Z.ltb_ge; lia).
  rewrite znth_nat. destruct (nth_error xs i) eqn:E.
  - now rewrite (nth_error_nth _ _ _ E).
  - apply nth_error_None in E. lia.
Qed.

Lemma lg_array xs : lg (IArray xs) xs.
Proof. split; [reflexivity|]. intros i H. now apply seq_get_nat. Qed.
Lemma lg_list xs : lg (IList xs) xs.
Proof. split; [reflexivity|]. intros i H. now apply seq_get_nat. Qed.
Lemma lg_tuple items : lg (ITuple items) (map snd items).
Proof.
  split; [cbn [it_len]; unfold zlen; now rewrite map_length|]. intros i H. now apply seq_get_nat.
Qed.

Lemma lg_range r : in_box r -> lg (IRange r) (map VInt (range_elems r)).
Proof.
  intros Hb. pose proof (range_count_nonneg r) as Hc0. pose proof (range_count_bound r Hb) as [Hc _].
  split.
  - cbn [it_len]. rewrite range_len_ok by auto. unfold zlen. rewrite map_length, range_elems_length. f_equal. lia.
  - intros i Hi. rewrite map_length, range_elems_length in Hi. cbn [it_get].
    rewrite range_get_ok by (auto; unfold two63 in *; lia). cbv zeta.
    replace (Z.of_nat i <? 0) with false by (symmetry; apply Z.ltb_ge; lia).
    replace (0 <=? Z.of_nat i) with true by (symmetry; apply Z.leb_le; lia).
    replace (Z.of_nat i <? range_count r) with true by (symmetry; apply Z.ltb_lt; lia).
    cbn [andb bind]. f_equal.
    assert (nth_error (map VInt (range_elems r)) i = Some (VInt (range_val r (Z.of_nat i)))) as E
      by (now rewrite nth_error_map, range_elems_nth).
    now rewrite (nth_error_nth _ _ _ E).
Qed.

Lemma lg_map g u vs : lg u vs -> lg (IMap g u) (map g vs).
Proof.
  intros [Hl Hg]. split.
  - cbn [it_len]. rewrite Hl. unfold zlen. now rewrite map_length.
  - intros i Hi. rewrite map_length in Hi. cbn [it_get]. rewrite Hg by auto. cbn [bind]. f_equal.
    assert (nth_error (map g vs) i = Some (g (nth i vs dv))) as E.
    { rewrite nth_error_map. destruct (nth_error vs i) eqn:E; [now rewrite (nth_error_nth _ _ _ E)|].
      apply nth_error_None in E. lia. }
    now rewrite (nth_error_nth _ _ _ E).
Qed.

(* the items a slice selects: those at the positions its range enumerates *)
Definition slice_sel (r : rng) (vs : list val) : list val :=
  map (fun p => nth (Z.to_nat p) vs dv) (range_elems r).

Lemma lg_slice u vs r : lg u vs -> slice_ok r (zlen vs) -> lg (ISlice u r) (slice_sel r vs).
Proof.
  intros [Hl Hg] (Hb & Hs & Ht). pose proof (range_count_nonneg r) as Hc0.
  pose proof (range_count_bound r Hb) as [Hc _]. split.
  - cbn [it_len]. rewrite range_len_ok by auto. unfold zlen, slice_sel. rewrite map_length, range_elems_length. f_equal. lia.
  - intros i Hi. unfold slice_sel in *. rewrite map_length, range_elems_length in Hi. cbn [it_get].
    rewrite range_get_ok by (auto; unfold two63 in *; lia). cbv zeta.
    replace (Z.of_nat i <? 0) with false by (symmetry; apply Z.ltb_ge; lia).
    replace (0 <=? Z.of_nat i) with true by (symmetry; apply Z.leb_le; lia).
    replace (Z.of_nat i <? range_count r) with true by (symmetry; apply Z.ltb_lt; lia).
    cbn [andb bind].
    assert (0 <= Z.of_nat i < range_count r) as Hi' by lia.
    pose proof (range_val_bounds r _ Hb Hi') as Hv.
    replace (range_val r (Z.of_nat i)) with (Z.of_nat (Z.to_nat (range_val r (Z.of_nat i)))) at 1 by lia.
    rewrite Hg by (unfold zlen in *; lia). f_equal.
    assert (nth_error (map (fun p => nth (Z.to_nat p) vs dv) (range_elems r)) i =
            Some (nth (Z.to_nat (range_val r (Z.of_nat i))) vs dv)) as E
      by (now rewrite nth_error_map, range_elems_nth).
    now rewrite (nth_error_nth _ _ _ E).
Qed.

Lemma slice_chain_snd r cvs : slice_ok r (zlen cvs) ->
  map snd (slice_chain r cvs) = slice_sel r (map snd cvs).
Proof.
  intros Hok. unfold slice_chain, slice_sel. rewrite map_map. apply map_ext_in.
  intros p Hp. apply In_nth_error in Hp as [i Hi].
  assert (i < Z.to_nat (range_count r))%nat as Hlt.
  { rewrite <- range_elems_length. apply nth_error_Some. congruence. }
  rewrite range_elems_nth in Hi by auto. inversion Hi; subst.
  destruct (slice_pos_ok r cvs i Hok Hlt) as [_ Hq].
  destruct (nth_error cvs (Z.to_nat (range_val r (Z.of_nat i)))) as [[c v]|] eqn:E.
  - cbn [snd]. symmetry. apply nth_error_nth. now rewrite nth_error_map, E.
  - apply nth_error_None in E. lia.
Qed.

(* ------------------------------------------------------------------ slice_stack: Slice_Arg clamps into [0, n] *)
Definition norm_arg (n a : Z) : Z := Z.max 0 (Z.min n (if a <? 0 then n + a else a)).
Definition slice_range (n : Z) (args : list (option Z)) : rng :=
  let st a := match a with None => 0 | Some x => norm_arg n x end in
  let sp b := match b with None => n | Some x => norm_arg n x end in
  match args with
  | [] => mkRng 0 n 1
  | [b] => mkRng 0 (sp b) 1
  | [a; b] => mkRng (st a) (sp b) 1
  | a :: b :: c :: _ => mkRng (st a) (sp b) (match c with None => 1 | Some x => x end)
  end.

Lemma slice_arg_clamp part n a : (part <= 1)%nat -> 0 <= n < box -> - box < a < box ->
  slice_arg R part n (Some a) = norm_arg n a.
Proof.
  intros Hp Hn Ha. unfold slice_arg, norm_arg. cbn [slice_arg_signed repaired].
  destruct part as [|[|part]]; [| |lia]; unfold box in *.
  all: destruct (Z.ltb_spec a 0); [rewrite wrap64_id by (unfold two63; lia)|]; zb; try lia;
    repeat match goal with H : context [?x <? ?y] |- _ => destruct (Z.ltb_spec x y) end; lia.
Qed.

Lemma mk_slice_ok u n args : it_len R u = OVal n -> 0 <= n < box -> (length args <= 3)%nat ->
  Forall (fun a => match a with Some x => - box < x < box | None => True end) args ->
  mk_slice R u args = OVal (ISlice u (slice_range n args)).
Proof.
  intros Hl Hn Hlen Hall. unfold mk_slice. rewrite Hl. cbn [bind].
  destruct args as [|a [|b [|c [|d rest]]]]; cbn [length] in Hlen; try lia; cbn [slice_range].
  - reflexivity.
  - inversion Hall; subst. destruct a; [rewrite slice_arg_clamp by auto|]; reflexivity.
  - inversion Hall as [|? ? Ha Hr]; subst. inversion Hr as [|? ? Hb _]; subst.
    destruct a; destruct b; repeat rewrite slice_arg_clamp by auto; reflexivity.
  - inversion Hall as [|? ? Ha Hr]; subst. inversion Hr as [|? ? Hb Hr2]; subst.
    destruct a; destruct b; destruct c; repeat rewrite slice_arg_clamp by auto; reflexivity.
Qed.

Lemma slice_range_ok n args : 0 <= n < box ->
  match args with
  | _ :: _ :: Some c :: _ => - box < c < box /\ c <> 0
  | _ => True
  end -> slice_ok (slice_range n args) n.
Proof.
  intros Hn Hc. unfold slice_ok, in_box, slice_range, norm_arg.
  destruct args as [|a [|b [|c rest]]]; cbn [r_start r_stop r_step].
  1-3: try destruct a; try destruct b; unfold box in *; zb; lia.
  destruct a; destruct b; destruct c; unfold box in *; zb; lia.
Qed.

(* ------------------------------------------------------------------ the pre-repair variants are refuted *)
Definition pre_D10 : rules := mkRules true false true true true true true true true.
Definition pre_D11len : rules := mkRules true true false true true true true true true.
Definition pre_D11last : rules := mkRules true true true false true true true true true.
Definition pre_D11get : rules := mkRules true true true true false true true true true.
Definition pre_D12arg : rules := mkRules true true true true true false true true true.
Definition pre_D12walk : rules := mkRules true true true true true true false true true.
Definition pre_F4 : rules := mkRules true true true true true true true false true.
Definition vi (l : list Z) := map VInt l.

Lemma tuple_last_refuted : it_start pre_D10 5 Bwd (ITuple []) = OCrash.
Proof. reflexivity. Qed.

Lemma range_len_refuted :
  range_len pre_D11len (mkRng 0 0 2) = 1 /\ range_len pre_D11len (mkRng 5 0 1) = -5 /\
  fst (walk pre_D11len 5 Fwd 9 (IRange (mkRng 0 0 2))) = [].
Proof. vm_compute. auto. Qed.

Lemma range_last_refuted :
  walk pre_D11last 5 Fwd 9 (IRange (mkRng 0 10 4)) = (vi [0; 4; 8], WDone) /\
  walk pre_D11last 5 Bwd 9 (IRange (mkRng 0 10 4)) = (vi [9; 5; 1], WDone).
Proof. vm_compute. auto. Qed.

Lemma range_get_refuted :
  range_get pre_D11get (mkRng 0 10 1) (-11) = OVal (-1) /\
  range_get pre_D11get (mkRng 0 10 2) 9223372036854775807 = OVal (-2).
Proof. vm_compute. auto. Qed.

Lemma slice_arg_refuted : slice_arg pre_D12arg 0 3 (Some (-100)) = 3.
Proof. vm_compute. reflexivity. Qed.

Lemma slice_walk_refuted :
  walk pre_D12walk 5 Fwd 9 (ISlice (IArray (vi [1; 2; 3; 4; 5; 6])) (mkRng 0 2 1)) = (vi [1; 2; 3; 4; 5; 6], WDone) /\
  snd (walk pre_D12walk 5 Fwd 9 (ISlice (IArray (vi [1; 2; 3; 4; 5; 6])) (mkRng 0 6 4))) = WCrash.
Proof. vm_compute. auto. Qed.

Lemma zip_last_refuted :
  walk pre_F4 5 Bwd 9 (IZip [IArray (vi [1; 2; 3]); IList (vi [7; 8])]) =
  ([VTup (vi [3; 8]); VTup (vi [2; 7])], WDone).
Proof. vm_compute. reflexivity. Qed.

(* F3 (open finding): a Tuple holding the same object twice never finishes its forward walk *)
Lemma tuple_repeated_pointer_refuted : forall f cut x y z,
  snd (walk R f Fwd cut (ITuple [(0%nat, x); (1%nat, y); (0%nat, x); (2%nat, z)])) = WRunaway.
Proof.
  intros f cut x y z. unfold walk. cbn [it_start tup_start].
  set (t := ITuple [(0%nat, x); (1%nat, y); (0%nat, x); (2%nat, z)]).
  assert (forall cut acc, snd (walk_loop R f Fwd t cut (Some (CObj 0)) acc) = WRunaway /\
                          snd (walk_loop R f Fwd t cut (Some (CObj 1)) acc) = WRunaway) as H.
  { induction cut0 as [|c IH]; intros acc; [split; reflexivity|]. split.
    - cbn [walk_loop]. change (cur_val t (CObj 0)) with (OVal x).
      change (it_step R f Fwd t (CObj 0)) with (@OVal (option cur) (Some (CObj 1))). apply IH.
    - cbn [walk_loop]. change (cur_val t (CObj 1)) with (OVal y).
      change (it_step R f Fwd t (CObj 1)) with (@OVal (option cur) (Some (CObj 0))). apply IH. }
  apply H.
Qed.

(* ------------------------------------------------------------------ never outside, whatever the cut-off *)
Lemma walk_loop_safe f d u cvs (H : wb f u cvs) :
  forall cut i acc,
    let c := match d with Fwd => cur_at cvs i | Bwd => cur_before cvs i end in
    (match d with Fwd => True | Bwd => (i <= length cvs)%nat end) ->
    snd (walk_loop R f d u cut c acc) = WDone \/ snd (walk_loop R f d u cut c acc) = WRunaway.
Proof.
  induction cut; intros i acc c Hi; subst c.
  - destruct d; [destruct (cur_at cvs i) | destruct (cur_before cvs i)]; simpl; auto.
  - destruct d.
    + destruct (nth_error cvs i) as [[c v]|] eqn:E.
      * unfold cur_at. rewrite E. cbn [option_map fst walk_loop].
        rewrite (wb_val _ _ _ H _ _ _ E), (wb_next _ _ _ H _ _ _ E). apply (IHcut (S i)). exact I.
      * unfold cur_at. rewrite E. simpl. auto.
    + destruct i as [|i]; [simpl; auto|]. cbn [cur_before].
      destruct (nth_error cvs i) as [[c v]|] eqn:E.
      * unfold cur_at. rewrite E. cbn [option_map fst walk_loop].
        rewrite (wb_val _ _ _ H _ _ _ E), (wb_prev _ _ _ H _ _ _ E). apply (IHcut i). lia.
      * apply nth_error_None in E. lia.
Qed.

Theorem walk_safe f u cvs d cut : wb f u cvs ->
  snd (walk R f d cut u) = WDone \/ snd (walk R f d cut u) = WRunaway.
Proof.
  intros H. unfold walk. destruct d.
  - rewrite (wb_init _ _ _ H). apply (walk_loop_safe f Fwd u cvs H cut 0%nat []). exact I.
  - rewrite (wb_last _ _ _ H). apply (walk_loop_safe f Bwd u cvs H cut (length cvs) []). simpl. lia.
Qed.

(* ------------------------------------------------------------------ summaries used by Properties_C11.v *)
Definition iterates (f : nat) (u : iterable) (vs : list val) : Prop :=
  forall cut, (length vs < cut)%nat ->
    walk R f Fwd cut u = (vs, WDone) /\ walk R f Bwd cut u = (rev vs, WDone).

Lemma wb_iterates f u cvs : wb f u cvs -> iterates f u (map snd cvs).
Proof.
  intros H cut Hc. rewrite map_length in Hc. split; [now apply walk_fwd | now apply walk_bwd].
Qed.

Lemma array_summary f xs : iterates f (IArray xs) xs /\ lg (IArray xs) xs.
Proof.
  split; [|apply lg_array]. pose proof (wb_iterates _ _ _ (wb_array f xs)) as H.
  now rewrite chain_from_snd in H.
Qed.
Lemma list_summary f xs : iterates f (IList xs) xs /\ lg (IList xs) xs.
Proof.
  split; [|apply lg_list]. pose proof (wb_iterates _ _ _ (wb_list f xs)) as H.
  now rewrite chain_from_snd in H.
Qed.
Lemma range_summary f r : in_box r ->
  iterates f (IRange r) (map VInt (range_elems r)) /\ lg (IRange r) (map VInt (range_elems r)) /\
  length (range_elems r) = Z.to_nat (range_count r) /\
  (forall i, (i < Z.to_nat (range_count r))%nat -> nth_error (range_elems r) i = Some (range_val r (Z.of_nat i))) /\
  (forall i, 0 <= i < range_count r -> r_start r <= range_val r i < r_stop r) /\
  (forall i, range_count r <= i ->
     if 0 <? r_step r then r_stop r <= range_val r i else range_val r i < r_start r).
Proof.
  intros Hb. split; [|split; [|split; [|split; [|split]]]].
  - pose proof (wb_iterates _ _ _ (wb_range f r Hb)) as H. now rewrite range_chain_snd in H.
  - now apply lg_range.
  - apply range_elems_length.
  - apply range_elems_nth.
  - intros i Hi. now apply range_val_bounds.
  - intros i Hi. pose proof (range_count_nonneg r).
    pose proof (range_in_iff r i Hb ltac:(lia)) as Hiff.
    destruct (Z.ltb_spec 0 (r_step r)); lia.
Qed.

Lemma map_summary f u cvs g : wb f u cvs ->
  wb f (IMap g u) (map_chain g cvs) /\ map snd (map_chain g cvs) = map g (map snd cvs).
Proof. intros H. split; [now apply wb_map | apply map_chain_snd]. Qed.

Lemma filter_summary f u cvs p : wb f u cvs -> (length cvs <= f)%nat ->
  wb f (IFilter p u) (filter (acc_of p) cvs) /\
  map snd (filter (acc_of p) cvs) = filter (fun v => is_some (p v)) (map snd cvs).
Proof. intros H Hf. split; [now apply wb_filter | apply filter_chain_snd]. Qed.

Lemma slice_summary f u cvs r : wb f u cvs -> it_len R u = OVal (zlen cvs) -> slice_ok r (zlen cvs) ->
  wb f (ISlice u r) (slice_chain r cvs) /\
  map snd (slice_chain r cvs) = slice_sel r (map snd cvs) /\
  it_len R (ISlice u r) = OVal (zlen (slice_chain r cvs)).
Proof.
  intros H Hl Hok. split; [now apply wb_slice|]. split; [now apply slice_chain_snd|].
  cbn [it_len]. destruct Hok as (Hb & _). rewrite range_len_ok by auto.
  unfold zlen. rewrite slice_chain_length. pose proof (range_count_nonneg r). f_equal. lia.
Qed.

Lemma zip_row_vals css j row : zrow css j = Some row ->
  map snd row = map (fun l => nth j (map snd l) dv) css.
Proof.
  unfold zrow. revert row. induction css as [|l r IH]; intros row H; simpl in H.
  - now inversion H.
  - destruct (nth_error l j) as [cv|] eqn:E; [|discriminate].
    destruct (mapM (fun l0 => nth_error l0 j) r) as [row'|] eqn:Er; [|discriminate].
    inversion H; subst. cbn [map snd]. f_equal; [|now apply IH].
    symmetry. apply nth_error_nth. now rewrite nth_error_map, E.
Qed.

Lemma zip_summary f us css : us <> [] ->
  Forall2 (wb f) us css -> Forall2 (fun u l => item_len_of f u = OVal (zlen l)) us css ->
  wb f (IZip us) (zip_chain css) /\
  length (zip_chain css) = minlen css /\
  (forall j, (j < minlen css)%nat ->
     nth_error (map snd (zip_chain css)) j = Some (VTup (map (fun l => nth j (map snd l) dv) css))).
Proof.
  intros Hne Hwb Hlen. split; [now apply wb_zip|]. split; [apply zip_chain_length|].
  assert (Hcne : css <> []) by (destruct Hwb; congruence).
  intros j Hj. rewrite nth_error_map, zip_chain_nth by auto.
  destruct (zrow_some css j Hcne Hj) as [row Hr]. rewrite Hr. cbn [option_map zip_item snd].
  now rewrite (zip_row_vals _ _ _ Hr).
Qed.

(* depth 3: filter (map (slice u)) over ANY well-behaved u, e.g. another view *)
Lemma nested_views f u cvs r g p : wb f u cvs -> it_len R u = OVal (zlen cvs) -> slice_ok r (zlen cvs) ->
  (length cvs <= f)%nat ->
  iterates f (IFilter p (IMap g (ISlice u r))) (filter (fun v => is_some (p v)) (map g (slice_sel r (map snd cvs)))).
Proof.
  intros H Hl Hok Hf.
  pose proof (wb_slice f u cvs r H Hl Hok) as H1.
  pose proof (wb_map f _ _ g H1) as H2.
  assert (length (map_chain g (slice_chain r cvs)) <= f)%nat as Hf2.
  { unfold map_chain. rewrite map_length, slice_chain_length.
    destruct Hok as (Hb & Hs & Ht). pose proof (range_count_nonneg r).
    destruct (Z.ltb_spec 0 (range_count r)); [|lia].
    assert (0 <= range_count r - 1 < range_count r) as Hi by lia.
    pose proof (range_val_bounds r _ Hb Hi) as Hv.
    (* count <= stop - start <= n *)
    pose proof (range_count_bound r Hb) as [_ Hm]. specialize (Hm ltac:(lia)).
    destruct Hb as (_ & _ & _ & Hn). unfold zlen in *.
    assert (range_count r - 1 <= r_stop r - 1 - r_start r) by nia. lia. }
  pose proof (wb_filter f _ _ p H2 Hf2) as H3.
  pose proof (wb_iterates _ _ _ H3) as H4.
  now rewrite filter_chain_snd, map_chain_snd, slice_chain_snd in H4.
Qed.

(* ------------------------------------------------------------------ Tuple of distinct objects *)
Definition tup_chain (items : list (nat * val)) : list (cur * val) :=
  map (fun p => (CObj (fst p), snd p)) items.

Lemma tup_next_ok (items : list (nat * val)) : NoDup (map fst items) -> forall i id v, nth_error items i = Some (id, v) ->
  tup_next items id = option_map (fun p => CObj (fst p)) (nth_error items (S i)).
Proof.
  induction items as [|[id0 v0] rest IH]; intros Hnd i id v E; [destruct i; discriminate|].
  inversion Hnd as [|? ? Hnotin Hnd']; subst. cbn [tup_next]. destruct i as [|i]; simpl in E.
  - inversion E; subst. rewrite Nat.eqb_refl. destruct rest as [|[id' v'] r]; reflexivity.
  - assert (In id (map fst rest)) as Hin.
    { apply nth_error_In in E. change id with (fst (id, v)). now apply in_map. }
    destruct (Nat.eqb_spec id0 id) as [->|Hne]; [contradiction|].
    now rewrite (IH Hnd' i id v E).
Qed.

Lemma tup_prev_from_ok (items : list (nat * val)) : NoDup (map fst items) -> forall prev i id v, nth_error items i = Some (id, v) ->
  tup_prev_from prev items id = Some (CObj (nth i (prev :: map fst items) 0%nat)).
Proof.
  induction items as [|[id0 v0] rest IH]; intros Hnd prev i id v E; [destruct i; discriminate|].
  inversion Hnd as [|? ? Hnotin Hnd']; subst. cbn [tup_prev_from]. destruct i as [|i]; simpl in E.
  - inversion E; subst. now rewrite Nat.eqb_refl.
  - assert (In id (map fst rest)) as Hin.
    { apply nth_error_In in E. change id with (fst (id, v)). now apply in_map. }
    destruct (Nat.eqb_spec id0 id) as [->|Hne]; [contradiction|].
    rewrite (IH Hnd' id0 i id v E). reflexivity.
Qed.

Lemma tup_find_ok (items : list (nat * val)) : NoDup (map fst items) -> forall i id v, nth_error items i = Some (id, v) ->
  find (fun p => Nat.eqb (fst p) id) items = Some (id, v).
Proof.
  induction items as [|[id0 v0] rest IH]; intros Hnd i id v E; [destruct i; discriminate|].
  inversion Hnd as [|? ? Hnotin Hnd']; subst. cbn [find fst]. destruct i as [|i]; simpl in E.
  - inversion E; subst. now rewrite Nat.eqb_refl.
  - assert (In id (map fst rest)) as Hin.
    { apply nth_error_In in E. change id with (fst (id, v)). now apply in_map. }
    destruct (Nat.eqb_spec id0 id) as [->|Hne]; [contradiction|]. now apply (IH Hnd' i).
Qed.

Lemma tup_chain_nth items i c v : nth_error (tup_chain items) i = Some (c, v) ->
  exists id, c = CObj id /\ nth_error items i = Some (id, v).
Proof.
  unfold tup_chain. rewrite nth_error_map. destruct (nth_error items i) as [[id v']|]; simpl; intros H; inversion H.
  eauto.
Qed.

Lemma tup_chain_at items i : cur_at (tup_chain items) i = option_map (fun p => CObj (fst p)) (nth_error items i).
Proof. unfold cur_at, tup_chain. rewrite nth_error_map. now destruct (nth_error items i). Qed.

Theorem wb_tuple f (items : list (nat * val)) : NoDup (map fst items) -> wb f (ITuple items) (tup_chain items).
Proof.
  intros Hnd. constructor.
  - cbn [it_start tup_start]. rewrite tup_chain_at. destruct items as [|[id v] r]; reflexivity.
  - cbn [it_start tup_start tuple_last_guard repaired]. unfold tup_chain at 2. rewrite map_length.
    destruct (rev items) as [|[id v] r] eqn:Er.
    + assert (items = []) as -> by (apply (f_equal (@rev _)) in Er; now rewrite rev_involutive in Er). reflexivity.
    + assert (items = rev r ++ [(id, v)]) as Hi.
      { apply (f_equal (@rev _)) in Er. rewrite rev_involutive in Er. exact Er. }
      rewrite Hi at 2. rewrite app_length, Nat.add_1_r. cbn [length cur_before]. rewrite tup_chain_at.
      rewrite Hi. rewrite nth_error_app2 by lia. now rewrite Nat.sub_diag.
  - intros i c v E. apply tup_chain_nth in E as (id & -> & E). cbn [cur_val].
    now rewrite (tup_find_ok items Hnd i id v E).
  - intros i c v E. apply tup_chain_nth in E as (id & -> & E). cbn [it_step].
    now rewrite (tup_next_ok items Hnd i id v E), tup_chain_at.
  - intros i c v E. apply tup_chain_nth in E as (id & -> & E). cbn [it_step]. f_equal.
    destruct items as [|[id0 v0] rest]; [destruct i; discriminate|].
    inversion Hnd as [|? ? Hnotin Hnd']; subst. cbn [tup_prev]. destruct i as [|i]; simpl in E.
    + inversion E; subst. now rewrite Nat.eqb_refl.
    + assert (In id (map fst rest)) as Hin.
      { apply nth_error_In in E. change id with (fst (id, v)). now apply in_map. }
      destruct (Nat.eqb_spec id0 id) as [->|Hne]; [contradiction|].
      rewrite (tup_prev_from_ok rest Hnd' id0 i id v E). cbn [cur_before]. rewrite tup_chain_at.
      destruct i as [|j]; [reflexivity|]. cbn [nth nth_error].
      assert (j < length rest)%nat by (assert (S j < length rest)%nat by (apply nth_error_Some; congruence); lia).
      destruct (nth_error rest j) as [[idj vj]|] eqn:Ej; [|apply nth_error_None in Ej; lia].
      cbn [option_map fst]. do 2 f_equal.
      change idj with (fst (idj, vj)). apply nth_error_nth. now rewrite nth_error_map, Ej.
Qed.

Lemma tuple_summary f (items : list (nat * val)) : NoDup (map fst items) ->
  iterates f (ITuple items) (map snd items) /\ lg (ITuple items) (map snd items).
Proof.
  intros Hnd. split; [|apply lg_tuple]. pose proof (wb_iterates _ _ _ (wb_tuple f items Hnd)) as H.
  unfold tup_chain in H. rewrite map_map in H. exact H.
Qed.

(* ------------------------------------------------------------------ Table: the occupied slots in slot order *)
Fixpoint tab_chain_from (i : nat) (slots : list (option val)) : list (cur * val) :=
  match slots with
  | [] => []
  | Some k :: r => (CPos (Z.of_nat i), k) :: tab_chain_from (S i) r
  | None :: r => tab_chain_from (S i) r
  end.

Lemma tab_chain_app s t : forall i,
  tab_chain_from i (s ++ t) = tab_chain_from i s ++ tab_chain_from (i + length s) t.
Proof.
  induction s as [|[k|] s IH]; intros i; simpl.
  - now rewrite Nat.add_0_r.
  - rewrite IH. do 3 f_equal. lia.
  - rewrite IH. do 2 f_equal. lia.
Qed.

Lemma tab_chain_length slots : forall i, Z.of_nat (length (tab_chain_from i slots)) = nitems_of slots.
Proof.
  unfold nitems_of, zlen. induction slots as [|[k|] r IH]; intros i; cbn [tab_chain_from filter length]; auto.
  rewrite !Nat2Z.inj_succ. f_equal. apply IH.
Qed.

Lemma tab_first_ok slots : forall i, tab_first slots (Z.of_nat i) = cur_at (tab_chain_from i slots) 0.
Proof.
  induction slots as [|[k|] r IH]; intros i; simpl; auto.
  replace (Z.of_nat i + 1) with (Z.of_nat (S i)) by lia. apply IH.
Qed.

Lemma tab_first_shift slots : forall j,
  tab_first slots j = match tab_first slots 0 with Some (CPos k) => Some (CPos (j + k)) | _ => None end.
Proof.
  induction slots as [|[k|] r IH]; intros j; simpl; auto.
  - do 2 f_equal. lia.
  - rewrite (IH (j + 1)), (IH 1). destruct (tab_first r 0) as [[k| | | | | |]|]; auto. do 2 f_equal. lia.
Qed.

Lemma tab_chain_split slots : forall i m c k, nth_error (tab_chain_from i slots) m = Some (c, k) ->
  exists p, c = CPos (Z.of_nat (i + p)) /\ nth_error slots p = Some (Some k) /\
            tab_chain_from (S (i + p)) (skipn (S p) slots) = skipn (S m) (tab_chain_from i slots) /\
            tab_chain_from i (firstn p slots) = firstn m (tab_chain_from i slots).
Proof.
  induction slots as [|[k0|] r IH]; intros i m c k E; simpl in E.
  - destruct m; discriminate.
  - destruct m as [|m]; simpl in E.
    + inversion E; subst. exists 0%nat. rewrite Nat.add_0_r. simpl. auto.
    + destruct (IH (S i) m c k E) as (p & -> & E1 & E2 & E3). exists (S p).
      replace (i + S p)%nat with (S i + p)%nat by lia. simpl. repeat split; auto. now f_equal.
  - destruct (IH (S i) m c k E) as (p & -> & E1 & E2 & E3). exists (S p).
    replace (i + S p)%nat with (S i + p)%nat by lia. simpl. auto.
Qed.

Lemma occupied_nat slots j : occupied slots (Z.of_nat j) =
  match nth_error slots j with Some (Some _) => OVal true | Some None => OVal false | None => OCrash end.
Proof. unfold occupied. now rewrite znth_nat. Qed.

Lemma tab_scan_fwd slots : forall fuel j, (length slots - j < fuel)%nat -> (j <= length slots)%nat ->
  tab_scan R fuel Fwd slots (Z.of_nat j) = OVal (cur_at (tab_chain_from j (skipn j slots)) 0).
Proof.
  induction fuel; intros j Hf Hj; [lia|]. cbn [tab_scan table_next_strict repaired]. unfold zlen.
  destruct (Z.ltb_spec (Z.of_nat (length slots) - 1) (Z.of_nat j)).
  - rewrite skipn_all2 by lia. reflexivity.
  - rewrite occupied_nat. destruct (nth_error slots j) as [x|] eqn:E; [|apply nth_error_None in E; lia].
    rewrite (skipn_cons_nth _ _ _ E). destruct x as [k|]; cbn [bind tab_chain_from]; [reflexivity|].
    replace (Z.of_nat j + 1) with (Z.of_nat (S j)) by lia. apply IHfuel; lia.
Qed.

Lemma tab_scan_bwd slots : forall j fuel, (j < fuel)%nat -> (j <= length slots)%nat ->
  tab_scan R fuel Bwd slots (Z.of_nat j - 1) =
  OVal (let l := tab_chain_from 0 (firstn j slots) in cur_before l (length l)).
Proof.
  induction j; intros fuel Hf Hj; (destruct fuel; [lia|]); cbn [tab_scan].
  - reflexivity.
  - replace (Z.of_nat (S j) - 1) with (Z.of_nat j) by lia.
    replace (Z.of_nat j <? 0) with false by (symmetry; apply Z.ltb_ge; lia).
    rewrite occupied_nat. destruct (nth_error slots j) as [x|] eqn:E; [|apply nth_error_None in E; lia].
    rewrite (firstn_snoc_nth _ _ _ E), tab_chain_app. cbv zeta.
    rewrite firstn_length_le by lia. destruct x as [k|]; cbn [bind tab_chain_from].
    + rewrite app_length, Nat.add_1_r. cbn [length cur_before]. unfold cur_at.
      rewrite nth_error_app2 by lia. rewrite Nat.sub_diag. reflexivity.
    + rewrite app_nil_r. apply IHj; lia.
Qed.

Theorem wb_table f slots : wb f (ITable slots) (tab_chain_from 0 slots).
Proof.
  constructor.
  - cbn [it_start]. unfold tab_start. rewrite <- (tab_chain_length slots 0).
    change 0 with (Z.of_nat 0) at 2. rewrite tab_first_ok.
    destruct (tab_chain_from 0 slots); reflexivity.
  - cbn [it_start]. unfold tab_start. rewrite <- (tab_chain_length slots 0).
    induction slots as [|x s IH] using rev_ind; [reflexivity|].
    rewrite tab_chain_app, rev_app_distr. cbn [rev app length]. unfold zlen. rewrite app_length. cbn [length].
    destruct x as [k|]; cbn [tab_chain_from tab_first].
    + rewrite app_length, Nat.add_1_r. cbn [length cur_before]. unfold cur_at.
      rewrite nth_error_app2 by lia. rewrite Nat.sub_diag.
      replace (Z.of_nat (S (length (tab_chain_from 0 s))) =? 0) with false by (symmetry; apply Z.eqb_neq; lia).
      cbn [option_map fst nth_error]. do 3 f_equal. lia.
    + cbn [length]. rewrite Nat.add_0_r, app_nil_r. rewrite tab_first_shift.
      destruct (Z.eqb_spec (Z.of_nat (length (tab_chain_from 0 s))) 0) as [E0|E0].
      * destruct (tab_chain_from 0 s); [reflexivity|simpl in E0; lia].
      * f_equal. injection IH as IH. rewrite <- IH.
        destruct (tab_first (rev s) 0) as [[k| | | | | |]|]; auto. unfold zlen. rewrite ?app_length. cbn [length]. do 2 f_equal. lia.
  - intros m c k E. destruct (tab_chain_split _ _ _ _ _ E) as (p & -> & E1 & _).
    cbn [cur_val Nat.add]. now rewrite znth_nat, E1.
  - intros m c k E. destruct (tab_chain_split _ _ _ _ _ E) as (p & -> & E1 & E2 & _).
    assert (p < length slots)%nat by (apply nth_error_Some; congruence).
    cbn [it_step Nat.add]. unfold tab_step. replace (Z.of_nat p + 1) with (Z.of_nat (S p)) by lia.
    rewrite tab_scan_fwd by lia. cbn [Nat.add] in E2. rewrite E2, cur_at_skipn. now rewrite Nat.add_0_r.
  - intros m c k E. destruct (tab_chain_split _ _ _ _ _ E) as (p & -> & E1 & _ & E3).
    assert (p < length slots)%nat by (apply nth_error_Some; congruence).
    assert (m < length (tab_chain_from 0 slots))%nat by (apply nth_error_Some; congruence).
    cbn [it_step Nat.add]. unfold tab_step. rewrite tab_scan_bwd by lia. cbv zeta. rewrite E3.
    now rewrite cur_before_firstn by lia.
Qed.

Lemma table_summary f slots :
  iterates f (ITable slots) (map snd (tab_chain_from 0 slots)) /\
  it_len R (ITable slots) = OVal (zlen (tab_chain_from 0 slots)) /\
  (forall k, In k (map snd (tab_chain_from 0 slots)) <-> In (Some k) slots).
Proof.
  split; [apply wb_iterates, wb_table|]. split.
  - cbn [it_len]. unfold zlen. now rewrite tab_chain_length.
  - intros k. generalize 0%nat. induction slots as [|[k0|] r IH]; intros i; simpl.
    + tauto.
    + rewrite IH. split; intros [H|H]; auto; left; congruence.
    + rewrite IH. split; [auto|]. intros [H|H]; [discriminate|auto].
Qed.

(* ------------------------------------------------------------------ Zip: len and get *)
Definition zip_rows (vss : list (list val)) : list val :=
  map (fun j => VTup (map (fun vs => nth j vs dv) vss)) (seq 0 (minlen vss)).

Lemma zip_len_rest_ok us (vss : list (list val)) : Forall2 (fun u vs => it_len R u = OVal (zlen vs)) us vss ->
  forall m, zip_len_rest (it_len R) us m =
    OVal (match vss with [] => m | _ :: _ => Z.min m (Z.of_nat (minlen vss)) end).
Proof.
  induction 1 as [|u vs us vss Hu Hrest IH]; intros m; [reflexivity|].
  cbn [zip_len_rest]. rewrite Hu. cbn [bind]. rewrite IH. f_equal. unfold zlen.
  destruct vss as [|vs2 vss]; cbn [minlen]; zb; try lia;
    try (change (minlen (vs :: vs2 :: vss)) with (Nat.min (length vs) (minlen (vs2 :: vss)))); lia.
Qed.

Lemma zip_gets_ok us vss j : Forall2 (fun u vs => it_get R u (Z.of_nat j) = OVal (nth j vs dv)) us vss ->
  zip_gets (fun u' => it_get R u' (Z.of_nat j)) us = OVal (map (fun vs => nth j vs dv) vss).
Proof.
  induction 1 as [|u vs us vss Hu Hrest IH]; [reflexivity|].
  cbn [zip_gets]. rewrite Hu. cbn [bind]. now rewrite IH.
Qed.

Lemma lg_zip us vss : us <> [] -> Forall2 lg us vss -> lg (IZip us) (zip_rows vss).
Proof.
  intros Hne H. assert (Hvne : vss <> []) by (destruct H; congruence). split.
  - unfold zip_rows, zlen. rewrite map_length, seq_length.
    destruct H as [|u vs us vss [Hl _] Hrest]; [congruence|]. cbn [it_len]. rewrite Hl. cbn [bind].
    rewrite (zip_len_rest_ok us vss).
    + f_equal. unfold zlen. destruct vss as [|vs2 vss]; cbn [minlen]; [reflexivity|].
      change (minlen (vs :: vs2 :: vss)) with (Nat.min (length vs) (minlen (vs2 :: vss))). lia.
    + eapply Forall2_impl; [|exact Hrest]. now intros a b [Ha _].
  - intros j Hj. unfold zip_rows in *. rewrite map_length, seq_length in Hj.
    cbn [it_get]. rewrite (zip_gets_ok us vss j).
    + cbn [bind]. f_equal. symmetry. apply nth_error_nth. rewrite nth_error_map, seq_nth_error by auto. reflexivity.
    + apply (lt_minlen vss j Hvne) in Hj. clear Hne Hvne. induction H as [|u vs us vss [_ Hg] Hrest IH]; constructor.
      * inversion Hj; subst. now apply Hg.
      * inversion Hj; subst. now apply IH.
Qed.

(* ------------------------------------------------------------------ reverse(I) = slice(I, _, _, -1) *)
Lemma mk_reverse_ok u n : it_len R u = OVal n -> 0 <= n < box ->
  mk_reverse R u = OVal (ISlice u (mkRng 0 n (-1))) /\ slice_ok (mkRng 0 n (-1)) n.
Proof.
  intros Hl Hn. split.
  - unfold mk_reverse. rewrite (mk_slice_ok u n) by (auto; repeat constructor; unfold box; lia). reflexivity.
  - unfold slice_ok, in_box, box in *. cbn. lia.
Qed.

Lemma slice_sel_reverse vs : slice_sel (mkRng 0 (zlen vs) (-1)) vs = rev vs.
Proof.
  unfold slice_sel, range_elems.
  assert (Hc : range_count (mkRng 0 (zlen vs) (-1)) = zlen vs).
  { unfold range_count, zlen. cbn [r_start r_stop r_step]. destruct (Z.leb_spec (Z.of_nat (length vs)) 0); [lia|].
    change (Z.abs (-1)) with 1. rewrite Z.div_1_r. lia. }
  rewrite Hc. unfold zlen. rewrite Nat2Z.id.
  apply (nth_ext _ _ dv dv).
  - rewrite !map_length, seq_length, rev_length. reflexivity.
  - intros i Hi. rewrite !map_length, seq_length in Hi.
    rewrite rev_nth by auto.
    assert (nth_error (map (fun p => nth (Z.to_nat p) vs dv)
              (map (fun i0 => range_val (mkRng 0 (Z.of_nat (length vs)) (-1)) (Z.of_nat i0)) (seq 0 (length vs)))) i
            = Some (nth (length vs - S i) vs dv)) as E.
    { rewrite !nth_error_map, seq_nth_error by auto. cbn [option_map Nat.add]. do 2 f_equal.
      unfold range_val. cbn [r_start r_stop r_step]. change (0 <? -1) with false. cbv iota. lia. }
    now rewrite (nth_error_nth _ _ _ E).
Qed.

Lemma reverse_summary f u cvs : wb f u cvs -> it_len R u = OVal (zlen cvs) -> zlen cvs < box ->
  exists s, mk_reverse R u = OVal s /\ iterates f s (rev (map snd cvs)).
Proof.
  intros H Hl Hn. assert (0 <= zlen cvs < box) as Hn' by (unfold zlen in *; lia).
  destruct (mk_reverse_ok u _ Hl Hn') as [Hm Hok]. eexists. split; [exact Hm|].
  pose proof (wb_iterates _ _ _ (wb_slice f u cvs _ H Hl Hok)) as Hi.
  rewrite slice_chain_snd in Hi by auto.
  assert (zlen cvs = zlen (map snd cvs)) as Hz by (unfold zlen; now rewrite map_length).
  assert (slice_sel (mkRng 0 (zlen cvs) (-1)) (map snd cvs) = rev (map snd cvs)) as Hs
    by (rewrite Hz; apply slice_sel_reverse).
  rewrite Hs in Hi. exact Hi.
Qed.

(* Open finding range-int64-overflow: outside the box |.| < 2^62 the int64 arithmetic of Range wraps; the
   forward walk of range(0, INT64_MAX, 2^62) never reaches Terminal (so [in_box] cannot simply be dropped) *)
Lemma range_overflow_refuted :
  snd (walk R 5 Fwd 40 (IRange (mkRng 0 9223372036854775807 4611686018427387904))) = WRunaway /\
  range_len R (mkRng (-9223372036854775808) 9223372036854775807 4611686018427387904) = 1.
Proof. vm_compute. auto. Qed.

(* ------------------------------------------------------------------ enumerate(I) = zip(range(0, len I), I) *)
Lemma range_count_upto n : 0 <= n -> range_count (mkRng 0 n 1) = n.
Proof.
  intros Hn. unfold range_count. cbn [r_start r_stop r_step]. destruct (Z.leb_spec n 0); [lia|].
  change (Z.abs 1) with 1. rewrite Z.div_1_r. lia.
Qed.

Lemma enumerate_summary f u cvs : wb f u cvs -> it_len R u = OVal (zlen cvs) ->
  item_len_of f u = OVal (zlen cvs) -> zlen cvs < box ->
  exists s ch, mk_enumerate R u = OVal s /\ wb f s ch /\ length ch = length cvs /\
    forall j, (j < length cvs)%nat ->
      nth_error (map snd ch) j = Some (VTup [VInt (Z.of_nat j); nth j (map snd cvs) dv]).
Proof.
  intros H Hl Hil Hn. set (r := mkRng 0 (zlen cvs) 1).
  assert (Hb : in_box r) by (unfold r, in_box, box, zlen in *; cbn [r_start r_stop r_step]; lia).
  assert (Hc : range_count r = zlen cvs) by (apply range_count_upto; unfold zlen; lia).
  exists (IZip [IRange r; u]), (zip_chain [range_chain r; cvs]).
  assert (Hlr : length (range_chain r) = length cvs).
  { unfold range_chain. rewrite map_length, range_elems_length, Hc. unfold zlen. lia. }
  destruct (zip_summary f [IRange r; u] [range_chain r; cvs]) as (Hw & Hlen & Hnth).
  - congruence.
  - constructor; [now apply wb_range|]. constructor; [exact H|constructor].
  - constructor; [|constructor; [exact Hil|constructor]].
    unfold item_len_of. cbn [implements_len it_len]. rewrite range_len_ok by auto. rewrite Hc.
    unfold zlen. now rewrite Hlr.
  - assert (Hm : minlen [range_chain r; cvs] = length cvs).
    { change (minlen [range_chain r; cvs]) with (Nat.min (length (range_chain r)) (length cvs)). lia. }
    split; [unfold mk_enumerate; now rewrite Hl|]. split; [exact Hw|]. split; [lia|].
    intros j Hj. rewrite Hnth by lia. cbn [map]. do 3 f_equal.
    rewrite range_chain_snd. apply nth_error_nth.
    rewrite nth_error_map, range_elems_nth by (rewrite Hc; unfold zlen; lia).
    cbn [option_map]. do 2 f_equal. unfold range_val, r. cbn [r_start r_stop r_step]. change (0 <? 1) with true. cbv iota. lia.
Qed.

(* ------------------------------------------------------------------ Tree: the pointer walk over ANY binary tree *)
(* in-order chain (d = Fwd) resp. reverse in-order chain (d = Bwd) of the subtree s sitting at reversed path rp *)
Fixpoint tchain (d : dir) (s : tree) (rp : list tdir) : list (cur * val) :=
  match s with
  | TLeaf => []
  | TNode l k r =>
    match d with
    | Fwd => tchain d l (TL :: rp) ++ (CNode rp, k) :: tchain d r (TR :: rp)
    | Bwd => tchain d r (TR :: rp) ++ (CNode rp, k) :: tchain d l (TL :: rp)
    end
  end.

Lemma tchain_bwd_rev s : forall rp, tchain Bwd s rp = rev (tchain Fwd s rp).
Proof.
  induction s as [|l IHl k r IHr]; intros rp; [reflexivity|]. cbn [tchain].
  rewrite rev_app_distr. cbn [rev]. rewrite <- app_assoc. cbn [app]. now rewrite IHl, IHr.
Qed.

Lemma subtree_snoc T : forall p x, subtree T (p ++ [x]) = child x (subtree T p).
Proof. intros p. revert T. induction p as [|d p IH]; intros T x; simpl; auto. Qed.

Lemma node_at_cons T x rp : node_at T (x :: rp) = child x (node_at T rp).
Proof. unfold node_at. cbn [rev]. apply subtree_snoc. Qed.

Lemma tchain_first d s rp : s <> TLeaf ->
  cur_at (tchain d s rp) 0 = Some (CNode (descend (near_of d) s rp)).
Proof.
  revert rp. induction s as [|l IHl k r IHr]; intros rp Hne; [congruence|].
  destruct d; cbn [tchain near_of descend].
  - destruct l as [|ll lk lr]; [reflexivity|].
    assert (TNode ll lk lr <> TLeaf) as Hl by congruence. specialize (IHl (TL :: rp) Hl).
    unfold cur_at in *. destruct (tchain Fwd (TNode ll lk lr) (TL :: rp)) eqn:E; [discriminate|]. exact IHl.
  - destruct r as [|rl rk rr]; [reflexivity|].
    assert (TNode rl rk rr <> TLeaf) as Hr by congruence. specialize (IHr (TR :: rp) Hr).
    unfold cur_at in *. destruct (tchain Bwd (TNode rl rk rr) (TR :: rp)) eqn:E; [discriminate|]. exact IHr.
Qed.

Lemma tchain_leaf d rp : tchain d TLeaf rp = [].
Proof. reflexivity. Qed.

Definition texit (d : dir) (rp : list tdir) : option cur := option_map CNode (climb (near_of d) rp).
Definition or_exit (o e : option cur) : option cur := match o with Some c => Some c | None => e end.

Lemma cur_at_app_l (a b : list (cur * val)) i : (i < length a)%nat -> cur_at (a ++ b) i = cur_at a i.
Proof. intros H. unfold cur_at. now rewrite nth_error_app1. Qed.
Lemma cur_at_app_r (a b : list (cur * val)) i : (length a <= i)%nat -> cur_at (a ++ b) i = cur_at b (i - length a).
Proof. intros H. unfold cur_at. now rewrite nth_error_app2. Qed.

Lemma tstep_gen f d T : forall s rp, node_at T rp = s ->
  forall i c v, nth_error (tchain d s rp) i = Some (c, v) ->
    cur_val (ITree T) c = OVal v /\
    it_step R f d (ITree T) c = OVal (or_exit (cur_at (tchain d s rp) (S i)) (texit d rp)).
Proof.
  induction s as [|l IHl k r IHr]; intros rp Hs i c v E; [destruct i; discriminate|].
  (* near / far subtree according to the direction *)
  set (near := near_of d). set (far := opp near).
  assert (Hnear : node_at T (near :: rp) = child near (TNode l k r)) by (now rewrite node_at_cons, Hs).
  assert (Hfar : node_at T (far :: rp) = child far (TNode l k r)) by (now rewrite node_at_cons, Hs).
  assert (Hchain : tchain d (TNode l k r) rp =
                   tchain d (child near (TNode l k r)) (near :: rp) ++ (CNode rp, k) ::
                   tchain d (child far (TNode l k r)) (far :: rp)) by (destruct d; reflexivity).
  assert (IHnear : forall i c v, nth_error (tchain d (child near (TNode l k r)) (near :: rp)) i = Some (c, v) ->
            cur_val (ITree T) c = OVal v /\
            it_step R f d (ITree T) c = OVal (or_exit (cur_at (tchain d (child near (TNode l k r)) (near :: rp)) (S i)) (texit d (near :: rp))))
    by (destruct d; cbn [near_of opp child] in *; [apply IHl | apply IHr]; assumption).
  assert (IHfar : forall i c v, nth_error (tchain d (child far (TNode l k r)) (far :: rp)) i = Some (c, v) ->
            cur_val (ITree T) c = OVal v /\
            it_step R f d (ITree T) c = OVal (or_exit (cur_at (tchain d (child far (TNode l k r)) (far :: rp)) (S i)) (texit d (far :: rp))))
    by (destruct d; cbn [near_of opp child] in *; [apply IHr | apply IHl]; assumption).
  clear IHl IHr. rewrite Hchain in *. clear Hchain.
  set (A := tchain d (child near (TNode l k r)) (near :: rp)) in *.
  set (B := tchain d (child far (TNode l k r)) (far :: rp)) in *.
  assert (Hexn : texit d (near :: rp) = Some (CNode rp)).
  { unfold texit. cbn [climb]. fold near. destruct near; reflexivity. }
  assert (Hexf : texit d (far :: rp) = texit d rp).
  { unfold texit. cbn [climb]. fold near. unfold far. destruct near; reflexivity. }
  destruct (Nat.lt_ge_cases i (length A)) as [Hi|Hi].
  - (* inside the near subtree *)
    rewrite nth_error_app1 in E by auto. destruct (IHnear _ _ _ E) as [Hv Hst]. split; [exact Hv|].
    rewrite Hst, Hexn. f_equal.
    destruct (Nat.lt_ge_cases (S i) (length A)) as [Hi2|Hi2].
    + rewrite cur_at_app_l by auto. destruct (cur_at A (S i)) eqn:Ec; [reflexivity|].
      apply cur_at_none in Ec. lia.
    + assert (cur_at A (S i) = None) as -> by (apply cur_at_none; lia).
      rewrite cur_at_app_r by lia. replace (S i - length A)%nat with 0%nat by lia. reflexivity.
  - rewrite nth_error_app2 in E by auto. destruct (i - length A)%nat as [|j] eqn:Ej.
    + (* the node itself *)
      cbn [nth_error] in E. inversion E; subst c v. split.
      * cbn [cur_val]. now rewrite Hs.
      * cbn [it_step]. unfold tree_step. fold near. fold far. rewrite Hs.
        rewrite cur_at_app_r by lia. replace (S i - length A)%nat with 1%nat by lia.
        change (cur_at ((CNode rp, k) :: B) 1) with (cur_at B 0).
        destruct (child far (TNode l k r)) as [|cl ck cr] eqn:Ec.
        -- unfold B. rewrite ?Ec. reflexivity.
        -- unfold B. rewrite ?Ec. rewrite tchain_first by congruence. reflexivity.
    + (* inside the far subtree *)
      cbn [nth_error] in E. destruct (IHfar _ _ _ E) as [Hv Hst]. split; [exact Hv|].
      rewrite Hst, Hexf. f_equal. rewrite cur_at_app_r by lia.
      replace (S i - length A)%nat with (S (S j)) by lia. reflexivity.
Qed.

Lemma nth_error_rev {A} (l : list A) j : (j < length l)%nat ->
  nth_error (rev l) j = nth_error l (length l - S j).
Proof.
  intros H. destruct (nth_error l (length l - S j)) eqn:E.
  - assert (length l - S j < length l)%nat as H2 by lia.
    rewrite (nth_error_nth' (rev l) a) by (rewrite rev_length; lia).
    rewrite rev_nth by auto. f_equal. now apply nth_error_nth.
  - apply nth_error_None in E. lia.
Qed.

Theorem wb_tree f T : wb f (ITree T) (tchain Fwd T []).
Proof.
  set (ch := tchain Fwd T []).
  assert (Hb : tchain Bwd T [] = rev ch) by apply tchain_bwd_rev.
  constructor.
  - cbn [it_start]. unfold tree_start. destruct T as [|l k r]; [reflexivity|].
    unfold ch. now rewrite tchain_first by congruence.
  - cbn [it_start]. unfold tree_start. destruct T as [|l k r]; [reflexivity|].
    pose proof (tchain_first Bwd (TNode l k r) [] ltac:(congruence)) as H1. rewrite Hb in H1.
    f_equal. rewrite <- H1. unfold cur_at.
    assert (0 < length ch)%nat as Hpos.
    { destruct ch eqn:E; [|simpl; lia]. simpl in H1. discriminate. }
    rewrite nth_error_rev by auto. destruct (length ch) as [|n]; [lia|]. cbn [cur_before]. unfold cur_at.
    do 2 f_equal. lia.
  - intros i c v E. exact (proj1 (tstep_gen f Fwd T T [] eq_refl i c v E)).
  - intros i c v E. rewrite (proj2 (tstep_gen f Fwd T T [] eq_refl i c v E)). f_equal.
    fold ch. unfold texit. cbn [climb option_map]. now destruct (cur_at ch (S i)).
  - intros i c v E. assert (Hi : (i < length ch)%nat) by (apply nth_error_Some; congruence).
    assert (E' : nth_error (tchain Bwd T []) (length ch - S i) = Some (c, v)).
    { rewrite Hb, nth_error_rev by lia. replace (length ch - S (length ch - S i))%nat with i by lia. exact E. }
    rewrite (proj2 (tstep_gen f Bwd T T [] eq_refl _ c v E')). f_equal.
    unfold texit. cbn [climb option_map]. rewrite Hb. unfold cur_at.
    destruct i as [|i]; cbn [cur_before].
    + assert (nth_error (rev ch) (S (length ch - 1)) = None) as -> by (apply nth_error_None; rewrite rev_length; lia).
      reflexivity.
    + rewrite nth_error_rev by lia. replace (length ch - S (S (length ch - S (S i))))%nat with i by lia.
      unfold cur_at. now destruct (nth_error ch i) as [[? ?]|].
Qed.

Fixpoint inorder (t : tree) : list val :=
  match t with TLeaf => [] | TNode l k r => inorder l ++ k :: inorder r end.

Lemma tchain_snd s : forall rp, map snd (tchain Fwd s rp) = inorder s.
Proof.
  induction s as [|l IHl k r IHr]; intros rp; [reflexivity|]. cbn [tchain inorder].
  rewrite map_app. cbn [map snd]. now rewrite IHl, IHr.
Qed.

Lemma tree_summary f T : iterates f (ITree T) (inorder T) /\ it_len R (ITree T) = OVal (zlen (inorder T)).
Proof.
  split.
  - pose proof (wb_iterates _ _ _ (wb_tree f T)) as H. now rewrite tchain_snd in H.
  - cbn [it_len]. unfold zlen. f_equal. f_equal. induction T as [|l IHl k r IHr]; [reflexivity|].
    cbn [tree_size inorder]. rewrite app_length. cbn [length]. lia.
Qed.

(* ------------------------------------------------------------------ a Slice does not touch its input once its own Range is exhausted
   For ANY input u (well-behaved or not): when the Slice's Range cursor says Terminal, Slice_Iter_Next/Prev (resp.
   Init/Last) answer Terminal without a single call on the input - no look-ahead beyond the selection.  Together with
   [slice_move_ok] (between two selected positions exactly |step| steps, all inside the chain) this is what the probe
   sections af= / ab= of the correspondence observe. *)
Lemma slice_exhausted_touches_nothing f d u r c rv : ostep d r rv = None ->
  it_step R f d (ISlice u r) (CSlice c rv) = OVal None.
Proof. intros H. cbn [it_step slice_bounded repaired]. now rewrite H. Qed.

Lemma slice_empty_touches_nothing f d u r : ostart R d r = None -> it_start R f d (ISlice u r) = OVal None.
Proof. intros H. cbn [it_start slice_bounded repaired]. now rewrite H. Qed.
