(* IterProofs.v — proofs about the iteration model (C11). *)
From Coq Require Import List ZArith Bool Arith Lia.
From CelloV Require Import Generated IterModel IterSource.
Import ListNotations.
Local Open Scope Z_scope.

(* the C source of the working tree contains the repaired text of every defect (re-read on every run) *)
Lemma source_rules_repaired : source_rules = repaired.
Proof. reflexivity. Qed.

Lemma source_shapes : source_shapes_ok = true.
Proof. reflexivity. Qed.
