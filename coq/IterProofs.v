(* IterProofs.v — proofs about the iteration model (C11): IterModel.v with the rules [repaired].

   Central notion: [wb f u cvs] — the iterable [u] is WELL-BEHAVED with cursor chain [cvs]
   (a list of (cursor, item) pairs): iter_init hands out the first cursor, iter_last the last,
   iter_next / iter_prev move along the chain and hand out Terminal exactly past its ends, and the
   item under each cursor is the recorded one.  Every walk theorem follows from [wb] alone
   ([walk_fwd], [walk_bwd]); every container and every view is shown to be [wb] (views: given that
   their underlying iterables are), so the results compose to any nesting depth. *)
From Coq Require Import List ZArith Bool Arith Lia.
From CelloV Require Import Generated IterModel IterSource.
Import ListNotations.
Local Open Scope Z_scope.

(* the C source of the working tree contains the repaired text of every defect (re-read on every run) *)
Lemma source_rules_repaired : source_rules = repaired.
Proof. reflexivity. Qed.

Lemma source_shapes : source_shapes_ok = true.
Proof. reflexivity. Qed.

Notation R := repaired.

(* ------------------------------------------------------------------ chains *)
Definition cur_at (cvs : list (cur * val)) (i : nat) : option cur := option_map fst (nth_error cvs i).
Definition cur_before (cvs : list (cur * val)) (i : nat) : option cur :=
  match i with O => None | S j => cur_at cvs j end.

Record wb (f : nat) (u : iterable) (cvs : list (cur * val)) : Prop := mkWb {
  wb_init : it_start R f Fwd u = OVal (cur_at cvs 0);
  wb_last : it_start R f Bwd u = OVal (cur_before cvs (length cvs));
  wb_val  : forall i c v, nth_error cvs i = Some (c, v) -> cur_val u c = OVal v;
  wb_next : forall i c v, nth_error cvs i = Some (c, v) -> it_step R f Fwd u c = OVal (cur_at cvs (S i));
  wb_prev : forall i c v, nth_error cvs i = Some (c, v) -> it_step R f Bwd u c = OVal (cur_before cvs i)
}.

Lemma cur_at_some cvs i c : cur_at cvs i = Some c -> exists v, nth_error cvs i = Some (c, v).
Proof.
  unfold cur_at. destruct (nth_error cvs i) as [[c' v]|] eqn:E; simpl; intros H; inversion H; subst; eauto.
Qed.

Lemma cur_at_none cvs i : cur_at cvs i = None <-> (length cvs <= i)%nat.
Proof.
  unfold cur_at. split.
  - destruct (nth_error cvs i) eqn:E; simpl; [discriminate|]. intros _. now apply nth_error_None.
  - intros H. apply nth_error_None in H. now rewrite H.
Qed.

(* ------------------------------------------------------------------ foreach over a well-behaved iterable *)
Lemma walk_loop_fwd f u cvs (H : wb f u cvs) :
  forall k i acc cut, (i + k = length cvs)%nat -> (k < cut)%nat ->
    walk_loop R f Fwd u cut (cur_at cvs i) acc = (rev acc ++ map snd (skipn i cvs), WDone).
Proof.
  induction k; intros i acc cut Hi Hc.
  - assert (cur_at cvs i = None) as -> by (apply cur_at_none; lia).
    rewrite skipn_all2 by lia. simpl. destruct cut; now rewrite app_nil_r.
  - destruct (nth_error cvs i) as [[c v]|] eqn:E.
    2:{ apply nth_error_None in E. lia. }
    unfold cur_at at 1. rewrite E. destruct cut as [|cut]; [lia|]. cbn [option_map fst walk_loop].
    rewrite (wb_val _ _ _ H _ _ _ E), (wb_next _ _ _ H _ _ _ E).
    rewrite IHk by lia. simpl.
    rewrite <- app_assoc. simpl.
    assert (skipn i cvs = (c, v) :: skipn (S i) cvs) as ->; [|reflexivity].
    clear - E. revert i E. induction cvs; intros [|i] E; simpl in *; try discriminate.
    + now inversion E.
    + now apply IHcvs.
Qed.

Theorem walk_fwd f u cvs cut : wb f u cvs -> (length cvs < cut)%nat ->
  walk R f Fwd cut u = (map snd cvs, WDone).
Proof.
  intros H Hc. unfold walk. rewrite (wb_init _ _ _ H).
  now rewrite (walk_loop_fwd _ _ _ H (length cvs) 0%nat [] cut) by lia.
Qed.

Lemma walk_loop_bwd f u cvs (H : wb f u cvs) :
  forall i acc cut, (i <= length cvs)%nat -> (i < cut)%nat ->
    walk_loop R f Bwd u cut (cur_before cvs i) acc = (rev acc ++ rev (map snd (firstn i cvs)), WDone).
Proof.
  induction i; intros acc cut Hi Hc.
  - simpl. destruct cut; now rewrite app_nil_r.
  - destruct (nth_error cvs i) as [[c v]|] eqn:E.
    2:{ apply nth_error_None in E. lia. }
    cbn [cur_before]. unfold cur_at. rewrite E. destruct cut as [|cut]; [lia|]. cbn [option_map fst walk_loop].
    rewrite (wb_val _ _ _ H _ _ _ E), (wb_prev _ _ _ H _ _ _ E).
    rewrite IHi by lia.
    assert (firstn (S i) cvs = firstn i cvs ++ [(c, v)]) as ->.
    { clear - E. revert i E. induction cvs; intros [|i] E; simpl in *; try discriminate.
      - now inversion E.
      - f_equal. now apply IHcvs. }
    rewrite map_app, rev_app_distr. cbn [rev map snd app]. now rewrite <- app_assoc.
Qed.

Theorem walk_bwd f u cvs cut : wb f u cvs -> (length cvs < cut)%nat ->
  walk R f Bwd cut u = (rev (map snd cvs), WDone).
Proof.
  intros H Hc. unfold walk. rewrite (wb_last _ _ _ H).
  rewrite (walk_loop_bwd _ _ _ H (length cvs) [] cut) by lia.
  now rewrite firstn_all.
Qed.

(* ------------------------------------------------------------------ index-cursor containers *)
Fixpoint chain_from (k : nat) (xs : list val) : list (cur * val) :=
  match xs with [] => [] | v :: r => (CPos (Z.of_nat k), v) :: chain_from (S k) r end.

Lemma chain_from_nth xs : forall k i,
  nth_error (chain_from k xs) i = option_map (fun v => (CPos (Z.of_nat (k + i)), v)) (nth_error xs i).
Proof.
  induction xs; intros k [|i]; simpl; auto.
  - now rewrite Nat.add_0_r.
  - rewrite IHxs. now replace (S k + i)%nat with (k + S i)%nat by lia.
Qed.

Lemma chain_from_length xs : forall k, length (chain_from k xs) = length xs.
Proof. induction xs; simpl; auto. Qed.

Lemma chain_from_snd xs : forall k, map snd (chain_from k xs) = xs.
Proof. induction xs; simpl; intros; f_equal; auto. Qed.

Lemma cur_at_chain xs i :
  cur_at (chain_from 0 xs) i = if (i <? length xs)%nat then Some (CPos (Z.of_nat i)) else None.
Proof.
  unfold cur_at. rewrite chain_from_nth. simpl.
  destruct (Nat.ltb_spec i (length xs)) as [H|H].
  - destruct (nth_error xs i) eqn:E; simpl; auto. apply nth_error_None in E. lia.
  - apply nth_error_None in H. now rewrite H.
Qed.

Lemma znth_nat {A} (l : list A) (i : nat) : znth l (Z.of_nat i) = nth_error l i.
Proof.
  unfold znth, zlen. destruct (nth_error l i) eqn:E.
  - assert (i < length l)%nat by (apply nth_error_Some; congruence).
    replace (0 <=? Z.of_nat i) with true by (symmetry; apply Z.leb_le; lia).
    replace (Z.of_nat i <? Z.of_nat (length l)) with true by (symmetry; apply Z.ltb_lt; lia).
    simpl. now rewrite Nat2Z.id.
  - apply nth_error_None in E.
    replace (Z.of_nat i <? Z.of_nat (length l)) with false by (symmetry; apply Z.ltb_ge; lia).
    now rewrite andb_false_r.
Qed.

Ltac zb := repeat match goal with
  | |- context [?a =? ?b] => destruct (Z.eqb_spec a b)
  | |- context [?a <=? ?b] => destruct (Z.leb_spec a b)
  | |- context [?a <? ?b] => destruct (Z.ltb_spec a b)
  | |- context [(?a <? ?b)%nat] => destruct (Nat.ltb_spec a b)
  end.

(* Array (with the repaired Array_Iter_Prev), List and Tree (in-order positions) *)
Lemma wb_index_gen f u xs
  (Hstart : forall d, it_start R f d u = OVal (arr_start d (zlen xs)))
  (Hval : forall i, cur_val u (CPos i) = oget (znth xs i))
  (Hfwd : forall i : nat, (i < length xs)%nat -> it_step R f Fwd u (CPos (Z.of_nat i)) =
            OVal (if (S i <? length xs)%nat then Some (CPos (Z.of_nat (S i))) else None))
  (Hbwd : forall i : nat, (i < length xs)%nat -> it_step R f Bwd u (CPos (Z.of_nat i)) =
            OVal (match i with O => None | S j => Some (CPos (Z.of_nat j)) end)) :
  wb f u (chain_from 0 xs).
Proof.
  constructor.
  - rewrite Hstart, cur_at_chain. unfold arr_start, zlen. destruct xs; simpl; auto.
  - rewrite Hstart, chain_from_length. unfold arr_start, zlen. destruct xs as [|x xs]; [reflexivity|].
    cbn [cur_before length]. rewrite cur_at_chain. cbn [length].
    replace (length xs <? S (length xs))%nat with true by (symmetry; apply Nat.ltb_lt; lia).
    replace (Z.of_nat (S (length xs)) =? 0) with false by (symmetry; apply Z.eqb_neq; lia).
    do 3 f_equal. lia.
  - intros i c v E. rewrite chain_from_nth in E. simpl in E.
    destruct (nth_error xs i) eqn:E2; inversion E; subst. now rewrite Hval, znth_nat, E2.
  - intros i c v E. rewrite chain_from_nth in E. simpl in E.
    destruct (nth_error xs i) eqn:E2; inversion E; subst.
    assert (i < length xs)%nat by (apply nth_error_Some; congruence).
    now rewrite Hfwd, cur_at_chain.
  - intros i c v E. rewrite chain_from_nth in E. simpl in E.
    destruct (nth_error xs i) eqn:E2; inversion E; subst.
    assert (i < length xs)%nat by (apply nth_error_Some; congruence).
    rewrite Hbwd by auto. destruct i; [reflexivity|].
    cbn [cur_before]. rewrite cur_at_chain.
    now replace (i <? length xs)%nat with true by (symmetry; apply Nat.ltb_lt; lia).
Qed.

Lemma wb_array f xs : wb f (IArray xs) (chain_from 0 xs).
Proof.
  apply wb_index_gen; try reflexivity; intros i Hi; cbn [it_step]; unfold arr_step, zlen; cbn [array_prev_incl repaired].
  - f_equal. zb; try lia; try reflexivity; do 2 f_equal; lia.
  - f_equal. destruct i; zb; try lia; try reflexivity; do 2 f_equal; lia.
Qed.

Lemma wb_list f xs : wb f (IList xs) (chain_from 0 xs).
Proof.
  apply wb_index_gen; try reflexivity; intros i Hi; cbn [it_step]; unfold list_step, zlen.
  - f_equal. zb; try lia; try reflexivity; do 2 f_equal; lia.
  - f_equal. destruct i; zb; try lia; try reflexivity; do 2 f_equal; lia.
Qed.

Lemma wb_tree f xs : wb f (ITree xs) (chain_from 0 xs).
Proof.
  apply wb_index_gen; try reflexivity; intros i Hi; cbn [it_step]; unfold list_step, zlen.
  - f_equal. zb; try lia; try reflexivity; do 2 f_equal; lia.
  - f_equal. destruct i; zb; try lia; try reflexivity; do 2 f_equal; lia.
Qed.

(* pre-repair Array_Iter_Prev (curr < Array_Item(a,0)): the backward walk reads before the array *)
Definition pre_D9 : rules := mkRules false true true true true true true true true.
Lemma array_prev_refuted :
  exists xs, snd (walk pre_D9 10 Bwd 10 (IArray xs)) = WCrash.
Proof. exists [VInt 1]. vm_compute. reflexivity. Qed.

(* ------------------------------------------------------------------ Map over a well-behaved iterable *)
Definition map_chain (g : val -> val) (cvs : list (cur * val)) : list (cur * val) :=
  map (fun cv => (CMap (fst cv) (g (snd cv)), g (snd cv))) cvs.

Lemma map_chain_snd g cvs : map snd (map_chain g cvs) = map g (map snd cvs).
Proof. unfold map_chain. rewrite !map_map. reflexivity. Qed.

Lemma map_chain_nth g cvs i :
  nth_error (map_chain g cvs) i =
  option_map (fun cv => (CMap (fst cv) (g (snd cv)), g (snd cv))) (nth_error cvs i).
Proof. unfold map_chain. apply nth_error_map. Qed.

Lemma map_wrap_at f u cvs g i : wb f u cvs ->
  map_wrap g (cur_val u) (cur_at cvs i) = OVal (cur_at (map_chain g cvs) i).
Proof.
  intros H. unfold cur_at. rewrite map_chain_nth.
  destruct (nth_error cvs i) as [[c v]|] eqn:E; simpl; auto.
  now rewrite (wb_val _ _ _ H _ _ _ E).
Qed.

Lemma map_wrap_before f u cvs g i : wb f u cvs ->
  map_wrap g (cur_val u) (cur_before cvs i) = OVal (cur_before (map_chain g cvs) i).
Proof. intros H. destruct i; simpl; auto. now apply (map_wrap_at f). Qed.

Theorem wb_map f u cvs g : wb f u cvs -> wb f (IMap g u) (map_chain g cvs).
Proof.
  intros H. constructor.
  - cbn [it_start]. rewrite (wb_init _ _ _ H). cbn [bind]. now apply (map_wrap_at f).
  - cbn [it_start]. rewrite (wb_last _ _ _ H). cbn [bind].
    unfold map_chain at 2. rewrite map_length. now apply (map_wrap_before f).
  - intros i c v E. rewrite map_chain_nth in E.
    destruct (nth_error cvs i) as [[c0 v0]|]; inversion E; subst. reflexivity.
  - intros i c v E. rewrite map_chain_nth in E.
    destruct (nth_error cvs i) as [[c0 v0]|] eqn:E0; inversion E; subst.
    cbn [it_step fst snd]. rewrite (wb_next _ _ _ H _ _ _ E0). cbn [bind]. now apply (map_wrap_at f).
  - intros i c v E. rewrite map_chain_nth in E.
    destruct (nth_error cvs i) as [[c0 v0]|] eqn:E0; inversion E; subst.
    cbn [it_step fst snd]. rewrite (wb_prev _ _ _ H _ _ _ E0). cbn [bind]. now apply (map_wrap_before f).
Qed.
