(* RoundTripFloat.v — the Float clause of C15: text written by "%.pf" for a finite double, read back
   by "%lf", gives a double within 10^-p of the original.
   Everything is integer arithmetic: a double m * 2^e (e >= emin) and a decimal text N / 10^p are
   compared after scaling by 10^p * 2^-emin. *)
From Coq Require Import List NArith ZArith Bool Lia.
From CelloV Require Import RoundTrip RoundTripProofs.
Import ListNotations.
Local Open Scope Z_scope.

(* ================================================================== rounding a quotient *)

Lemma rne_div_cases : forall a b : N, (0 < b)%N ->
  let q := (a / b)%N in let r := (a mod b)%N in
  (rne_div a b = q /\ (2 * r <= b)%N) \/ (rne_div a b = (q + 1)%N /\ (b <= 2 * r)%N).
Proof.
  intros a b Hb q r. unfold rne_div. fold q r.
  destruct (N.ltb_spec (2 * r) b); [left; split; [reflexivity|lia]|].
  destruct (N.ltb_spec b (2 * r)); [right; split; [reflexivity|lia]|].
  destruct (N.even q); [left|right]; split; try reflexivity; lia.
Qed.

(* rne_div a b is a nearest integer to a / b *)
Lemma rne_div_nearest : forall (a b : N) (k : Z), (0 < b)%N ->
  Z.abs (Z.of_N (rne_div a b) * Z.of_N b - Z.of_N a) <= Z.abs (k * Z.of_N b - Z.of_N a).
Proof.
  intros a b k Hb.
  pose proof (N.div_mod' a b) as Hdm. pose proof (N.mod_lt a b ltac:(lia)) as Hr.
  destruct (rne_div_cases a b Hb) as [[-> H]|[-> H]];
    set (q := (a / b)%N) in *; set (r := (a mod b)%N) in *;
    assert (Ha : Z.of_N a = Z.of_N b * Z.of_N q + Z.of_N r) by lia.
  - destruct (Z_le_gt_dec k (Z.of_N q)); nia.
  - destruct (Z_le_gt_dec k (Z.of_N q)); nia.
Qed.

Lemma rne_div_half : forall a b : N, (0 < b)%N ->
  2 * Z.abs (Z.of_N (rne_div a b) * Z.of_N b - Z.of_N a) <= Z.of_N b.
Proof.
  intros a b Hb.
  pose proof (N.div_mod' a b) as Hdm. pose proof (N.mod_lt a b ltac:(lia)) as Hr.
  destruct (rne_div_cases a b Hb) as [[-> H]|[-> H]];
    set (q := (a / b)%N) in *; set (r := (a mod b)%N) in *;
    assert (Ha : Z.of_N a = Z.of_N b * Z.of_N q + Z.of_N r) by lia; nia.
Qed.

Lemma rne_div_upper : forall (a b c : N), (0 < b)%N -> (a <= c * b)%N -> (rne_div a b <= c)%N.
Proof.
  intros a b c Hb H.
  pose proof (N.div_mod' a b) as Hdm. pose proof (N.mod_lt a b ltac:(lia)) as Hr.
  destruct (rne_div_cases a b Hb) as [[-> Hh]|[-> Hh]];
    set (q := (a / b)%N) in *; set (r := (a mod b)%N) in *; nia.
Qed.

(* ================================================================== powers of two *)

Lemma pow2_Z : forall e, 0 <= e -> Z.of_N (pow2 e) = 2 ^ e.
Proof.
  intros e He. unfold pow2. rewrite N2Z.inj_pow. rewrite Z2N.id by assumption. reflexivity.
Qed.

Lemma pow2_pos : forall e, (0 < pow2 e)%N.
Proof. intros e. unfold pow2. apply N.neq_0_lt_0. apply N.pow_nonzero. discriminate. Qed.

Lemma Zpow2_pos : forall e, 0 <= e -> 0 < 2 ^ e.
Proof. intros. apply Z.pow_pos_nonneg; lia. Qed.

Lemma Zpow2_split : forall a b, 0 <= a -> 0 <= b -> 2 ^ (a + b) = 2 ^ a * 2 ^ b.
Proof. intros. apply Z.pow_add_r; assumption. Qed.

Lemma log2_bounds : forall n : N, (0 < n)%N ->
  2 ^ Z.of_N (N.log2 n) <= Z.of_N n < 2 ^ (Z.of_N (N.log2 n) + 1).
Proof.
  intros n Hn. destruct (N.log2_spec n Hn) as [H1 H2].
  split.
  - apply N2Z.inj_le in H1. rewrite N2Z.inj_pow in H1. exact H1.
  - apply N2Z.inj_lt in H2. rewrite N2Z.inj_pow, N2Z.inj_succ in H2. exact H2.
Qed.

(* ================================================================== floor (log2 (p / q)) *)

(* the real-number meaning of ratio_ge_pow2 p q e : p / q >= 2^e *)
Lemma ratio_ge_pow2_spec : forall (p q : N) e, ratio_ge_pow2 p q e = true <->
  (if 0 <=? e then Z.of_N q * 2 ^ e <= Z.of_N p else Z.of_N q <= Z.of_N p * 2 ^ (- e)).
Proof.
  intros p q e. unfold ratio_ge_pow2. destruct (Z.leb_spec 0 e).
  - rewrite N.leb_le. rewrite <- pow2_Z by assumption. lia.
  - rewrite N.leb_le. rewrite <- pow2_Z by lia. lia.
Qed.

Lemma floor_log2_ratio_lb : forall p q : N, (0 < p)%N -> (0 < q)%N ->
  ratio_ge_pow2 p q (floor_log2_ratio p q) = true.
Proof.
  intros p q Hp Hq. unfold floor_log2_ratio.
  set (lp := Z.of_N (N.log2 p)). set (lq := Z.of_N (N.log2 q)).
  destruct (ratio_ge_pow2 p q (lp - lq)) eqn:E; [exact E|].
  apply ratio_ge_pow2_spec.
  pose proof (log2_bounds p Hp) as [Hp1 _]. pose proof (log2_bounds q Hq) as [_ Hq2].
  fold lp in Hp1. fold lq in Hq2.
  assert (0 <= lp) by (unfold lp; lia). assert (0 <= lq) by (unfold lq; lia).
  destruct (Z.leb_spec 0 (lp - lq - 1)).
  - (* q * 2^(lp-lq-1) < 2^(lq+1) * 2^(lp-lq-1) = 2^lp <= p *)
    assert (2 ^ (lq + 1) * 2 ^ (lp - lq - 1) = 2 ^ lp) by (rewrite <- Zpow2_split by lia; f_equal; lia).
    pose proof (Zpow2_pos (lp - lq - 1) ltac:(lia)). nia.
  - (* q < 2^(lq+1) = 2^lp * 2^(lq-lp+1) <= p * 2^(lq-lp+1) *)
    replace (- (lp - lq - 1)) with (lq - lp + 1) by lia.
    assert (2 ^ lp * 2 ^ (lq - lp + 1) = 2 ^ (lq + 1)) by (rewrite <- Zpow2_split by lia; f_equal; lia).
    pose proof (Zpow2_pos (lq - lp + 1) ltac:(lia)). nia.
Qed.

(* ================================================================== round_bin is a nearest point *)

(* m * 2^e and p / q, both multiplied by q * 2^-emin *)
Definition sval (emin : Z) (q m : N) (e : Z) : Z := Z.of_N m * 2 ^ (e - emin) * Z.of_N q.
Definition starget (emin : Z) (p : N) : Z := Z.of_N p * 2 ^ (- emin).

Lemma abs_scale_le : forall a b s, 0 < s -> Z.abs a <= Z.abs b -> Z.abs (a * s) <= Z.abs (b * s).
Proof. intros a b s Hs H. rewrite !Z.abs_mul. rewrite (Z.abs_eq s) by lia. nia. Qed.

(* the significand chosen by round_bin is nearest among all multiples of 2^e *)
Lemma round_bin_grid : forall emin e (p q : N) (k : Z), emin <= 0 -> emin <= e -> (0 < q)%N ->
  let m := if 0 <=? e then rne_div p (q * pow2 e) else rne_div (p * pow2 (- e)) q in
  Z.abs (Z.of_N m * (Z.of_N q * 2 ^ (e - emin)) - starget emin p)
  <= Z.abs (k * (Z.of_N q * 2 ^ (e - emin)) - starget emin p).
Proof.
  intros emin e p q k Hemin He Hq m. unfold starget. subst m.
  destruct (Z.leb_spec 0 e) as [H0|H0].
  - pose proof (rne_div_nearest p (q * pow2 e) k ltac:(pose proof (pow2_pos e); nia)) as Hn.
    rewrite N2Z.inj_mul, pow2_Z in Hn by assumption.
    apply (abs_scale_le _ _ (2 ^ (- emin)) (Zpow2_pos (- emin) ltac:(lia))) in Hn.
    replace (e - emin) with (e + - emin) by lia. rewrite Zpow2_split by lia.
    match goal with H : Z.abs ?a <= Z.abs ?b |- Z.abs ?c <= Z.abs ?d =>
      replace c with a by ring; replace d with b by ring; exact H end.
  - pose proof (rne_div_nearest (p * pow2 (- e)) q k Hq) as Hn.
    rewrite N2Z.inj_mul, pow2_Z in Hn by lia.
    apply (abs_scale_le _ _ (2 ^ (e - emin)) (Zpow2_pos (e - emin) ltac:(lia))) in Hn.
    replace (- emin) with (- e + (e - emin)) by lia. rewrite Zpow2_split by lia.
    match goal with H : Z.abs ?a <= Z.abs ?b |- Z.abs ?c <= Z.abs ?d =>
      replace c with a by ring; replace d with b by ring; exact H end.
Qed.

Theorem round_bin_nearest : forall prec emin (p q : N), 0 < prec -> emin <= 0 -> (0 < q)%N ->
  forall (m' : N) e', Z.of_N m' < 2 ^ prec -> emin <= e' ->
  emin <= snd (round_bin prec emin p q) /\
  Z.abs (sval emin q (fst (round_bin prec emin p q)) (snd (round_bin prec emin p q)) - starget emin p)
  <= Z.abs (sval emin q m' e' - starget emin p).
Proof.
  intros prec emin p q Hprec Hemin Hq m' e' Hm' He'. unfold round_bin.
  destruct (N.eqb_spec p 0) as [->|Hp].
  - cbn [fst snd]. split; [lia|]. unfold sval, starget. simpl. lia.
  - set (l := floor_log2_ratio p q). set (e := Z.max emin (l - (prec - 1))).
    cbn [fst snd]. split; [lia|].
    assert (He : emin <= e) by lia.
    set (m := if 0 <=? e then rne_div p (q * pow2 e) else rne_div (p * pow2 (- e)) q).
    pose proof (fun k => round_bin_grid emin e p q k Hemin He Hq) as Hgrid. cbv zeta in Hgrid. fold m in Hgrid.
    set (U := Z.of_N q * 2 ^ (e - emin)) in *. set (T := starget emin p) in *.
    assert (Hsv : sval emin q m e = Z.of_N m * U) by (unfold sval, U; ring).
    rewrite Hsv.
    destruct (Z_le_gt_dec e e') as [Hge|Hlt].
    + (* the competitor lies on the grid of multiples of 2^e *)
      assert (Hs' : sval emin q m' e' = (Z.of_N m' * 2 ^ (e' - e)) * U).
      { unfold sval, U. replace (e' - emin) with ((e' - e) + (e - emin)) by lia.
        rewrite Zpow2_split by lia. ring. }
      rewrite Hs'. apply Hgrid.
    + (* the competitor has a finer exponent: it is below 2^(prec-1) * 2^e <= p/q *)
      assert (Hel : e = l - (prec - 1)) by lia.
      assert (HU : 0 < U) by (unfold U; pose proof (Zpow2_pos (e - emin) ltac:(lia)); nia).
      assert (Hlow : sval emin q m' e' < 2 ^ (prec - 1) * U).
      { unfold sval, U.
        assert (2 ^ (e' - emin) * 2 <= 2 ^ (e - emin)).
        { replace (e - emin) with ((e' - emin) + (e - e')) by lia. rewrite Zpow2_split by lia.
          assert (2 ^ 1 <= 2 ^ (e - e')) by (apply Z.pow_le_mono_r; lia).
          pose proof (Zpow2_pos (e' - emin) ltac:(lia)). nia. }
        assert (2 ^ prec = 2 ^ (prec - 1) * 2).
        { replace prec with ((prec - 1) + 1) at 1 by lia. rewrite Zpow2_split by lia. reflexivity. }
        pose proof (Zpow2_pos (prec - 1) ltac:(lia)). pose proof (Zpow2_pos (e' - emin) ltac:(lia)).
        assert (0 < Z.of_N q) by lia.
        assert (Z.of_N m' * 2 ^ (e' - emin) < 2 ^ (prec - 1) * 2 ^ (e - emin)) by nia.
        nia. }
      assert (Hlb : 2 ^ (prec - 1) * U <= T).
      { pose proof (floor_log2_ratio_lb p q ltac:(lia) Hq) as Hr. fold l in Hr.
        apply ratio_ge_pow2_spec in Hr. unfold T, starget, U.
        assert (Hx : 2 ^ (prec - 1) * 2 ^ (e - emin) = 2 ^ (l - emin)).
        { rewrite <- Zpow2_split by lia. f_equal. lia. }
        destruct (Z.leb_spec 0 l).
        - assert (2 ^ (l - emin) = 2 ^ l * 2 ^ (- emin)).
          { replace (l - emin) with (l + - emin) by lia. apply Zpow2_split; lia. }
          pose proof (Zpow2_pos (- emin) ltac:(lia)). nia.
        - assert (2 ^ (- emin) = 2 ^ (- l) * 2 ^ (l - emin)).
          { rewrite <- Zpow2_split by lia. f_equal. lia. }
          pose proof (Zpow2_pos (l - emin) ltac:(lia)). nia. }
      specialize (Hgrid (2 ^ (prec - 1))).
      pose proof (Z.abs_nonneg (Z.of_N m * U - T)).
      assert (0 <= sval emin q m' e').
      { unfold sval. pose proof (Zpow2_pos (e' - emin) ltac:(lia)). nia. }
      lia.
Qed.

(* ================================================================== printing is within half a unit *)

Definition pow10 (p : nat) : N := (10 ^ N.of_nat p)%N.

Lemma pow10_pos : forall p, (0 < pow10 p)%N.
Proof. intros p. unfold pow10. apply N.neq_0_lt_0. apply N.pow_nonzero. discriminate. Qed.

(* x = mx * 2^ex, t = scaled_round p mx ex / 10^p :  2 * |x - t| <= 10^-p  (scaled by 10^p * 2^1074) *)
Lemma print_close : forall (pd : nat) (mx : N) (ex : Z), -1074 <= ex ->
  2 * Z.abs (sval (-1074) (pow10 pd) mx ex - starget (-1074) (scaled_round pd mx ex)) <= 2 ^ 1074.
Proof.
  intros pd mx ex Hex. unfold sval, starget, scaled_round. fold (pow10 pd).
  replace (- -1074) with 1074 by lia. replace (ex - -1074) with (ex + 1074) by lia.
  pose proof (pow10_pos pd) as H10.
  destruct (Z.leb_spec 0 ex) as [H0|H0].
  - rewrite !N2Z.inj_mul, pow2_Z by assumption. rewrite Zpow2_split by lia.
    match goal with |- 2 * Z.abs ?a <= _ => replace a with 0 by ring end.
    simpl Z.abs. pose proof (Zpow2_pos 1074 ltac:(lia)). lia.
  - set (d := pow2 (- ex)). set (n0 := (mx * pow10 pd)%N).
    pose proof (rne_div_half n0 d (pow2_pos _)) as Hh.
    assert (Hd : Z.of_N d = 2 ^ (- ex)) by (apply pow2_Z; lia). rewrite Hd in Hh.
    assert (Hs : 2 ^ 1074 = 2 ^ (- ex) * 2 ^ (ex + 1074)) by (rewrite <- Zpow2_split by lia; f_equal; lia).
    pose proof (Zpow2_pos (ex + 1074) ltac:(lia)) as Hp.
    set (n := rne_div n0 d) in *.
    assert (Hn0 : Z.of_N n0 = Z.of_N mx * Z.of_N (pow10 pd)) by (unfold n0; lia).
    match goal with |- 2 * Z.abs ?a <= _ =>
      replace a with ((Z.of_N n0 - Z.of_N n * 2 ^ (- ex)) * 2 ^ (ex + 1074)) by (rewrite Hs, Hn0; ring) end.
    rewrite Z.abs_mul, (Z.abs_eq (2 ^ (ex + 1074))) by lia.
    rewrite Hs. rewrite <- Z.abs_opp in Hh.
    replace (- (Z.of_N n * 2 ^ (- ex) - Z.of_N n0)) with (Z.of_N n0 - Z.of_N n * 2 ^ (- ex)) in Hh by ring.
    nia.
Qed.

(* the double read back from the text of x = mx * 2^ex differs from x by at most 10^-p:
   |m * 2^e - mx * 2^ex| * (10^p * 2^1074) <= 2^1074 *)
Theorem float_value_roundtrip : forall (pd : nat) (mx : N) (ex : Z),
  Z.of_N mx < 2 ^ 53 -> -1074 <= ex ->
  let r := round_bin 53 (-1074) (scaled_round pd mx ex) (pow10 pd) in
  -1074 <= snd r /\
  Z.abs (sval (-1074) (pow10 pd) (fst r) (snd r) - sval (-1074) (pow10 pd) mx ex) <= 2 ^ 1074.
Proof.
  intros pd mx ex Hmx Hex r.
  destruct (round_bin_nearest 53 (-1074) (scaled_round pd mx ex) (pow10 pd) ltac:(lia) ltac:(lia) (pow10_pos pd)
              mx ex Hmx Hex) as [He Hn].
  fold r in He, Hn. split; [exact He|].
  pose proof (print_close pd mx ex Hex) as Hc.
  set (T := starget (-1074) (scaled_round pd mx ex)) in *.
  set (V := sval (-1074) (pow10 pd) (fst r) (snd r)) in *.
  set (X := sval (-1074) (pow10 pd) mx ex) in *.
  lia.
Qed.

(* ================================================================== the text of "%.pf" and its scan *)
Local Open Scope N_scope.

Lemma digits_fuel_length : forall f n k, n < 10 ^ N.of_nat k -> (1 <= k)%nat ->
  (length (digits_fuel 10 false f n) <= k)%nat.
Proof.
  induction f as [|f IH]; intros n k Hn Hk; [simpl; lia|].
  cbn [digits_fuel]. destruct (N.ltb_spec n 10); [simpl; lia|].
  rewrite app_length. simpl length.
  destruct k as [|[|k]]; [lia | simpl in Hn; lia |].
  assert (n / 10 < 10 ^ N.of_nat (S k)).
  { apply N.div_lt_upper_bound; [lia|]. rewrite <- N.pow_succ_r', <- Nat2N.inj_succ. exact Hn. }
  specialize (IH (n / 10) (S k) H0 ltac:(lia)). lia.
Qed.

Lemma all_digits_zeros : forall j, all_digits 10 (repeat c_zero j).
Proof. induction j; simpl; constructor; [discriminate|assumption]. Qed.

Lemma value_of_zeros : forall j acc, value_of 10 (repeat c_zero j) acc = acc * 10 ^ N.of_nat j.
Proof.
  induction j as [|j IH]; intros acc; [simpl; lia|].
  cbn [repeat value_of]. replace (digit_in 10 c_zero) with (Some 0) by reflexivity.
  rewrite IH, Nat2N.inj_succ, N.pow_succ_r'. lia.
Qed.

Lemma pad_digits_spec : forall p x, x < 10 ^ N.of_nat p -> (1 <= p)%nat ->
  all_digits 10 (pad_digits p (print_nat 10 false x)) /\
  length (pad_digits p (print_nat 10 false x)) = p /\
  forall acc, value_of 10 (pad_digits p (print_nat 10 false x)) acc = acc * 10 ^ N.of_nat p + x.
Proof.
  intros p x Hx Hp. unfold pad_digits.
  pose proof (digits_fuel_length (S (N.to_nat (N.log2 x))) x p Hx Hp) as Hl. fold (print_nat 10 false x) in Hl.
  pose proof (print_nat_all 10 false ltac:(lia) ltac:(lia) x) as Ha.
  assert (Hall : all_digits 10 (repeat c_zero (p - length (print_nat 10 false x)) ++ print_nat 10 false x))
    by (apply all_digits_app; [apply all_digits_zeros | assumption]).
  assert (Hlen : length (repeat c_zero (p - length (print_nat 10 false x)) ++ print_nat 10 false x) = p)
    by (rewrite app_length, repeat_length; lia).
  split; [exact Hall|]. split; [exact Hlen|].
  intros acc. rewrite value_of_acc by exact Hall. rewrite Hlen. f_equal.
  rewrite value_of_app by apply all_digits_zeros. rewrite value_of_zeros.
  rewrite N.mul_0_l. apply print_nat_value; lia.
Qed.

(* what may follow the text of a Float so that the token ends there *)
Definition stops_float (rest : text) : Prop :=
  match rest with
  | [] => True
  | c :: _ => digit_in 10 c = None /\ c <> c_e /\ c <> c_E /\ c <> c_dot
  end.

Lemma stops_float_stops : forall rest, stops_float rest -> stops 10 rest.
Proof. intros [|c r] H; [exact I|]. simpl in *. tauto. Qed.

Lemma scan_exponent_none : forall rest n4, stops_float rest -> scan_exponent rest n4 = None.
Proof.
  intros [|c r] n4 H; [reflexivity|]. simpl in H. destruct H as (_ & He & HE & _).
  apply N.eqb_neq in He, HE. unfold scan_exponent. now rewrite He, HE.
Qed.

(* the fractional part written by %.pf *)
Definition frac_text (p : nat) (alt : bool) (n : N) : text :=
  match p with
  | O => if alt then [c_dot] else []
  | S _ => c_dot :: pad_digits p (print_nat 10 false (n mod 10 ^ N.of_nat p))
  end.

Lemma scan_mantissa_print : forall k p n rest n2, stops_float rest ->
  scan_mantissa (repeat c_zero k ++ print_nat 10 false (n / 10 ^ N.of_nat p) ++ frac_text p false n ++ rest) n2
  = (n, (k + length (print_nat 10 false (n / 10 ^ N.of_nat p)))%nat, p, rest,
     (n2 + k + length (print_nat 10 false (n / 10 ^ N.of_nat p)) + length (frac_text p false n))%nat).
Proof.
  intros k p n rest n2 Hr. set (P := 10 ^ N.of_nat p).
  assert (HP : 0 < P) by (unfold P; apply N.neq_0_lt_0, N.pow_nonzero; discriminate).
  unfold scan_mantissa.
  rewrite scan_digits_app by apply all_digits_zeros. rewrite value_of_zeros, N.mul_0_l.
  rewrite scan_digits_app by (apply print_nat_all; lia).
  rewrite print_nat_value by lia. rewrite repeat_length.
  destruct p as [|p'].
  - cbn [frac_text app]. rewrite scan_digits_stop by (apply stops_float_stops, Hr).
    assert (Hn : n / P = n) by (unfold P; simpl; apply N.div_1_r).
    set (L := length (print_nat 10 false (n / P))).
    replace (0 + k + L)%nat with (k + L)%nat by lia.
    replace (n2 + k + L + length (@nil byte))%nat with (n2 + (k + L))%nat by (simpl; lia).
    destruct rest as [|c r].
    + rewrite Hn. reflexivity.
    + simpl in Hr. destruct Hr as (_ & _ & _ & Hdot). apply N.eqb_neq in Hdot. rewrite Hdot.
      rewrite Hn. reflexivity.
  - cbn [frac_text]. fold P. rewrite scan_digits_stop by (cbn [app]; reflexivity).
    cbn [app]. replace (c_dot =? c_dot) with true by reflexivity.
    destruct (pad_digits_spec (S p') (n mod P)) as (Hpa & Hpl & Hpv);
      [apply N.mod_lt; lia | lia |].
    rewrite scan_digits_app by exact Hpa.
    rewrite scan_digits_stop by (apply stops_float_stops, Hr).
    rewrite Hpv. fold P. rewrite Hpl.
    replace (n / P * P + n mod P) with n by (rewrite (N.div_mod' n P) at 1; lia).
    set (L := length (print_nat 10 false (n / P))).
    replace (0 + k + L)%nat with (k + L)%nat by lia.
    cbn [length]. rewrite Hpl.
    replace (S (n2 + (k + L) + (0 + S p')))%nat with (n2 + k + L + S (S p'))%nat by lia.
    replace (0 + S p')%nat with (S p') by lia. reflexivity.
Qed.

(* a float directive without '#': any of the flags + space 0 and a width, any precision *)
Definition fspec_ok (sp : nspec) : Prop := n_alt sp = false.

Lemma print_float_shape : forall sp s mx ex, fspec_ok sp ->
  exists k1 sg k2,
    print_float sp s mx ex
    = repeat c_space k1 ++ sg ++ repeat c_zero k2 ++
      print_nat 10 false (scaled_round (float_prec sp) mx ex / 10 ^ N.of_nat (float_prec sp)) ++
      frac_text (float_prec sp) false (scaled_round (float_prec sp) mx ex)
    /\ sign_text sg /\ sign_neg sg = s.
Proof.
  intros sp s mx ex Halt. unfold fspec_ok in Halt. unfold print_float. rewrite Halt.
  fold (frac_text (float_prec sp) false (scaled_round (float_prec sp) mx ex)).
  set (ip := print_nat 10 false (scaled_round (float_prec sp) mx ex / 10 ^ N.of_nat (float_prec sp))).
  set (fp := frac_text (float_prec sp) false (scaled_round (float_prec sp) mx ex)).
  unfold pad. destruct s.
  - destruct (n_zero sp).
    + exists O, [c_minus]. eexists. repeat split; [right; left; reflexivity].
    + eexists _, [c_minus], O. repeat split; [right; left; reflexivity].
  - destruct (n_plus sp).
    + destruct (n_zero sp).
      * exists O, [c_plus]. eexists. repeat split; [right; right; reflexivity].
      * eexists _, [c_plus], O. repeat split; [right; right; reflexivity].
    + destruct (n_space sp).
      * destruct (n_zero sp).
        -- exists 1%nat, []. eexists. repeat split; [left; reflexivity].
        -- eexists (S _), [], O. split; [|split; [left; reflexivity|reflexivity]].
           rewrite <- repeat_snoc, <- app_assoc. reflexivity.
      * destruct (n_zero sp).
        -- exists O, []. eexists. repeat split; [left; reflexivity].
        -- eexists _, [], O. repeat split; [left; reflexivity].
Qed.

(* the text "%[flags][width][.p]f" writes for a finite double is scanned as sign, N = scaled_round,
   p decimals, and the scan consumes exactly that text *)
Theorem float_text_roundtrip : forall sp s mx ex rest, fspec_ok sp -> stops_float rest ->
  scan_float_text (print_float sp s mx ex ++ rest)
  = Some (s, scaled_round (float_prec sp) mx ex, (- Z.of_nat (float_prec sp))%Z, length (print_float sp s mx ex)).
Proof.
  intros sp s mx ex rest Hsp Hr.
  destruct (print_float_shape sp s mx ex Hsp) as (k1 & sg & k2 & Ep & Hsg & Hneg). rewrite Ep.
  rewrite <- !app_assoc.
  set (p := float_prec sp) in *. set (n := scaled_round p mx ex) in *.
  set (ip := print_nat 10 false (n / 10 ^ N.of_nat p)) in *.
  pose proof (print_nat_all 10 false ltac:(lia) ltac:(lia) (n / 10 ^ N.of_nat p)) as Hipd. fold ip in Hipd.
  pose proof (print_nat_nonempty 10 false (n / 10 ^ N.of_nat p)) as Hipn. fold ip in Hipn.
  pose proof (fun n2 => scan_mantissa_print k2 p n rest n2 Hr) as Hman. fold ip in Hman.
  assert (Hfirst : exists c r, repeat c_zero k2 ++ ip ++ frac_text p false n ++ rest = c :: r /\ digit_in 10 c <> None).
  { destruct k2 as [|k2].
    - cbn [repeat app]. destruct ip as [|d0 t]; [congruence|]. inversion Hipd; subst. cbn [app]. eauto.
    - cbn [repeat app]. eexists _, _. split; [reflexivity|discriminate]. }
  destruct Hfirst as (c & r & Ec & Hc).
  destruct (digit_not_sign 10 c Hc) as [Hm Hpl]. pose proof (digit_not_space 10 c Hc) as Hs.
  unfold scan_float_text. rewrite skip_ws_spaces.
  destruct Hsg as [-> | [-> | ->]]; cbn [app length sign_neg] in *; subst s.
  - rewrite Ec. rewrite skip_ws_nonspace by assumption. cbn [scan_sign]. rewrite Hm, Hpl. rewrite <- Ec.
    rewrite Hman. rewrite scan_exponent_none by assumption.
    destruct (k2 + length ip + p)%nat eqn:E0.
    + exfalso. destruct ip; [congruence|]. simpl in E0. lia.
    + f_equal. f_equal. rewrite !app_length, !repeat_length. lia.
  - rewrite skip_ws_nonspace by reflexivity. cbn [scan_sign].
    replace (c_minus =? c_minus) with true by reflexivity.
    rewrite Hman. rewrite scan_exponent_none by assumption.
    destruct (k2 + length ip + p)%nat eqn:E0.
    + exfalso. destruct ip; [congruence|]. simpl in E0. lia.
    + f_equal. f_equal. rewrite !app_length, !repeat_length. cbn [length]. rewrite !app_length, !repeat_length. lia.
  - rewrite skip_ws_nonspace by reflexivity. cbn [scan_sign].
    replace (c_plus =? c_minus) with false by reflexivity. replace (c_plus =? c_plus) with true by reflexivity.
    rewrite Hman. rewrite scan_exponent_none by assumption.
    destruct (k2 + length ip + p)%nat eqn:E0.
    + exfalso. destruct ip; [congruence|]. simpl in E0. lia.
    + f_equal. f_equal. rewrite !app_length, !repeat_length. cbn [length]. rewrite !app_length, !repeat_length. lia.
Qed.

(* ================================================================== Float values through scan_num *)

Lemma decode_double_range : forall b s mx ex, decode_double b = Some (s, mx, ex) ->
  (Z.of_N mx < 2 ^ 53)%Z /\ (-1074 <= ex <= 971)%Z.
Proof.
  intros b s mx ex H. unfold decode_double in H.
  assert (Hfr : b mod p52 < p52) by (apply N.mod_lt; discriminate).
  assert (Hex : (b / p52) mod 2048 < 2048) by (apply N.mod_lt; discriminate).
  set (fr := b mod p52) in *. set (xf := (b / p52) mod 2048) in *.
  clearbody fr xf.
  change (2 ^ 53)%Z with 9007199254740992%Z. unfold p52 in *.
  destruct (N.eqb_spec xf 2047); [discriminate|].
  pose proof (f_equal (fun o => match o with Some (_, m, _) => m | None => 0 end) H) as Hm.
  pose proof (f_equal (fun o => match o with Some (_, _, e) => e | None => 0%Z end) H) as He.
  destruct (N.eqb_spec xf 0); cbv beta iota in Hm, He; subst mx ex; split; lia.
Qed.

Lemma read_float_long : forall neg mant (p : nat),
  read_float true neg mant (- Z.of_nat p)
  = encode_double 1024 neg (fst (round_bin 53 (-1074) mant (pow10 p))) (snd (round_bin 53 (-1074) mant (pow10 p))).
Proof.
  intros neg mant p. unfold read_float, pow10.
  destruct (Z.leb_spec 0 (- Z.of_nat p)) as [H|H].
  - assert (p = O) by lia. subst p. simpl Z.to_N. rewrite N.pow_0_r, N.mul_1_r.
    simpl N.of_nat. rewrite N.pow_0_r.
    destruct (round_bin 53 (-1074) mant 1) as [m e]. reflexivity.
  - replace (Z.to_N (- - Z.of_nat p)) with (N.of_nat p) by lia.
    destruct (round_bin 53 (-1074) mant (10 ^ N.of_nat p)) as [m e]. reflexivity.
Qed.

(* the text of a finite double b = (-1)^s mx 2^ex written with a plain %.pf is read back by %lf,
   consuming exactly that text, into the double packed from the nearest-even (m, e) *)
Lemma float_scan_encode : forall cf sp ssp b s mx ex rest,
  conv_is_float (n_conv sp) = true -> fspec_ok sp ->
  conv_is_float (n_conv ssp) = true -> conv_is_int (n_conv ssp) = false -> n_long ssp = true ->
  decode_double b = Some (s, mx, ex) -> stops_float rest ->
  let r := round_bin 53 (-1074) (scaled_round (float_prec sp) mx ex) (pow10 (float_prec sp)) in
  scan_num cf ssp (print_num sp (VFloat b) ++ rest)
  = Some (VFloat (encode_double 1024 s (fst r) (snd r)), length (print_num sp (VFloat b))).
Proof.
  intros cf sp ssp b s mx ex rest Hc Hplain Hsc Hsi Hl Hdec Hr r.
  unfold print_num, scan_num. rewrite Hc, Hdec, Hsi, Hsc.
  rewrite float_text_roundtrip by assumption.
  rewrite Hl, read_float_long. reflexivity.
Qed.

(* ================================================================== shape of round_bin's result *)
Local Open Scope Z_scope.

Lemma floor_log2_ratio_ub : forall p q : N, (0 < p)%N -> (0 < q)%N ->
  ratio_ge_pow2 p q (floor_log2_ratio p q + 1) = false.
Proof.
  intros p q Hp Hq. unfold floor_log2_ratio.
  set (lp := Z.of_N (N.log2 p)). set (lq := Z.of_N (N.log2 q)).
  destruct (ratio_ge_pow2 p q (lp - lq)) eqn:E.
  - apply Bool.not_true_is_false. intros Hc. apply ratio_ge_pow2_spec in Hc.
    pose proof (log2_bounds p Hp) as [_ Hp2]. pose proof (log2_bounds q Hq) as [Hq1 _].
    fold lp in Hp2. fold lq in Hq1.
    assert (0 <= lp) by (unfold lp; lia). assert (0 <= lq) by (unfold lq; lia).
    destruct (Z.leb_spec 0 (lp - lq + 1)).
    + assert (2 ^ lq * 2 ^ (lp - lq + 1) = 2 ^ (lp + 1)) by (rewrite <- Zpow2_split by lia; f_equal; lia).
      pose proof (Zpow2_pos (lp - lq + 1) ltac:(lia)). nia.
    + replace (- (lp - lq + 1)) with (lq - lp - 1) in Hc by lia.
      assert (2 ^ (lp + 1) * 2 ^ (lq - lp - 1) = 2 ^ lq) by (rewrite <- Zpow2_split by lia; f_equal; lia).
      pose proof (Zpow2_pos (lq - lp - 1) ltac:(lia)). nia.
  - replace (lp - lq - 1 + 1) with (lp - lq) by lia. exact E.
Qed.

Section RoundBinShape.
  Variables (prec emin : Z) (p q : N).
  Hypothesis Hprec : 0 < prec.
  Hypothesis Hemin : emin <= 0.
  Hypothesis Hq : (0 < q)%N.
  Hypothesis Hp : (0 < p)%N.

  Let l := floor_log2_ratio p q.
  Let e := Z.max emin (l - (prec - 1)).
  Let m := if 0 <=? e then rne_div p (q * pow2 e) else rne_div (p * pow2 (- e)) q.
  Let U := Z.of_N q * 2 ^ (e - emin).
  Let T := starget emin p.

  Lemma rb_eq : round_bin prec emin p q = (m, e).
  Proof. unfold round_bin. destruct (N.eqb_spec p 0); [lia|]. reflexivity. Qed.

  Lemma rb_grid : forall k, Z.abs (Z.of_N m * U - T) <= Z.abs (k * U - T).
  Proof. intros k. apply (round_bin_grid emin e p q k Hemin); [unfold e; lia | exact Hq]. Qed.

  Lemma rb_U_pos : 0 < U.
  Proof. unfold U. pose proof (Zpow2_pos (e - emin) ltac:(unfold e; lia)). nia. Qed.

  (* T <= 2^prec * U : the quotient is below 2^prec *)
  Lemma rb_upper : T <= 2 ^ prec * U.
  Proof.
    pose proof (floor_log2_ratio_ub p q Hp Hq) as Hr. fold l in Hr.
    assert (Hn : ~ (if 0 <=? l + 1 then Z.of_N q * 2 ^ (l + 1) <= Z.of_N p else Z.of_N q <= Z.of_N p * 2 ^ (- (l + 1)))).
    { intros Hc. apply ratio_ge_pow2_spec in Hc. congruence. }
    unfold T, starget, U.
    assert (He : l - (prec - 1) <= e) by (unfold e; lia).
    assert (Hx : 2 ^ (l + 1 - emin) <= 2 ^ prec * 2 ^ (e - emin)).
    { rewrite <- Zpow2_split by (unfold e; lia). apply Z.pow_le_mono_r; lia. }
    destruct (Z.leb_spec 0 (l + 1)).
    - assert (2 ^ (l + 1 - emin) = 2 ^ (l + 1) * 2 ^ (- emin)).
      { replace (l + 1 - emin) with ((l + 1) + - emin) by lia. apply Zpow2_split; lia. }
      pose proof (Zpow2_pos (- emin) ltac:(lia)). assert (0 < Z.of_N q) by lia. nia.
    - destruct (Z_le_gt_dec 0 (l + 1 - emin)).
      + assert (2 ^ (- emin) = 2 ^ (- (l + 1)) * 2 ^ (l + 1 - emin)).
        { rewrite <- Zpow2_split by lia. f_equal. lia. }
        pose proof (Zpow2_pos (l + 1 - emin) ltac:(lia)). assert (0 < Z.of_N q) by lia. nia.
      + (* l + 1 < emin : p / q < 2^emin; then e = emin *)
        assert (e = emin) by (unfold e; lia).
        assert (2 ^ (- (l + 1)) = 2 ^ (- emin) * 2 ^ (emin - (l + 1))).
        { rewrite <- Zpow2_split by lia. f_equal. lia. }
        replace (e - emin) with 0 by lia. rewrite Z.pow_0_r.
        assert (1 <= 2 ^ (emin - (l + 1))) by (pose proof (Zpow2_pos (emin - (l + 1)) ltac:(lia)); lia).
        pose proof (Zpow2_pos prec ltac:(lia)). pose proof (Zpow2_pos (- emin) ltac:(lia)).
        assert (0 < Z.of_N q) by lia. nia.
  Qed.

  Lemma rb_m_le : Z.of_N m <= 2 ^ prec.
  Proof.
    destruct (Z_le_gt_dec (Z.of_N m) (2 ^ prec)) as [|Hgt]; [assumption|exfalso].
    pose proof (rb_grid (2 ^ prec)) as Hg. pose proof rb_upper. pose proof rb_U_pos.
    assert (T < Z.of_N m * U) by nia.
    rewrite (Z.abs_eq (Z.of_N m * U - T)) in Hg by lia.
    rewrite (Z.abs_eq (2 ^ prec * U - T)) in Hg by lia. nia.
  Qed.

  (* 2^(prec-1) * U <= T when the exponent is not the least one *)
  Lemma rb_lower : emin < e -> 2 ^ (prec - 1) * U <= T.
  Proof.
    intros Hlt. assert (Hel : e = l - (prec - 1)) by (unfold e in *; lia).
    pose proof (floor_log2_ratio_lb p q Hp Hq) as Hr. fold l in Hr.
    apply ratio_ge_pow2_spec in Hr. unfold T, starget, U.
    assert (Hx : 2 ^ (prec - 1) * 2 ^ (e - emin) = 2 ^ (l - emin)).
    { rewrite <- Zpow2_split by lia. f_equal. lia. }
    destruct (Z.leb_spec 0 l).
    - assert (2 ^ (l - emin) = 2 ^ l * 2 ^ (- emin)).
      { replace (l - emin) with (l + - emin) by lia. apply Zpow2_split; lia. }
      pose proof (Zpow2_pos (- emin) ltac:(lia)). nia.
    - assert (2 ^ (- emin) = 2 ^ (- l) * 2 ^ (l - emin)).
      { rewrite <- Zpow2_split by lia. f_equal. lia. }
      pose proof (Zpow2_pos (l - emin) ltac:(lia)). nia.
  Qed.

  Lemma rb_m_ge : emin < e -> 2 ^ (prec - 1) <= Z.of_N m.
  Proof.
    intros Hlt. destruct (Z_le_gt_dec (2 ^ (prec - 1)) (Z.of_N m)) as [|Hgt]; [assumption|exfalso].
    pose proof (rb_grid (2 ^ (prec - 1))) as Hg. pose proof (rb_lower Hlt). pose proof rb_U_pos.
    assert (Z.of_N m * U < T) by nia.
    rewrite (Z.abs_neq (Z.of_N m * U - T)) in Hg by lia.
    rewrite (Z.abs_neq (2 ^ (prec - 1) * U - T)) in Hg by lia. nia.
  Qed.
End RoundBinShape.

(* ================================================================== packing into 64 bits *)
Local Open Scope N_scope.

Lemma fields_of_bits : forall (sg : bool) (E F : N), E < 2047 -> F < p52 ->
  let bits := (if sg then p63 else 0) + E * p52 + F in
  N.testbit bits 63 = sg /\ (bits / p52) mod 2048 = E /\ bits mod p52 = F.
Proof.
  intros sg E F HE HF bits. subst bits. rewrite N.testbit_eqb.
  unfold p52, p63 in *. change (2 ^ 63) with 9223372036854775808.
  set (S := if sg then 9223372036854775808 else 0).
  assert (HS : S = (if sg then 2048 else 0) * 4503599627370496) by (destruct sg; reflexivity).
  assert (Hd52 : (S + E * 4503599627370496 + F) / 4503599627370496 = (if sg then 2048 else 0) + E).
  { symmetry. apply N.div_unique with (r := F); [assumption|]. rewrite HS. lia. }
  assert (Hd63 : (S + E * 4503599627370496 + F) / 9223372036854775808 = if sg then 1 else 0).
  { symmetry. apply N.div_unique with (r := E * 4503599627370496 + F); [lia|]. destruct sg; subst S; lia. }
  split; [|split].
  - rewrite Hd63. destruct sg; reflexivity.
  - rewrite Hd52. symmetry. apply N.mod_unique with (q := if sg then 1 else 0); [lia|]. destruct sg; lia.
  - symmetry. apply N.mod_unique with (q := (if sg then 2048 else 0) + E); [assumption|]. rewrite HS. lia.
Qed.

Lemma decode_fields : forall (sg : bool) (E F : N), E < 2047 -> F < p52 ->
  decode_double ((if sg then p63 else 0) + E * p52 + F)
  = Some (sg, if E =? 0 then F else p52 + F, if E =? 0 then (-1074)%Z else (Z.of_N E - 1075)%Z).
Proof.
  intros sg E F HE HF. destruct (fields_of_bits sg E F HE HF) as (H1 & H2 & H3).
  unfold decode_double. rewrite H1, H2, H3.
  destruct (N.eqb_spec E 2047); [lia|]. destruct (E =? 0); reflexivity.
Qed.

Lemma pow2_0 : pow2 0 = 1.
Proof. reflexivity. Qed.

(* decode_double inverts encode_double on normalised, in-range (m, e) *)
Lemma decode_encode : forall s m e,
  m <= p53 -> (-1074 <= e)%Z ->
  (m <> 0 -> (Z.of_N (N.log2 m) + e < 1024)%Z) ->
  ((-1074 < e)%Z -> p52 <= m) ->
  exists m' e', decode_double (encode_double 1024 s m e) = Some (s, m', e')
    /\ (Z.of_N m' * 2 ^ (e' + 1074) = Z.of_N m * 2 ^ (e + 1074))%Z
    /\ m' < p53 /\ (-1074 <= e' <= 971)%Z.
Proof.
  intros s m e Hm He Hov Hnorm. unfold encode_double.
  destruct (N.eqb_spec m 0) as [->|Hm0].
  - exists 0, (-1074)%Z.
    pose proof (decode_fields s 0 0 ltac:(reflexivity) ltac:(reflexivity)) as Hd.
    rewrite N.mul_0_l, !N.add_0_r in Hd. rewrite Hd. cbn. repeat split; try reflexivity; lia.
  - specialize (Hov Hm0).
    destruct (Z.leb_spec 1024 (Z.of_N (N.log2 m) + e)); [lia|].
    destruct (N.eq_dec m p53) as [->|Hne].
    + (* m = 2^53 : renormalised to 2^52 * 2^(e+1) *)
      change (N.log2 p53) with 53 in *. 
      replace (Z.min (52 - Z.of_N 53) (e + 1074)) with (-1)%Z by lia.
      cbn [Z.leb Z.compare Z.opp]. change (pow2 1) with 2. change (p53 / 2) with p52.
      replace (p52 <? p52) with false by reflexivity.
      replace (p52 - p52) with 0 by reflexivity.
      exists p52, (e + 1)%Z.
      pose proof (decode_fields s (Z.to_N (e - -1 + 1075)) 0 ltac:(lia) ltac:(reflexivity)) as Hd.
      rewrite Hd. destruct (N.eqb_spec (Z.to_N (e - -1 + 1075)) 0); [lia|].
      rewrite N.add_0_r. split; [f_equal; f_equal; lia|].
      split; [|split; [reflexivity|lia]].
      replace (e + 1 + 1074)%Z with (1 + (e + 1074))%Z by lia.
      rewrite Z.pow_add_r by lia. change (Z.of_N p53) with (2 * Z.of_N p52)%Z. change (2 ^ 1)%Z with 2%Z. ring.
    + destruct (N.le_gt_cases p52 m) as [Hge|Hlt].
      * (* normal *)
        assert (Hl : N.log2 m = 52).
        { apply (N.log2_unique' m 52 (m - p52)); change (2 ^ 52) with 4503599627370496; unfold p52, p53 in *; lia. }
        rewrite Hl in *. change (Z.of_N 52) with 52%Z in *.
        replace (Z.min (52 - 52) (e + 1074)) with 0%Z by lia.
        cbn [Z.leb Z.compare]. rewrite pow2_0, N.mul_1_r, Z.sub_0_r.
        destruct (N.ltb_spec m p52); [lia|].
        exists m, e.
        pose proof (decode_fields s (Z.to_N (e + 1075)) (m - p52) ltac:(lia) ltac:(unfold p52, p53 in *; lia)) as Hd.
        rewrite Hd. destruct (N.eqb_spec (Z.to_N (e + 1075)) 0); [lia|].
        split; [f_equal; f_equal; [f_equal; unfold p52 in *; lia | lia]|].
        split; [reflexivity|]. split; [unfold p52, p53 in *; lia | lia].
      * (* subnormal: e = -1074 *)
        assert (e = (-1074)%Z) by (destruct (Z.eq_dec e (-1074)); [assumption|]; specialize (Hnorm ltac:(lia)); lia).
        subst e.
        assert (Hl : (Z.of_N (N.log2 m) < 52)%Z).
        { assert (N.log2 m < 52); [|lia]. apply N.log2_lt_pow2; [lia|]. exact Hlt. }
        replace (Z.min (52 - Z.of_N (N.log2 m)) (-1074 + 1074)) with 0%Z by lia.
        cbn [Z.leb Z.compare]. rewrite pow2_0, N.mul_1_r.
        destruct (N.ltb_spec m p52); [|lia].
        exists m, (-1074)%Z.
        pose proof (decode_fields s 0 m ltac:(reflexivity) Hlt) as Hd.
        rewrite N.mul_0_l, N.add_0_r in Hd. rewrite Hd. cbn [N.eqb].
        split; [reflexivity|]. split; [reflexivity|]. split; [unfold p52, p53 in *; lia | lia].
Qed.

Local Open Scope Z_scope.

(* a result within 10^-p of a finite double does not overflow *)
Lemma no_overflow : forall pd (m mx : N) e ex, m <> 0%N -> -1074 <= e ->
  Z.of_N mx < 2 ^ 53 -> -1074 <= ex <= 971 ->
  Z.abs (sval (-1074) (pow10 pd) m e - sval (-1074) (pow10 pd) mx ex) <= 2 ^ 1074 ->
  Z.of_N (N.log2 m) + e < 1024.
Proof.
  intros pd m mx e ex Hm He Hmx Hex Hc. unfold sval in Hc.
  replace (e - -1074) with (e + 1074) in Hc by lia. replace (ex - -1074) with (ex + 1074) in Hc by lia.
  pose proof (pow10_pos pd) as HP. set (P := Z.of_N (pow10 pd)) in *. assert (1 <= P) by lia.
  assert (Hle : 2 ^ (ex + 1074) <= 2 ^ 2045) by (apply Z.pow_le_mono_r; lia).
  assert (Hs : 2 ^ 1074 < 2 ^ 2045) by (apply Z.pow_lt_mono_r; lia).
  assert (H98 : 2 ^ 2098 = 2 ^ 53 * 2 ^ 2045) by (rewrite <- Zpow2_split by lia; reflexivity).
  pose proof (Zpow2_pos (ex + 1074) ltac:(lia)) as Hpx. pose proof (Zpow2_pos (e + 1074) ltac:(lia)) as Hpe.
  set (A := 2 ^ 2045) in *. set (B := 2 ^ (ex + 1074)) in *. set (C := 2 ^ (e + 1074)) in *.
  set (D := 2 ^ 1074) in *. set (K := 2 ^ 53) in *.
  assert (HmC : Z.of_N m * C < K * A).
  { assert (Z.of_N mx * B <= (K - 1) * A) by nia.
    assert (Z.of_N mx * B * P <= (K - 1) * A * P) by nia.
    assert (Z.of_N m * C * P <= (K - 1) * A * P + D) by lia.
    assert (D < A * P) by nia.
    assert (Z.of_N m * C * P < K * A * P) by lia.
    nia. }
  destruct (log2_bounds m ltac:(lia)) as [Hl _].
  assert (2 ^ (Z.of_N (N.log2 m) + (e + 1074)) < 2 ^ 2098).
  { rewrite Zpow2_split by lia. fold C. rewrite H98. fold A K. nia. }
  apply Z.pow_lt_mono_r_iff in H0; lia.
Qed.

Ltac feed H := repeat match type of H with
  | ?A -> _ => let Hf := fresh in assert (Hf : A) by (assumption || lia); specialize (H Hf); clear Hf
  end.

(* Float, full statement at the level of bit patterns: the text of a finite double b (sign s,
   value mx 2^ex) written with a plain %.pf and read back by %lf gives, consuming exactly that text,
   a bit pattern b' that decodes to a finite double of the same sign with
   |m' 2^e' - mx 2^ex| <= 10^-p  (multiplied by 10^p 2^1074) *)
Theorem float_roundtrip : forall cf sp ssp b s mx ex rest,
  conv_is_float (n_conv sp) = true -> fspec_ok sp ->
  conv_is_float (n_conv ssp) = true -> conv_is_int (n_conv ssp) = false -> n_long ssp = true ->
  decode_double b = Some (s, mx, ex) -> stops_float rest ->
  exists b' m' e',
    scan_num cf ssp (print_num sp (VFloat b) ++ rest) = Some (VFloat b', length (print_num sp (VFloat b)))
    /\ decode_double b' = Some (s, m', e')
    /\ Z.abs (sval (-1074) (pow10 (float_prec sp)) m' e' - sval (-1074) (pow10 (float_prec sp)) mx ex) <= 2 ^ 1074.
Proof.
  intros cf sp ssp b s mx ex rest Hc Hplain Hsc Hsi Hl Hdec Hr.
  destruct (decode_double_range _ _ _ _ Hdec) as [Hmx Hex].
  pose proof (float_scan_encode cf sp ssp b s mx ex rest Hc Hplain Hsc Hsi Hl Hdec Hr) as Hs. cbv zeta in Hs.
  set (pd := float_prec sp) in *. set (n := scaled_round pd mx ex) in *.
  destruct (float_value_roundtrip pd mx ex Hmx ltac:(lia)) as [He Hv]. fold n in He, Hv.
  set (r := round_bin 53 (-1074) n (pow10 pd)) in *.
  assert (Hshape : (fst r <= p53)%N /\ (-1074 < snd r -> (p52 <= fst r)%N)).
  { destruct (N.eq_dec n 0) as [Hn0|Hn0].
    - subst r. rewrite Hn0. unfold round_bin. cbn. split; [discriminate|lia].
    - assert (Hn1 : (0 < n)%N) by lia. pose proof (pow10_pos pd) as HP.
      pose proof (rb_eq 53 (-1074) n (pow10 pd)) as Hr'. feed Hr'. fold r in Hr'.
      pose proof (rb_m_le 53 (-1074) n (pow10 pd)) as H1. feed H1.
      pose proof (rb_m_ge 53 (-1074) n (pow10 pd)) as H2. feed H2.
      rewrite Hr'. cbn [fst snd]. change (2 ^ 53) with (Z.of_N p53) in H1. change (2 ^ (53 - 1)) with (Z.of_N p52) in H2.
      split; [lia|]. intros Hlt. specialize (H2 Hlt). lia. }
  destruct Hshape as [Hle Hnorm].
  destruct (decode_encode s (fst r) (snd r) Hle He) as (m' & e' & Hd & Hval & Hm' & He').
  { intros Hne. apply (no_overflow pd (fst r) mx (snd r) ex Hne He Hmx ltac:(lia) Hv). }
  { exact Hnorm. }
  exists (encode_double 1024 s (fst r) (snd r)), m', e'. split; [exact Hs|]. split; [exact Hd|].
  replace (sval (-1074) (pow10 pd) m' e') with (sval (-1074) (pow10 pd) (fst r) (snd r)); [exact Hv|].
  unfold sval. replace (snd r - -1074) with (snd r + 1074) by lia. replace (e' - -1074) with (e' + 1074) by lia.
  rewrite Hval. reflexivity.
Qed.

(* ================================================================== sequences with Floats *)
Local Open Scope N_scope.

Record config_ok_float (cf : config) : Prop := {
  okf_base : config_ok cf;
  okf_long : cf_float_look_long cf = true }.

(* what reading back must give: Ints and Strings equal; a finite Float b = (-1)^s mx 2^ex comes back
   as a bit pattern b' that decodes to a finite double (-1)^s m' 2^e' with |m' 2^e' - mx 2^ex| <= 10^-p
   (p = printed precision) *)
Definition float_close (p : nat) (b b' : N) : Prop :=
  exists s mx ex m' e',
    decode_double b = Some (s, mx, ex) /\ decode_double b' = Some (s, m', e') /\
    (Z.abs (sval (-1074) (pow10 p) m' e' - sval (-1074) (pow10 p) mx ex) <= 2 ^ 1074)%Z.

Definition finite (b : N) : Prop := decode_double b <> None.

(* item-wise well-formedness of a written sequence and of the directives it is read with *)
Inductive item_ok (cf : config) : pitem -> sitem -> text -> value -> value -> Prop :=
| io_show_exact : forall v after, showable v -> ends_token v after ->
    item_ok cf (PShow v) (SLook (ty_of v)) after v v
| io_show_float : forall b b' after, finite b -> stops_float after -> float_close 6 b b' ->
    look_value cf TFloat (show_value cf (VFloat b) ++ after) = Some (VFloat b', length (show_value cf (VFloat b))) ->
    item_ok cf (PShow (VFloat b)) (SLook TFloat) after (VFloat b) (VFloat b')
| io_num_int : forall sp ssp z after, int_directive_ok cf sp ssp z after ->
    item_ok cf (PNum sp (VInt z)) (SNum ssp) after (VInt z) (VInt z)
| io_num_float : forall sp ssp b b' after, finite b -> stops_float after ->
    float_close (float_prec sp) b b' ->
    scan_num cf ssp (print_num sp (VFloat b) ++ after) = Some (VFloat b', length (print_num sp (VFloat b))) ->
    item_ok cf (PNum sp (VFloat b)) (SNum ssp) after (VFloat b) (VFloat b').

Lemma item_ok_reads : forall cf it si after v v', config_ok cf -> item_ok cf it si after v v' ->
  (forall t, si <> SLit t) /\
  conv_reads cf si (print_item cf it ++ after) = Some (v', length (print_item cf it)).
Proof.
  intros cf it si after v v' Hcf H. destruct H.
  - split; [intros t; discriminate|]. cbn [conv_reads print_item]. now apply show_value_reads.
  - split; [intros t; discriminate|]. cbn [conv_reads print_item]. assumption.
  - split; [intros t; discriminate|]. cbn [conv_reads print_item]. now apply int_directive_roundtrip.
  - split; [intros t; discriminate|]. cbn [conv_reads print_item]. assumption.
Qed.

(* existence of the Float reading facts required by io_show_float / io_num_float *)
Lemma show_float_item : forall cf b after, config_ok_float cf -> finite b -> stops_float after ->
  exists b', item_ok cf (PShow (VFloat b)) (SLook TFloat) after (VFloat b) (VFloat b').
Proof.
  intros cf b after [Hb Hl] Hf Hr. unfold finite in Hf.
  destruct (decode_double b) as [[[s mx] ex]|] eqn:Hd; [|congruence].
  destruct (float_roundtrip cf (spec_f false) (spec_f true) b s mx ex after) as (b' & m' & e' & Hs & Hd' & Hv);
    try reflexivity; try assumption.
  exists b'. constructor; try assumption.
  - unfold finite. congruence.
  - exists s, mx, ex, m', e'. repeat split; assumption.
  - cbn [look_value show_value]. rewrite Hl. exact Hs.
Qed.

Lemma num_float_item : forall cf sp ssp b after,
  conv_is_float (n_conv sp) = true -> fspec_ok sp ->
  conv_is_float (n_conv ssp) = true -> conv_is_int (n_conv ssp) = false -> n_long ssp = true ->
  finite b -> stops_float after ->
  exists b', item_ok cf (PNum sp (VFloat b)) (SNum ssp) after (VFloat b) (VFloat b').
Proof.
  intros cf sp ssp b after H1 H2 H3 H4 H5 Hf Hr. unfold finite in Hf.
  destruct (decode_double b) as [[[s mx] ex]|] eqn:Hd; [|congruence].
  destruct (float_roundtrip cf sp ssp b s mx ex after H1 H2 H3 H4 H5 Hd Hr) as (b' & m' & e' & Hs & Hd' & Hv).
  exists b'. constructor; try assumption.
  - unfold finite. congruence.
  - exists s, mx, ex, m', e'. repeat split; assumption.
Qed.

(* a sequence: literals pair with themselves, values with a directive that reads them *)
Inductive seq_ok (cf : config) : list pitem -> text -> list sitem -> list value -> list value -> Prop :=
| so_nil : forall rest, seq_ok cf [] rest [] [] []
| so_lit : forall t its rest sits vs vs',
    seq_ok cf its rest sits vs vs' -> seq_ok cf (PLit t :: its) rest (SLit t :: sits) vs vs'
| so_val : forall it si its rest sits v v' vs vs',
    item_ok cf it si (print_items cf its ++ rest) v v' ->
    seq_ok cf its rest sits vs vs' ->
    seq_ok cf (it :: its) rest (si :: sits) (v :: vs) (v' :: vs').

Lemma seq_ok_reads : forall cf its rest sits vs vs', config_ok cf -> seq_ok cf its rest sits vs vs' ->
  seq_reads cf its rest sits vs'.
Proof.
  intros cf its rest sits vs vs' Hcf H. induction H.
  - constructor.
  - constructor. assumption.
  - destruct (item_ok_reads _ _ _ _ _ _ Hcf H) as [Hn Hr]. constructor; assumption.
Qed.

(* C15 with Floats, String sink and source, at any start position *)
Theorem seq_roundtrip_string : forall cf its pre rest sits vs vs', config_ok cf ->
  seq_ok cf its rest sits vs vs' -> lits_ok cf its rest ->
  scan_str cf (fst (print_to_string cf pre (length pre) its) ++ rest) (length pre) sits []
  = SOk vs' (snd (print_to_string cf pre (length pre) its)).
Proof.
  intros cf its pre rest sits vs vs' Hcf H Hl. unfold print_to_string. cbn [fst snd].
  rewrite firstn_all, <- app_assoc.
  now rewrite (scan_str_seq cf its rest _ _ (ok_pct _ Hcf) (seq_ok_reads _ _ _ _ _ _ Hcf H) Hl).
Qed.

Theorem seq_roundtrip_file : forall cf its old rest sits vs vs', config_ok cf ->
  seq_ok cf its rest sits vs vs' -> lits_ok cf its rest ->
  scan_file cf (skipn (length old) (fst (print_to_file cf old (length old) its) ++ rest)) (length old) sits []
  = SOk vs' (snd (print_to_file cf old (length old) its)).
Proof.
  intros cf its old rest sits vs vs' Hcf H Hl. unfold print_to_file. cbn [fst snd].
  rewrite <- app_assoc, skipn_length_app.
  now rewrite (scan_file_seq cf its rest _ _ (ok_pct _ Hcf) (seq_ok_reads _ _ _ _ _ _ Hcf H) Hl).
Qed.

(* what seq_ok says about the values: position-wise equal, Floats within the printed precision *)
Definition value_close (v v' : value) : Prop :=
  match v, v' with
  | VInt z, VInt z' => z = z'
  | VStr s, VStr s' => s = s'
  | VFloat b, VFloat b' => exists p, float_close p b b'
  | _, _ => False
  end.

Lemma seq_ok_values : forall cf its rest sits vs vs', seq_ok cf its rest sits vs vs' ->
  Forall2 value_close vs vs'.
Proof.
  intros cf its rest sits vs vs' H. induction H; try constructor; try assumption.
  destruct H; cbn [value_close].
  - destruct v; cbn; try reflexivity. destruct H.
  - now exists 6%nat.
  - reflexivity.
  - now exists (float_prec sp).
Qed.

(* a checkable description of the sequences covered: every item with the directive that reads it *)
Fixpoint wf_seq (cf : config) (its : list pitem) (sits : list sitem) (rest : text) : Prop :=
  match its, sits with
  | [], [] => True
  | PLit t :: r, SLit t' :: sr => t = t' /\ wf_seq cf r sr rest
  | PShow v :: r, SLook ty :: sr =>
      ty = ty_of v /\
      (match v with
       | VFloat b => finite b /\ stops_float (print_items cf r ++ rest)
       | _ => showable v /\ ends_token v (print_items cf r ++ rest)
       end) /\ wf_seq cf r sr rest
  | PNum sp (VInt z) :: r, SNum ssp :: sr =>
      int_directive_ok cf sp ssp z (print_items cf r ++ rest) /\ wf_seq cf r sr rest
  | PNum sp (VFloat b) :: r, SNum ssp :: sr =>
      conv_is_float (n_conv sp) = true /\ fspec_ok sp /\
      conv_is_float (n_conv ssp) = true /\ conv_is_int (n_conv ssp) = false /\ n_long ssp = true /\
      finite b /\ stops_float (print_items cf r ++ rest) /\ wf_seq cf r sr rest
  | _, _ => False
  end.

Lemma wf_seq_ok : forall cf its sits rest, config_ok_float cf -> wf_seq cf its sits rest ->
  exists vs', seq_ok cf its rest sits (values_of its) vs'.
Proof.
  intros cf its. induction its as [|it its IH]; intros sits rest Hcf H.
  - destruct sits; [|destruct H]. exists []. constructor.
  - destruct it as [t | v | sp [z | b | s]]; destruct sits as [|[t' | ty | ssp] sits]; cbn [wf_seq] in H;
      try (destruct H; fail).
    + destruct H as [<- H]. destruct (IH _ _ Hcf H) as [vs' Hs]. exists vs'.
      unfold values_of. cbn [flat_map app]. now constructor.
    + destruct H as (-> & Hv & H). destruct (IH _ _ Hcf H) as [vs' Hs].
      unfold values_of. cbn [flat_map app]. fold (values_of its).
      destruct v as [z | b | s].
      * exists (VInt z :: vs'). constructor; [|assumption]. now apply (io_show_exact cf (VInt z)).
      * destruct Hv as [Hf Hst]. destruct (show_float_item cf b _ Hcf Hf Hst) as [b' Hi].
        exists (VFloat b' :: vs'). now constructor.
      * exists (VStr s :: vs'). constructor; [|assumption]. now apply (io_show_exact cf (VStr s)).
    + destruct H as (G1 & H). destruct (IH _ _ Hcf H) as [vs' Hs].
      unfold values_of. cbn [flat_map app]. fold (values_of its).
      exists (VInt z :: vs'). constructor; [|assumption]. now constructor.
    + destruct H as (H1 & H2 & H3 & H4 & H5 & Hf & Hst & H). destruct (IH _ _ Hcf H) as [vs' Hs].
      unfold values_of. cbn [flat_map app]. fold (values_of its).
      destruct (num_float_item cf sp ssp b _ H1 H2 H3 H4 H5 Hf Hst) as [b' Hi].
      exists (VFloat b' :: vs'). now constructor.
Qed.

Theorem wf_seq_roundtrip_string : forall cf its sits pre rest, config_ok_float cf -> wf_seq cf its sits rest ->
  lits_ok cf its rest ->
  exists vs',
    scan_str cf (fst (print_to_string cf pre (length pre) its) ++ rest) (length pre) sits []
    = SOk vs' (snd (print_to_string cf pre (length pre) its))
    /\ Forall2 value_close (values_of its) vs'.
Proof.
  intros cf its sits pre rest Hcf H Hl. destruct (wf_seq_ok _ _ _ _ Hcf H) as [vs' Hs].
  exists vs'. split; [|now apply (seq_ok_values _ _ _ _ _ _ Hs)].
  apply (seq_roundtrip_string cf its pre rest sits _ vs' (okf_base _ Hcf) Hs Hl).
Qed.

Theorem wf_seq_roundtrip_file : forall cf its sits old rest, config_ok_float cf -> wf_seq cf its sits rest ->
  lits_ok cf its rest ->
  exists vs',
    scan_file cf (skipn (length old) (fst (print_to_file cf old (length old) its) ++ rest)) (length old) sits []
    = SOk vs' (snd (print_to_file cf old (length old) its))
    /\ Forall2 value_close (values_of its) vs'.
Proof.
  intros cf its sits old rest Hcf H Hl. destruct (wf_seq_ok _ _ _ _ Hcf H) as [vs' Hs].
  exists vs'. split; [|now apply (seq_ok_values _ _ _ _ _ _ Hs)].
  apply (seq_roundtrip_file cf its old rest sits _ vs' (okf_base _ Hcf) Hs Hl).
Qed.

(* D8: read through "%f" (binary32) the text of 123456789.123456 comes back as 123456792.0 *)
Lemma float_look_single_refuted :
  exists b b', decode_double b <> None /\
    scan_num {| cf_show_esc := []; cf_look_esc := []; cf_look_cont := true; cf_float_look_long := false; cf_int_signext := true; cf_int_signext_narrow := true;
                cf_lit_measure := true; cf_pct_measure := true |}
      (spec_f false) (print_num (spec_f false) (VFloat b)) = Some (VFloat b', 16%nat)
    /\ b = 4728057454355442549 /\ b' = 4728057454548484096.
Proof. exists 4728057454355442549, 4728057454548484096. split; [vm_compute; discriminate|]. split; [vm_compute; reflexivity|split; reflexivity]. Qed.
