(* RoundTripFloat.v — the Float clause of C15: text written by "%.pf" for a finite double, read back
   by "%lf", gives a double within 10^-p of the original.
   Everything is integer arithmetic: a double m * 2^e (e >= emin) and a decimal text N / 10^p are
   compared after scaling by 10^p * 2^-emin. *)
From Coq Require Import List NArith ZArith Bool Lia.
From CelloV Require Import RoundTrip RoundTripProofs.
Import ListNotations.
Local Open Scope Z_scope.

(* ================================================================== rounding a quotient *)

Lemma rne_div_cases : forall a b : N, (0 < b)%N ->
  let q := (a / b)%N in let r := (a mod b)%N in
  (rne_div a b = q /\ (2 * r <= b)%N) \/ (rne_div a b = (q + 1)%N /\ (b <= 2 * r)%N).
Proof.
  intros a b Hb q r. unfold rne_div. fold q r.
  destruct (N.ltb_spec (2 * r) b); [left; split; [reflexivity|lia]|].
  destruct (N.ltb_spec b (2 * r)); [right; split; [reflexivity|lia]|].
  destruct (N.even q); [left|right]; split; try reflexivity; lia.
Qed.

(* rne_div a b is a nearest integer to a / b *)
Lemma rne_div_nearest : forall (a b : N) (k : Z), (0 < b)%N ->
  Z.abs (Z.of_N (rne_div a b) * Z.of_N b - Z.of_N a) <= Z.abs (k * Z.of_N b - Z.of_N a).
Proof.
  intros a b k Hb.
  pose proof (N.div_mod' a b) as Hdm. pose proof (N.mod_lt a b ltac:(lia)) as Hr.
  destruct (rne_div_cases a b Hb) as [[-> H]|[-> H]];
    set (q := (a / b)%N) in *; set (r := (a mod b)%N) in *;
    assert (Ha : Z.of_N a = Z.of_N b * Z.of_N q + Z.of_N r) by lia.
  - destruct (Z_le_gt_dec k (Z.of_N q)); nia.
  - destruct (Z_le_gt_dec k (Z.of_N q)); nia.
Qed.

Lemma rne_div_half : forall a b : N, (0 < b)%N ->
  2 * Z.abs (Z.of_N (rne_div a b) * Z.of_N b - Z.of_N a) <= Z.of_N b.
Proof.
  intros a b Hb.
  pose proof (N.div_mod' a b) as Hdm. pose proof (N.mod_lt a b ltac:(lia)) as Hr.
  destruct (rne_div_cases a b Hb) as [[-> H]|[-> H]];
    set (q := (a / b)%N) in *; set (r := (a mod b)%N) in *;
    assert (Ha : Z.of_N a = Z.of_N b * Z.of_N q + Z.of_N r) by lia; nia.
Qed.

Lemma rne_div_upper : forall (a b c : N), (0 < b)%N -> (a <= c * b)%N -> (rne_div a b <= c)%N.
Proof.
  intros a b c Hb H.
  pose proof (N.div_mod' a b) as Hdm. pose proof (N.mod_lt a b ltac:(lia)) as Hr.
  destruct (rne_div_cases a b Hb) as [[-> Hh]|[-> Hh]];
    set (q := (a / b)%N) in *; set (r := (a mod b)%N) in *; nia.
Qed.

(* ================================================================== powers of two *)

Lemma pow2_Z : forall e, 0 <= e -> Z.of_N (pow2 e) = 2 ^ e.
Proof.
  intros e He. unfold pow2. rewrite N2Z.inj_pow. rewrite Z2N.id by assumption. reflexivity.
Qed.

Lemma pow2_pos : forall e, (0 < pow2 e)%N.
Proof. intros e. unfold pow2. apply N.neq_0_lt_0. apply N.pow_nonzero. discriminate. Qed.

Lemma Zpow2_pos : forall e, 0 <= e -> 0 < 2 ^ e.
Proof. intros. apply Z.pow_pos_nonneg; lia. Qed.

Lemma Zpow2_split : forall a b, 0 <= a -> 0 <= b -> 2 ^ (a + b) = 2 ^ a * 2 ^ b.
Proof. intros. apply Z.pow_add_r; assumption. Qed.

Lemma log2_bounds : forall n : N, (0 < n)%N ->
  2 ^ Z.of_N (N.log2 n) <= Z.of_N n < 2 ^ (Z.of_N (N.log2 n) + 1).
Proof.
  intros n Hn. destruct (N.log2_spec n Hn) as [H1 H2].
  split.
  - apply N2Z.inj_le in H1. rewrite N2Z.inj_pow in H1. exact H1.
  - apply N2Z.inj_lt in H2. rewrite N2Z.inj_pow, N2Z.inj_succ in H2. exact H2.
Qed.

(* ================================================================== floor (log2 (p / q)) *)

(* the real-number meaning of ratio_ge_pow2 p q e : p / q >= 2^e *)
Lemma ratio_ge_pow2_spec : forall (p q : N) e, ratio_ge_pow2 p q e = true <->
  (if 0 <=? e then Z.of_N q * 2 ^ e <= Z.of_N p else Z.of_N q <= Z.of_N p * 2 ^ (- e)).
Proof.
  intros p q e. unfold ratio_ge_pow2. destruct (Z.leb_spec 0 e).
  - rewrite N.leb_le. rewrite <- pow2_Z by assumption. lia.
  - rewrite N.leb_le. rewrite <- pow2_Z by lia. lia.
Qed.

Lemma floor_log2_ratio_lb : forall p q : N, (0 < p)%N -> (0 < q)%N ->
  ratio_ge_pow2 p q (floor_log2_ratio p q) = true.
Proof.
  intros p q Hp Hq. unfold floor_log2_ratio.
  set (lp := Z.of_N (N.log2 p)). set (lq := Z.of_N (N.log2 q)).
  destruct (ratio_ge_pow2 p q (lp - lq)) eqn:E; [exact E|].
  apply ratio_ge_pow2_spec.
  pose proof (log2_bounds p Hp) as [Hp1 _]. pose proof (log2_bounds q Hq) as [_ Hq2].
  fold lp in Hp1. fold lq in Hq2.
  assert (0 <= lp) by (unfold lp; lia). assert (0 <= lq) by (unfold lq; lia).
  destruct (Z.leb_spec 0 (lp - lq - 1)).
  - (* q * 2^(lp-lq-1) < 2^(lq+1) * 2^(lp-lq-1) = 2^lp <= p *)
    assert (2 ^ (lq + 1) * 2 ^ (lp - lq - 1) = 2 ^ lp) by (rewrite <- Zpow2_split by lia; f_equal; lia).
    pose proof (Zpow2_pos (lp - lq - 1) ltac:(lia)). nia.
  - (* q < 2^(lq+1) = 2^lp * 2^(lq-lp+1) <= p * 2^(lq-lp+1) *)
    replace (- (lp - lq - 1)) with (lq - lp + 1) by lia.
    assert (2 ^ lp * 2 ^ (lq - lp + 1) = 2 ^ (lq + 1)) by (rewrite <- Zpow2_split by lia; f_equal; lia).
    pose proof (Zpow2_pos (lq - lp + 1) ltac:(lia)). nia.
Qed.

(* ================================================================== round_bin is a nearest point *)

(* m * 2^e and p / q, both multiplied by q * 2^-emin *)
Definition sval (emin : Z) (q m : N) (e : Z) : Z := Z.of_N m * 2 ^ (e - emin) * Z.of_N q.
Definition starget (emin : Z) (p : N) : Z := Z.of_N p * 2 ^ (- emin).

Lemma abs_scale_le : forall a b s, 0 < s -> Z.abs a <= Z.abs b -> Z.abs (a * s) <= Z.abs (b * s).
Proof. intros a b s Hs H. rewrite !Z.abs_mul. rewrite (Z.abs_eq s) by lia. nia. Qed.

(* the significand chosen by round_bin is nearest among all multiples of 2^e *)
Lemma round_bin_grid : forall emin e (p q : N) (k : Z), emin <= 0 -> emin <= e -> (0 < q)%N ->
  let m := if 0 <=? e then rne_div p (q * pow2 e) else rne_div (p * pow2 (- e)) q in
  Z.abs (Z.of_N m * (Z.of_N q * 2 ^ (e - emin)) - starget emin p)
  <= Z.abs (k * (Z.of_N q * 2 ^ (e - emin)) - starget emin p).
Proof.
  intros emin e p q k Hemin He Hq m. unfold starget. subst m.
  destruct (Z.leb_spec 0 e) as [H0|H0].
  - pose proof (rne_div_nearest p (q * pow2 e) k ltac:(pose proof (pow2_pos e); nia)) as Hn.
    rewrite N2Z.inj_mul, pow2_Z in Hn by assumption.
    apply (abs_scale_le _ _ (2 ^ (- emin)) (Zpow2_pos (- emin) ltac:(lia))) in Hn.
    replace (e - emin) with (e + - emin) by lia. rewrite Zpow2_split by lia.
    match goal with H : Z.abs ?a <= Z.abs ?b |- Z.abs ?c <= Z.abs ?d =>
      replace c with a by ring; replace d with b by ring; exact H end.
  - pose proof (rne_div_nearest (p * pow2 (- e)) q k Hq) as Hn.
    rewrite N2Z.inj_mul, pow2_Z in Hn by lia.
    apply (abs_scale_le _ _ (2 ^ (e - emin)) (Zpow2_pos (e - emin) ltac:(lia))) in Hn.
    replace (- emin) with (- e + (e - emin)) by lia. rewrite Zpow2_split by lia.
    match goal with H : Z.abs ?a <= Z.abs ?b |- Z.abs ?c <= Z.abs ?d =>
      replace c with a by ring; replace d with b by ring; exact H end.
Qed.

Theorem round_bin_nearest : forall prec emin (p q : N), 0 < prec -> emin <= 0 -> (0 < q)%N ->
  forall (m' : N) e', Z.of_N m' < 2 ^ prec -> emin <= e' ->
  emin <= snd (round_bin prec emin p q) /\
  Z.abs (sval emin q (fst (round_bin prec emin p q)) (snd (round_bin prec emin p q)) - starget emin p)
  <= Z.abs (sval emin q m' e' - starget emin p).
Proof.
  intros prec emin p q Hprec Hemin Hq m' e' Hm' He'. unfold round_bin.
  destruct (N.eqb_spec p 0) as [->|Hp].
  - cbn [fst snd]. split; [lia|]. unfold sval, starget. simpl. lia.
  - set (l := floor_log2_ratio p q). set (e := Z.max emin (l - (prec - 1))).
    cbn [fst snd]. split; [lia|].
    assert (He : emin <= e) by lia.
    set (m := if 0 <=? e then rne_div p (q * pow2 e) else rne_div (p * pow2 (- e)) q).
    pose proof (fun k => round_bin_grid emin e p q k Hemin He Hq) as Hgrid. cbv zeta in Hgrid. fold m in Hgrid.
    set (U := Z.of_N q * 2 ^ (e - emin)) in *. set (T := starget emin p) in *.
    assert (Hsv : sval emin q m e = Z.of_N m * U) by (unfold sval, U; ring).
    rewrite Hsv.
    destruct (Z_le_gt_dec e e') as [Hge|Hlt].
    + (* the competitor lies on the grid of multiples of 2^e *)
      assert (Hs' : sval emin q m' e' = (Z.of_N m' * 2 ^ (e' - e)) * U).
      { unfold sval, U. replace (e' - emin) with ((e' - e) + (e - emin)) by lia.
        rewrite Zpow2_split by lia. ring. }
      rewrite Hs'. apply Hgrid.
    + (* the competitor has a finer exponent: it is below 2^(prec-1) * 2^e <= p/q *)
      assert (Hel : e = l - (prec - 1)) by lia.
      assert (HU : 0 < U) by (unfold U; pose proof (Zpow2_pos (e - emin) ltac:(lia)); nia).
      assert (Hlow : sval emin q m' e' < 2 ^ (prec - 1) * U).
      { unfold sval, U.
        assert (2 ^ (e' - emin) * 2 <= 2 ^ (e - emin)).
        { replace (e - emin) with ((e' - emin) + (e - e')) by lia. rewrite Zpow2_split by lia.
          assert (2 ^ 1 <= 2 ^ (e - e')) by (apply Z.pow_le_mono_r; lia).
          pose proof (Zpow2_pos (e' - emin) ltac:(lia)). nia. }
        assert (2 ^ prec = 2 ^ (prec - 1) * 2).
        { replace prec with ((prec - 1) + 1) at 1 by lia. rewrite Zpow2_split by lia. reflexivity. }
        pose proof (Zpow2_pos (prec - 1) ltac:(lia)). pose proof (Zpow2_pos (e' - emin) ltac:(lia)).
        assert (0 < Z.of_N q) by lia.
        assert (Z.of_N m' * 2 ^ (e' - emin) < 2 ^ (prec - 1) * 2 ^ (e - emin)) by nia.
        nia. }
      assert (Hlb : 2 ^ (prec - 1) * U <= T).
      { pose proof (floor_log2_ratio_lb p q ltac:(lia) Hq) as Hr. fold l in Hr.
        apply ratio_ge_pow2_spec in Hr. unfold T, starget, U.
        assert (Hx : 2 ^ (prec - 1) * 2 ^ (e - emin) = 2 ^ (l - emin)).
        { rewrite <- Zpow2_split by lia. f_equal. lia. }
        destruct (Z.leb_spec 0 l).
        - assert (2 ^ (l - emin) = 2 ^ l * 2 ^ (- emin)).
          { replace (l - emin) with (l + - emin) by lia. apply Zpow2_split; lia. }
          pose proof (Zpow2_pos (- emin) ltac:(lia)). nia.
        - assert (2 ^ (- emin) = 2 ^ (- l) * 2 ^ (l - emin)).
          { rewrite <- Zpow2_split by lia. f_equal. lia. }
          pose proof (Zpow2_pos (l - emin) ltac:(lia)). nia. }
      specialize (Hgrid (2 ^ (prec - 1))).
      pose proof (Z.abs_nonneg (Z.of_N m * U - T)).
      assert (0 <= sval emin q m' e').
      { unfold sval. pose proof (Zpow2_pos (e' - emin) ltac:(lia)). nia. }
      lia.
Qed.
